import re
import facts as F
import rewrites as R

REL = "sudachi-cli/src/analysis.rs"

STEPS = [
    ("reset_push", r"self\.analyzer\.reset\(\)\.push_str\(%(line)s\)"),
    ("do_tokenize", r"self\.analyzer\.do_tokenize\(\)"),
    ("collect", r"self\.morphemes\.collect_results\(&mutself\.analyzer\)"),
]
WRITE = r"self\.output\.write\(%(writer)s,&self\.morphemes\)"
EXITS = r"\breturn\b|\?;|\bbreak\b|\bcontinue\b"


def impl_block(t, pat):
    m = re.search(pat, t)
    if not m:
        raise F.FactError("%s: `%s` not found" % (REL, pat))
    i = t.index("{", m.end())
    return _block(t, i)


def _block(t, i):
    depth, j = 0, i
    while j < len(t):
        if t[j] == "{":
            depth += 1
        elif t[j] == "}":
            depth -= 1
            if depth == 0:
                return t[i + 1:j]
        j += 1
    raise F.FactError("%s: unbalanced braces" % REL)


def block_path(body, pos):
    """offsets of the blocks (`{`) of `body` that are open at `pos`; the braces that delimit an inlined helper are not blocks"""
    path = []
    for j, c in enumerate(body[:pos]):
        if c == "{" and not (j > 0 and body[j - 1] == "\x02"):
            path.append(j)
        elif c == "}" and not body[j + 1:j + 2] == "\x03":
            path.pop()
    return path


def helper_regions(body):
    """(open, close, propagated errors are fatal) of the inlined helpers: `close` is the offset just after the helper's text;
    the flag says that the caller turns an Err of the helper into a panic / its own early return (`.expect(..)`, `.unwrap()`, `?`,
    `.unwrap_or_else(|e| panic!(..))`), so that a `?` inside the helper never lets the caller continue"""
    res, stack = [], []
    for m in re.finditer(r"\x02\{|\}\x03", body):
        if m.group(0) == "\x02{":
            stack.append(m.start())
        elif stack:
            o = stack.pop()
            after = body[m.end():]
            fatal = re.match(r"\.expect\(|\.unwrap\(\)|\?|\.unwrap_or_else\(\|\w+\|panic!\(", after) is not None
            res.append((o, m.end(), fatal))
    return res


def caller_text(body, a, b, regions):
    """body[a:b] without the text of the inlined helpers (an exit inside a helper leaves the helper; what it means for the steps
    of that helper is decided by runs_whenever_reached)"""
    out, pos = [], a
    for o, c, _ in sorted(regions):
        if c <= pos or o >= b or any(o2 < o and c < c2 for o2, c2, _ in regions):
            continue
        out.append(body[pos:max(pos, o)])
        pos = max(pos, min(c, b))
    out.append(body[pos:b])
    return "".join(out)


def runs_whenever_reached(body, s, regions):
    """the step at offset s is not skipped by an early exit of an inlined helper it sits in, and is not the right operand of a
    short-circuit operator"""
    for o, c, fatal in regions:
        if o < s < c:
            inside = body[o:s]
            if re.search(r"\x04ret|\bbreak\b|\bcontinue\b", inside) or (not fatal and re.search(r"\?[;.)]", inside)):
                return False
    stmt = re.split(r"[;{}]", body[:s])[-1]
    return not re.search(r"&&|\|\|", stmt)


def analyze_of(impl, scope=None):
    sig = re.search(r"\bfn\s+analyze\s*\(\s*&mut\s+self\s*,\s*(\w+)\s*:\s*&str\s*,\s*(\w+)\s*:\s*&mut\s+Writer\s*\)", impl)
    if not sig:
        raise F.FactError("%s: signature of Analysis::analyze not recognised" % REL)
    body = F.fn_body(impl, "analyze", REL)
    if scope is not None:
        # private helpers of the same file are read as if inlined at their call (a `return` of a helper leaves the helper only)
        body = R.inline_calls(body, scope, skip=("analyze", "new")).replace(R.HELPER_RETURN, "\x04ret")
    return sig.group(1), sig.group(2), re.sub(r"\s+", "", body)


def gen():
    t = F.strip_comments(F.src(REL))
    non = impl_block(t, r"\bAnalysis\s+for\s+AnalyzeNonSplitted\b")
    line, writer, body = analyze_of(non, t)
    regions = helper_regions(body)
    names = {"line": re.escape(line), "writer": re.escape(writer)}
    writes = []
    for w in re.finditer(WRITE % names, body):
        wpath = block_path(body, w.start())
        dom, last = [], 0
        for name, pat in STEPS:
            ok = False
            for s in re.finditer(pat % names, body):
                if s.start() >= w.start() or s.start() < last:
                    continue
                spath = block_path(body, s.start())
                # the step is executed whenever the write is: its block encloses the write and nothing leaves the function in between
                if wpath[:len(spath)] == spath and not re.search(EXITS, caller_text(body, s.start(), w.start(), regions)) and runs_whenever_reached(body, s.start(), regions):
                    ok, last = True, s.end()
                    break
            if ok:
                dom.append(name)
        # an exit before the first step makes everything after it conditional
        first = re.search(STEPS[0][1] % names, body)
        if first and re.search(EXITS, caller_text(body, 0, first.start(), regions)):
            dom = []
        writes.append(dom)
    other_writes = len(re.findall(r"\.write\(", body)) - len(writes)
    sp = impl_block(t, r"\bAnalysis\s+for\s+AnalyzeSplitted\b")
    sline, swriter, sbody = analyze_of(sp)
    deleg = F.same_shape(F.fn_body(sp, "analyze", REL),
                         "for(_,sent)inself.splitter.split(%s){self.inner.analyze(sent,%s);}" % (sline, swriter))
    out = [F.HEADER]
    out.append("(* %s, AnalyzeNonSplitted::analyze(%s, %s): for every `self.output.write(%s, &self.morphemes)` the analysis steps\n"
               "   (of the CURRENT line `%s`) that are executed whenever that write is, in program order *)\n" % (REL, line, writer, writer, line))
    out.append("Definition nonsplit_writes : list (list string) :=\n  [%s].\n" %
               "; ".join("[" + "; ".join('"%s"' % s for s in d) + "]" for d in writes))
    out.append("(* writes of that function to anything else than (writer, the reused list) *)\n")
    out.append("Definition nonsplit_other_writes : nat := %d.\n" % other_writes)
    out.append("(* AnalyzeSplitted::analyze is `for (_, s) in self.splitter.split(line) { self.inner.analyze(s, writer); }` *)\n")
    out.append("Definition splitted_delegates : bool := %s.\n" % ("true" if deleg else "false"))
    return "".join(out)
