import re
import facts as F

REL = "sudachi-cli/src/analysis.rs"

STEPS = [
    ("reset_push", r"self\.analyzer\.reset\(\)\.push_str\(%(line)s\)"),
    ("do_tokenize", r"self\.analyzer\.do_tokenize\(\)"),
    ("collect", r"self\.morphemes\.collect_results\(&mutself\.analyzer\)"),
]
WRITE = r"self\.output\.write\(%(writer)s,&self\.morphemes\)"
EXITS = r"\breturn\b|\?;|\bbreak\b|\bcontinue\b"


def impl_block(t, pat):
    m = re.search(pat, t)
    if not m:
        raise F.FactError("%s: `%s` not found" % (REL, pat))
    i = t.index("{", m.end())
    return _block(t, i)


def _block(t, i):
    depth, j = 0, i
    while j < len(t):
        if t[j] == "{":
            depth += 1
        elif t[j] == "}":
            depth -= 1
            if depth == 0:
                return t[i + 1:j]
        j += 1
    raise F.FactError("%s: unbalanced braces" % REL)


def block_path(body, pos):
    """offsets of the blocks (`{`) of `body` that are open at `pos`"""
    path = []
    for j, c in enumerate(body[:pos]):
        if c == "{":
            path.append(j)
        elif c == "}":
            path.pop()
    return path


def analyze_of(impl):
    sig = re.search(r"\bfn\s+analyze\s*\(\s*&mut\s+self\s*,\s*(\w+)\s*:\s*&str\s*,\s*(\w+)\s*:\s*&mut\s+Writer\s*\)", impl)
    if not sig:
        raise F.FactError("%s: signature of Analysis::analyze not recognised" % REL)
    return sig.group(1), sig.group(2), re.sub(r"\s+", "", F.fn_body(impl, "analyze", REL))


def gen():
    t = F.strip_comments(F.src(REL))
    non = impl_block(t, r"\bAnalysis\s+for\s+AnalyzeNonSplitted\b")
    line, writer, body = analyze_of(non)
    names = {"line": re.escape(line), "writer": re.escape(writer)}
    writes = []
    for w in re.finditer(WRITE % names, body):
        wpath = block_path(body, w.start())
        dom, last = [], 0
        for name, pat in STEPS:
            ok = False
            for s in re.finditer(pat % names, body):
                if s.start() >= w.start() or s.start() < last:
                    continue
                spath = block_path(body, s.start())
                # the step is executed whenever the write is: its block encloses the write and nothing leaves the function in between
                if wpath[:len(spath)] == spath and not re.search(EXITS, body[s.start():w.start()]):
                    ok, last = True, s.end()
                    break
            if ok:
                dom.append(name)
        # an exit before the first step makes everything after it conditional
        first = re.search(STEPS[0][1] % names, body)
        if first and re.search(EXITS, body[:first.start()]):
            dom = []
        writes.append(dom)
    other_writes = len(re.findall(r"\.write\(", body)) - len(writes)
    sp = impl_block(t, r"\bAnalysis\s+for\s+AnalyzeSplitted\b")
    sline, swriter, sbody = analyze_of(sp)
    deleg = F.same_shape(F.fn_body(sp, "analyze", REL),
                         "for(_,sent)inself.splitter.split(%s){self.inner.analyze(sent,%s);}" % (sline, swriter))
    out = [F.HEADER]
    out.append("(* %s, AnalyzeNonSplitted::analyze(%s, %s): for every `self.output.write(%s, &self.morphemes)` the analysis steps\n"
               "   (of the CURRENT line `%s`) that are executed whenever that write is, in program order *)\n" % (REL, line, writer, writer, line))
    out.append("Definition nonsplit_writes : list (list string) :=\n  [%s].\n" %
               "; ".join("[" + "; ".join('"%s"' % s for s in d) + "]" for d in writes))
    out.append("(* writes of that function to anything else than (writer, the reused list) *)\n")
    out.append("Definition nonsplit_other_writes : nat := %d.\n" % other_writes)
    out.append("(* AnalyzeSplitted::analyze is `for (_, s) in self.splitter.split(line) { self.inner.analyze(s, writer); }` *)\n")
    out.append("Definition splitted_delegates : bool := %s.\n" % ("true" if deleg else "false"))
    return "".join(out)
