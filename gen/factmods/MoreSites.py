"""Shape facts for the site-level statements of C03 over node.rs, the split glue, edit.rs, build()/commit(), trie.rs and
word_id_table.rs: per function, index expressions in source order, unwrap calls, narrowing casts."""
import re
import facts as F
import sitekeys as SK

TARGETS = [
    ("sudachi/src/analysis/node.rs", ["split", "next", "concat_nodes", "concat_oov_nodes"]),
    ("sudachi/src/analysis/stateless_tokenizer.rs", ["split_path"]),
    ("sudachi/src/input_text/buffer/edit.rs", ["resolve_edits", "add_replace"]),
    ("sudachi/src/input_text/buffer/mod.rs", ["build", "fill_cat_continuity", "fill_orig_b2c", "commit"]),
    ("sudachi/src/dic/lexicon/trie.rs", ["next", "common_prefix_iterator"]),
    ("sudachi/src/dic/lexicon/word_id_table.rs", ["entries"]),
]


def strip_items(text, marker):
    """remove every item that follows an attribute matching `marker` (by brace matching)"""
    out = []
    i = 0
    while True:
        m = re.search(marker, text[i:])
        if not m:
            out.append(text[i:])
            break
        out.append(text[i:i + m.start()])
        j = i + m.end()
        k = text.find("{", j)
        semi = text.find(";", j)
        if k < 0 or (0 <= semi < k):
            i = (semi + 1) if semi >= 0 else len(text)
            continue
        depth = 1
        k += 1
        while k < len(text) and depth:
            if text[k] == "{":
                depth += 1
            elif text[k] == "}":
                depth -= 1
            k += 1
        i = k
    return "".join(out)


def index_exprs(body):
    out = []
    i = 0
    n = len(body)
    while i < n:
        if body[i] == "[" and i > 0 and re.match(r"[A-Za-z0-9_\)\]]", body[i - 1]):
            j = i
            while j > 0 and re.match(r"[A-Za-z0-9_\.]", body[j - 1]):
                j -= 1
            k = i
            while k < n and body[k] == "[":
                depth = 0
                while k < n:
                    if body[k] == "[":
                        depth += 1
                    elif body[k] == "]":
                        depth -= 1
                        if depth == 0:
                            k += 1
                            break
                    k += 1
            out.append(re.sub(r"\s+", "", body[j:k]).lstrip("."))
            i = k
        else:
            i += 1
    return out


def cast_exprs(body):
    out = []
    for m in re.finditer(r"\s+as\s+(u8|u16|i8|i16|u32|i32)\b", body):
        j = m.start()
        depth = 0
        while j > 0:
            c = body[j - 1]
            if c == ")":
                depth += 1
            elif c == "(":
                if depth == 0:
                    break
                depth -= 1
            elif depth == 0 and not re.match(r"[A-Za-z0-9_\.]", c):
                break
            j -= 1
        out.append("%s as %s" % (re.sub(r"\s+", "", body[j:m.start()]), m.group(1)))
    return out


def gen():
    out = [F.HEADER]
    rows = []
    krows = []
    for rel, fns in TARGETS:
        t = F.strip_comments(F.src(rel))
        t = strip_items(t, r"#\[cfg\(test\)\]")
        t = strip_items(t, r"#\[cfg\(feature\s*=\s*\"verif\"\)\]")
        t = re.sub(r'"(?:[^"\\]|\\.)*"', '""', t)
        for fn in fns:
            body = re.sub(r"#!?\[[^\]]*\]", "", F.fn_body(t, fn, rel))
            krows.append(("%s:%s" % (rel.replace("sudachi/src/", ""), fn), SK.keys(index_exprs(body), len(re.findall(r"\.unwrap\(\)", body)), len(re.findall(r"\bget_unchecked(?:_mut)?\b", body)), cast_exprs(body))))
            rows.append('("%s", "%s", [%s], %d%%N, %d%%N, [%s])' % (
                rel.replace("sudachi/src/", ""), fn, "; ".join('"%s"' % x for x in index_exprs(body)),
                len(re.findall(r"\.unwrap\(\)", body)), len(re.findall(r"\bget_unchecked(?:_mut)?\b", body)),
                "; ".join('"%s"' % x for x in cast_exprs(body))))
    out.append("(* (file, function, index expressions in source order, unwrap calls, get_unchecked calls, narrowing casts) *)\n")
    out.append("Definition more_fns : list (string * string * list string * N * N * list string) :=\n  [ %s ].\n" % ";\n    ".join(rows))
    out.append("(* the same constructs as keys (gen/sitekeys.py): what the one-directional obligation C03_fact_more_sites compares *)\n")
    out.append("Definition more_site_keys : list (string * list string) :=\n  [ %s ].\n" % SK.coq_rows(krows))
    return "".join(out)
