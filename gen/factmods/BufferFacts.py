"""Facts about the offset map of InputBuffer (C08, C01): guards, index choices of add_replace, sentinels, accessor wiring.

Everything here is consumed by coq/Model/Buffer.v; the theorems of Properties/C08.v and C01.v hold under decidable side
conditions on these values (closed by vm_compute there)."""
import re
import facts as F

MOD = "sudachi/src/input_text/buffer/mod.rs"
EDIT = "sudachi/src/input_text/buffer/edit.rs"
MORPH = "sudachi/src/analysis/morpheme.rs"
PYMORPH = "python/src/morpheme.rs"
PYPRE = "python/src/pretokenizer.rs"


def need(pat, text, what, flags=re.S):
    m = re.search(pat, text, flags)
    if not m:
        raise F.FactError("%s: shape not recognised" % what)
    return m


def squeeze(s):
    return re.sub(r"\s+", " ", s).strip()


def gen():
    out = [F.HEADER]
    mod = F.strip_comments(F.src(MOD))
    edit = F.strip_comments(F.src(EDIT))
    # code under #[cfg(test)] is not part of the implementation
    edit = edit.split("#[cfg(test)]")[0]

    # ---- start_build: length guard and the identity map
    sb = F.fn_body(mod, "start_build", MOD)
    m = need(r"if\s+self\.original\.len\(\)\s*(>=|<=|>|<|==|!=)\s*([A-Z_]+)\s*\{\s*return\s+Err", sb, "start_build length guard")
    out.append('Definition start_build_cmp : string := "%s".\n' % m.group(1))
    out.append('Definition start_build_limit_name : string := "%s".\n' % m.group(2))
    out.append("Definition start_build_limit : N := %s.\n" % F.coq_int(F.find_const(MOD, m.group(2))))
    m = need(r"self\.modified\.push_str\(&self\.original\);\s*self\.m2o\.extend\((\d+)\.\.self\.modified\.len\(\)\s*\+\s*(\d+)\)", sb,
             "start_build identity map")
    out.append("Definition ident_from : nat := %d.\nDefinition ident_extra : nat := %d.\n" % (int(m.group(1)), int(m.group(2))))

    # ---- commit: empty batch is a no-op; size guard; swap
    cm = F.fn_body(mod, "commit", MOD)
    need(r"if\s+self\.replaces\.is_empty\(\)\s*\{\s*return\s+Ok\(\(\)\);\s*\}", cm, "commit: empty batch returns Ok")
    m = need(r"if\s+sz\s*(>=|<=|>|<|==|!=)\s*([A-Z_]+)\s*\{[^}]*return\s+Err", cm, "commit size guard")
    out.append('Definition commit_cmp : string := "%s".\n' % m.group(1))
    out.append("Definition commit_limit : N := %s.\n" % F.coq_int(F.find_const(MOD, m.group(2))))
    need(r"swap\(&mut self\.modified,\s*&mut self\.modified_2\);\s*std::mem::swap\(&mut self\.m2o,\s*&mut self\.m2o_2\)", cm, "commit swap")
    need(r"edit::resolve_edits\(\s*&self\.modified,\s*&self\.m2o,\s*&mut self\.modified_2,\s*&mut self\.m2o_2,\s*&mut self\.replaces,?\s*\)", cm,
         "commit: argument order of resolve_edits")
    # the size the guard compares is the value resolve_edits RETURNS (after an early return the target holds a prefix only)
    src_of_sz = "other"
    if re.search(r"let\s+sz\s*=\s*edit::resolve_edits\(", cm):
        src_of_sz = "returned_by_resolve_edits"
    elif re.search(r"let\s+sz\s*=\s*self\.modified_2\.len\(\)\s*;", cm):
        src_of_sz = "length_of_target"
    out.append('(* commit: where the size compared with the limit comes from *)\nDefinition commit_size_source : string := "%s".\n' % src_of_sz)

    # ---- resolve_edits
    re_ = F.fn_body(edit, "resolve_edits", EDIT)
    m = need(r"if\s+cur_len\s*(>=|<=|>|<|==|!=)\s*([A-Z_]+)\s+as\s+isize\s*\{\s*return\s+cur_len\s+as\s+usize;", re_, "resolve_edits early return")
    out.append('Definition resolve_cmp : string := "%s".\n' % m.group(1))
    out.append("Definition resolve_limit : N := %s.\n" % F.coq_int(F.find_const(MOD, m.group(2))))
    need(r"let\s+mut\s+start\s*:\s*usize\s*=\s*0;\s*let\s+mut\s+cur_len\s*:\s*isize\s*=\s*source\.len\(\)\s+as\s+isize;", re_, "resolve_edits initialisation")
    # the edit may be taken apart first: `let ReplaceOp { what, with } = edit;` (fields possibly renamed)
    md = re.search(r"let\s+ReplaceOp\s*\{\s*what(?:\s*:\s*(\w+))?\s*,\s*with(?:\s*:\s*(\w+))?\s*,?\s*\}\s*=\s*edit\s*;", re_)
    if md:
        W, WITH = md.group(1) or "what", md.group(2) or "with"
    else:
        W, WITH = r"edit.what", r"edit.with"
    We = re.escape(W)
    need(r"target\.push_str\(&source\[start\.\.%(w)s\.start\]\);\s*target_mapping\.extend\(source_mapping\[start\.\.%(w)s\.start\]\.iter\(\)\);\s*start\s*=\s*%(w)s\.end;" % {"w": We},
         re_, "resolve_edits copy of the unedited stretch")
    need(r"target\.push_str\(&source\[start\.\.\]\);\s*target_mapping\.extend\(source_mapping\[start\.\.\]\.iter\(\)\);", re_, "resolve_edits tail copy")
    m = need(r"if\s+let\s+Some\(v\)\s*=\s*target_mapping\.first_mut\(\)\s*\{\s*\*v\s*=\s*(\d+);\s*\}", re_, "resolve_edits forces the first entry")
    out.append("Definition first_forced : nat := %d.\n" % int(m.group(1)))
    # the three kinds of replacement text: what each arm adds to cur_len.  "bytes" = add_replace(.., <a &str of the text>) whose
    # result is with.len() - what.len() (recognised below); anything else is reported as written
    arms = []
    call = r"(\w+)\(\s*source_mapping,\s*target,\s*target_mapping,\s*%s,\s*(.*?),?\s*\)" % We

    def text_as_str(kind, v, expr):
        """is `expr` the text carried by ReplaceTgt::<kind>(v), as a &str?"""
        expr = squeeze(expr)
        if kind == "Str":
            return expr in ("&" + v, v + ".as_str()", v, "&%s[..]" % v, "&*" + v, "&**" + v)
        if kind == "Ref":
            return expr in (v, "*" + v, "&*" + v, "&**" + v)
        m = re.fullmatch(re.escape(v) + r"\.encode_utf8\(&mut (.+)\)", expr)
        if not m:
            return False
        buf = m.group(1)
        return bool(re.fullmatch(r"\[0(?:u8)?; 4\]", buf)) or bool(re.search(r"let\s+mut\s+%s(?:\s*:\s*\[u8;\s*4\])?\s*=\s*\[0(?:u8)?;\s*4\];" % re.escape(buf), re_))

    m_sel = re.search(r"let\s+(\w+)(?:\s*:\s*&str)?\s*=\s*match\s+&?%s\s*\{(.*?)\};\s*cur_len\s*\+=\s*%s\s*;" % (re.escape(WITH), call), re_, flags=re.S)
    if m_sel and squeeze(m_sel.group(4)) == m_sel.group(1):
        # the replacement text is picked first, one call follows
        body, fn = m_sel.group(2), m_sel.group(3)
        for kind in ["Str", "Ref", "Char"]:
            m = re.search(r"ReplaceTgt::%s\((\w+)\)\s*=>\s*(.*?)\s*,\s*(?=ReplaceTgt::|$)" % kind, body + ",", flags=re.S)
            if not m:
                raise F.FactError("resolve_edits: arm ReplaceTgt::%s not recognised" % kind)
            v, expr = m.group(1), m.group(2).strip().rstrip(',').strip()
            arms.append((kind, "bytes" if (fn == "add_replace" and text_as_str(kind, v, expr)) else "%s(%s)" % (fn, squeeze(expr))))
    else:
        for kind in ["Str", "Ref", "Char"]:
            m = re.search(r"ReplaceTgt::%s\((\w+)\)\s*=>\s*\{?\s*%s\s*\}?\s*,?\s*(?=ReplaceTgt::|\};)" % (kind, call), re_, flags=re.S)
            if not m:
                raise F.FactError("resolve_edits: arm ReplaceTgt::%s not recognised" % kind)
            v, fn, arg = m.group(1), m.group(2), squeeze(m.group(3))
            arms.append((kind, "bytes" if (fn == "add_replace" and text_as_str(kind, v, arg)) else "%s(%s)" % (fn, arg)))
        need(r"cur_len\s*\+=\s*match\s+%s\s*\{" % re.escape(WITH), re_, "resolve_edits: cur_len += match edit.with")
    out.append("(* resolve_edits: unit in which every kind of replacement text is added to the running size *)\n")
    out.append("Definition resolve_arm_units : list (string * string) := [%s].\n" % "; ".join('("%s", "%s")' % a for a in arms))

    # ---- add_replace
    ar = F.fn_body(edit, "add_replace", EDIT)
    need(r"if\s+with\.is_empty\(\)\s*\{\s*return\s+-\(what\.len\(\)\s+as\s+isize\);\s*\}", ar, "add_replace: empty replacement pushes nothing")
    head = (r"target\.push_str\(with\);\s*target_mapping\.push\(source_mapping\[what\.(start|end)\]\);\s*let\s+pos\s*=\s*source_mapping\[what\.(start|end)\];\s*")
    tail = r"\s*with\.len\(\)\s+as\s+isize\s*-\s*what\.len\(\)\s+as\s+isize\s*$"
    m = re.search(head + r"for\s+_\s+in\s+(\d+)\.\.with\.len\(\)\s*\{\s*target_mapping\.push\(pos\);\s*\}" + tail, ar, flags=re.S)
    if not m:
        # the same number of copies of pos through an iterator: with.len() - k of them; equal to the loop k..with.len() as long
        # as k <= with.len(), which the early return on an empty replacement guarantees for k <= 1
        m = re.search(head + r"target_mapping\.extend\(std::iter::repeat\(pos\)\.take\(with\.len\(\)(?:\s*-\s*(\d+))?\)\);" + tail, ar, flags=re.S)
        if m and int(m.group(3) or 0) > 1:
            m = None
    if not m:
        raise F.FactError("add_replace body: shape not recognised")
    rest_from = int(m.group(3) or 0)
    need(r"fn\s+add_replace\s*\([^)]*\bwhat\s*:\s*Range<usize>\s*,\s*with\s*:\s*&str\s*,?\s*\)\s*->\s*isize", edit, "add_replace signature (what: Range<usize>, with: &str) -> isize")
    out.append('(* add_replace returns with.len() - what.len() of a &str and a byte range: a difference of BYTE lengths *)\nDefinition repl_delta_unit : string := "bytes".\n')
    out.append('Definition repl_first_sel : string := "%s".\n' % m.group(1))
    out.append('Definition repl_rest_sel : string := "%s".\n' % m.group(2))
    out.append("Definition repl_rest_from : nat := %d.\n" % rest_from)

    # ---- build: sentinels of mod_c2b / mod_b2c
    bd = F.fn_body(mod, "build", MOD)
    # the loop over the characters of the rewritten text; its pattern variables (char index, byte index, char) are free names
    m = need(r"for\s+\((\w+),\s*\((\w+),\s*(\w+)\)\)\s+in\s+self\.modified\.char_indices\(\)\.enumerate\(\)\s*\{", bd, "build: loop over modified.char_indices().enumerate()")
    chidx, bidx, chv = m.group(1), m.group(2), m.group(3)
    need(r"self\.mod_c2b\.push\(%(b)s\);\s*self\.mod_b2c\s*\.extend\(std::iter::repeat\(last_chidx\)\.take\(%(b)s\s*-\s*last_offset\)\);\s*last_offset\s*=\s*%(b)s;\s*last_chidx\s*=\s*%(c)s;" % {"b": bidx, "c": chidx},
         bd, "build: per-character fill of mod_c2b/mod_b2c")
    m = need(r"self\.mod_b2c\s*\.extend\(std::iter::repeat\(last_chidx\)\.take\(self\.modified\.len\(\)\s*-\s*last_offset\)\);\s*"
             r"self\.mod_c2b\.push\(self\.mod_b2c\.len\(\)\);\s*self\.mod_b2c\.push\(last_chidx\s*\+\s*(\d+)\);", bd, "build: sentinels")
    out.append("Definition b2c_sentinel_inc : nat := %d.\n" % int(m.group(1)))

    # ---- fill_orig_b2c
    fo = F.fn_body(mod, "fill_orig_b2c", MOD)
    m = need(r"self\.m2o_2\.resize\(self\.original\.len\(\)\s*\+\s*1,\s*usize::MAX\);\s*let\s+mut\s+count\s*=\s*(\d+);\s*"
             r"for\s+\(ch_idx,\s*\(b_idx,\s*_\)\)\s+in\s+self\.original\.char_indices\(\)\.enumerate\(\)\s*\{\s*self\.m2o_2\[b_idx\]\s*=\s*ch_idx;\s*count\s*=\s*ch_idx\s*\+\s*(\d+);?\s*\}\s*"
             r"self\.m2o_2\[self\.original\.len\(\)\]\s*=\s*count;", fo, "fill_orig_b2c")
    out.append("Definition orig_b2c_count_init : nat := %d.\nDefinition orig_b2c_count_inc : nat := %d.\n" % (int(m.group(1)), int(m.group(2))))

    # ---- accessors
    for fn, pat, what in [
        ("to_orig_byte_idx", r"let\s+byte_idx\s*=\s*self\.mod_c2b\[index\];\s*self\.m2o\[byte_idx\]", "to_orig_byte_idx = m2o[mod_c2b[i]]"),
        ("to_orig_char_idx", r"let\s+b_idx\s*=\s*self\.to_orig_byte_idx\(index\);\s*let\s+res\s*=\s*self\.m2o_2\[b_idx\];", "to_orig_char_idx = m2o_2[to_orig_byte_idx(i)]"),
        ("to_orig", r"self\.m2o\[range\.start\]\.\.self\.m2o\[range\.end\]", "to_orig = m2o[start]..m2o[end]"),
        ("orig_slice", r"&self\.original\[self\.to_orig\(range\)\]", "orig_slice = original[to_orig(range)]"),
        ("to_curr_byte_idx", r"self\.mod_c2b\[index\]", "to_curr_byte_idx"),
        ("ch_idx", r"self\.mod_b2c\[idx\]", "ch_idx"),
    ]:
        need(pat, F.fn_body(mod, fn, MOD), "%s: %s" % (MOD, what))

    # ---- character-level accessors of the built buffer (Model/Buffer.v, last section)
    for fn, pat, what in [
        ("curr_slice_c", r"let\s+start\s*=\s*self\.mod_c2b\[data\.start\];\s*let\s+end\s*=\s*self\.mod_c2b\[data\.end\];\s*&self\.modified\[start\.\.end\]", "curr_slice_c = modified[mod_c2b[start]..mod_c2b[end]]"),
        ("orig_slice_c", r"let\s+start\s*=\s*self\.to_orig_byte_idx\(data\.start\);\s*let\s+end\s*=\s*self\.to_orig_byte_idx\(data\.end\);\s*&self\.original\[start\.\.end\]", "orig_slice_c = original[to_orig_byte_idx(start)..to_orig_byte_idx(end)]"),
        ("curr_slice", r"&self\.modified\[range\]", "curr_slice = modified[range]"),
        ("can_bow", r"self\.mod_bow\[offset\]", "can_bow = mod_bow[offset]"),
        ("cat_at_char", r"self\.mod_cat\[offset\]", "cat_at_char = mod_cat[offset]"),
        ("cat_of_range", r"if\s+range\.is_empty\(\)\s*\{\s*return\s+CategoryType::empty\(\);\s*\}\s*self\.mod_cat\[range\]\s*\.iter\(\)\s*\.fold\(CategoryType::all\(\),\s*\|a,\s*b\|\s*a\s*&\s*\*b\)", "cat_of_range = fold(all(), &) over mod_cat[range], empty for an empty range"),
        ("char_distance", r"let\s+end\s*=\s*\(cpt\s*\+\s*offset\)\.min\(self\.mod_chars\.len\(\)\);\s*end\s*-\s*cpt", "char_distance = min(cpt + offset, mod_chars.len()) - cpt"),
    ]:
        need(pat, F.fn_body(mod, fn, MOD), "%s: %s" % (MOD, what))
    # the first character index i in (char_idx + K)..char_len whose byte offset mod_c2b[i] may begin a word, as i - char_idx;
    # char_len - char_idx when there is none.  Spellings: `for` with an early return, or Range::find (first match in range
    # order) followed by match / map_or / unwrap_or
    wb = squeeze(F.fn_body(mod, "get_word_candidate_length", MOD))
    head = r"let (?P<len>\w+) = self\.mod_chars\.len\(\); "
    rng = r"\(char_idx \+ (?P<k>\d+)\)\.\.(?P=len)"
    find = r"\(" + rng + r"\)\.find\(\|&(?P<i>\w+)\| self\.can_bow\(self\.mod_c2b\[(?P=i)\]\)\)"
    m = None
    for body in [
        r"for (?P<i>\w+) in " + rng + r" \{ let (?P<b>\w+) = self\.mod_c2b\[(?P=i)\]; if self\.can_bow\((?P=b)\) \{ return (?P=i) - char_idx; \} \} (?P=len) - char_idx",
        r"for (?P<i>\w+) in " + rng + r" \{ if self\.can_bow\(self\.mod_c2b\[(?P=i)\]\) \{ return (?P=i) - char_idx; \} \} (?P=len) - char_idx",
        r"let (?P<b>\w+) = " + find + r"; match (?P=b) \{ Some\((?P<j>\w+)\) => (?P=j) - char_idx, None => (?P=len) - char_idx,? \}",
        r"let (?P<b>\w+) = " + find + r"; match (?P=b) \{ None => (?P=len) - char_idx, Some\((?P<j>\w+)\) => (?P=j) - char_idx,? \}",
        r"match " + find + r" \{ Some\((?P<j>\w+)\) => (?P=j) - char_idx, None => (?P=len) - char_idx,? \}",
        find + r"\.map_or\((?P=len) - char_idx, \|(?P<j>\w+)\| (?P=j) - char_idx\)",
        find + r"\.unwrap_or\((?P=len)\) - char_idx",
    ]:
        m = re.search(head + body + r"$", wb)
        if m:
            wcl_k = int(m.group("k"))
            break
    if not m:
        raise F.FactError("get_word_candidate_length body: shape not recognised")
    out.append("Definition wcl_first_offset : nat := %d.\n" % wcl_k)
    need(r"self\.mod_chars\.push\(%(ch)s\);\s*let\s+cat\s*=\s*cats\.get_category_types\(%(ch)s\);\s*self\.mod_cat\.push\(cat\);\s*self\.mod_c2b\.push\(%(b)s\);" % {"ch": chv, "b": bidx}, bd,
         "build: one entry of mod_chars / mod_cat / mod_c2b per character")
    need(r"self\.mod_bow\.resize\(self\.modified\.len\(\),\s*false\);", bd, "build: mod_bow has one entry per byte")
    out.append('Definition char_level_methods : list string := ["curr_slice_c"; "orig_slice_c"; "curr_slice"; "can_bow"; "cat_at_char"; "cat_of_range"; "char_distance"; "get_word_candidate_length"].\n')

    # ---- Morpheme accessors (core) and what the Python module exposes
    mo = F.strip_comments(F.src(MORPH))
    wiring = []
    for fn, pat in [
        ("begin", r"self\.list\.input\(\)\.to_orig_byte_idx\(self\.node\(\)\.begin\(\)\)"),
        ("end", r"self\.list\.input\(\)\.to_orig_byte_idx\(self\.node\(\)\.end\(\)\)"),
        ("begin_c", r"self\.list\.input\(\)\.to_orig_char_idx\(self\.node\(\)\.begin\(\)\)"),
        ("end_c", r"self\.list\.input\(\)\.to_orig_char_idx\(self\.node\(\)\.end\(\)\)"),
        ("surface", r"i\.orig_slice\(self\.node\(\)\.bytes_range\(\)\)"),
    ]:
        need(pat, F.fn_body(mo, fn, MORPH), "Morpheme::%s wiring" % fn)
        wiring.append('"%s"' % fn)
    py = F.strip_comments(F.src(PYMORPH))
    need(r"self\.morph\(py\)\.begin_c\(\)", F.fn_body(py, "begin", PYMORPH), "python Morpheme.begin() = begin_c()")
    need(r"self\.morph\(py\)\.end_c\(\)", F.fn_body(py, "end", PYMORPH), "python Morpheme.end() = end_c()")
    need(r"m\.end_c\(\)\s*-\s*m\.begin_c\(\)", py, "python Morpheme.__len__ = end_c - begin_c")
    pre = F.strip_comments(F.src(PYPRE))
    need(r"PySlice::new\(py,\s*node\.begin_c\(\)\s+as\s+isize,\s*node\.end_c\(\)\s+as\s+isize,\s*1\)", pre, "pretokenizer slices by begin_c..end_c")
    out.append("(* accessor wiring recognised: Morpheme::{begin,end}=to_orig_byte_idx(node char idx), {begin_c,end_c}=to_orig_char_idx,\n"
               "   surface=orig_slice(bytes_range); python begin()/end()=begin_c()/end_c(); pretokenizer slices by begin_c..end_c *)\n")
    out.append("Definition accessor_wiring : list string := [%s].\n" % "; ".join(wiring))
    return "".join(out)
