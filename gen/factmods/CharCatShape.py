"""Shape of CharacterCategory::{collect_boundaries, compile, get_category_types} (dic/character_category.rs) and of
InputBuffer::cat_of_range (input_text/buffer/mod.rs), as the model Model/CharCat.v / Model/Buffer.v was written for.
Each feature is extracted on its own (white space and the names of locals do not matter, independent statements may be
reordered); what is pinned is what the theorems of C17 depend on: boundaries = the SET of all begins and ends, sorted;
every definition line ORs its classes into every split it covers (not first match / last match, no early exit);
split 0 and every empty split become DEFAULT; one DEFAULT entry is ALWAYS appended for everything above the last boundary;
lookup = binary search, Ok(i) -> categories[i + 1], Err(i) -> categories[i], DEFAULT for the empty table;
cat_of_range = fold of `&` over the range starting from ALL bits (CategoryType::all(), markers included), empty range = no class."""
import re
import facts as F

CC = "sudachi/src/dic/character_category.rs"
BUF = "sudachi/src/input_text/buffer/mod.rs"


def ws(s):
    return re.sub(r"\s+", "", s)


def ren(text, pairs):
    """rename identifiers (whole words) of white-space-free text"""
    for old, new in pairs:
        text = re.sub(r"(?<![A-Za-z0-9_])%s(?![A-Za-z0-9_])" % re.escape(old), "\x00%s\x00" % new, text)
    return text.replace("\x00", "")


def q(s):
    return '"%s"' % s.replace('"', '""')


def block_after(body, start):
    """text of the brace block that starts at or after index start"""
    i = body.index("{", start)
    d = 0
    for k in range(i, len(body)):
        if body[k] == "{":
            d += 1
        elif body[k] == "}":
            d -= 1
            if d == 0:
                return body[i + 1:k], k + 1
    raise F.FactError("unbalanced block")


KEYWORDS = set("as break const continue else false fn for if impl in let loop match mut ref return self static true while where".split())


def _helper(t, name, args, rel):
    """(body of the private associated function `name` with its parameters renamed to the argument locals, its local names)
    or None when the call cannot be read as code written in place"""
    d = re.search(r"(?<![\w])(pub(?:\([^)]*\))?\s+)?fn\s+%s\s*\(([^()]*)\)" % re.escape(name), t)
    if not d or d.group(1):
        return None        # not in this file, or public: it is its own unit
    params = [x.strip() for x in d.group(2).split(",") if x.strip()]
    if len(params) != len(args) or any(re.match(r"(&\s*(mut\s+)?)?self$", x) for x in params):
        return None
    pairs = []
    for prm, a in zip(params, args):
        pm = re.match(r"(?:mut\s+)?(\w+)\s*:", prm)
        am = re.fullmatch(r"(?:&\s*(?:mut\s+)?)?(\w+)", a)
        if not pm or not am:
            return None
        pairs.append((pm.group(1), am.group(1)))
    hb = F.fn_body(t, name, rel)
    mp = dict(pairs)
    # names the helper uses for itself (not fields / methods / paths / macros)
    own = set(x for x in re.findall(r"(?<![A-Za-z0-9_\.])([a-z_][a-z_0-9]*)(?![A-Za-z0-9_]|\s*\(|::|!)", hb)
              if x not in KEYWORDS and x not in mp and x != "_")
    if any(a in own for p_, a in pairs if a != p_):
        return None        # an argument local would be captured by a local of the helper
    # simultaneous whole-word rename parameter -> argument
    if mp:
        hb = re.sub(r"(?<![A-Za-z0-9_\.])(%s)(?![A-Za-z0-9_])" % "|".join(re.escape(k) for k in mp), lambda x: mp[x.group(1)], hb)
    return hb, own


def _word(name, text):
    return re.search(r"(?<![A-Za-z0-9_\.])%s(?![A-Za-z0-9_])" % re.escape(name), text) is not None


def inline_lets(t, body, rel, limit=8):
    """`let <pattern> = Self::helper(args);` of a private associated function of the same file read as the helper's body
    written in place (pure code motion into a helper).  Conditions, all needed for the in-place reading to mean the same:
    the helper has no `return` and no `?` (they would leave another function), it ends in a tail expression that is a
    local or a tuple of locals matching the pattern, those locals are renamed to the pattern's names, and no other local
    of the helper is mentioned after the call (it could shadow a local of the caller)."""
    pos = 0
    for _ in range(limit):
        m = re.compile(r"let\s+(\((?:\s*(?:mut\s+)?\w+\s*,?)+\)|(?:mut\s+)?\w+)\s*=\s*(?:Self|CharacterCategory)::(\w+)\(([^()]*)\)\s*;").search(body, pos)
        if not m:
            return body
        new = _inline_one(t, body, m, rel)
        if new is None:
            pos = m.end()      # left as a call: it is its own unit (collect_boundaries is read separately)
        else:
            body = new         # the in-place text is scanned again from the same position (a helper may call a helper)
    return body


def _inline_one(t, body, m, rel):
    pat = [x for x in re.findall(r"\w+", m.group(1)) if x != "mut"]
    h = _helper(t, m.group(2), [a.strip() for a in m.group(3).split(",") if a.strip()], rel)
    if h is None:
        return None
    hb, own = h
    if re.search(r"\breturn\b|\?", hb):
        return None
    hb = hb.rstrip()
    mt = re.search(r"(?:^|[;}])\s*(\((?:\s*\w+\s*,?)+\)|\w+)$", hb)
    if not mt:
        return None
    res = re.findall(r"\w+", mt.group(1))
    if len(res) != len(pat) or len(set(res)) != len(res) or not all(r in own for r in res):
        return None
    stmts = hb[:mt.start(1)]
    after = body[m.end():]
    if any(_word(x, after) for x in own if x not in res):
        return None
    ren_map = dict(zip(res, pat))
    if any(v in own and v not in res for v in ren_map.values()):
        return None
    stmts = re.sub(r"(?<![A-Za-z0-9_\.])(%s)(?![A-Za-z0-9_])" % "|".join(re.escape(k) for k in ren_map), lambda x: ren_map[x.group(1)], stmts)
    return body[:m.start()] + stmts + after


def inline_private(t, body, rel, depth=2):
    """body with a TAIL call `Self::helper(args)` of a private associated function of the same file replaced by the
    helper's body, as if the helper were written in place: the parameters are renamed to the argument identifiers
    (arguments must be plain locals, possibly borrowed: `x`, `&x`, `&mut x`; anything else is left alone and the feature
    recognisers will then fail as before).  Only a tail call is inlined here, so a `return` inside the helper means the
    same thing after inlining; `let .. = Self::helper(..);` is read by inline_lets."""
    if depth == 0:
        return body
    m = re.search(r"(?:Self|CharacterCategory)::(\w+)\(([^()]*)\)\s*$", body.rstrip())
    if not m:
        return body
    h = _helper(t, m.group(1), [a.strip() for a in m.group(2).split(",") if a.strip()], rel)
    if h is None:
        return body
    return inline_private(t, body[:m.start()] + h[0], rel, depth - 1)


def gen():
    out = [F.HEADER]
    t = F.strip_comments(F.src(CC))

    # ---- collect_boundaries
    b = F.fn_body(t, "collect_boundaries", CC)
    w = ws(b)
    if "BTreeSet::new()" not in w:
        raise F.FactError("collect_boundaries: no longer collects into a BTreeSet (sorted, duplicate free)")
    m = re.search(r"for(\w+)in(\w+)\{(.*?)\}", w)
    if not m:
        raise F.FactError("collect_boundaries: loop over the ranges not found")
    v = m.group(1)
    ins = sorted(re.findall(r"\w+\.insert\(%s\.(\w+)\);" % re.escape(v), m.group(3)))
    rest = re.sub(r"\w+\.insert\(%s\.\w+\);" % re.escape(v), "", m.group(3))
    if rest:
        raise F.FactError("collect_boundaries: the loop does more than inserting (%s)" % rest)
    if not re.search(r"\w+\.into_iter\(\)\.collect\(\)$", w):
        raise F.FactError("collect_boundaries: result is no longer the set in iteration (= ascending) order")
    out.append("(* collect_boundaries: fields of every range inserted into the BTreeSet, result = into_iter().collect() *)\n")
    out.append("Definition boundary_fields : list string := [%s].\n" % "; ".join(q(x) for x in ins))

    # ---- compile
    b = inline_lets(t, inline_private(t, F.fn_body(t, "compile", CC), CC), CC)
    w = ws(b)
    if not re.search(r"if\w+\.is_empty\(\)\{returnCharacterCategory::default\(\);\}", w):
        raise F.FactError("compile: empty definition list no longer gives the default table")
    m = re.search(r"let(?:mut)?(\w+)=vec!\[CategoryType::empty\(\);(\w+)\.len\(\)\];", w)
    if not m:
        raise F.FactError("compile: categories no longer start as empty sets, one per boundary")
    cats, bnd = m.group(1), m.group(2)
    # the fill loop
    m = re.search(r"for(\w+)in\w+\{let(\w+)=match%s\.binary_search\(&\1\.begin\)\{(.*?)\};for(\w+)in\2\.\.%s\.len\(\)\{(.*?)\}\}" % (bnd, bnd), w)
    if not m:
        raise F.FactError("compile: fill loop (binary search of range.begin, then the splits from there on) not recognised")
    rng, arms, iv, inner = m.group(1), m.group(3), m.group(4), m.group(5)
    ok = re.search(r"Ok\((\w+)\)=>(\1\+1|1\+\1),", arms)
    if not ok:
        raise F.FactError("compile: fill no longer starts one split behind the boundary equal to range.begin")
    mi = re.fullmatch(r"if(.*?)\{break;\}(.*)", inner)
    if not mi:
        raise F.FactError("compile: inner fill loop shape not recognised (%s)" % inner[:60])
    brk = ren(mi.group(1), [(bnd, "boundaries"), (iv, "i"), (rng, "range")])
    upd = ren(mi.group(2), [(cats, "categories"), (iv, "i"), (rng, "range")])
    out.append("(* compile: `if <cond> { break; }` and the update of the inner fill loop (names normalised) *)\n")
    out.append("Definition fill_break_condition : string := %s.\nDefinition fill_update : string := %s.\n" % (q(brk), q(upd)))
    # split 0
    if not re.search(r"%s\[0\]=CategoryType::DEFAULT;" % cats, w):
        raise F.FactError("compile: split 0 is no longer set to DEFAULT")
    # merge loop
    m = re.search(r"for(\w+)in1\.\.%s\.len\(\)\{if(.*?)\{(.*?)continue;\}(.*?)\}(\w+)\.push\((\w+)\);(\w+)\.push\((\w+)\);" % cats, w)
    if not m:
        raise F.FactError("compile: merge loop not recognised")
    iv2 = m.group(1)
    mc = ren(m.group(2), [(cats, "categories"), (iv2, "i")])
    out.append("(* compile: successive splits are merged when *)\nDefinition merge_condition : string := %s.\n" % q(mc))
    # empty -> DEFAULT
    m = re.search(r"for(\w+)in(\w+)\.iter_mut\(\)\{if\1\.is_empty\(\)\{\*\1=CategoryType::DEFAULT;\}\}", w)
    if not m:
        raise F.FactError("compile: empty class sets are no longer replaced by DEFAULT")
    fcats = m.group(2)
    tail = w[m.end():]
    tail = re.sub(r"\w+\.shrink_to_fit\(\);", "", tail)
    mt = re.fullmatch(r"(.*?)CharacterCategory\{(.*)\}", tail)
    if not mt:
        raise F.FactError("compile: end of the function not recognised")
    out.append("(* compile: what happens between the DEFAULT replacement and the construction of the table (shrink_to_fit removed) *)\n")
    out.append("Definition trailing_entry : string := %s.\n" % q(ren(mt.group(1), [(fcats, "final_categories")])))
    out.append("Definition table_fields : string := %s.\n" % q(re.sub(r"boundaries:\w+,", "boundaries:final_boundaries,", ren(mt.group(2), [(fcats, "final_categories")]))))

    # ---- get_category_types
    b = F.fn_body(t, "get_category_types", CC)
    w = ws(b)
    if not re.search(r"ifself\.boundaries\.is_empty\(\)\{returnCategoryType::DEFAULT;\}", w):
        raise F.FactError("get_category_types: empty table no longer answers DEFAULT")
    m = re.search(r"matchself\.boundaries\.binary_search\(&(\w+)\)\{(.*)\}$", w)
    if not m:
        raise F.FactError("get_category_types: binary search not found")
    key = m.group(1)
    if not re.search(r"let%s=\w+asu32;" % key, w):
        raise F.FactError("get_category_types: the searched key is no longer the code point")
    arms = {}
    for kind, var, expr in re.findall(r"(Ok|Err)\((\w+)\)=>(.*?),", m.group(2) + ","):
        arms[kind] = ren(expr, [(var, "idx")])
    if set(arms) != {"Ok", "Err"}:
        raise F.FactError("get_category_types: arms of the binary search not recognised")
    out.append("(* get_category_types: arms of boundaries.binary_search(&code_point) *)\n")
    out.append("Definition lookup_found : string := %s.\nDefinition lookup_not_found : string := %s.\n" % (q(arms["Ok"]), q(arms["Err"])))

    # ---- cat_of_range
    tb = F.strip_comments(F.src(BUF))
    b = F.fn_body(tb, "cat_of_range", BUF)
    w = ws(b)
    m = re.search(r"if(\w+)\.is_empty\(\)\{return(.*?);\}", w)
    if not m:
        raise F.FactError("cat_of_range: empty-range guard not found")
    rv = m.group(1)
    out.append("(* cat_of_range: answer for the empty range; seed and step of the fold over self.mod_cat[range] *)\n")
    out.append("Definition range_empty_answer : string := %s.\n" % q(m.group(2)))
    m = re.search(r"self\.mod_cat\[%s\]\.iter\(\)\.fold\((.*?),\|(\w+),(\w+)\|(.*)\)$" % rv, w)
    if not m:
        raise F.FactError("cat_of_range: fold over mod_cat[range] not found")
    step = re.sub(r"\b%s\b" % m.group(2), "acc", m.group(4))
    step = re.sub(r"\b%s\b" % m.group(3), "x", step)
    out.append("Definition range_fold_seed : string := %s.\nDefinition range_fold_step : string := %s.\n" % (q(m.group(1)), q(step)))
    return "".join(out)
