"""Generated/FieldOrder.v — order and kind of the fields of the binary word info, as the writer
(`RawLexiconEntry::write_word_info`, build/lexicon.rs) emits them and as the reader (`WordInfoParser::parse`,
read/word_info.rs) consumes them; the `InfoSubset` bit of every field and the closure rules of `InfoSubset::normalize`
(subset.rs); the thresholds of the length prefix and of the u32 arrays (build/primitives.rs, read/u16str.rs);
the shapes of the macro `parse_field!`, of `WordInfos::get_word_info`, of the `WordInfo` accessors, of the fix-ups in
`LexiconSet::get_word_info_subset` and of `StatefulTokenizer::{set_mode,set_subset}` the model was written for."""
import re
import facts as F
import shapealpha as SA


def q(s):
    return '"%s"' % s


def norm_ws(s):
    return re.sub(r"\s+", "", F.strip_comments(s))


def writer_fields():
    rel = "sudachi/src/dic/build/lexicon.rs"
    t = F.strip_comments(F.src(rel))
    body = F.fn_body(t, "write_word_info", rel)
    stmts = [s.strip() for s in body.split(";") if s.strip()]
    out = []
    # integer widths of the struct fields
    m = re.search(r"struct\s+RawLexiconEntry\s*\{(.*?)\n\}", t, flags=re.S)
    if not m:
        raise F.FactError("struct RawLexiconEntry not found")
    ftypes = dict(re.findall(r"pub\s+(\w+)\s*:\s*([A-Za-z0-9_<>]+)", m.group(1)))
    for s in stmts:
        s1 = re.sub(r"\s+", " ", s)
        if s1 in ("let mut size = 0", "Ok(size)") or re.fullmatch(r"size \+= \d+", s1):
            continue
        mm = re.fullmatch(r"size \+= u16w\.write\(w, &self\.(\w+)\(\)\)\?", s1)
        if mm:
            out.append(("write", mm.group(1), ""))
            continue
        mm = re.fullmatch(r"size \+= u16w\.write_len\(w, self\.(\w+)\.len\(\)\)\?", s1)
        if mm:
            out.append(("write_len", mm.group(1) + ".len", ""))
            continue
        mm = re.fullmatch(r"size \+= u16w\.write_empty_if_equal\(w, self\.(\w+)\(\), self\.(\w+)\(\)\)\?", s1)
        if mm:
            out.append(("write_empty_if_equal", mm.group(1), mm.group(2)))
            continue
        mm = re.fullmatch(r"w\.write_all\(&self\.(\w+)(\.as_raw\(\))?\.to_le_bytes\(\)\)\?", s1)
        if mm:
            ty = ftypes.get(mm.group(1))
            if mm.group(2):
                if ty != "WordId":
                    raise F.FactError("as_raw() on a field of type %s" % ty)
                ty = "u32"
            if ty not in ("u16", "u32"):
                raise F.FactError("unexpected integer type %s of field %s" % (ty, mm.group(1)))
            out.append(("le_" + ty, mm.group(1), ""))
            continue
        mm = re.fullmatch(r"size \+= write_u32_array\(w, &self\.(\w+)\)\?", s1)
        if mm:
            out.append(("write_u32_array", mm.group(1), ""))
            continue
        raise F.FactError("unrecognised statement in write_word_info: %r" % s1)
    if not out:
        raise F.FactError("no field writes found in write_word_info")
    # the defaulting accessors of RawLexiconEntry the writer goes through
    acc = {}
    for name in ("headword", "norm_form", "reading"):
        b = norm_ws(F.fn_body(t, name, rel))
        mm = re.fullmatch(r"self\.(\w+)\.as_deref\(\)\.unwrap_or_else\(\|\|self\.(\w+)\(\)\)", b)
        if not mm or mm.group(1) != name:
            raise F.FactError("RawLexiconEntry::%s is no longer `self.%s.as_deref().unwrap_or_else(|| self.X())`" % (name, name))
        acc[name] = mm.group(2)
    return out, acc


def reader_fields():
    rel = "sudachi/src/dic/read/word_info.rs"
    t = F.strip_comments(F.src(rel))
    body = F.fn_body(t, "parse", rel)
    calls = re.findall(r"parse_field!\s*\(([^;]*?)\)\s*;", body, flags=re.S)
    out = []
    for c in calls:
        a = [x.strip() for x in c.split(",") if x.strip()]
        if len(a) not in (5, 6) or a[0] != "self" or a[1] != "data":
            raise F.FactError("unrecognised parse_field! call: %r" % c)
        mm = re.fullmatch(r"InfoSubset::([A-Z_]+)", a[3])
        if not mm:
            raise F.FactError("unrecognised flag in parse_field!: %r" % a[3])
        out.append((a[2], mm.group(1), a[4], a[5] if len(a) == 6 else ""))
    rest = re.sub(r"parse_field!\s*\(([^;]*?)\)\s*;", "", body, flags=re.S)
    if norm_ws(rest) != "Ok(self.info)":
        raise F.FactError("WordInfoParser::parse contains more than parse_field! calls and Ok(self.info)")
    # the macro itself: the model implements exactly these two arms
    m = re.search(r"macro_rules!\s*parse_field\s*\{(.*?)\n\}", t, flags=re.S)
    if not m:
        raise F.FactError("macro parse_field! not found")
    heavy = ("($root:expr,$data:ident,$name:tt,$field:expr,$tfn:tt,$ffn:tt)=>{if$root.flds.is_empty(){returnOk($root.info);}"
             "#[allow(unused)]let$data=if$root.flds.contains($field){let(next,res)=$tfn($data)?;$root.info.$name=res;"
             "$root.flds-=$field;next}else{let(next,_)=$ffn($data)?;next};};")
    light = ("($root:expr,$data:ident,$name:tt,$field:expr,$tfn:tt)=>{if$root.flds.is_empty(){returnOk($root.info);}"
             "$root.flds-=$field;#[allow(unused)]let$data={let(next,res)=$tfn($data)?;$root.info.$name=res;next};};")
    if norm_ws(m.group(1)) != heavy + light:
        raise F.FactError("macro parse_field! changed shape (model: early return on empty subset; heavy field parsed iff requested else skipped; light field always parsed)")
    return out


def subset_bits():
    rel = "sudachi/src/dic/subset.rs"
    t = F.strip_comments(F.src(rel))
    m = re.search(r"pub\s+struct\s+InfoSubset\s*:\s*u32\s*\{(.*?)\}", t, flags=re.S)
    if not m:
        raise F.FactError("bitflags InfoSubset not found")
    items = re.findall(r"const\s+([A-Z_]+)\s*=\s*([^;]+);", m.group(1))
    bits = []
    for n, e in items:
        v = F.const_eval(e)
        if v <= 0 or v & (v - 1):
            raise F.FactError("InfoSubset::%s is not a single bit" % n)
        bits.append((n, v.bit_length() - 1))
    body = F.fn_body(t, "normalize", rel)
    rules = []
    rest = body
    for mm in re.finditer(r"if\s+self\.intersects\(([^)]*)\)\s*\{\s*self\s*\|=\s*InfoSubset::([A-Z_]+)\s*;?\s*\}", body):
        trig = [x.strip() for x in mm.group(1).strip().rstrip(",").split("|")]
        names = []
        for x in trig:
            m2 = re.fullmatch(r"InfoSubset::([A-Z_]+)", x)
            if not m2:
                raise F.FactError("unrecognised trigger %r in InfoSubset::normalize" % x)
            names.append(m2.group(1))
        rules.append((names, mm.group(2)))
        rest = rest.replace(mm.group(0), "")
    if norm_ws(rest) != "self":
        raise F.FactError("InfoSubset::normalize contains more than `if self.intersects(..) { self |= .. }` rules: %r" % norm_ws(rest))
    if not re.search(r"impl\s+Default\s+for\s+InfoSubset\s*\{\s*fn\s+default\(\)\s*->\s*Self\s*\{\s*Self::all\(\)\s*\}", t):
        raise F.FactError("Default for InfoSubset is no longer all()")
    return bits, rules


def thresholds():
    rel = "sudachi/src/dic/build/primitives.rs"
    t = F.strip_comments(F.src(rel))
    b = F.fn_body(t, "write_len", rel)
    m = re.search(r"if\s+length\s*>\s*([^\{]+?)\s*as\s*_\s*\{\s*return\s+Err", b)
    if not m:
        raise F.FactError("write_len: size guard `if length > X as _ { return Err` not found")
    len_max = F.const_eval(m.group(1))
    m = re.search(r"let\s+prefix\s*=\s*if\s+length\s*<\s*(\d+)\s*\{\s*w\.write_all\(&\[length as u8\]\)\?;\s*1\s*\}\s*else\s*\{(.*?)2\s*\}", b, flags=re.S)
    if not m:
        raise F.FactError("write_len: `if length < N { one byte } else { two bytes }` not found")
    short_below = int(m.group(1))
    if norm_ws(m.group(2)) != "letb0=(lengthasu8)&0xff;letb1=((length>>8)asu8)|0x80;w.write_all(&[b1,b0])?;":
        raise F.FactError("write_len: two-byte form changed: %r" % norm_ws(m.group(2)))
    b = F.fn_body(t, "write", rel)
    m = re.search(r"if\s+str_data\.len\(\)\s*>\s*([0-9* ]+)\{", b)
    if not m:
        raise F.FactError("Utf16Writer::write: byte-size guard not found")
    utf8_max = F.const_eval(m.group(1))
    b = F.fn_body(t, "write_u32_array", rel)
    m = re.search(r"if\s+len\s*>\s*(\d+)\s*\{\s*return\s+Err", b)
    if not m:
        raise F.FactError("write_u32_array: `if len > N { return Err` not found")
    arr_max = int(m.group(1))
    if "w.write_all(&[lenasu8])?" not in norm_ws(b) or "w.write_all(&i.to_le_bytes())?" not in norm_ws(b):
        raise F.FactError("write_u32_array: body changed shape")
    b = norm_ws(F.fn_body(t, "write_empty_if_equal", rel))
    if not F.same_shape(F.fn_body(t, "write_empty_if_equal", rel), 'ifdata==other{self.write(w,"")}else{self.write(w,data)}'):
        raise F.FactError("write_empty_if_equal changed shape")
    rel2 = "sudachi/src/dic/read/u16str.rs"
    t2 = F.strip_comments(F.src(rel2))
    # string_length_parser: one byte h; a second byte l is read iff h >= N; the length is ((h & 0x7F) << 8) | l, or h alone.
    # The result may be built inside the returned tuple or bound to a local first, by `match` or `if let`.
    b = norm_ws(F.fn_body(t2, "string_length_parser", rel2))
    m = re.search(r"nom::combinator::cond\((\w+)>=(\d+),le_u8\)\(rest\)\?;", b)
    if not m:
        raise F.FactError("string_length_parser changed shape: %r" % b)
    long_from = int(m.group(2))
    head = "let (rest, length) = le_u8(input)?; let (rest, opt_low) = nom::combinator::cond(length >= %d, le_u8)(rest)?; " % long_from
    two, one = "((length as u16 & 0x7F) << 8) | low as u16", "length as u16"
    value = ["match opt_low { Some(low) => %s, None => %s, }" % (two, one), "if let Some(low) = opt_low { %s } else { %s }" % (two, one)]
    if SA.alpha_any(F.fn_body(t2, "string_length_parser", rel2),
                    [head + "Ok((rest, %s))" % v for v in value] + [head + "let value = %s; Ok((rest, value))" % v for v in value]) < 0:
        raise F.FactError("string_length_parser changed shape: %r" % b)
    b = norm_ws(F.fn_body(t2, "utf16_string_data", rel2))
    if not F.same_shape(F.fn_body(t2, "utf16_string_data", rel2), ("let(rest,length)=string_length_parser(input)?;iflength==0{returnOk((rest,&[]));}letnum_bytes=(length*2)asusize;"
             "ifrest.len()<num_bytes{returnErr(nom::Err::Failure(SudachiNomError::Utf16String));}let(data,rest)=rest.split_at(num_bytes);Ok((rest,data))")):
        raise F.FactError("utf16_string_data changed shape: %r" % b)
    b = norm_ws(F.fn_body(t2, "skip_u16_string", rel2))
    if not F.same_shape(F.fn_body(t2, "skip_u16_string", rel2), "utf16_string_data(input).map(|(rest,_)|(rest,String::new()))"):
        raise F.FactError("skip_u16_string changed shape")
    rel3 = "sudachi/src/dic/read/mod.rs"
    t3 = F.strip_comments(F.src(rel3))
    for fn_, ty in (("skip_wid_array", "WordId"), ("skip_u32_array", "u32")):
        b = norm_ws(F.fn_body(t3, fn_, rel3))
        if not F.same_shape(F.fn_body(t3, fn_, rel3), "let(rest,length)=le_u8(input)?;letnum_bytes=lengthasusize*4;letnext=&rest[num_bytes..];Ok((next,Vec::new()))"):
            raise F.FactError("%s changed shape: %r" % (fn_, b))
    b = norm_ws(F.fn_body(t3, "u32_array_parser", rel3))
    if not F.same_shape(F.fn_body(t3, "u32_array_parser", rel3), "let(rest,length)=le_u8(input)?;nom::multi::count(le_u32,lengthasusize)(rest)"):
        raise F.FactError("u32_array_parser changed shape")
    b = norm_ws(F.fn_body(t3, "u32_wid_array_parser", rel3))
    if not F.same_shape(F.fn_body(t3, "u32_wid_array_parser", rel3), "let(rest,length)=le_u8(input)?;nom::multi::count(le_u32.map(|id|WordId::from_raw(id)),lengthasusize)(rest)"):
        raise F.FactError("u32_wid_array_parser changed shape")
    return len_max, short_below, utf8_max, arr_max, long_from


def shapes():
    """function bodies the hand-written model mirrors one to one; a change of shape breaks the tie"""
    rel = "sudachi/src/dic/lexicon/word_infos.rs"
    t = F.strip_comments(F.src(rel))
    b = norm_ws(F.fn_body(t, "get_word_info", rel))
    exp = ("if!self.has_synonym_group_ids{subset-=InfoSubset::SYNONYM_GROUP_ID;}letmutword_info=self.parse_word_info(word_id,subset)?;"
           "letdfwi=word_info.dictionary_form_word_id;if(dfwi>=0)&&(dfwi!=word_idasi32){letinner=self.parse_word_info(dfwiasu32,InfoSubset::SURFACE)?;"
           "word_info.dictionary_form=inner.surface;};Ok(word_info.into())")
    if not F.same_shape(F.fn_body(t, "get_word_info", rel), exp):
        raise F.FactError("WordInfos::get_word_info changed shape: %r" % b)
    fallbacks = []
    for name in ("normalized_form", "dictionary_form", "reading_form"):
        b = norm_ws(F.fn_body(t, name, rel))
        m = re.fullmatch(r"ifself\.data\.(\w+)\.is_empty\(\)\{self\.(\w+)\(\)\}else\{&self\.data\.(\w+)\}", b)
        if not m or m.group(1) != name or m.group(3) != name:
            raise F.FactError("WordInfo::%s changed shape: %r" % (name, b))
        fallbacks.append((name, m.group(2)))
    m = re.search(r"pub\s+struct\s+WordInfoData\s*\{(.*?)\n\}", t, flags=re.S)
    if not m:
        raise F.FactError("struct WordInfoData not found")
    data_fields = re.findall(r"pub\s+(\w+)\s*:\s*([A-Za-z0-9_<>]+)", m.group(1))
    rel = "sudachi/src/dic/lexicon_set.rs"
    t = F.strip_comments(F.src(rel))
    # get_word_info_subset: the word info of lexicon `dict_id`, then -- each under its OWN flag of the subset -- the POS id of a
    # user dictionary re-based (dict_id > 0 && pos_id >= num_system_pos => pos_id - num_system_pos + pos_offsets[dict_id]) and
    # the references of split A / split B / word structure re-stamped.  The re-basing may stand in the body or in a private
    # helper method of the file that is handed (word_info.pos_id, dict_id) (its body is read as if it stood in place).
    body = F.fn_body(t, "get_word_info_subset", rel)
    b = norm_ws(body)
    # the lexicon may be bound to a local first; so may the dictionary number as an index (`let i = dict_id as usize;`), each
    # use site then reads the local or repeats the cast; the re-based id may be bound before it is stored
    post = (" } if subset.contains(InfoSubset::SPLIT_A) { Self::update_dict_id(&mut word_info.a_unit_split, dict_id)?; }"
            " if subset.contains(InfoSubset::SPLIT_B) { Self::update_dict_id(&mut word_info.b_unit_split, dict_id)?; }"
            " if subset.contains(InfoSubset::WORD_STRUCTURE) { Self::update_dict_id(&mut word_info.word_structure, dict_id)?; } Ok(word_info.into())")
    def frames(bind, lex_idx):
        start = "let dict_id = id.dic(); " + ("let dict_idx = dict_id as usize; " if bind else "")
        return [start + "let mut word_info: WordInfoData = self.lexicons[%s].get_word_info(id.word(), subset)?.into(); if subset.contains(InfoSubset::POS_ID) { " % lex_idx,
                start + "let lexicon = &self.lexicons[%s]; let mut word_info: WordInfoData = lexicon.get_word_info(id.word(), subset)?.into(); if subset.contains(InfoSubset::POS_ID) { " % lex_idx]
    def rebasings(off_idx):
        out = []
        for c in (" as usize", ""):
            e = "pos_id%s - self.num_system_pos + self.pos_offsets[%s]" % (c, off_idx)
            guard = "let pos_id = word_info.pos_id as usize; if dict_id > 0 && pos_id >= self.num_system_pos { %s }"
            out.append(guard % ("word_info.pos_id = (%s) as u16;" % e))
            out.append(guard % ("let rebased = %s; word_info.pos_id = rebased as u16;" % e))
        return out
    pres = frames(False, "dict_id as usize") + frames(True, "dict_idx") + frames(True, "dict_id as usize")
    whole = [pre + x + post for pre in frames(False, "dict_id as usize") for x in rebasings("dict_id as usize")]
    for lex_idx in ("dict_idx", "dict_id as usize"):
        for off_idx in ("dict_idx", "dict_id as usize"):
            whole += [pre + x + post for pre in frames(True, lex_idx) for x in rebasings(off_idx)]
    ok = SA.alpha_any(body, whole) >= 0
    if not ok:
        # a private helper method handed the stored POS id and the dictionary number, in either order
        m = re.search(r"word_info\.pos_id=self\.(\w+)\((word_info\.pos_id,dict_id|dict_id,word_info\.pos_id)\);", b)
        if m:
            args = "word_info.pos_id, dict_id" if m.group(2).startswith("word_info") else "dict_id, word_info.pos_id"
            call = "word_info.pos_id = self.%s(%s);" % (m.group(1), args)
            types = (r"u16", r"u8") if m.group(2).startswith("word_info") else (r"u8", r"u16")
            sig = re.search(r"\bfn\s+%s\s*\(\s*&self\s*,\s*(\w+)\s*:\s*%s\s*,\s*(\w+)\s*:\s*%s\s*,?\s*\)\s*->\s*u16\b" % (re.escape(m.group(1)), types[0], types[1]), t)
            if sig and SA.alpha_any(body, [pre + call + post for pre in pres]) >= 0:
                names = (sig.group(1), sig.group(2)) if m.group(2).startswith("word_info") else (sig.group(2), sig.group(1))
                hb = SA.substitute(F.fn_body(t, m.group(1), rel), {names[0]: "RAW_POS", names[1]: "DICT_ID"})
                rebased = ["(pos_id%s - self.num_system_pos + self.pos_offsets[DICT_ID as usize]) as u16" % c for c in (" as usize", "")]
                helper = []
                # DICT_ID is a u8: `DICT_ID == 0` is the negation of `DICT_ID > 0`; `pos_id < n` of `pos_id >= n`
                for r_ in rebased:
                    helper.append("let pos_id = RAW_POS as usize; if DICT_ID > 0 && pos_id >= self.num_system_pos { %s } else { RAW_POS }" % r_)
                    helper.append("let pos_id = RAW_POS as usize; if DICT_ID > 0 && pos_id >= self.num_system_pos { return %s; } RAW_POS" % r_)
                    helper.append("let pos_id = RAW_POS as usize; if DICT_ID == 0 || pos_id < self.num_system_pos { RAW_POS } else { %s }" % r_)
                    helper.append("let pos_id = RAW_POS as usize; if DICT_ID == 0 || pos_id < self.num_system_pos { return RAW_POS; } %s" % r_)
                ok = SA.alpha_any(hb, helper) >= 0
    if not ok:
        raise F.FactError("LexiconSet::get_word_info_subset changed shape: %r" % b)
    # update_dict_id: every reference that is not to the system dictionary (dic() > 0, i.e. != 0 for the u8) is re-stamped with
    # WordId::checked(dict_id, word()); the others are left alone
    b = norm_ws(F.fn_body(t, "update_dict_id", rel))
    stamp = "*id = WordId::checked(dict_id, id.word())?;"
    if SA.alpha_any(F.fn_body(t, "update_dict_id", rel), [
            "for id in split.iter_mut() { let cur_dict_id = id.dic(); if cur_dict_id > 0 { %s } } Ok(())" % stamp,
            "for id in split.iter_mut() { if id.dic() > 0 { %s } } Ok(())" % stamp,
            "for id in split.iter_mut() { let cur_dict_id = id.dic(); if cur_dict_id == 0 { continue; } %s } Ok(())" % stamp,
            "for id in split.iter_mut() { if id.dic() == 0 { continue; } %s } Ok(())" % stamp]) < 0:
        raise F.FactError("LexiconSet::update_dict_id changed shape: %r" % b)
    rel = "sudachi/src/analysis/stateful_tokenizer.rs"
    t = F.strip_comments(F.src(rel))
    # set_mode / set_subset: the split field of the mode (A -> SPLIT_A, B -> SPLIT_B, otherwise nothing), written in place or
    # through a private function of the file that is exactly that table (`fn f(m: Mode) -> InfoSubset { match m {..} }`)
    table = "match %s { Mode::A => InfoSubset::SPLIT_A, Mode::B => InfoSubset::SPLIT_B, _ => InfoSubset::empty(), }"
    helpers = []
    for hm in re.finditer(r"\bfn\s+(\w+)\s*\(\s*(\w+)\s*:\s*Mode\s*,?\s*\)\s*->\s*InfoSubset\b", t):
        if SA.alpha_eq(SA.substitute(F.fn_body(t, hm.group(1), rel), {hm.group(2): "MODE_ARG"}), table % "MODE_ARG"):
            helpers.append(hm.group(1))
    def mode_fields(arg):
        return [table % arg] + ["%s(%s)" % (h, arg) for h in helpers] + ["Self::%s(%s)" % (h, arg) for h in helpers]
    b = norm_ws(F.fn_body(t, "set_mode", rel))
    if SA.alpha_any(F.fn_body(t, "set_mode", rel), ["self.subset |= %s; std::mem::replace(&mut self.mode, mode)" % x for x in mode_fields("mode")]) < 0:
        raise F.FactError("StatefulTokenizer::set_mode changed shape: %r" % b)
    b = norm_ws(F.fn_body(t, "set_subset", rel))
    if SA.alpha_any(F.fn_body(t, "set_subset", rel), [
            "let mode_subset = %s; let new_subset = (subset | mode_subset).normalize(); std::mem::replace(&mut self.subset, new_subset | mode_subset)" % x
            for x in mode_fields("self.mode")]) < 0:
        raise F.FactError("StatefulTokenizer::set_subset changed shape: %r" % b)
    # the glue that hands results over: the list receives a COPY of the tokenizer's subset, the tokenizer keeps its own
    b = norm_ws(F.fn_body(t, "swap_result", rel))
    if not F.same_shape(F.fn_body(t, "swap_result", rel), "std::mem::swap(&mutself.input,input);std::mem::swap(self.top_path.as_mut().unwrap(),result);*subset=self.subset;"):
        raise F.FactError("StatefulTokenizer::swap_result changed shape: %r" % b)
    rel = "sudachi/src/analysis/mlist.rs"
    t = F.strip_comments(F.src(rel))
    b = norm_ws(F.fn_body(t, "collect_results", rel))
    # collect_results: the list's own InputPart (self.input, mutably borrowed; a failed borrow is MorphemeListBorrowed) hands its
    # input and its subset, and the list its nodes, to the tokenizer's swap_result.  match / map_err(..)? spellings alike.
    swap = " let mref = i.deref_mut(); analyzer.swap_result(&mut mref.input, &mut self.nodes.mut_data(), &mut mref.subset); Ok(())"
    if SA.alpha_any(F.fn_body(t, "collect_results", rel), [
            "match self.input.try_borrow_mut() { Ok(mut i) => {" + swap + " } Err(_) => Err(SudachiError::MorphemeListBorrowed), }",
            "let mut i = self.input.try_borrow_mut().map_err(|_| SudachiError::MorphemeListBorrowed)?;" + swap,
            "let mut i = match self.input.try_borrow_mut() { Ok(i) => i, Err(_) => return Err(SudachiError::MorphemeListBorrowed), };" + swap,
            "if let Ok(mut i) = self.input.try_borrow_mut() {" + swap + " } else { Err(SudachiError::MorphemeListBorrowed) }"]) < 0:
        raise F.FactError("MorphemeList::collect_results no longer hands (input, nodes, subset) to swap_result: %r" % b)
    return fallbacks, data_fields


def gen():
    out = [F.HEADER]
    w, acc = writer_fields()
    r = reader_fields()
    bits, rules = subset_bits()
    len_max, short_below, utf8_max, arr_max, long_from = thresholds()
    fallbacks, data_fields = shapes()
    out.append("(* RawLexiconEntry::write_word_info: (operation, source, compared-with) in emission order *)\n")
    out.append("Definition writer_fields : list (string * string * string) :=\n  [ %s ].\n" %
               ";\n    ".join("(%s, %s, %s)" % (q(a), q(b), q(c)) for a, b, c in w))
    out.append("(* defaulting accessors of RawLexiconEntry: X() = self.X or else Y() *)\n")
    out.append("Definition raw_entry_defaults : list (string * string) := [ %s ].\n" %
               "; ".join("(%s, %s)" % (q(k), q(v)) for k, v in acc.items()))
    out.append("(* WordInfoParser::parse: (WordInfoData field, InfoSubset flag, parse fn, skip fn or \"\" for a light field) *)\n")
    out.append("Definition reader_fields : list (string * string * string * string) :=\n  [ %s ].\n" %
               ";\n    ".join("(%s, %s, %s, %s)" % tuple(q(x) for x in row) for row in r))
    out.append("(* InfoSubset flags: name, bit position *)\n")
    out.append("Definition subset_bits : list (string * N) := [ %s ].\n" % "; ".join("(%s, %s)" % (q(n), F.coq_int(b)) for n, b in bits))
    out.append("(* InfoSubset::normalize: if self.intersects(triggers) { self |= added }, in order *)\n")
    out.append("Definition normalize_rules : list (list string * string) :=\n  [ %s ].\n" %
               ";\n    ".join("([%s], %s)" % ("; ".join(q(x) for x in tr), q(ad)) for tr, ad in rules))
    out.append("(* accessors of WordInfo that fall back to another accessor when the stored string is empty *)\n")
    out.append("Definition accessor_fallbacks : list (string * string) := [ %s ].\n" % "; ".join("(%s, %s)" % (q(a), q(b)) for a, b in fallbacks))
    out.append("Definition word_info_data_fields : list (string * string) := [ %s ].\n" % "; ".join("(%s, %s)" % (q(a), q(b)) for a, b in data_fields))
    out.append("(* write_len: Err above len_max; one byte below short_below; string_length_parser: two bytes from long_from *)\n")
    out.append("Definition len_max : N := %s.\nDefinition short_below : N := %s.\nDefinition long_from : N := %s.\n" %
               (F.coq_int(len_max), F.coq_int(short_below), F.coq_int(long_from)))
    out.append("Definition utf8_max : N := %s.\nDefinition arr_max : N := %s.\n" % (F.coq_int(utf8_max), F.coq_int(arr_max)))
    return "".join(out)
