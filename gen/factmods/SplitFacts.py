"""Facts the C09 theorems are sensitive to: the guards of split_path / split_into / update_dict_id, the shape of
NodeSplitIterator::next and the mode -> unit-list selection.  -> coq/Generated/SplitFacts.v"""
import re
import facts as F
import rewrites as R

OPS = {">": "CGt", ">=": "CGe", "<": "CLt", "<=": "CLe", "==": "CEq", "!=": "CNe"}


def guard(body, var, where):
    """`if <var> <op> <integer literal>` -> (Coq constructor, value)"""
    m = re.search(r"\bif\s+%s\s*(>=|<=|==|!=|>|<)\s*([0-9_]+)\s*\{" % re.escape(var), body)
    if not m:
        raise F.FactError("guard `if %s <op> <literal>` not found in %s" % (var, where))
    return "(%s, %s)" % (OPS[m.group(1)], F.coq_int(int(m.group(2).replace("_", ""))))


NEGATE = {"==": "!=", "!=": "==", ">": "<=", "<=": ">", "<": ">=", ">=": "<"}


def restamp_guard(t, b):
    """LexiconSet::update_dict_id(split, D): in `for ID in split.iter_mut()` the condition under which
    `*ID = WordId::checked(D, ID.word())?;` runs, as a comparison of ID.dic() (directly or through a `let`) with a literal.
    `if C { continue; } REST` is read as `if !(C) { REST }`, a negated comparison as the opposite comparison; WordId::dic() is
    unsigned (checked on word_id.rs), so `!= 0` and `>= 1` are the same condition as `> 0` and are reported as `> 0`."""
    sig = re.search(r"\bfn\s+update_dict_id\s*\(\s*(\w+)\s*:\s*&mut\s+Vec<WordId>\s*,\s*(\w+)\s*:\s*u8\s*\)", t)
    if not sig:
        raise F.FactError("update_dict_id: signature (split: &mut Vec<WordId>, dict_id: u8) not recognised")
    lp = re.search(r"\bfor\s+(\w+)\s+in\s+%s\.iter_mut\(\)\s*\{" % re.escape(sig.group(1)), b)
    if not lp:
        raise F.FactError("update_dict_id: loop over split.iter_mut() not found")
    end = R._match(b, lp.end() - 1)
    if end < 0:
        raise F.FactError("update_dict_id: unbalanced loop body")
    body = R.continue_to_if(b[lp.end():end - 1])
    idn = re.escape(lp.group(1))
    subj = r"%s\.dic\(\)" % idn
    lm = re.search(r"\blet\s+(\w+)\s*=\s*%s\s*;" % subj, body)
    if lm:
        subj = r"(?:%s|%s)" % (subj, re.escape(lm.group(1)))
    g = re.search(r"\bif\s+(!\s*\(\s*)?%s\s*(>=|<=|==|!=|>|<)\s*([0-9_]+)\s*(\))?\s*\{\s*\*%s\s*=\s*WordId::checked\(%s,\s*%s\.word\(\)\)\?\s*;\s*\}"
                  % (subj, idn, re.escape(sig.group(2)), idn), body)
    if not g or bool(g.group(1)) != bool(g.group(4)):
        raise F.FactError("update_dict_id: guarded re-stamping `if <id.dic()> <op> <literal> { *id = WordId::checked(dict_id, id.word())?; }` not found")
    op, k = g.group(2), int(g.group(3).replace("_", ""))
    if g.group(1):
        op = NEGATE[op]
    wt = F.strip_comments(F.src("sudachi/src/dic/word_id.rs"))
    if re.search(r"\bpub\s+(?:const\s+)?fn\s+dic\s*\(\s*&self\s*\)\s*->\s*u(?:8|16|32|64|size)\b", wt):
        if (op, k) in (("!=", 0), (">=", 1)):
            op, k = ">", 0
        elif (op, k) in (("<", 1), ("<=", 0)):
            op, k = "==", 0
    return "(%s, %s)" % (OPS[op], F.coq_int(k))


def keep_guard(b):
    """split_path: in `for node in path`, the comparison of node.num_splits(mode) (directly or through a `let`) with a literal under
    which the node is KEPT (`new_path.push(node)`), the other branch being `new_path.extend(node.split(mode, dict.lexicon(), subset,
    input))`.  The branches may come in either order (the condition is then the negated comparison); over the integers `< k+1` is
    reported as `<= k`."""
    what = "split_path: keep / extend decision on node.num_splits(mode) not in the recognised shape"
    lp = re.search(r"\bfor\s+node\s+in\s+path\s*\{", b)
    if not lp:
        raise F.FactError("split_path: `for node in path` not found")
    end = R._match(b, lp.end() - 1)
    body = b[lp.end():end - 1] if end > 0 else ""
    subj = r"node\.num_splits\(mode\)"
    lm = re.search(r"\blet\s+(\w+)\s*=\s*%s\s*;" % subj, body)
    if lm:
        subj = r"(?:%s|%s)" % (subj, re.escape(lm.group(1)))
    keep = r"new_path\.push\(node\);?"
    ext = r"new_path\.extend\(node\.split\(mode,\s*dict\.lexicon\(\),\s*subset,\s*input\)\);?"
    g = re.search(r"\bif\s+%s\s*(>=|<=|==|!=|>|<)\s*([0-9_]+)\s*\{\s*(?:(%s)|%s)\s*\}\s*else\s*\{\s*(?:(%s)|%s)\s*\}" % (subj, keep, ext, ext, keep), body)
    if not g or bool(g.group(3)) != bool(g.group(4)):
        raise F.FactError(what)
    op, k = g.group(1), int(g.group(2).replace("_", ""))
    if not g.group(3):
        op = NEGATE[op]
    if op == "<" and k >= 1:
        op, k = "<=", k - 1
    elif op == ">=" and k >= 1:
        op, k = ">", k - 1
    return "(%s, %s)" % (OPS[op], F.coq_int(k))


def iterator_next(b):
    """NodeSplitIterator::next, with the names of its locals free and `self.splits.len()` / the last-unit test optionally bound to a
    `let` first (self.splits is not assigned in the function):
       let I = self.index; if I >= LEN { return None; }
       let W = self.splits[I];
       let (CE, BE) = if I + 1 == LEN { (self.char_end, self.byte_end) }
                      else { let B2 = BS as usize + WI.head_word_length(); let C2 = self.text.ch_idx(B2); (C2 as u16, B2 as u16) };
       self.char_offset = CE; self.byte_offset = BE;
       Node::new(CS, CE, u16::MAX, u16::MAX, i16::MAX, W);  ResultNode::new(_, i32::MAX, BS, BE, WI)"""
    pre = "NodeSplitIterator::next: "
    if re.search(r"\bself\.splits\s*=[^=]", b):
        raise F.FactError(pre + "self.splits is assigned")
    m = re.search(r"\blet\s+(\w+)\s*=\s*self\.index\s*;", b)
    if not m:
        raise F.FactError(pre + "`let idx = self.index` not found")
    idx = re.escape(m.group(1))
    length = r"self\.splits\.len\(\)"
    lm = re.search(r"\blet\s+(\w+)\s*=\s*%s\s*;" % length, b)
    if lm:
        length = r"(?:%s|%s)" % (length, re.escape(lm.group(1)))
    need(r"\bif\s+%s\s*>=\s*%s\s*\{\s*return\s+None;\s*\}" % (idx, length), b, pre + "end test not found")
    w = re.search(r"\blet\s+(\w+)\s*=\s*self\.splits\[%s\]\s*;" % idx, b)
    if not w:
        raise F.FactError(pre + "unit selection changed")
    last = r"%s\s*\+\s*1\s*==\s*%s" % (idx, length)
    bm = re.search(r"\blet\s+(\w+)\s*=\s*%s\s*;" % last, b)
    if bm:
        last = r"(?:%s|%s)" % (last, re.escape(bm.group(1)))
    c = re.search(r"\blet\s+\((\w+),\s*(\w+)\)\s*=\s*if\s+%s\s*\{\s*\(self\.char_end,\s*self\.byte_end\)\s*\}\s*else\s*\{"
                  r"\s*let\s+(\w+)\s*=\s*(\w+)\s+as\s+usize\s*\+\s*(\w+)\.head_word_length\(\)\s*;"
                  r"\s*let\s+(\w+)\s*=\s*self\.text\.ch_idx\(\3\)\s*;"
                  r"\s*\(\6\s+as\s+u16,\s*\3\s+as\s+u16\)\s*\}\s*;" % last, b)
    if not c:
        raise F.FactError(pre + "computation of (char_end, byte_end) not in the recognised shape")
    ce, be, bs, wi = (re.escape(c.group(i)) for i in (1, 2, 4, 5))
    need(r"\blet\s+%s\s*=\s*self\.byte_offset\s*;" % bs, b, pre + "start of the unit is not the iterator's byte offset")
    need(r"self\.char_offset\s*=\s*%s\s*;\s*self\.byte_offset\s*=\s*%s\s*;" % (ce, be), b, pre + "offsets are not advanced as modelled")
    n = re.search(r"\blet\s+(\w+)\s*=\s*Node::new\((\w+),\s*%s,\s*u16::MAX,\s*u16::MAX,\s*i16::MAX,\s*%s\)\s*;" % (ce, re.escape(w.group(1))), b)
    if not n:
        raise F.FactError(pre + "node construction changed")
    need(r"\blet\s+%s\s*=\s*self\.char_offset\s*;" % re.escape(n.group(2)), b, pre + "start of the unit is not the iterator's char offset")
    need(r"ResultNode::new\(%s,\s*i32::MAX,\s*%s,\s*%s,\s*%s\)" % (re.escape(n.group(1)), bs, be, wi), b, pre + "result node construction changed")


def need(pattern, text, what):
    if not re.search(pattern, text, flags=re.S):
        raise F.FactError(what)


def _args(text, i):
    """arguments of the call whose `(` is at text[i]: split at top-level commas"""
    depth, cur, args, j = 0, "", [], i
    while j < len(text):
        c = text[j]
        if c in "([{":
            depth += 1
            if depth > 1:
                cur += c
        elif c in ")]}":
            depth -= 1
            if depth == 0:
                args.append(cur.strip())
                return [a for a in args if a]
            cur += c
        elif c == "," and depth == 1:
            args.append(cur.strip())
            cur = ""
        else:
            cur += c
        j += 1
    return []


def _owner(expr, body, env, seen=()):
    """which list an expression is read from: follows `let x = E;` bindings of `body`, then maps the root identifier through `env`"""
    e = re.sub(r"^\s*(&\s*mut\b|&|\*)\s*", "", expr.strip())
    root = re.match(r"[A-Za-z_][A-Za-z_0-9]*", e)
    if not root:
        return "?"
    r = root.group(0)
    if r in env:
        return env[r]
    if r in seen:
        return "?"
    m = re.search(r"\blet\s+(?:mut\s+)?%s\s*(?::[^=;]*)?=\s*([^;]*);" % re.escape(r), body)
    if m:
        return _owner(m.group(1), body, env, seen + (r,))
    return "?"


def split_into_sources(t, b, rel):
    """MorphemeList::split_into(&self, mode, index, out): where the lexicon, the field request and the input text handed to
    ResultNode::split come from (`self` = the list that holds the token, `out` = the target), through at most one helper method
    of the same file, and everything that is done to `out`."""
    sig = re.search(r"\bfn\s+split_into\s*\(\s*&self\s*,\s*\w+\s*:\s*Mode\s*,\s*\w+\s*:\s*usize\s*,\s*(\w+)\s*:\s*&mut\s+Self\s*\)", t)
    if not sig:
        raise F.FactError("split_into: signature (&self, mode, index, out: &mut Self) not recognised")
    outn = sig.group(1)
    env = {"self": "self", outn: "out"}
    body, call = b, re.search(r"\bnode\.split\s*\(", b)
    if not call:
        # one level of helper: `<recv>.<helper>(args)` whose body calls node.split
        for h in re.finditer(r"\b(self|%s)\.(\w+)\s*\(" % re.escape(outn), b):
            try:
                hb = F.fn_body(t, h.group(2), rel)
            except F.FactError:
                continue
            hc = re.search(r"\b\w+\.split\s*\(\s*mode\b", hb)
            hs = re.search(r"\bfn\s+%s\s*\(([^)]*)\)" % re.escape(h.group(2)), t)
            if not hc or not hs:
                continue
            params = [p.split(":")[0].strip() for p in hs.group(1).split(",") if ":" in p]
            actual = _args(b, h.end() - 1)
            env = {"self": env[h.group(1)]}
            for pn, av in zip(params, actual):
                env[pn] = _owner(av, b, {"self": "self", outn: "out"})
            body, call = hb, hc
            break
    if not call:
        raise F.FactError("split_into: call of ResultNode::split not found (directly or through one helper)")
    args = _args(body, body.index("(", call.start()))
    if len(args) != 4:
        raise F.FactError("split_into: ResultNode::split is not called with (mode, lexicon, subset, input)")
    lex, sub, inp = (_owner(a, body, env) for a in args[1:])
    ops = []
    datas = [m.group(1) for m in re.finditer(r"\blet\s+(?:mut\s+)?(\w+)\s*=\s*(?:&mut\s+)?%s\.nodes\.(?:mut_data\(\)|data)\s*;" % re.escape(outn), b)]
    for m in re.finditer(r"\b%s\.(\w+(?:\.\w+)*)\s*\(" % re.escape(outn), b):
        ops.append(m.group(1))
    for d in datas:
        for m in re.finditer(r"\b%s\.(\w+)\s*\(" % re.escape(d), b):
            ops.append("data." + m.group(1))
    ops = sorted(set(ops))
    mrel = "sudachi/src/analysis/morpheme.rs"
    mb = re.sub(r"\s+", "", F.fn_body(F.strip_comments(F.src(mrel)), "split_into", mrel))
    mm = re.fullmatch(r"(self\.list)\.split_into\(mode,(self\.index),(\w+)\)", mb)
    txt = "(* MorphemeList::split_into(&self, mode, index, %s): the list (self = the one that holds the token, out = the target) from which\n" % outn
    txt += "   ResultNode::split gets its lexicon / field request / input text, and the methods called on the target and its node vector *)\n"
    txt += 'Definition split_into_lexicon_of : string := "%s".\n' % lex
    txt += 'Definition split_into_subset_of : string := "%s".\n' % sub
    txt += 'Definition split_into_input_of : string := "%s".\n' % inp
    txt += "Definition split_into_target_ops : list string := [%s].\n" % "; ".join('"%s"' % o for o in ops)
    txt += "(* Morpheme::split_into(mode, out) = self.list.split_into(mode, self.index, out) *)\n"
    txt += "Definition morpheme_split_into_delegates : bool := %s.\n" % ("true" if mm else "false")
    return txt


def gen():
    out = [F.HEADER]
    out.append("Inductive cmp := CLt | CLe | CGt | CGe | CEq | CNe.\n")
    out.append("Definition cmp_eval (c : cmp) (x k : N) : bool :=\n"
               "  match c with CLt => N.ltb x k | CLe => N.leb x k | CGt => N.ltb k x | CGe => N.leb k x\n"
               "             | CEq => N.eqb x k | CNe => negb (N.eqb x k) end.\n")
    out.append("Definition cmp_eqb (a b : cmp) : bool :=\n"
               "  match a, b with CLt, CLt | CLe, CLe | CGt, CGt | CGe, CGe | CEq, CEq | CNe, CNe => true | _, _ => false end.\n\n")

    # --- stateless_tokenizer.rs :: split_path
    rel = "sudachi/src/analysis/stateless_tokenizer.rs"
    t = F.strip_comments(F.src(rel))
    b = F.fn_body(t, "split_path", rel)
    need(r"if\s+mode\s*==\s*Mode::C\s*\{\s*return\s+Ok\(path\);\s*\}", b, "split_path: `if mode == Mode::C { return Ok(path); }` not found")
    out.append("(* split_path: `if split_len <= 1 { new_path.push(node) } else { new_path.extend(node.split(..)) }` *)\n")
    out.append("Definition keep_cmp : cmp * N := %s.\n" % keep_guard(b))
    need(r"for\s+node\s+in\s+path\s*\{", b, "split_path: `for node in path` not found")

    # --- mlist.rs :: split_into
    rel = "sudachi/src/analysis/mlist.rs"
    t = F.strip_comments(F.src(rel))
    # a guard clause `if c { return Ok(false); } ...; Ok(true)` is read as `if c { Ok(false) } else { ...; Ok(true) }`
    b = R.guard_to_else(F.fn_body(t, "split_into", rel))
    need(r"let\s+num_splits\s*=\s*node\.num_splits\(mode\)\s*;", b, "split_into: `let num_splits = node.num_splits(mode)` not found")
    out.append("(* split_into: `if num_splits == 0 { Ok(false) } else { ...; Ok(true) }` *)\n")
    out.append("Definition nothing_cmp : cmp * N := %s.\n" % guard(b, "num_splits", "split_into"))
    need(r"\{\s*Ok\(false\)\s*\}\s*else\s*\{", b, "split_into: `{ Ok(false) } else {` not found")
    need(r"\}\s*else\s*\{.*Ok\(true\)\s*\}\s*$", re.sub(r"\s+", " ", b).strip(), "split_into: the splitting branch does not end with Ok(true)")
    if re.search(r"\.clear\(\)", b):
        raise F.FactError("split_into now clears a list: the model appends to `out`")
    out.append(split_into_sources(t, b, rel))

    # --- lexicon_set.rs :: update_dict_id
    rel = "sudachi/src/dic/lexicon_set.rs"
    t = F.strip_comments(F.src(rel))
    b = F.fn_body(t, "update_dict_id", rel)
    out.append("(* update_dict_id: `if cur_dict_id > 0 { *id = WordId::checked(dict_id, id.word())? }` *)\n")
    out.append("Definition restamp_cmp : cmp * N := %s.\n" % restamp_guard(t, b))
    b = F.fn_body(t, "get_word_info_subset", rel)
    need(r"if\s+subset\.contains\(InfoSubset::SPLIT_A\)\s*\{\s*Self::update_dict_id\(&mut\s+word_info\.a_unit_split,\s*dict_id\)\?;", b,
         "get_word_info_subset: re-stamping of a_unit_split not found")
    need(r"if\s+subset\.contains\(InfoSubset::SPLIT_B\)\s*\{\s*Self::update_dict_id\(&mut\s+word_info\.b_unit_split,\s*dict_id\)\?;", b,
         "get_word_info_subset: re-stamping of b_unit_split not found")

    # --- node.rs :: num_splits, split, NodeSplitIterator::next
    rel = "sudachi/src/analysis/node.rs"
    t = F.strip_comments(F.src(rel))
    b = F.fn_body(t, "num_splits", rel)
    need(r"Mode::A\s*=>\s*self\.word_info\.a_unit_split\(\)\.len\(\)\s*,\s*Mode::B\s*=>\s*self\.word_info\.b_unit_split\(\)\.len\(\)\s*,\s*Mode::C\s*=>\s*0\s*,", b,
         "num_splits: mode -> unit list selection not in the recognised shape")
    b = F.fn_body(t, "split", rel)
    need(r"Mode::A\s*=>\s*&self\.word_info\.a_unit_split\(\)\s*,\s*Mode::B\s*=>\s*&self\.word_info\.b_unit_split\(\)\s*,", b,
         "ResultNode::split: mode -> unit list selection not in the recognised shape")
    need(r"byte_offset:\s*self\.begin_bytes\s*,\s*byte_end:\s*self\.end_bytes\s*,\s*char_offset:\s*self\.begin\(\)\s+as\s+u16\s*,\s*char_end:\s*self\.end\(\)\s+as\s+u16\s*,", b,
         "ResultNode::split: iterator initialisation not in the recognised shape")
    m = re.search(r"impl\s+Iterator\s+for\s+NodeSplitIterator<'_>\s*\{(.*?)\n\}\n", t, flags=re.S)
    if not m:
        raise F.FactError("impl Iterator for NodeSplitIterator not found")
    b = F.fn_body(m.group(1), "next", rel)
    iterator_next(b)
    need(r"self\.index\s*\+=\s*1\s*;", b, "NodeSplitIterator::next: index is not advanced")
    out.append("Definition iterator_shape_recognised : bool := true.\n")

    # --- stateful_tokenizer.rs: split_path is the last stage of do_tokenize and gets the tokenizer's mode
    rel = "sudachi/src/analysis/stateful_tokenizer.rs"
    t = F.strip_comments(F.src(rel))
    b = F.fn_body(t, "do_tokenize", rel)
    need(r"path\s*=\s*split_path\(&self\.dictionary,\s*path,\s*self\.mode,\s*self\.subset,\s*&self\.input\)\?;", b,
         "do_tokenize: call of split_path not in the recognised shape")
    after = b.split("split_path(", 1)[1]
    if re.search(r"\.rewrite\(", after):
        raise F.FactError("do_tokenize: a path rewrite now runs after split_path")
    out.append("Definition split_is_last_stage : bool := true.\n")
    return "".join(out)
