import re
import facts as F

FILES = [
    "sudachi/src/input_text/buffer/mod.rs",
    "sudachi/src/input_text/buffer/edit.rs",
    "sudachi/src/analysis/stateful_tokenizer.rs",
    "sudachi/src/analysis/lattice.rs",
    "sudachi/src/analysis/created.rs",
    "sudachi/src/analysis/node.rs",
    "sudachi/src/dic/connect.rs",
    "sudachi/src/dic/lexicon/trie.rs",
    "sudachi/src/dic/lexicon/word_id_table.rs",
    "sudachi/src/plugin/oov/regex_oov/mod.rs",
    "sudachi/src/plugin/oov/mecab_oov/mod.rs",
    "sudachi/src/plugin/oov/simple_oov/mod.rs",
]

KINDS = [
    ("panic_macro", r"\b(?:panic|todo|unreachable|unimplemented)!"),
    ("unwrap", r"\.unwrap\(\)"),
    ("expect", r"\.expect\("),
    ("assert", r"(?<![_a-z])assert(?:_eq|_ne)?!"),
    ("debug_assert", r"\bdebug_assert(?:_eq|_ne)?!"),
    ("get_unchecked", r"\bget_unchecked(?:_mut)?\b"),
    ("narrowing_cast", r"\bas\s+(?:u8|u16|i8|i16|u32|i32|_)\b"),
    ("index_expr", r"[A-Za-z0-9_\)\]]\["),
]


def strip_items(text, marker):
    """remove every item that follows an attribute matching `marker` (by brace matching)"""
    out = []
    i = 0
    while True:
        m = re.search(marker, text[i:])
        if not m:
            out.append(text[i:])
            break
        out.append(text[i:i + m.start()])
        j = i + m.end()
        k = text.find("{", j)
        semi = text.find(";", j)
        if k < 0 or (0 <= semi < k):
            i = (semi + 1) if semi >= 0 else len(text)
            continue
        depth = 1
        k += 1
        while k < len(text) and depth:
            if text[k] == "{":
                depth += 1
            elif text[k] == "}":
                depth -= 1
            k += 1
        i = k
    return "".join(out)


def strip_strings(t):
    return re.sub(r'"(?:[^"\\]|\\.)*"', '""', t)


def gen():
    out = [F.HEADER]
    out.append("(* inventory of panic-capable constructs in the analysis-path files (tests and verif hooks excluded) *)\n")
    rows = []
    for rel in FILES:
        t = F.strip_comments(F.src(rel))
        t = strip_items(t, r"#\[cfg\(test\)\]")
        t = strip_items(t, r"#\[cfg\(feature\s*=\s*\"verif\"\)\]")
        t = strip_strings(t)
        t = re.sub(r"#!?\[[^\]]*\]", "", t)  # attributes
        counts = []
        for name, rx in KINDS:
            counts.append('("%s", %d%%N)' % (name, len(re.findall(rx, t))))
        rows.append('("%s",\n     [%s])' % (rel.replace("sudachi/src/", ""), "; ".join(counts)))
    out.append("Definition sites : list (string * list (string * N)) :=\n  [ %s ].\n" % ";\n    ".join(rows))
    return "".join(out)
