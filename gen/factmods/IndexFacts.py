"""Generated/IndexFacts.v: shape of the index construction of the dictionary builder
(dic/build/index.rs IndexBuilder, dic/build/mod.rs write_index, dic/build/lexicon.rs read_bytes / read_record)."""
import re
import facts as F


def _norm(s):
    return re.sub(r"\s+", "", s)


def _with_helpers(impl_text, name, rel):
    """white-space-free body of `fn name`, followed by the bodies of the PRIVATE methods of the same impl that it calls as
    `self.helper(a, b, ..)` with plain identifiers that are exactly the helper's parameter names: such a helper reads as if it
    were written in place (same names for the same values), so substring facts about the statements may look into it.
    One level deep; anything else (renamed / computed arguments, public or foreign functions) is not followed."""
    body = _norm(F.fn_body(impl_text, name, rel))
    out = body
    for hm in re.finditer(r"self\.(\w+)\(([A-Za-z_0-9,]*)\)", body):
        h, args = hm.group(1), [a for a in hm.group(2).split(",") if a]
        sig = re.search(r"(?<!pub )\bfn\s+%s\s*\(\s*&(?:mut\s+)?self\s*,?([^)]*)\)" % re.escape(h), impl_text)
        if not sig or re.search(r"\bpub(?:\([a-z]+\))?\s+fn\s+%s\b" % re.escape(h), impl_text):
            continue
        params = [p.split(":")[0].replace("mut ", "").strip() for p in sig.group(1).split(",") if p.strip()]
        if params == args:
            try:
                out += "§helper{" + _norm(F.fn_body(impl_text, h, rel)) + "}"
            except F.FactError:
                pass
    return out


def gen():
    out = [F.HEADER]
    ix = F.strip_comments(F.src("sudachi/src/dic/build/index.rs"))
    ixn = _norm(ix)
    # the map keeps insertion order
    if "data:IndexMap<&'astr,IndexEntry,FxBuildHasher>," not in ixn:
        raise F.FactError("IndexBuilder.data is no longer an IndexMap<&str, IndexEntry> (insertion-ordered)")
    # add: ids of an existing key are appended to, a new key is appended at the end
    ab = _norm(F.fn_body(ix, "add", "build/index.rs"))
    if ab == "self.data.entry(key).or_default().ids.push(id)":
        append = True
    else:
        raise F.FactError("IndexBuilder::add is no longer `data.entry(key).or_default().ids.push(id)`: %s" % ab[:120])
    out.append("(* IndexBuilder::add appends the id to the ids of an existing key (new keys go to the end of the map) *)\n")
    out.append("Definition append_to_existing : bool := %s.\n" % ("true" if append else "false"))
    # build_word_id_table: groups in map order, offset taken before the group is written
    tb = _norm(F.fn_body(ix, "build_word_id_table", "build/index.rs"))
    m = re.search(r"for\(k,entry\)inself\.data\.iter_mut\(\)\{entry\.offset=result\.len\(\);letids=std::mem::take\(&mutentry\.ids\);write_u32_array\(&mutresult,&ids\)", tb)
    if not m:
        raise F.FactError("build_word_id_table is no longer `for entries in map order { offset = result.len(); write_u32_array(ids) }`")
    out.append("Definition offset_before_write : bool := true.\n")
    # build_trie: (key, offset) of every entry, sorted by key
    bt = _norm(F.fn_body(ix, "build_trie", "build/index.rs"))
    mk = re.search(r"for\((\w+),(\w+)\)inself\.data\.drain\(\.\.\)\{", bt)
    if not mk or "trie_entries.push((%s,%s.offsetasu32));" % (mk.group(1), mk.group(2)) not in bt \
            or not re.search(r"trie_entries\.sort_by\(\|\((\w+),_\),\((\w+),_\)\|\1\.cmp\(\2\)\);", bt) \
            or "yada::builder::DoubleArrayBuilder::build(&trie_entries)" not in bt:
        raise F.FactError("build_trie no longer hands (key, table offset) of every entry, sorted by key, to the yada builder")
    out.append('Definition trie_value : string := "table-offset".\n')
    # write_index: every row, numbered over ALL rows, added when should_index; table built before the trie
    bm = F.strip_comments(F.src("sudachi/src/dic/build/mod.rs"))
    wi = _norm(F.fn_body(bm, "write_index", "build/mod.rs"))
    if "for(i,e)inself.lexicon.entries().iter().enumerate(){ife.should_index(){letwid=WordId::checked(0,iasu32)?;index.add(e.surface(),wid);}}" in wi:
        rownum = True
    else:
        raise F.FactError("write_index no longer adds (surface, position among ALL rows) of every should_index row")
    i1 = wi.find("index.build_word_id_table()?")
    i2 = wi.find("index.build_trie()?")
    if i1 < 0 or i2 < 0 or i1 > i2:
        raise F.FactError("write_index no longer builds the word id table (which fixes the offsets) before the trie")
    if "w.write_all(&(trie_sizeasu32).to_le_bytes())?;" not in wi or "w.write_all(&trie)?;" not in wi \
            or "w.write_all(&(word_id_table.len()asu32).to_le_bytes())?;" not in wi or "w.write_all(&word_id_table)?;" not in wi:
        raise F.FactError("write_index no longer writes `trie size, trie, table size, table`")
    out.append("(* the id given to a row is its position among ALL rows of the lexicon (indexed or not) *)\n")
    out.append("Definition ids_are_row_numbers : bool := %s.\n" % ("true" if rownum else "false"))
    # the rows: every CSV record becomes one entry, in order; the reader has no header line, no comment character, no trimming
    lx = F.strip_comments(F.src("sudachi/src/dic/build/lexicon.rs"))
    rb = _norm(F.fn_body(lx, "read_bytes", "build/lexicon.rs"))
    m = re.search(r"csv::ReaderBuilder::new\(\)((?:\.[a-z_]+\([^()]*(?:\([^()]*\))?[^()]*\))*)\.from_reader\(data\)", rb)
    if not m:
        raise F.FactError("read_bytes no longer builds its csv reader with ReaderBuilder::new()...from_reader(data)")
    opts = sorted(re.findall(r"\.([a-z_]+\([^()]*(?:\([^()]*\))?[^()]*\))", m.group(1)))
    if opts != ["flexible(true)", "has_headers(false)", "trim(Trim::None)"]:
        raise F.FactError("csv reader options changed (a header line, a comment character, trimming, another delimiter or quoting rule changes which lines are rows): %s" % opts)
    if "whilereader.read_record(&mutrecord)" not in rb or "self.read_record(&record)?;" not in rb:
        raise F.FactError("read_bytes no longer turns every csv record into a row")
    rr = _norm(F.fn_body(lx, "read_record", "build/lexicon.rs"))
    if not re.fullmatch(r"self\.parse_record\(data\)\.map\(\|(\w+)\|self\.entries\.push\(\1\)\)", rr):
        raise F.FactError("read_record no longer pushes every parsed record")
    out.append('Definition csv_reader_options : string := "%s".\n' % ";".join(opts))
    out.append("Definition every_record_is_a_row : bool := true.\n")
    # DictBuilder::read_lexicon hands every file to the same LexiconReader, which only ever pushes to `entries`: the records of
    # several files are kept in the order the files were read (nothing is cleared, sorted or de-duplicated in between)
    rl = _norm(F.fn_body(bm, "read_lexicon", "build/mod.rs"))
    appends = ("DataSource::File(p)=>self.lexicon.read_file(p)," in rl and "DataSource::Data(d)=>self.lexicon.read_bytes(d)," in rl
               and "self.read_bytes(&map)" in _norm(F.fn_body(lx, "read_file", "build/lexicon.rs"))
               and not re.search(r"entries\.(clear|sort\w*|dedup\w*|retain|truncate|drain|reverse|swap\w*|insert|remove)\(", _norm(lx))
               and len(re.findall(r"self\.entries\.push\(", _norm(lx))) == 1)
    out.append("Definition read_lexicon_appends : bool := %s.\n" % ("true" if appends else "false"))
    # ---- the dictionary half of LatticeBuilder::build_lattice (Model/DictCands.v)
    st = F.strip_comments(F.src("sudachi/src/analysis/stateful_tokenizer.rs"))
    m = re.search(r"impl<'a>\s*LatticeBuilder<'a>\s*\{(.*)", st, flags=re.S)
    if not m:
        raise F.FactError("impl LatticeBuilder not found")
    bl = _with_helpers(m.group(1), "build_lattice", "stateful_tokenizer.rs")
    want = [
        "letinput_bytes=self.input.current().as_bytes();",
        "for(ch_off,&byte_off)inself.input.curr_byte_offsets().iter().enumerate(){if!self.lattice.has_previous_node(ch_off){continue;}",
        "foreinself.lexicon.lookup(input_bytes,byte_off){if(e.end<input_bytes.len())&&!self.input.can_bow(e.end){continue;}",
        "let(left_id,right_id,cost)=self.lexicon.get_word_param(e.word_id);letend_c=self.input.ch_idx(e.end);"
        "letnode=Node::new(ch_offasu16,end_casu16,left_idasu16,right_idasu16,cost,e.word_id,);",
        "self.lattice.insert(node,self.matrix);",
    ]
    for w in want:
        if w not in bl:
            raise F.FactError("build_lattice no longer makes its dictionary nodes as `lookup at byte_off; skip if end < len && !can_bow(end); Node::new(ch_off, ch_idx(end), params)`: missing %s" % w[:70])
    ib = F.strip_comments(F.src("sudachi/src/input_text/buffer/mod.rs"))
    if _norm(F.fn_body(ib, "ch_idx", "buffer/mod.rs")).replace("debug_assert_eq!(self.state,BufferState::RO);", "") != "self.mod_b2c[idx]":
        raise F.FactError("InputBuffer::ch_idx is no longer mod_b2c[idx]")
    cb = _norm(F.fn_body(ib, "curr_byte_offsets", "buffer/mod.rs")).replace("debug_assert_eq!(self.state,BufferState::RO);", "")
    if cb != "letlen=self.mod_c2b.len();&self.mod_c2b[0..len-1]":
        raise F.FactError("InputBuffer::curr_byte_offsets is no longer mod_c2b without its sentinel")
    out.append('Definition lattice_lookup_shape : string := "lookup(mod_c2b[ch_off]);skip(end<len&&!can_bow(end));node(ch_off,mod_b2c[end])".\n')
    return "".join(out)
