import re
import facts as F


def to_coq_expr(e, names):
    """translate a Rust `a * b + c` expression over the given identifiers into Coq N arithmetic"""
    e = e.strip()
    for rust, coq in names.items():
        e = re.sub(r"(?<![\w.])%s\b" % re.escape(rust), coq, e)
    if not re.fullmatch(r"[a-z_\s()+*]+", e):
        raise F.FactError("index expression not affine over known names: %r" % e)
    return e


def _block(t, i):
    """(body, index after the closing brace) of the `{` at t[i]"""
    d = 0
    for k in range(i, len(t)):
        if t[k] == "{":
            d += 1
        elif t[k] == "}":
            d -= 1
            if d == 0:
                return t[i + 1:k], k + 1
    raise F.FactError("connect_node: unbalanced braces")


def skips_unconnected(cn):
    """The fact: in the loop over the left nodes, the cost of a node that is not connected to BOS is never computed nor
    compared.  Two spellings of the same control flow are read:
      for .. { if !l_node.is_connected_to_bos() { continue; } <rest with conn.cost / the update> }
      for .. { if l_node.is_connected_to_bos() { <all of conn.cost / the update> } }       (no else, nothing after the if)
    In both, every use of conn.cost, new_cost and every assignment to min_cost / prev_idx inside the loop is under the guard."""
    m = re.search(r"for\s*\(\s*\w+\s*,\s*l_node\s*\)\s*in\s+self\.ends\[begin\]\.iter\(\)\.enumerate\(\)\s*\{", cn)
    if not m:
        # third spelling: the loop runs over `self.ends[begin].iter().enumerate().filter(|(_, n)| n.is_connected_to_bos())`
        # (enumerate BEFORE the filter, so the indices are the positions in the row; nothing after the filter), written in
        # the loop header or bound to a local that is used by the loop only
        src = (r"self\.ends\[begin\]\s*\.iter\(\)\s*\.enumerate\(\)\s*\.filter\(\s*\|\s*&?\s*\(\s*_\s*,\s*(\w+)\s*\)\s*\|"
               r"\s*(\w+)\.is_connected_to_bos\(\)\s*\)")
        head = r"for\s*\(\s*\w+\s*,\s*l_node\s*\)\s*in\s+"
        f = re.search(head + src + r"\s*\{", cn)
        if f and f.group(1) == f.group(2):
            end = f.end()
        else:
            f = re.search(r"let\s+(\w+)\s*=\s*" + src + r"\s*;", cn)
            if not f or f.group(2) != f.group(3):
                return False
            v = f.group(1)
            g = re.search(head + re.escape(v) + r"\s*\{", cn[f.end():])
            if not g or len(re.findall(r"(?<![\w\.])%s(?!\w)" % re.escape(v), cn)) != 2:
                return False
            end = f.end() + g.end()
        body, _ = _block(cn, end - 1)
        return re.search(r"conn\.cost\(|\bnew_cost\b|\bmin_cost\s*=[^=]|\bprev_idx\s*=[^=]", body) is not None
    body, _ = _block(cn, m.end() - 1)
    work = r"conn\.cost\(|\bnew_cost\b|\bmin_cost\s*=[^=]|\bprev_idx\s*=[^=]"
    g = re.match(r"\s*if\s+!\s*l_node\.is_connected_to_bos\(\)\s*\{\s*continue\s*;\s*\}", body)
    if g:
        return re.search(work, body[g.end():]) is not None
    g = re.match(r"\s*if\s+l_node\.is_connected_to_bos\(\)\s*\{", body)
    if g:
        inner, after = _block(body, g.end() - 1)
        return body[after:].strip() == "" and re.search(work, inner) is not None
    return False


def gen():
    t = F.strip_comments(F.src("sudachi/src/dic/connect.rs"))
    body = F.fn_body(t, "index", "dic/connect.rs")
    if not re.search(r"let\s+uleft\s*=\s*left\s+as\s+usize\s*;", body) or not re.search(r"let\s+uright\s*=\s*right\s+as\s+usize\s*;", body):
        raise F.FactError("ConnectionMatrix::index: uleft/uright bindings not recognised")
    m = re.search(r"let\s+index\s*=\s*([^;]+);", body)
    if not m:
        raise F.FactError("ConnectionMatrix::index: `let index = ...` not found")
    expr = to_coq_expr(m.group(1), {"uleft": "left", "uright": "right", "self.num_left": "num_left", "self.num_right": "num_right"})
    cost = F.fn_body(t, "cost", "dic/connect.rs")
    if not re.search(r"self\.index\(\s*left\s*,\s*right\s*\)", cost):
        raise F.FactError("ConnectionMatrix::cost no longer calls self.index(left, right)")
    out = [F.HEADER, "Open Scope N_scope.\n"]
    out.append("(* ConnectionMatrix::index(left, right) of dic/connect.rs: `%s` *)\n" % m.group(1).strip())
    out.append("Definition conn_index (left right num_left num_right : N) : N := %s.\n" % expr)
    # call site in the Viterbi search: which ids are passed as (left, right)
    lt = F.strip_comments(F.src("sudachi/src/analysis/lattice.rs"))
    cn = F.fn_body(lt, "connect_node", "analysis/lattice.rs")
    mc = re.search(r"conn\.cost\(\s*([a-z_]+)\.([a-z_]+)\(\)\s*,\s*([a-z_]+)\.([a-z_]+)\(\)\s*\)", cn)
    if not mc:
        raise F.FactError("connect_node: conn.cost(..) call not recognised")
    order = "%s.%s,%s.%s" % mc.groups()
    out.append('(* connect_node calls conn.cost(%s) *)\n' % order)
    out.append('Definition connect_call : string := "%s".\n' % order)
    # `new_cost < min_cost`, or the same comparison written from the other side (`min_cost > new_cost`)
    mcmp = re.search(r"if\s+new_cost\s*(<=|<)\s*min_cost\b", cn)
    cmp_op = mcmp.group(1) if mcmp else None
    if not mcmp:
        mrev = re.search(r"if\s+min_cost\s*(>=|>)\s*new_cost\b", cn)
        cmp_op = {">": "<", ">=": "<="}[mrev.group(1)] if mrev else None
    if cmp_op is None:
        raise F.FactError("connect_node: comparison new_cost < min_cost not recognised")
    out.append('Definition connect_cmp : string := "%s".\n' % cmp_op)
    if not re.search(r"let\s+new_cost\s*=\s*l_node\.total_cost\(\)\s*\+\s*connect_cost\s*\+\s*node_cost\s*;", cn):
        raise F.FactError("connect_node: new_cost is no longer total + connect_cost + node_cost")
    if not skips_unconnected(cn):
        raise F.FactError("connect_node: unconnected-node skip not recognised")
    # EOS node parameters
    ce = F.fn_body(lt, "connect_eos", "analysis/lattice.rs")
    # the fact is the (left_id, right_id, cost) arguments; the two position arguments may be spelled with any locals
    me = re.search(r"Node::new\(\s*[^,;{}]+,\s*[^,;{}]+,\s*(\d+)\s*,\s*(\d+)\s*,\s*(\d+)\s*,\s*WordId::EOS\s*\)", ce)
    if me and len(re.findall(r"Node::new\(", ce)) != 1:
        me = None
    if not me:
        raise F.FactError("connect_eos: EOS node parameters not recognised")
    out.append("Definition eos_left : N := %s%%N.\nDefinition eos_right : N := %s%%N.\nDefinition eos_cost : Z := %s%%Z.\n" % me.groups())
    mb = re.search(r"VNode::new\(\s*(\d+)\s*,\s*(\d+)\s*\)", F.fn_body(lt, "connect_bos", "analysis/lattice.rs"))
    if not mb:
        raise F.FactError("connect_bos: BOS VNode not recognised")
    out.append("Definition bos_right : N := %s%%N.\nDefinition bos_total : Z := %s%%Z.\n" % mb.groups())
    return "".join(out)
