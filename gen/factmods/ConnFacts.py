import re
import facts as F


def to_coq_expr(e, names):
    """translate a Rust `a * b + c` expression over the given identifiers into Coq N arithmetic"""
    e = e.strip()
    for rust, coq in names.items():
        e = re.sub(r"(?<![\w.])%s\b" % re.escape(rust), coq, e)
    if not re.fullmatch(r"[a-z_\s()+*]+", e):
        raise F.FactError("index expression not affine over known names: %r" % e)
    return e


def gen():
    t = F.strip_comments(F.src("sudachi/src/dic/connect.rs"))
    body = F.fn_body(t, "index", "dic/connect.rs")
    if not re.search(r"let\s+uleft\s*=\s*left\s+as\s+usize\s*;", body) or not re.search(r"let\s+uright\s*=\s*right\s+as\s+usize\s*;", body):
        raise F.FactError("ConnectionMatrix::index: uleft/uright bindings not recognised")
    m = re.search(r"let\s+index\s*=\s*([^;]+);", body)
    if not m:
        raise F.FactError("ConnectionMatrix::index: `let index = ...` not found")
    expr = to_coq_expr(m.group(1), {"uleft": "left", "uright": "right", "self.num_left": "num_left", "self.num_right": "num_right"})
    cost = F.fn_body(t, "cost", "dic/connect.rs")
    if not re.search(r"self\.index\(\s*left\s*,\s*right\s*\)", cost):
        raise F.FactError("ConnectionMatrix::cost no longer calls self.index(left, right)")
    out = [F.HEADER, "Open Scope N_scope.\n"]
    out.append("(* ConnectionMatrix::index(left, right) of dic/connect.rs: `%s` *)\n" % m.group(1).strip())
    out.append("Definition conn_index (left right num_left num_right : N) : N := %s.\n" % expr)
    # call site in the Viterbi search: which ids are passed as (left, right)
    lt = F.strip_comments(F.src("sudachi/src/analysis/lattice.rs"))
    cn = F.fn_body(lt, "connect_node", "analysis/lattice.rs")
    mc = re.search(r"conn\.cost\(\s*([a-z_]+)\.([a-z_]+)\(\)\s*,\s*([a-z_]+)\.([a-z_]+)\(\)\s*\)", cn)
    if not mc:
        raise F.FactError("connect_node: conn.cost(..) call not recognised")
    order = "%s.%s,%s.%s" % mc.groups()
    out.append('(* connect_node calls conn.cost(%s) *)\n' % order)
    out.append('Definition connect_call : string := "%s".\n' % order)
    # `new_cost < min_cost`, or the same comparison written from the other side (`min_cost > new_cost`)
    mcmp = re.search(r"if\s+new_cost\s*(<=|<)\s*min_cost\b", cn)
    cmp_op = mcmp.group(1) if mcmp else None
    if not mcmp:
        mrev = re.search(r"if\s+min_cost\s*(>=|>)\s*new_cost\b", cn)
        cmp_op = {">": "<", ">=": "<="}[mrev.group(1)] if mrev else None
    if cmp_op is None:
        raise F.FactError("connect_node: comparison new_cost < min_cost not recognised")
    out.append('Definition connect_cmp : string := "%s".\n' % cmp_op)
    if not re.search(r"let\s+new_cost\s*=\s*l_node\.total_cost\(\)\s*\+\s*connect_cost\s*\+\s*node_cost\s*;", cn):
        raise F.FactError("connect_node: new_cost is no longer total + connect_cost + node_cost")
    if not re.search(r"if\s+!l_node\.is_connected_to_bos\(\)\s*\{\s*continue;", cn):
        raise F.FactError("connect_node: unconnected-node skip not recognised")
    # EOS node parameters
    ce = F.fn_body(lt, "connect_eos", "analysis/lattice.rs")
    me = re.search(r"Node::new\(\s*eos_start\s*,\s*eos_end\s*,\s*(\d+)\s*,\s*(\d+)\s*,\s*(\d+)\s*,", ce)
    if not me:
        raise F.FactError("connect_eos: EOS node parameters not recognised")
    out.append("Definition eos_left : N := %s%%N.\nDefinition eos_right : N := %s%%N.\nDefinition eos_cost : Z := %s%%Z.\n" % me.groups())
    mb = re.search(r"VNode::new\(\s*(\d+)\s*,\s*(\d+)\s*\)", F.fn_body(lt, "connect_bos", "analysis/lattice.rs"))
    if not mb:
        raise F.FactError("connect_bos: BOS VNode not recognised")
    out.append("Definition bos_right : N := %s%%N.\nDefinition bos_total : Z := %s%%Z.\n" % mb.groups())
    return "".join(out)
