#!/usr/bin/env python3
"""Fact translator: re-reads /repo's current sources and writes coq/Generated/*.v.

Each extractor is narrow and named.  It either yields its fact or raises FactError
("pattern not found in <file>"): a fact whose shape is no longer recognised breaks the tie
between model and code and is reported by the check like a broken proof.

Usage: facts.py [--repo /repo] [--out /verif/coq/Generated] [name ...]
Prints one line per fact file: "ok <name>" or "FAIL <name>: <reason>".
"""
import os
import re
import sys

REPO = os.environ.get("VERIF_REPO", "/repo")
# on a failed extraction keep the file of the last successful one (set by the check driver; the command line writes the stub)
KEEP_LAST_GOOD = False
OUT = os.path.join(os.path.dirname(os.path.abspath(__file__)), "..", "coq", "Generated")


class FactError(Exception):
    pass


def src(rel):
    p = os.path.join(REPO, rel)
    try:
        with open(p, encoding="utf-8") as f:
            t = f.read()
    except OSError as e:
        raise FactError("cannot read %s: %s" % (rel, e))
    # locals / closure parameters that were merely renamed are read under the names recorded for the pinned tree
    # (gen/localnames.py; a no-op on the pinned tree itself)
    import localnames
    return localnames.restore(rel, t, _segments)


def _segments(t):
    """split Rust text into ('code' | 'comment' | 'string', text) pieces (strings: "..", r#".."#, b"..", char literals)"""
    out, cur = [], []
    i, n = 0, len(t)

    def flush():
        if cur:
            out.append(("code", "".join(cur)))
            del cur[:]
    while i < n:
        c = t[i]
        if t.startswith("//", i):
            j = t.find("\n", i)
            j = n if j < 0 else j
            flush()
            out.append(("comment", t[i:j]))
            i = j
        elif t.startswith("/*", i):
            depth, j = 1, i + 2
            while j < n and depth:
                if t.startswith("/*", j):
                    depth, j = depth + 1, j + 2
                elif t.startswith("*/", j):
                    depth, j = depth - 1, j + 2
                else:
                    j += 1
            flush()
            out.append(("comment", t[i:j]))
            i = j
        elif c == '"' or (c in "rb" and re.match(r'(?:b?r#*"|b")', t[i:i + 6]) and (i == 0 or not (t[i - 1].isalnum() or t[i - 1] == "_"))):
            m = re.match(r'b?r(#*)"', t[i:])
            if m:
                end = '"' + m.group(1)
                j = t.find(end, i + len(m.group(0)))
                j = n if j < 0 else j + len(end)
            else:
                j = i + (2 if c == "b" else 1)
                while j < n and t[j] != '"':
                    j += 2 if t[j] == "\\" else 1
                j += 1
            flush()
            out.append(("string", t[i:j]))
            i = j
        elif c == "'":
            m = re.match(r"'(?:\\(?:u\{[0-9a-fA-F]+\}|x[0-9a-fA-F]{2}|.)|[^\\'])'", t[i:])
            if m:
                flush()
                out.append(("string", m.group(0)))
                i += len(m.group(0))
            else:
                cur.append(c)
                i += 1
        else:
            cur.append(c)
            i += 1
    flush()
    return out


def _close(t, i):
    """index just after the parenthesis matching the `(` at t[i]; -1 if none (t: code with literals already masked)"""
    d = 0
    for k in range(i, len(t)):
        if t[k] == "(":
            d += 1
        elif t[k] == ")":
            d -= 1
            if d == 0:
                return k + 1
    return -1


def _nested(depth):
    p = r"\([^(){}\n]*\)"
    for _ in range(depth):
        p = r"\((?:[^(){}\n]|" + p + r")*\)"
    return p


_NESTED = _nested(4)


def canon(s):
    """spellings that mean the same are brought to one form, so that extractors written for the form rustfmt + the authors
    use today do not react to a harmless rewrite:  `Err(e)?;` as a statement -> `return Err(e);`,  `x.len() == 0` ->
    `x.is_empty()`,  `x.len() != 0` / `x.len() > 0` -> `!x.is_empty()`,  a method chain broken over lines is joined"""
    # literals are masked while rewriting (their content is put back afterwards)
    lits = []

    def mask(m):
        lits.append(m)
        return "\x00%d\x00" % (len(lits) - 1)
    parts = []
    for kind, seg in _segments(s):
        parts.append(mask(seg) if kind == "string" else seg)
    t = "".join(parts)
    t = re.sub(r"([)\]?}\w])[ \t]*\n[ \t]*\.(?=[A-Za-z_]\w*)", r"\1.", t)
    path = r"[A-Za-z_][\w]*(?:(?:\.|::)[A-Za-z_]\w*|\[[^\[\]\n]*\]|\(\))*"
    t = re.sub(r"(?<![\w.!])(" + path + r")\.len\(\) == 0\b", r"\1.is_empty()", t)
    t = re.sub(r"(?<![\w.!])(" + path + r")\.len\(\) (?:!= 0|> 0)\b", r"!\1.is_empty()", t)
    # a comparison with a literal / constant on the left is turned round (`0 > left` -> `left < 0`)
    const = r"(?:\d[\d_]*(?:[ui](?:8|16|32|64|size))?|(?:[A-Za-z_]\w*::)*[A-Z][A-Z0-9_]{2,}(?: as [a-z_0-9]+)?)"
    flip = {"<": ">", ">": "<", "<=": ">=", ">=": "<="}

    def turn(m):
        rhs = m.group(4)
        if re.fullmatch(const, rhs.strip()) or "<" in rhs or ">" in rhs or "=" in rhs:
            return m.group(0)
        return "%s%s %s %s" % (m.group(1), rhs.strip(), flip[m.group(3)], m.group(2))
    t = re.sub(r"((?:\bif |\bwhile |&& |\|\| |[(!]))(" + const + r") (<=|>=|<|>) ((?:[^;{}&|\n(),]|\((?:[^()\n]|\([^()\n]*\))*\))+?)(?= \{| &&| \|\||\)|,)", turn, t)
    # `if !(c) { A } else { B }` / `if !c { A } else { B }` (plain else block) -> `if c { B } else { A }`
    def brace_end(i):
        d = 0
        for k in range(i, len(t)):
            if t[k] == "{":
                d += 1
            elif t[k] == "}":
                d -= 1
                if d == 0:
                    return k + 1
        return -1
    changed = True
    while changed:
        changed = False
        for m in re.finditer(r"\bif !(" + _NESTED + r"|[A-Za-z_][\w.]*(?:\([^(){}\n]*\))?(?:\.[a-z_]+\([^(){}\n]*\))*) (?=\{)", t):
            if re.search(r"else\s*$", t[:m.start()]):
                continue
            b1 = m.end()
            e1 = brace_end(b1)
            m2 = re.match(r"\s*else\s*(?=\{)", t[e1:]) if e1 > 0 else None
            if not m2:
                continue
            b2 = e1 + m2.end()
            e2 = brace_end(b2)
            if e2 < 0:
                continue
            cond = m.group(1)
            if cond.startswith("(") and cond.endswith(")"):
                cond = cond[1:-1]
            t = t[:m.start()] + "if " + cond + " " + t[b2:e2] + " else " + t[b1:e1] + t[e2:]
            changed = True
            break
    out, pos = [], 0
    for m in re.finditer(r"(?<![\w.:])Err\(", t):
        if m.start() < pos:
            continue
        e = _close(t, m.end() - 1)
        if e > 0 and t[e:e + 2] == "?;" and re.search(r"(?:^|[;{}])\s*$", t[:m.start()]):
            out.append(t[pos:m.start()] + "return " + t[m.start():e] + ";")
            pos = e + 2
    out.append(t[pos:])
    t = "".join(out)
    return re.sub(r"\x00(\d+)\x00", lambda m: lits[int(m.group(1))], t)


def strip_comments(s, canonical=True):
    """comments removed (never inside string / char literals), equivalent spellings canonicalised (see canon; not with
    canonical=False, for facts that pin the text of a whole function body).
    A block comment leaves no gap behind an opening bracket, a comma or white space, and a single space elsewhere."""
    out = []
    segs = _segments(s)
    for k, (kind, seg) in enumerate(segs):
        if kind != "comment":
            out.append(seg)
        elif seg.startswith("/*"):
            prev = "".join(out)[-1:] if out else ""
            if prev in "([{,!&*" or prev.isspace() or prev == "":
                if k + 1 < len(segs) and segs[k + 1][0] == "code":
                    segs[k + 1] = ("code", segs[k + 1][1].lstrip(" \t"))
            else:
                out.append(" ")
    return canon("".join(out)) if canonical else "".join(out)


def _binders(body):
    """names bound inside a function body: let / let mut (incl. tuple patterns), closure parameters, for-loop and
    if-let / match-arm variables are NOT included (only plain lets and closures: what a maintainer renames freely)"""
    names = []
    for m in re.finditer(r"\blet\s+(?:mut\s+)?(\(([^()]*)\)|[a-z_][a-z_0-9]*)", body):
        for n in re.findall(r"[a-z_][a-z_0-9]*", m.group(2) if m.group(2) is not None else m.group(1)):
            if n not in ("mut", "_") and n not in names:
                names.append(n)
    for m in re.finditer(r"\|((?:\s*&?(?:mut\s+)?\(?[a-z_][a-z_0-9]*\)?\s*,?)+)\|", body):
        for n in re.findall(r"[a-z_][a-z_0-9]*", m.group(1)):
            if n not in ("mut", "_") and n not in names:
                names.append(n)
    return names


def same_shape(body, expected):
    """`expected` is white-space-free text; true iff the body (comments stripped, spellings canonicalised, white space removed)
    equals it up to a consistent renaming of the body's local names (a pinned function body does not pin how its locals are called)"""
    text = strip_comments(body)
    if re.sub(r"\s+", "", text) == expected:
        return True
    names = _binders(text)
    if not names:
        return False
    seen, pat = {}, []
    for kind, seg in _segments(text):
        if kind != "code":
            pat.append(re.escape(re.sub(r"\s+", "", seg)) if kind == "comment" else re.escape(seg))
            continue
        for tok in re.findall(r"[A-Za-z_][A-Za-z_0-9]*|\s+|.", seg, flags=re.S):
            if tok.isspace():
                continue
            if tok in names:
                # not a field / method / path segment of the same spelling
                prev = pat[-1] if pat else ""
                if prev.endswith("\\.") and not prev.endswith("\\.\\."):
                    pat.append(re.escape(tok))
                elif tok in seen:
                    pat.append("(?P=%s)" % seen[tok])
                else:
                    seen[tok] = "v%d" % len(seen)
                    pat.append("(?P<%s>[A-Za-z_][A-Za-z_0-9]*)" % seen[tok])
            else:
                pat.append(re.escape(tok))
    try:
        return re.fullmatch("".join(pat), expected) is not None
    except re.error:
        return False


_FLIP = {"==": "==", "!=": "!=", "<": ">", ">": "<", "<=": ">=", ">=": "<="}


def cmp_alt(a, b, tag, ops=(">=", "<=", "==", "!=", ">", "<")):
    """regex for the comparison `a <op> b` written from either side (`a >= b` or `b <= a`); a, b: regex fragments without
    named groups (back references are fine); the operator, read with `a` on the left, is cmp_op(match, tag)"""
    alt = lambda xs: "|".join(re.escape(x) for x in sorted(xs, key=len, reverse=True))
    return r"(?:%s\s*(?P<%s>%s)\s*%s|%s\s*(?P<%s_r>%s)\s*%s)" % (a, tag, alt(ops), b, b, tag, alt(_FLIP[o] for o in ops), a)


def cmp_op(m, tag):
    return m.group(tag) or _FLIP[m.group(tag + "_r")]


def inline_lets(body):
    """a function body with the `let` bindings that merely NAME a sub-expression put back in place (a maintainer binds
    `&path[end - 1]` to `last`; the extractors are written for the expression).  Only bindings whose inlining cannot change
    the meaning are touched: not `mut`, bound once, never assigned, and either
      (A) a shared reference to a place, `let x = &v[..]` / `&v[i].f` -- while x is alive the borrow checker forbids changes
          of v, so every use of x reads what the expression reads at that point; or
      (B) arithmetic over integer literals and identifiers that are not assigned, borrowed `&mut` or re-bound anywhere in the
          scope of the binding (to the end of the enclosing block).
    A use `x.f` becomes `v[..].f` (auto-deref), any other use `&v[..]`; (B) is put in parentheses."""
    ident = r"[A-Za-z_]\w*"
    place = r"%s(?:\s*\[[^\[\]]*\]|\s*\.\s*%s(?!\s*\())*" % (ident, ident)
    for _ in range(12):
        done = True
        for m in re.finditer(r"\blet\s+(%s)\s*(?::[^=;]+)?=\s*([^;{}]+);" % ident, body):
            name, rhs = m.group(1), m.group(2).strip()
            if name in ("mut", "_") or len(re.findall(r"\b(?:let|for)\s+(?:mut\s+)?\(?[^=;]*?\b%s\b[^=;]*?(?:=|\bin\b)" % re.escape(name), body)) != 1:
                continue
            if re.search(r"(?<![.\w])%s\s*(?:[-+*/%%|&^]|<<|>>)?=(?!=)" % re.escape(name), body[m.end():]) or re.search(r"&mut\s+%s\b" % re.escape(name), body) or re.search(r"\|[^|]*\b%s\b[^|]*\|" % re.escape(name), body):
                continue
            a = re.fullmatch(r"&\s*(%s)" % place, rhs)
            b_ = re.fullmatch(r"(?:%s|\d[\d_]*|[-+*() ]|\s)+" % ident, rhs) if not a else None
            if a:
                expr = re.sub(r"\s+", " ", a.group(1))
                use_dot, use_other = expr, "&" + expr
            elif b_ and re.search(r"[-+*]", rhs):
                roots = set(re.findall(ident, rhs))
                # the scope of the binding: up to the end of the enclosing block; nothing in it may assign, borrow mutably
                # or re-bind an operand (then every use of the name reads what the expression reads there)
                d, e = 0, len(body)
                for k in range(m.end(), len(body)):
                    if body[k] == "{":
                        d += 1
                    elif body[k] == "}":
                        d -= 1
                        if d < 0:
                            e = k
                            break
                scope = body[m.end():e]
                if any(re.search(r"(?<![.\w])%s\s*(?:[-+*/%%|&^]|<<|>>)?=(?!=)" % re.escape(r), scope) or re.search(r"&mut\s+%s\b" % re.escape(r), scope)
                       or re.search(r"\b(?:let|for)\s+(?:mut\s+)?\(?[^=;]*?\b%s\b" % re.escape(r), scope) for r in roots):
                    continue
                use_dot = use_other = "(" + re.sub(r"\s+", " ", rhs) + ")"
            else:
                continue
            rest = body[m.end():]
            rest = re.sub(r"(?<![.\w])%s(?=\s*\.(?!\.))" % re.escape(name), lambda _m: use_dot, rest)
            rest = re.sub(r"(?<![.\w])%s\b(?!\s*[:(])" % re.escape(name), lambda _m: use_other, rest)
            body = body[:m.start()] + rest
            done = False
            break
        if done:
            break
    return body


def fn_body(text, name, rel="?"):
    """body (between the outermost braces) of `fn name`; signatures may contain `;` inside brackets (e.g. `[T; N]`)"""
    pos = 0
    while True:
        m = re.search(r"\bfn\s+%s\b" % re.escape(name), text[pos:])
        if not m:
            raise FactError("fn %s not found in %s" % (name, rel))
        i = pos + m.end()
        depth = 0
        start = None
        while i < len(text):
            c = text[i]
            if c in "([":
                depth += 1
            elif c in ")]":
                depth -= 1
            elif c == "{" and depth == 0:
                start = i + 1
                break
            elif c == ";" and depth == 0:
                break  # a declaration without body (trait method): look for the next occurrence
            i += 1
        if start is None:
            pos = i + 1
            if pos >= len(text):
                raise FactError("fn %s has no body in %s" % (name, rel))
            continue
        i = start
        depth = 1
        while i < len(text) and depth:
            c = text[i]
            if c == "{":
                depth += 1
            elif c == "}":
                depth -= 1
            i += 1
        if depth:
            raise FactError("unbalanced braces in fn %s of %s" % (name, rel))
        return text[start:i - 1]


def _split_args(t):
    """top-level comma separated pieces of t (brackets and string / char literals respected)"""
    out, cur, depth = [], [], 0
    for kind, seg in _segments(t):
        if kind != "code":
            cur.append(seg)
            continue
        for c in seg:
            if c in "([{":
                depth += 1
            elif c in ")]}":
                depth -= 1
            if c == "," and depth == 0:
                out.append("".join(cur).strip())
                cur = []
            else:
                cur.append(c)
    last = "".join(cur).strip()
    if last:
        out.append(last)
    return out


def _fn_def(text, name):
    """(text before `fn` on its line, parameter texts, body) of the ONLY definition of fn `name` with a body in text, else None"""
    defs = list(re.finditer(r"\bfn\s+%s\b" % re.escape(name), text))
    if len(defs) != 1:
        return None
    m = defs[0]
    i = text.find("(", m.end())
    if i < 0 or text[m.end():i].strip() not in ("",) and not text[m.end():i].strip().startswith("<"):
        return None
    e = _close(text, i)
    if e < 0:
        return None
    try:
        body = fn_body(text, name)
    except FactError:
        return None
    line_start = text.rfind("\n", 0, m.start()) + 1
    return text[line_start:m.start()], _split_args(text[i + 1:e - 1]), body


def inline_calls(text, body, skip=(), depth=2):
    """`body` with the calls of PRIVATE helper functions of the same file replaced by the helper's body in braces, parameters
    replaced by the argument texts -- so that an extractor reads a check that was moved into a helper as if it stood where it
    is called.  Done only where that reading is evidently right: the helper is defined once in `text`, is not `pub`, does not
    call itself, takes plain `name: Type` parameters (an `&self` receiver only for a `self.helper(..)` call) that it never
    assigns or borrows mutably, the argument count fits, and a helper containing `return` is inlined only where the call is
    followed by `?` (its early returns are then early returns of the caller).  Everything else is left as it is."""
    for _ in range(depth):
        changed = False
        for m in list(re.finditer(r"(?:\bSelf::|\bself\.|(?<![\w.:!]))([a-z_][a-z_0-9]*)\(", body)):
            name = m.group(1)
            if name in skip or name in ("if", "while", "match", "for", "return", "loop", "fn", "Some", "Ok", "Err"):
                continue
            d = _fn_def(text, name)
            if d is None:
                continue
            prefix, params, hbody = d
            if re.search(r"\bpub\b", prefix) or re.search(r"(?:\bSelf::|\bself\.|(?<![\w.:]))%s\(" % re.escape(name), hbody):
                continue
            e = _close(body, m.end() - 1)
            if e < 0:
                continue
            args = _split_args(body[m.end():e - 1])
            method = m.group(0).startswith("self.")
            if params and re.fullmatch(r"&?\s*(?:mut\s+)?self", params[0]):
                if not method:
                    continue
                params = params[1:]
            elif method:
                continue
            names = []
            for prm in params:
                mp = re.fullmatch(r"([a-z_][a-z_0-9]*)\s*:\s*[^=]+", prm, flags=re.S)
                if not mp:
                    names = None
                    break
                names.append(mp.group(1))
            if names is None or len(names) != len(args):
                continue
            if any(re.search(r"(?<![\w.])%s\s*(?:[-+*/|&^]|<<|>>)?=(?!=)|&mut\s+%s\b" % (re.escape(n), re.escape(n)), hbody) for n in names):
                continue
            # early returns of the helper are early returns of the caller when the call is followed by `?` or is the caller's
            # tail expression
            if re.search(r"\breturn\b", hbody) and not body[e:].lstrip().startswith("?") and body[e:].strip() != "":
                continue
            inl = hbody
            # all parameters at once (an argument text may contain the name of another parameter)
            amap = dict(zip(names, args))

            def sub(mm):
                a = amap[mm.group(1)]
                after = mm.string[mm.end():mm.end() + 1]
                if a.startswith("&") and after == ".":
                    a = re.sub(r"^&\s*(?:mut\s+)?", "", a)      # a receiver is borrowed automatically
                if re.fullmatch(r"&?\*?[A-Za-z_][\w.:]*(?:\(\))?|-?[0-9][\w.]*|\"[^\"]*\"", a):
                    return a
                return "(" + a + ")"
            if names:
                pat = r"(?<![\w.])(%s)\b(?!\s*:(?!:))" % "|".join(re.escape(n) for n in names)
                inl = "".join(re.sub(pat, sub, seg) if kind == "code" else seg for kind, seg in _segments(inl))
            body = body[:m.start()] + "{" + inl + "}" + body[e:]
            changed = True
            break
        if not changed:
            break
    return body


INT_MAX = {
    "u8": 2**8 - 1, "u16": 2**16 - 1, "u32": 2**32 - 1, "u64": 2**64 - 1,
    "i8": 2**7 - 1, "i16": 2**15 - 1, "i32": 2**31 - 1, "i64": 2**63 - 1,
    "usize": 2**64 - 1,
}
INT_MIN = {"i8": -2**7, "i16": -2**15, "i32": -2**31, "i64": -2**63, "u8": 0, "u16": 0, "u32": 0, "u64": 0, "usize": 0}


def const_eval(expr, env=None):
    """evaluate a Rust constant integer expression (literals, T::MAX/MIN, `as T`, + - * / << |, names in env)"""
    env = env or {}
    e = strip_comments(expr).strip()
    e = re.sub(r"\bas\s+[a-z0-9]+", "", e)
    e = re.sub(r"\b([iu](?:8|16|32|64|size))::MAX\b", lambda m: str(INT_MAX[m.group(1)]), e)
    e = re.sub(r"\b([iu](?:8|16|32|64|size))::MIN\b", lambda m: "(%d)" % INT_MIN[m.group(1)], e)
    e = re.sub(r"\b(0x[0-9a-fA-F_]+|0b[01_]+|[0-9][0-9_]*)(?:[iu](?:8|16|32|64|size))?\b", lambda m: m.group(1).replace("_", ""), e)
    e = re.sub(r"\b(?:Self|[A-Z][A-Za-z]*)::([A-Z_][A-Z0-9_]*)\b", r"\1", e)

    def name(m):
        n = m.group(0)
        if n in env:
            return "(%d)" % env[n]
        raise FactError("unknown name %s in constant expression %r" % (n, expr))
    e = re.sub(r"\b[A-Z_][A-Z0-9_]*\b", name, e)
    e = e.replace("/", "//")
    if not re.fullmatch(r"[0-9a-fA-Fxb\s()+\-*/<|&]+", e):
        raise FactError("unsupported constant expression %r" % expr)
    try:
        return int(eval(e, {"__builtins__": {}}))
    except Exception as ex:
        raise FactError("cannot evaluate %r: %s" % (expr, ex))


def find_const(rel, name, env=None):
    t = src(rel)
    m = re.search(r"\bconst\s+%s\s*:\s*[A-Za-z0-9_]+\s*=\s*([^;]+);" % re.escape(name), t)
    if not m:
        raise FactError("const %s not found in %s" % (name, rel))
    return const_eval(m.group(1), env)


def coq_int(n, ty="N"):
    if ty == "N":
        if n < 0:
            raise FactError("negative value for N: %d" % n)
        return "%d%%N" % n
    return "(%d)%%Z" % n


HEADER = "(* GENERATED by gen/facts.py from /repo on every check run -- do not edit *)\nFrom Coq Require Import List NArith ZArith String.\nImport ListNotations.\nOpen Scope string_scope.\n\n"

# ------------------------------------------------------------------ extractors
# one module gen/factmods/<Name>.py per generated file Generated/<Name>.v, exporting gen() -> str.
# Modules use the helpers of this file through `import facts as F`.

EXTRACTORS = {}


def _load_mods():
    import glob
    import importlib.util
    here = os.path.join(os.path.dirname(os.path.abspath(__file__)), "factmods")
    for f in sorted(glob.glob(os.path.join(here, "*.py"))):
        name = os.path.basename(f)[:-3]
        spec = importlib.util.spec_from_file_location("factmod_" + name, f)
        m = importlib.util.module_from_spec(spec)
        spec.loader.exec_module(m)
        EXTRACTORS[name] = m.gen


def write_if_changed(path, text):
    try:
        with open(path, encoding="utf-8") as f:
            if f.read() == text:
                return False
    except OSError:
        pass
    tmp = path + ".tmp"
    with open(tmp, "w", encoding="utf-8") as f:
        f.write(text)
    os.replace(tmp, path)
    return True


def _committed(path):
    """text of the file as committed in the framework's own repository (the facts of the tree the framework was committed
    against), or None"""
    import subprocess
    top = os.path.dirname(os.path.dirname(os.path.abspath(__file__)))
    rel = os.path.relpath(os.path.abspath(path), top)
    if rel.startswith(".."):
        return None
    try:
        r = subprocess.run(["git", "-C", top, "show", "HEAD:" + rel], stdout=subprocess.PIPE, stderr=subprocess.DEVNULL, timeout=30)
        return r.stdout.decode("utf-8") if r.returncode == 0 else None
    except Exception:
        return None


def run(names=None, repo=None, out=None):
    """returns dict name -> None (ok) | reason (failed).  A failed fact file is written as an empty module
    carrying a comment, so that dependants fail to compile at the missing definition."""
    global REPO, OUT
    if repo:
        REPO = repo
    if out:
        OUT = out
    os.makedirs(OUT, exist_ok=True)
    if not EXTRACTORS:
        _load_mods()
    res = {}
    for n in (names or sorted(EXTRACTORS)):
        try:
            text = EXTRACTORS[n]()
            res[n] = None
        except FactError as e:
            text = "(* GENERATED: extraction FAILED: %s *)\n" % str(e).replace("*)", "* )")
            res[n] = str(e)
            # the caller reports the failed extraction (the tie of every property that depends on this file is broken).  The
            # file of the last successful extraction -- the committed one after a fresh restore -- is left in place, so that the
            # models still build and the search for a concrete failing input can use them.
            prev = os.path.join(OUT, n + ".v")
            if KEEP_LAST_GOOD:
                good = _committed(prev)
                if good is None and os.path.exists(prev):
                    good = open(prev, encoding="utf-8").read()
                if good is not None and not good.startswith("(* GENERATED: extraction FAILED"):
                    write_if_changed(prev, good)
                    continue
        write_if_changed(os.path.join(OUT, n + ".v"), text)
    return res


def main(args):
    repo = out = None
    names = []
    args = list(args)
    while args:
        a = args.pop(0)
        if a == "--repo":
            repo = args.pop(0)
        elif a == "--out":
            out = args.pop(0)
        elif a == "--record-locals":
            import localnames
            n = localnames.record(repo or REPO, _segments)
            print("recorded the local names of %d functions in %s" % (n, localnames.RECORD))
            return 0
        else:
            names.append(a)
    r = run(names or None, repo, out)
    bad = 0
    for n, why in r.items():
        if why is None:
            print("ok %s" % n)
        else:
            bad += 1
            print("FAIL %s: %s" % (n, why))
    import localnames
    for note in sorted(set(localnames.NOTES)):
        sys.stderr.write("note %s\n" % note)
    return 1 if bad else 0


if __name__ == "__main__":
    sys.path.insert(0, os.path.dirname(os.path.abspath(__file__)))
    import facts as _self  # the factmods import this module by name: use that single copy
    sys.exit(_self.main(sys.argv[1:]))
