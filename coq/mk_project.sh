#!/bin/sh
# regenerate _CoqProject and Makefile from the .v files present
cd "$(dirname "$0")"
{ echo "-Q . SudachiVerif"; find Generated Model Proofs Properties Witness -name '*.v' | sort; } > _CoqProject.new
if ! cmp -s _CoqProject.new _CoqProject 2>/dev/null || [ ! -f Makefile ]; then
  mv _CoqProject.new _CoqProject
  coq_makefile -f _CoqProject -o Makefile >/dev/null
else
  rm -f _CoqProject.new
fi
