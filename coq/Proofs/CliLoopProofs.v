(* The tool's output for a file is the concatenation of what each line prints on its own: the reused list carries nothing over. *)
From Coq Require Import List NArith Bool Arith String.
From SudachiVerif Require Import Model.Harness Model.CliLoop.
From SudachiVerif Require Model.Cli.
Import ListNotations.

Section P.
  Variable res : Type.
  Variable analyse : ltext -> res.
  Variable render : res -> list N.
  Variable sentences : ltext -> list ltext.
  Variable skipped : ltext -> bool.

  Notation one := (analyze_one res analyse render skipped true).
  Notation all := (analyze_all res analyse render skipped true).
  Notation line := (analyze_line res analyse render sentences skipped true).
  Notation lines := (run_lines res analyse render sentences skipped true).

  Lemma all_out : forall ts held, snd (all held ts) = List.concat (map (fun u => render (analyse u)) ts).
  Proof.
    induction ts as [|t ts IH]; intro held; [reflexivity|].
    cbn [analyze_all analyze_one map List.concat].
    specialize (IH (analyse t)). destruct (all (analyse t) ts) as [h2 o2]. cbn [snd] in *. now rewrite IH.
  Qed.

  Lemma lines_out : forall split ls held,
    snd (lines split held ls) = List.concat (map (output_of_line res analyse render sentences split) ls).
  Proof.
    induction ls as [|l ls IH]; intro held; [reflexivity|].
    cbn [run_lines map List.concat]. unfold analyze_line at 1.
    pose proof (all_out (line_units sentences split l) held) as Ho.
    destruct (all held (line_units sentences split l)) as [h1 o1]. cbn [snd] in Ho.
    specialize (IH h1). destruct (lines split h1 ls) as [h2 o2]. cbn [snd] in *.
    rewrite IH, Ho. reflexivity.
  Qed.
End P.

(* Under the extracted facts: for every analysis, output format, sentence splitter, both modes of the loop, every file and whatever
   the list held before the first line, the bytes written are the per-line outputs in order; in particular they equal what a fresh
   process prints for each line alone. *)
Theorem cli_output_is_per_line :
  loop_facts_ok = true ->
  forall (res : Type) (analyse : ltext -> res) (render : res -> list N) (sentences : ltext -> list ltext) (skipped : ltext -> bool)
         (split : bool) (held : res) (file : list N),
    run_file res analyse render sentences skipped loop_facts_ok split held file
    = List.concat (map (output_of_line res analyse render sentences split) (Cli.cli_texts file)).
Proof.
  intros F res analyse render sentences skipped split held file. rewrite F. unfold run_file. apply lines_out.
Qed.

Theorem cli_line_as_fresh_process :
  loop_facts_ok = true ->
  forall (res : Type) (analyse : ltext -> res) (render : res -> list N) (sentences : ltext -> list ltext) (skipped : ltext -> bool)
         (split : bool) (held empty : res) (file : list N),
    run_file res analyse render sentences skipped loop_facts_ok split held file
    = List.concat (map (fun l => snd (run_lines res analyse render sentences skipped loop_facts_ok split empty [l])) (Cli.cli_texts file)).
Proof.
  intros F res analyse render sentences skipped split held empty file.
  rewrite (cli_output_is_per_line F). f_equal. apply map_ext. intro l.
  rewrite F. rewrite lines_out. cbn [map List.concat]. now rewrite app_nil_r.
Qed.

(* a blank line prints exactly what the analysis of the empty ltext prints (for the surface-only format: a lone line feed) *)
Theorem cli_blank_line :
  loop_facts_ok = true ->
  forall (res : Type) (analyse : ltext -> res) (render : res -> list N) (sentences : ltext -> list ltext) (skipped : ltext -> bool) (held : res),
    snd (analyze_line res analyse render sentences skipped loop_facts_ok false held []) = render (analyse []).
Proof.
  intros F res analyse render sentences skipped held. rewrite F. cbn. now rewrite app_nil_r.
Qed.

(* the facts are needed: a loop that skips the analysis of blank lines but still writes repeats the previous line *)
Lemma skipping_loop_depends_on_history :
  let analyse (t : ltext) := [t] in
  run_file (list ltext) analyse Cli.wakati (fun t => [t]) (fun t => match t with [] => true | _ => false end) false false [] [65; 10; 10]%N
  <> List.concat (map (output_of_line (list ltext) analyse Cli.wakati (fun t => [t]) false) (Cli.cli_texts [65; 10; 10]%N)).
Proof. vm_compute. discriminate. Qed.
