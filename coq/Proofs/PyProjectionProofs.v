(* Lemmas about Model/PyProjection.v (C19): what the surface projections compute, which word-info fields they read,
   that the tokenizer the binding creates loads them for every field set, names of projections and of fields. *)
From Coq Require Import List NArith ZArith Bool String Lia.
From SudachiVerif Require Import Model.Codec Model.PyProjection Proofs.CodecProofs.
Import ListNotations.
Open Scope N_scope.

(* ------------------------------------------------------------------ the generated tables the proofs were written for *)
Definition exp_names : list (string * string) :=
  [("surface", "Surface"); ("normalized", "Normalized"); ("reading", "Reading"); ("dictionary", "Dictionary");
   ("dictionary_and_surface", "DictionaryAndSurface"); ("normalized_and_surface", "NormalizedAndSurface");
   ("normalized_nouns", "NormalizedNouns")]%string.
Definition exp_required : list (string * list string) :=
  [("Surface", []); ("Normalized", ["NORMALIZED_FORM"]); ("Reading", ["READING_FORM"]); ("Dictionary", ["DIC_FORM_WORD_ID"]);
   ("DictionaryAndSurface", ["DIC_FORM_WORD_ID"]); ("NormalizedAndSurface", ["NORMALIZED_FORM"]);
   ("NormalizedNouns", ["NORMALIZED_FORM"])]%string.
Definition exp_impl : list (string * (string * string * string)) :=
  [("Surface", ("", "surface", "surface")); ("Normalized", ("", "normalized_form", "normalized_form"));
   ("Reading", ("", "reading_form", "reading_form")); ("Dictionary", ("", "dictionary_form", "dictionary_form"));
   ("DictionaryAndSurface", ("conjugating", "surface", "dictionary_form"));
   ("NormalizedAndSurface", ("conjugating", "surface", "normalized_form"));
   ("NormalizedNouns", ("component_equals", "normalized_form", "surface"))]%string.
Definition exp_fields : list (string * string) :=
  [("surface", "SURFACE"); ("pos", "POS_ID"); ("pos_id", "POS_ID"); ("normalized_form", "NORMALIZED_FORM");
   ("dictionary_form", "DIC_FORM_WORD_ID"); ("reading_form", "READING_FORM"); ("word_structure", "WORD_STRUCTURE");
   ("split_a", "SPLIT_A"); ("split_b", "SPLIT_B"); ("synonym_group_id", "SYNONYM_GROUP_ID")]%string.
(* 動詞 形容詞 助動詞 *)
Definition exp_conjugating : list text := [[21205; 35422]; [24418; 23481; 35422]; [21161; 21205; 35422]].

Definition py_facts_ok : Prop :=
  PF.projection_names = exp_names /\ PF.required_flags = exp_required /\ PF.projection_impl = exp_impl /\
  PF.conjugating_index = 0 /\ PF.conjugating_values = exp_conjugating /\
  PF.component_index = 5 /\ PF.component_value = [42] /\
  PF.field_names = exp_fields /\ PF.documented_projections = map fst exp_names /\
  PF.create_ors_required_subset = true /\
  PF.py_begin_is = "begin_c"%string /\ PF.py_end_is = "end_c"%string /\ PF.py_raw_surface_is = "surface"%string /\
  FO.subset_bits = expected_bits.

(* ------------------------------------------------------------------ matchers *)
Lemma matcher_ids_from_spec pl mk : forall i pid,
  existsb (N.eqb pid) (matcher_ids_from i pl mk) =
  if pid <? i then false else match nth_error pl (N.to_nat (pid - i)) with Some p => pos_pred mk p | None => false end.
Proof.
  induction pl as [|p pl IH]; intros i pid; cbn [matcher_ids_from].
  - cbn. destruct (pid <? i); [reflexivity|]. now destruct (N.to_nat (pid - i)).
  - assert (Hrest : existsb (N.eqb pid) (matcher_ids_from (i + 1) pl mk) =
                    if pid <? i + 1 then false
                    else match nth_error pl (N.to_nat (pid - (i + 1))) with Some q => pos_pred mk q | None => false end) by apply IH.
    destruct (N.ltb_spec pid i) as [Hlt|Hge].
    + destruct (N.ltb_spec pid (i + 1)); [|lia].
      destruct (pos_pred mk p); cbn [existsb]; rewrite ?Hrest; [|reflexivity].
      destruct (N.eqb_spec pid i); [lia | reflexivity].
    + destruct (N.eq_dec pid i) as [->|Hne].
      * rewrite N.sub_diag. cbn [N.to_nat nth_error]. destruct (N.ltb_spec i (i + 1)); [|lia].
        destruct (pos_pred mk p); cbn [existsb]; rewrite ?Hrest; [now rewrite N.eqb_refl | reflexivity].
      * destruct (N.ltb_spec pid (i + 1)); [lia|].
        replace (N.to_nat (pid - i)) with (S (N.to_nat (pid - (i + 1)))) by lia. cbn [nth_error].
        destruct (pos_pred mk p); cbn [existsb]; rewrite ?Hrest; [|reflexivity].
        destruct (N.eqb_spec pid i); [contradiction | reflexivity].
Qed.

(* PosMatcher built by make_matcher: the id is accepted iff it names a POS tuple of the grammar that satisfies the test *)
Lemma matches_spec pl mk pid :
  matches pl mk pid = match nth_error pl (N.to_nat pid) with Some p => pos_pred mk p | None => false end.
Proof.
  unfold matches, matcher_ids. rewrite matcher_ids_from_spec. destruct (N.ltb_spec pid 0); [lia|]. now rewrite N.sub_0_r.
Qed.

(* ------------------------------------------------------------------ explicit meaning of the projections *)
(* POS component 0 is 動詞 / 形容詞 / 助動詞 *)
Definition is_conjugating (p : list text) : bool := existsb (text_eqb (component p 0)) exp_conjugating.
(* POS component 5 (conjugation form) is "*" *)
Definition has_no_conjugation_form (p : list text) : bool := text_eqb (component p 5) [42].
Definition pos_test (pl : list (list text)) (f : list text -> bool) (pid : N) : bool :=
  match nth_error pl (N.to_nat pid) with Some p => f p | None => false end.

Definition project_std (pl : list (list text)) (k : pkind) (m : pym) : text :=
  match k with
  | PSurface => p_surface m
  | PNormalized => p_norm m
  | PReading => p_reading m
  | PDictionary => p_dicform m
  | PDictionaryAndSurface => if pos_test pl is_conjugating (p_pos m) then p_surface m else p_dicform m
  | PNormalizedAndSurface => if pos_test pl is_conjugating (p_pos m) then p_surface m else p_norm m
  | PNormalizedNouns => if pos_test pl has_no_conjugation_form (p_pos m) then p_norm m else p_surface m
  end.

Theorem projection_spec : py_facts_ok -> forall pl k m, project pl k m = Some (project_std pl k m).
Proof.
  intros (_ & _ & Hi & Hci & Hcv & Hxi & Hxv & _) pl k m.
  unfold project, impl_of. rewrite Hi.
  destruct k; cbn [variant_name exp_impl assoc String.eqb Ascii.eqb Bool.eqb mkind_of_name pacc_of_name project_std read];
    try reflexivity; rewrite matches_spec; unfold pos_test, pos_pred, is_conjugating, has_no_conjugation_form;
    rewrite ?Hci, ?Hcv, ?Hxi, ?Hxv; reflexivity.
Qed.

(* ------------------------------------------------------------------ names *)
Definition name_of (k : pkind) : string :=
  match k with
  | PSurface => "surface" | PNormalized => "normalized" | PReading => "reading" | PDictionary => "dictionary"
  | PDictionaryAndSurface => "dictionary_and_surface" | PNormalizedAndSurface => "normalized_and_surface"
  | PNormalizedNouns => "normalized_nouns"
  end.

Lemma assoc_none_not_in {A} (n : string) (l : list (string * A)) : ~ In n (map fst l) -> assoc n l = None.
Proof.
  induction l as [|[k v] l IH]; intros H; [reflexivity|]. cbn [assoc].
  destruct (String.eqb_spec n k) as [->|Hne]; [exfalso; apply H; now left|]. apply IH. intros Hin. apply H. now right.
Qed.

(* the accepted names are exactly the seven documented ones, they map to the seven kinds one-to-one, and every other
   string is an error *)
Theorem projection_names : py_facts_ok ->
  (forall k, kind_of_name (name_of k) = Some k) /\
  (forall n k, kind_of_name n = Some k -> n = name_of k) /\
  (forall n, ~ In n (map name_of all_kinds) -> kind_of_name n = None) /\
  PF.documented_projections = map name_of all_kinds.
Proof.
  intros (Hn & _ & _ & _ & _ & _ & _ & _ & Hd & _). split; [|split; [|split]].
  - intros k. unfold kind_of_name. rewrite Hn. destruct k; reflexivity.
  - intros n k. unfold kind_of_name. rewrite Hn. unfold exp_names. cbn [assoc].
    repeat match goal with
           | |- context [String.eqb n ?x] => destruct (String.eqb_spec n x) as [->|?]; [vm_compute; intros [= <-]; reflexivity|]
           end. discriminate.
  - intros n Hnot. unfold kind_of_name. rewrite Hn. now rewrite (assoc_none_not_in n exp_names) by exact Hnot.
  - rewrite Hd. reflexivity.
Qed.

(* ------------------------------------------------------------------ which word-info accessors a projection reads *)
Definition reads (k : pkind) : list acc :=
  match k with
  | PSurface => []
  | PNormalized => [A_norm]
  | PReading => [A_reading]
  | PDictionary => [A_dicform]
  | PDictionaryAndSurface => [A_pos; A_dicform]
  | PNormalizedAndSurface => [A_pos; A_norm]
  | PNormalizedNouns => [A_pos; A_norm]
  end.

(* the result is a function of the raw surface and of the accessors in [reads k] only *)
Theorem projection_depends_on_reads : py_facts_ok -> forall pl k surf i j,
  (forall a, In a (reads k) -> accessor a i = accessor a j) ->
  project pl k (view_of surf i) = project pl k (view_of surf j).
Proof.
  intros HF pl k surf i j H. rewrite !(projection_spec HF). f_equal.
  destruct k; cbn [project_std view_of p_surface p_pos p_norm p_reading p_dicform reads In] in *;
    try reflexivity;
    repeat match goal with
           | |- context [accessor ?a i] => rewrite (H a) by (cbn; tauto)
           end; reflexivity.
Qed.

(* every accessor read is requested by required_subset -- EXCEPT the POS id, which the three POS-dependent kinds read
   although their required_subset does not contain POS_ID *)
Theorem reads_within_required : py_facts_ok -> forall k a,
  In a (reads k) -> a = A_pos \/ N.testbit (required_subset k) (acc_flag a) = true.
Proof.
  intros (_ & Hr & _ & _ & _ & _ & _ & _ & _ & _ & _ & _ & _ & Hb) k a Hin.
  unfold required_subset. rewrite Hr, Hb.
  destruct k; cbn [reads In] in Hin; repeat (destruct Hin as [<-|Hin]; [first [now left | right; reflexivity]|]); contradiction.
Qed.

(* ... but such a kind always requires a field that lies AFTER pos_id in the binary word info *)
Theorem pos_readers_require_a_later_field : py_facts_ok -> forall k,
  In A_pos (reads k) -> exists b, 3 <= b <= 8 /\ N.testbit (required_subset k) b = true.
Proof.
  intros (_ & Hr & _ & _ & _ & _ & _ & _ & _ & _ & _ & _ & _ & Hb) k Hin.
  unfold required_subset. rewrite Hr, Hb.
  destruct k; cbn [reads In] in Hin; try (repeat destruct Hin as [Hin|Hin]; discriminate || contradiction).
  - exists 4. split; [lia | reflexivity].
  - exists 3. split; [lia | reflexivity].
  - exists 3. split; [lia | reflexivity].
Qed.

(* ------------------------------------------------------------------ pos_id is filled whenever a later field is loaded *)
Lemma testbit_nonzero x k : N.testbit x k = true -> x <> 0.
Proof. intros H ->. now rewrite N.bits_0 in H. Qed.

Lemma parse_step_heavy_skip : forall r rs flds info bs sk next,
  flds <> 0 -> rf_skip r = Some sk -> N.testbit flds (rf_bit r) = false -> sk bs = Some next ->
  parse_fields (r :: rs) flds info bs = parse_fields rs flds info next.
Proof.
  intros r rs flds info bs sk next H0 Hs Ht Hp. cbn [parse_fields].
  destruct (flds =? 0) eqn:E; [apply N.eqb_eq in E; contradiction|]. now rewrite Hs, Ht, Hp.
Qed.

(* the value of pos_id after parsing with ANY subset that has a flag at or above POS_ID is determined by the bytes *)
Lemma pos_from_bytes : reader_facts_ok -> forall s bs i k,
  parse s bs = Some i -> 2 <= k -> N.testbit s k = true ->
  exists n0 l n1 v n2, skip_string bs = Some n0 /\ read_len n0 = Some (l, n1) /\ read_le16 n1 = Some (v, n2) /\
                       i F_pos = VNum v.
Proof.
  intros HR s bs i k Hp Hk Hbit. unfold parse in Hp. rewrite (reader_is_explicit HR) in Hp.
  unfold explicit_rs in Hp.
  set (r0 := mkRF F_surface 0 _ (Some skip_string)) in Hp.
  set (r1 := mkRF F_hwlen 1 _ None) in Hp. set (r2 := mkRF F_pos 2 _ None) in Hp.
  match type of Hp with parse_fields (r0 :: r1 :: r2 :: ?rest) _ _ _ = _ => set (rs := rest) in Hp end.
  assert (Hs0 : s <> 0) by (eapply testbit_nonzero; eassumption).
  (* surface: parsed or skipped, the position afterwards is the same *)
  assert (Hstep0 : exists n0 fl0 i0, skip_string bs = Some n0 /\ N.testbit fl0 k = true /\
                                    parse_fields (r1 :: r2 :: rs) fl0 i0 n0 = Some i).
  { destruct (N.testbit s 0) eqn:T0.
    - destruct (read_string bs) as [[t n0]|] eqn:E0.
      + exists n0, (N.clearbit s 0), (set_field F_surface (VText t) default_info). split; [eapply skip_string_width; eassumption|].
        split; [rewrite N.clearbit_neq by lia; assumption|].
        rewrite <- Hp. symmetry. apply (parse_step_heavy r0 _ s default_info bs skip_string); try assumption; try reflexivity.
        subst r0. cbn [rf_parse]. now rewrite E0.
      + exfalso. cbn [parse_fields] in Hp. destruct (s =? 0) eqn:Ez; [apply N.eqb_eq in Ez; contradiction|].
        subst r0. cbn [rf_skip rf_bit rf_parse] in Hp. rewrite T0, E0 in Hp. discriminate.
    - destruct (skip_string bs) as [n0|] eqn:E0.
      + exists n0, s, default_info. split; [reflexivity|]. split; [assumption|].
        rewrite <- Hp. symmetry. apply (parse_step_heavy_skip r0 _ s default_info bs skip_string); try assumption; reflexivity.
      + exfalso. cbn [parse_fields] in Hp. destruct (s =? 0) eqn:Ez; [apply N.eqb_eq in Ez; contradiction|].
        subst r0. cbn [rf_skip rf_bit rf_parse] in Hp. rewrite T0, E0 in Hp. discriminate. }
  destruct Hstep0 as (n0 & fl0 & i0 & Hsk & Hb0 & Hp0).
  (* head_word_length and pos_id are light fields: always decoded and stored *)
  assert (Hf0 : fl0 <> 0) by (eapply testbit_nonzero; eassumption).
  destruct (read_len n0) as [[l n1]|] eqn:E1.
  2:{ exfalso. cbn [parse_fields] in Hp0. destruct (fl0 =? 0) eqn:Ez; [apply N.eqb_eq in Ez; contradiction|].
      subst r1. cbn [rf_skip rf_parse] in Hp0. rewrite E1 in Hp0. discriminate. }
  rewrite (parse_step_light r1 _ fl0 i0 n0 (VNum l) n1) in Hp0; try assumption; try reflexivity.
  2:{ subst r1. cbn [rf_parse]. now rewrite E1. }
  assert (Hb1 : N.testbit (N.clearbit fl0 (rf_bit r1)) k = true).
  { subst r1. cbn [rf_bit]. destruct (N.eq_dec k 1); [lia|]. rewrite N.clearbit_neq by lia. assumption. }
  assert (Hf1 : N.clearbit fl0 (rf_bit r1) <> 0) by (eapply testbit_nonzero; eassumption).
  destruct (read_le16 n1) as [[v n2]|] eqn:E2.
  2:{ exfalso. cbn [parse_fields] in Hp0. destruct (N.clearbit fl0 (rf_bit r1) =? 0) eqn:Ez; [apply N.eqb_eq in Ez; contradiction|].
      subst r2. cbn [rf_skip rf_parse] in Hp0. rewrite E2 in Hp0. discriminate. }
  rewrite (parse_step_light r2 _ _ _ n1 (VNum v) n2) in Hp0; try assumption; try reflexivity.
  2:{ subst r2. cbn [rf_parse]. now rewrite E2. }
  exists n0, l, n1, v, n2. repeat split; try assumption.
  rewrite (parse_fields_frame _ _ _ _ _ Hp0 F_pos).
  - subst r2. cbn [rf_fid]. apply set_field_same.
  - subst rs. cbn. intros H. repeat (destruct H as [H|H]; [discriminate|]). exact H.
Qed.

Lemma consult_keeps_pos lx wid wi i : consult lx wid wi = Some i -> i F_pos = wi F_pos.
Proof.
  rewrite consult_eq. destruct (consult_val lx wid (as_int (wi F_dfwi))) as [[x|]|]; cbn; intros [= <-]; [|reflexivity].
  cbn [with_dic]. apply set_field_other. discriminate.
Qed.

(* the POS id a word info reports is the stored one whenever the loaded subset contains any flag from POS_ID to
   WORD_STRUCTURE -- requested or not (pos_id is a "light" field: decoded and stored while the parser walks over it) *)
Theorem pos_loaded : reader_facts_ok -> forall lx has_syn wid L1 L2 i1 i2 k1 k2,
  get_word_info lx has_syn wid L1 = Some i1 -> get_word_info lx has_syn wid L2 = Some i2 ->
  2 <= k1 <= 8 -> N.testbit L1 k1 = true -> 2 <= k2 <= 8 -> N.testbit L2 k2 = true ->
  accessor A_pos i1 = accessor A_pos i2.
Proof.
  intros HR lx has_syn wid L1 L2 i1 i2 k1 k2 H1 H2 Hk1 Hb1 Hk2 Hb2.
  rewrite get_word_info_consult in H1, H2. destruct (lex_get lx wid) as [bs|]; [|discriminate].
  destruct (parse (if has_syn then L1 else N.clearbit L1 SYN_BIT) bs) as [w1|] eqn:P1; [|discriminate].
  destruct (parse (if has_syn then L2 else N.clearbit L2 SYN_BIT) bs) as [w2|] eqn:P2; [|discriminate].
  assert (B1 : N.testbit (if has_syn then L1 else N.clearbit L1 SYN_BIT) k1 = true)
    by (destruct has_syn; [assumption | unfold SYN_BIT; rewrite N.clearbit_neq by lia; assumption]).
  assert (B2 : N.testbit (if has_syn then L2 else N.clearbit L2 SYN_BIT) k2 = true)
    by (destruct has_syn; [assumption | unfold SYN_BIT; rewrite N.clearbit_neq by lia; assumption]).
  destruct (pos_from_bytes HR _ _ _ k1 P1 (proj1 Hk1) B1) as (n0 & l & n1 & v & n2 & A1 & A2 & A3 & A4).
  destruct (pos_from_bytes HR _ _ _ k2 P2 (proj1 Hk2) B2) as (n0' & l' & n1' & v' & n2' & A1' & A2' & A3' & A4').
  rewrite A1 in A1'. injection A1' as <-. rewrite A2 in A2'. injection A2' as <- <-. rewrite A3 in A3'. injection A3' as <- <-.
  cbn [accessor]. rewrite (consult_keeps_pos _ _ _ _ H1), (consult_keeps_pos _ _ _ _ H2), A4, A4'. reflexivity.
Qed.

Lemma acc_eq_pos (a : acc) : {a = A_pos} + {a <> A_pos}.
Proof. destruct a; (now left) || (right; discriminate). Qed.

(* ------------------------------------------------------------------ the binding serves every projection for every field set *)
Lemma lor_lt_1024 a b : a < 1024 -> b < 1024 -> N.lor a b < 1024.
Proof.
  intros Ha Hb. change 1024 with (2 ^ 10) in *.
  destruct (N.eq_dec (N.lor a b) 0) as [->|E]; [reflexivity|].
  apply (proj2 (N.log2_lt_pow2 (N.lor a b) 10 ltac:(lia))). rewrite N.log2_lor.
  assert (N.log2 a < 10) by (destruct (N.eq_dec a 0) as [->|]; [cbn; lia | apply (proj1 (N.log2_lt_pow2 a 10 ltac:(lia))); assumption]).
  assert (N.log2 b < 10) by (destruct (N.eq_dec b 0) as [->|]; [cbn; lia | apply (proj1 (N.log2_lt_pow2 b 10 ltac:(lia))); assumption]).
  lia.
Qed.

Lemma required_lt_1024 : py_facts_ok -> forall k, required_subset k < 1024.
Proof.
  intros (_ & Hr & _ & _ & _ & _ & _ & _ & _ & _ & _ & _ & _ & Hb) k. unfold required_subset. rewrite Hr, Hb.
  destruct k; vm_compute; reflexivity.
Qed.

(* Dictionary.create(fields=F, projection=P) makes the tokenizer load normalize(F | required_subset P).  For EVERY field
   set F (all 1024) and every kind P: the projection computed from the word info loaded that way equals the projection
   computed from the fully loaded word info (and, unless P is the plain surface, such a word info is loaded). *)
Theorem projection_served_for_every_field_set :
  py_facts_ok -> reader_facts_ok -> closure_ok = true ->
  forall lx has_syn wid F k pl surf iA,
  lex_ok lx -> F < 1024 ->
  get_word_info lx has_syn wid ALL = Some iA ->
  (forall iS, get_word_info lx has_syn wid (loaded_subset F (Some k)) = Some iS ->
              project pl k (view_of surf iS) = project pl k (view_of surf iA)) /\
  (k <> PSurface -> exists iS, get_word_info lx has_syn wid (loaded_subset F (Some k)) = Some iS).
Proof.
  intros HF HR HC lx has_syn wid F k pl surf iA Hlex HFlt HA.
  unfold loaded_subset, create_subset. set (s := N.lor F (required_subset k)).
  assert (Hs : s < 1024) by (apply lor_lt_1024; [assumption | now apply required_lt_1024]).
  destruct (loads_ok_spec _ _ (normalize_loads HC s Hs)) as [Hsub Hdeps].
  assert (Hreq : forall b, N.testbit (required_subset k) b = true -> N.testbit s b = true)
    by (intros b Hb; unfold s; rewrite N.lor_spec, Hb; apply orb_true_r).
  assert (Hserve : forall a, In a (reads k) -> a <> A_pos ->
            exists iS, get_word_info lx has_syn wid (normalize s) = Some iS /\ accessor a iS = accessor a iA).
  { intros a Hin Hne. destruct (reads_within_required HF k a Hin) as [->|Hb]; [contradiction|].
    apply (accessor_preserved_normalize HR HC lx has_syn wid s a iA Hlex Hs (Hreq _ Hb) HA). }
  split.
  - intros iS HS. apply (projection_depends_on_reads HF). intros a Hin.
    destruct (acc_eq_pos a) as [->|Hne].
    + destruct (pos_readers_require_a_later_field HF k Hin) as (b & Hb & Hbit).
      assert (HL : N.testbit (normalize s) b = true).
      { assert (b = 3 \/ b = 4 \/ b = 5 \/ b = 6 \/ b = 7 \/ b = 8) as Hc by lia.
        destruct Hc as [Hc|[Hc|[Hc|[Hc|[Hc|Hc]]]]]; subst b.
        - apply (Hdeps A_norm (Hreq _ Hbit)). cbn. tauto.
        - apply (Hdeps A_dfwi (Hreq _ Hbit)). cbn. tauto.
        - apply (Hdeps A_reading (Hreq _ Hbit)). cbn. tauto.
        - apply (Hdeps A_a (Hreq _ Hbit)). cbn. tauto.
        - apply (Hdeps A_b (Hreq _ Hbit)). cbn. tauto.
        - apply (Hdeps A_ws (Hreq _ Hbit)). cbn. tauto. }
      apply (pos_loaded HR lx has_syn wid (normalize s) ALL iS iA b 2 HS HA); try lia; try assumption; reflexivity.
    + destruct (Hserve a Hin Hne) as (iS' & HS' & Heq). rewrite HS in HS'. injection HS' as <-. exact Heq.
  - intros Hk. destruct k; try contradiction; cbn [reads] in Hserve.
    + destruct (Hserve A_norm) as (iS & H & _); [now left | discriminate | eauto].
    + destruct (Hserve A_reading) as (iS & H & _); [now left | discriminate | eauto].
    + destruct (Hserve A_dicform) as (iS & H & _); [now left | discriminate | eauto].
    + destruct (Hserve A_dicform) as (iS & H & _); [right; now left | discriminate | eauto].
    + destruct (Hserve A_norm) as (iS & H & _); [right; now left | discriminate | eauto].
    + destruct (Hserve A_norm) as (iS & H & _); [right; now left | discriminate | eauto].
Qed.

(* ------------------------------------------------------------------ the field-name parser *)
Definition flag_bit_of_field (n : string) : option N :=
  if String.eqb n "surface" then Some 0 else if String.eqb n "pos" then Some 2 else if String.eqb n "pos_id" then Some 2
  else if String.eqb n "normalized_form" then Some 3 else if String.eqb n "dictionary_form" then Some 4
  else if String.eqb n "reading_form" then Some 5 else if String.eqb n "word_structure" then Some 8
  else if String.eqb n "split_a" then Some 6 else if String.eqb n "split_b" then Some 7
  else if String.eqb n "synonym_group_id" then Some 9 else None.

Fixpoint mask_spec (names : list string) : option N :=
  match names with
  | [] => Some 0
  | n :: t => match flag_bit_of_field n, mask_spec t with
              | Some b, Some m => Some (N.lor (N.shiftl 1 b) m)
              | _, _ => None
              end
  end.

(* each documented name sets exactly its InfoSubset bit; every other name is an error; no argument = all fields;
   a set of names gives the union of their bits, and one unknown name makes the whole call fail *)
Theorem fields_spec : py_facts_ok ->
  (forall n, field_bit n = option_map (N.shiftl 1) (flag_bit_of_field n)) /\
  parse_field_subset None = Some ALL /\
  (forall names, parse_field_subset (Some names) = mask_spec names).
Proof.
  intros (_ & _ & _ & _ & _ & _ & _ & Hf & _ & _ & _ & _ & _ & Hb).
  assert (H1 : forall n, field_bit n = option_map (N.shiftl 1) (flag_bit_of_field n)).
  { intros n. unfold field_bit, flag_bit_of_field. rewrite Hf, Hb. unfold exp_fields. cbn [assoc].
    repeat match goal with |- context [String.eqb n ?x] => destruct (String.eqb n x); [reflexivity|] end. reflexivity. }
  split; [exact H1|]. split; [reflexivity|].
  induction names as [|n names IH]; [reflexivity|].
  cbn [parse_field_subset fields_mask mask_spec] in *. rewrite H1, IH. destruct (flag_bit_of_field n); reflexivity.
Qed.

Lemma mask_spec_unknown names n : In n names -> flag_bit_of_field n = None -> mask_spec names = None.
Proof.
  induction names as [|x names IH]; intros Hin Hn; [contradiction|]. cbn [mask_spec].
  destruct Hin as [->|Hin]; [now rewrite Hn|]. rewrite (IH Hin Hn). now destruct (flag_bit_of_field x).
Qed.

Lemma mask_spec_known names :
  (forall n, In n names -> flag_bit_of_field n <> None) ->
  exists m, mask_spec names = Some m /\
            forall b, N.testbit m b = true <-> exists n, In n names /\ flag_bit_of_field n = Some b.
Proof.
  induction names as [|n names IH]; intros Hall.
  - exists 0. split; [reflexivity|]. intros b. rewrite N.bits_0. split; [discriminate | intros (n & [] & _)].
  - destruct IH as (m & Hm & Hbits); [intros x Hx; apply Hall; now right|].
    destruct (flag_bit_of_field n) as [bn|] eqn:En; [|exfalso; apply (Hall n); [now left | assumption]].
    exists (N.lor (N.shiftl 1 bn) m). cbn [mask_spec]. rewrite En, Hm. split; [reflexivity|].
    intros b. rewrite N.lor_spec, orb_true_iff, Hbits, N.shiftl_1_l, N.pow2_bits_eqb, N.eqb_eq. split.
    + intros [<-|(x & Hx & Ex)]; [exists n; split; [now left | assumption] | exists x; split; [now right | assumption]].
    + intros (x & [<-|Hx] & Ex); [left; congruence | right; eauto].
Qed.
