(* The i32 accumulator of the Viterbi search is NOT exact beyond the bound of i32_exact_if_bounded:
   within the documented input limits (<= 49,149 bytes) and with i16 costs there is a reachable exact prefix cost
   from which the next step of the machine-level search panics (overflow checks) or wraps (release). *)
From Coq Require Import List ZArith NArith Bool Arith Lia.
From SudachiVerif Require Import Model.Lattice Model.LatticeM Proofs.LatticeProofs.
Import ListNotations.
Open Scope Z_scope.

Definition CMAX : Z := 32767.                       (* i16::MAX *)
Definition cconn (_ _ : N) : Z := CMAX.             (* every connection cost 32767 *)
Definition unit_node (i : nat) : node := mkNode i (S i) 0%N 0%N CMAX.   (* a one-character word of cost 32767 at i *)

(* the chain of the first k unit words, last one first *)
Fixpoint rchain (k : nat) : list node :=
  match k with O => [] | S k' => unit_node k' :: rchain k' end.

Lemma rchain_rend k : rend (rchain k) = k.
Proof. destruct k; reflexivity. Qed.

Lemma rchain_in k K : (k <= K)%nat -> forall n, In n (rchain k) -> In n (rchain K).
Proof.
  intros H. induction H as [|K H IH]; [auto|]. intros n Hn. cbn. right. apply IH. exact Hn.
Qed.

Lemma rchain_valid K : forall k, (k <= K)%nat -> valid (rchain K) (rchain k).
Proof.
  induction k as [|k IH]; intros H; cbn [rchain valid]; [exact I|].
  repeat split.
  - apply (rchain_in (S k) K H). cbn. auto.
  - cbn. lia.
  - cbn. rewrite rchain_rend. reflexivity.
  - apply IH. lia.
Qed.

Lemma rchain_cost k : rcost cconn (rchain k) = Z.of_nat k * (2 * CMAX).
Proof.
  induction k as [|k IH]; [reflexivity|].
  cbn [rchain rcost]. rewrite IH. unfold cconn. cbn [unit_node nleft ncost]. lia.
Qed.

(* 32,769 one-character words: an exact, valid, in-range prefix cost ... *)
Definition K_OVER : nat := Z.to_nat 32769.
Definition T_OVER : Z := 2147483646.

Lemma reachable_prefix :
  valid (rchain (S K_OVER)) (rchain K_OVER) /\ rcost cconn (rchain K_OVER) = T_OVER /\
  MIN32 <= T_OVER < MAX32 /\ (Z.of_nat (S K_OVER) <= 49149).
Proof.
  split; [apply rchain_valid; lia|]. split.
  - rewrite rchain_cost. unfold K_OVER. rewrite Z2Nat.id by lia. reflexivity.
  - unfold K_OVER, T_OVER, MIN32, MAX32. rewrite Nat2Z.inj_succ, Z2Nat.id by lia. lia.
Qed.

(* ... from which connecting the next such word overflows: panic with overflow checks, a wrapped (negative) total without *)
Definition row_over : list mentry := [mkM (Some (unit_node 0)) T_OVER None].

Theorem i32_overflow_refuted :
  mscan true cconn row_over 0 0%N CMAX None MAX32 = Panic /\
  mscan false cconn row_over 0 0%N CMAX None MAX32 = Ok (Some 0%nat, -2147418116) /\
  T_OVER + CMAX + CMAX = 2147549180 /\ 2147549180 > MAX32.
Proof. vm_compute. repeat split; reflexivity. Qed.
