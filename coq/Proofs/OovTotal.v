(* C13: when does a provider fail?  MeCab and Simple never do; Regex only in debug mode, for a match that does not begin at
   the offset; the created-words carrier never leaves 64 bits; hence the regular pass of a position (normal_pass) succeeds
   for every provider list without a debug-mode regex. *)
From Coq Require Import List NArith ZArith Bool Lia ZifyBool ZifyNat ZifyN PeanoNat String.
From SudachiVerif Require Import Model.Oov Proofs.OovContinuity Proofs.OovCreated Proofs.OovFallback Proofs.OovWf.
Import ListNotations.
Open Scope N_scope.

Arguments N.land : simpl never.
Arguments N.lor : simpl never.
Arguments N.eqb : simpl never.
Arguments N.pow : simpl never.
Arguments N.shiftl : simpl never.
Arguments N.min : simpl never.
Arguments N.sub : simpl never.

(* ---------- MeCab, Simple ---------- *)
Lemma mecab_total m cs off other :
  continuity cs = continuity_spec cs -> (off < List.length cs)%nat ->
  exists ns, mecab_provide m cs (continuity cs) off other = ROk ns.
Proof.
  intros Hc Hoff. unfold mecab_provide. rewrite Hc.
  destruct (nth_error (continuity_spec cs) off) as [k|] eqn:E1.
  2:{ apply nth_error_None in E1. rewrite spec_length in E1. lia. }
  destruct (nth_error cs off) as [c|] eqn:E2; [|apply nth_error_None in E2; lia].
  destruct (Nat.eqb k 0); eauto.
Qed.

Lemma simple_total o cs off other : (off < List.length cs)%nat ->
  exists ns, simple_provide o (can_bow cs) off other = ROk ns.
Proof.
  intros Hoff. rewrite simple_provide_spec; [eauto|]. unfold can_bow. rewrite bow_loop_length. exact Hoff.
Qed.

(* ---------- CreatedWords ---------- *)
Lemma cw_single_some_pos len : len <> 0 -> exists m, cw_single len = Some m.
Proof. intros H. rewrite cw_single_pos by exact H. eauto. Qed.

Lemma cw_add_all_total : forall lens cw, (forall l, In l lens -> (0 < l)%nat) -> exists cw', cw_add_all cw lens = Some cw'.
Proof.
  induction lens as [|l t IH]; intros cw H; [cbn; eauto|].
  cbn [cw_add_all]. unfold cw_add_word. rewrite cw_single_pos by (specialize (H l (or_introl eq_refl)); lia).
  cbn [option_map]. apply IH. intros x Hx. apply H. right. exact Hx.
Qed.

(* the carrier is a u64: bit min(len-1, MAX_VALUE-1) with MAX_VALUE = 64 never leaves it *)
Lemma lor_lt_pow2 a b n : a < 2 ^ n -> b < 2 ^ n -> N.lor a b < 2 ^ n.
Proof.
  intros Ha Hb. destruct (N.eq_dec a 0) as [->|Na]; [now rewrite N.lor_0_l|].
  destruct (N.eq_dec b 0) as [->|Nb]; [now rewrite N.lor_0_r|].
  assert (Nl : N.lor a b <> 0) by (intros Z; apply N.lor_eq_0_iff in Z; tauto).
  apply N.log2_lt_pow2; [lia|]. rewrite N.log2_lor.
  apply N.log2_lt_pow2 in Ha; [|lia]. apply N.log2_lt_pow2 in Hb; [|lia]. lia.
Qed.

Lemma cw_add_all_u64 : MAXV = 64 -> forall lens cw cw',
  cw < 2 ^ 64 -> cw_add_all cw lens = Some cw' -> cw' < 2 ^ 64.
Proof.
  intros HM. induction lens as [|l t IH]; intros cw cw' Hc H.
  - cbn in H. injection H as <-. exact Hc.
  - cbn [cw_add_all] in H. unfold cw_add_word in H. destruct (cw_single (N.of_nat l)) as [m|] eqn:E; [|discriminate].
    cbn [option_map] in H. apply (IH (N.lor cw m)); [|exact H].
    apply lor_lt_pow2; [exact Hc|]. apply cw_single_some in E. subst m. unfold shift_of. rewrite HM.
    apply N.pow_lt_mono_r; lia.
Qed.

(* ---------- Regex: the only error, and its cause ---------- *)
Section Regex.
  Hypothesis Hfix : OF.regex_ignores_empty_match = true.

  Theorem regex_result x conts off other result :
    (off < List.length conts)%nat -> (off < List.length (x_matches x))%nat ->
    (exists ns, regex_provide x conts off other result = ROk ns)
    \/ (regex_provide x conts off other result = RErr /\ x_debug x = true
        /\ exists mlen, nth_error (x_matches x) off = Some (Some (false, mlen))).
  Proof.
    intros Hc Hm. unfold regex_provide.
    assert (E1 : exists a, nth_error conts off = Some a) by (destruct (nth_error conts off) eqn:E; [eauto|apply nth_error_None in E; lia]).
    assert (E2 : exists a, nth_error conts (pred off) = Some a)
      by (destruct (nth_error conts (pred off)) eqn:E; [eauto|apply nth_error_None in E; lia]).
    destruct E1 as [a1 ->]. destruct E2 as [a2 ->].
    destruct (if x_strict x && Nat.ltb 0 off then Some _ else Some false) as [[|]|] eqn:Eb.
    - left. eauto.
    - destruct (nth_error (x_matches x) off) as [[[at0 mlen]|]|] eqn:E; [| left; eauto | apply nth_error_None in E; lia ].
      destruct at0; cbn [negb].
      + rewrite Hfix. cbn [andb]. destruct (Nat.eqb_spec mlen 0) as [Z|NZ]; [left; eauto|].
        unfold cw_has_word. rewrite cw_single_pos by lia.
        left. destruct (N.land other _ =? 0); [eexists; reflexivity|].
        destruct (cmp_eval OF.has_word_maybe_cmp _ _); [|eexists; reflexivity].
        cbn beta iota. destruct (existsb _ result); eexists; reflexivity.
      + destruct (x_debug x) eqn:Ed; [|left; eauto]. right. split; [reflexivity|]. split; [reflexivity|]. eauto.
    - destruct (x_strict x && Nat.ltb 0 off); discriminate.
  Qed.
End Regex.

(* a provider that cannot fail on a text of len characters: no debug-mode regex; the oracle answers for every offset *)
Definition provider_total (p : provider) (len : nat) : Prop :=
  match p with
  | PRegex x => x_debug x = false /\ List.length (x_matches x) = len
  | _ => True
  end.

Section Total.
  Hypothesis Hfwd : OF.continuity_forward = true.
  Hypothesis Hfix : OF.regex_ignores_empty_match = true.

  Lemma continuity_length cs : List.length (continuity cs) = List.length cs.
  Proof. rewrite (continuity_eq_spec_generic Hfwd). apply spec_length. Qed.

  Theorem provide_total p cs off other result :
    (off < List.length cs)%nat -> provider_total p (List.length cs) ->
    exists ns, provide p (mk_ctx cs) off other result = ROk ns.
  Proof.
    intros Hoff Ht. destruct p as [m|o|x]; cbn [provide mk_ctx c_cats c_bows c_conts].
    - apply mecab_total; [apply (continuity_eq_spec_generic Hfwd)|exact Hoff].
    - apply simple_total. exact Hoff.
    - destruct Ht as [Hd Hl].
      destruct (regex_result Hfix x (continuity cs) off other result) as [H|(_ & Hdbg & _)]; auto.
      + rewrite continuity_length. exact Hoff.
      + rewrite Hl. exact Hoff.
      + congruence.
  Qed.

  Lemma provide_oovs_total cs off st p :
    (off < List.length cs)%nat -> provider_total p (List.length cs) -> provider_oracle_ok p (List.length cs) ->
    exists st', provide_oovs (mk_ctx cs) off st p = ROk st'.
  Proof.
    intros Hoff Ht Hor. unfold provide_oovs.
    destruct (provide_total p cs off (fst st) (snd st) Hoff Ht) as [ns E]. rewrite E.
    destruct (cw_add_all_total (map node_len ns) (fst st)) as [cw' ->]; [|eauto].
    intros l Hl. apply in_map_iff in Hl. destruct Hl as [nd [<- Hnd]].
    destruct (candidates_wf Hfwd Hfix p cs off _ _ ns Hor E nd Hnd) as [Hb He]. unfold node_len. lia.
  Qed.

  Lemma provide_all_total cs off : forall ps st,
    (off < List.length cs)%nat ->
    (forall p, In p ps -> provider_total p (List.length cs) /\ provider_oracle_ok p (List.length cs)) ->
    exists st', provide_all (mk_ctx cs) off st ps = ROk st'.
  Proof.
    induction ps as [|p ps IH]; intros st Hoff H; [cbn; eauto|].
    cbn [provide_all]. destruct (H p (or_introl eq_refl)) as [Ht Hor].
    destruct (provide_oovs_total cs off st p Hoff Ht Hor) as [st1 ->].
    apply IH; [exact Hoff|]. intros q Hq. apply H. right. exact Hq.
  Qed.

  (* the regular pass of a position never fails: dictionary candidates of positive length, any providers except a
     debug-mode regex *)
  Theorem providers_never_fail gate cs ps off dict :
    (off < List.length cs)%nat ->
    Forall (cand_wf (List.length cs) off) dict ->
    (forall p, In p ps -> provider_total p (List.length cs) /\ provider_oracle_ok p (List.length cs)) ->
    exists st, normal_pass_g gate (mk_ctx cs) ps off dict = ROk st.
  Proof.
    intros Hoff Hd Hp. unfold normal_pass_g.
    destruct (cw_add_all_total (map node_len dict) 0) as [cw0 ->].
    { intros l Hl. apply in_map_iff in Hl. destruct Hl as [nd [<- Hnd]]. rewrite Forall_forall in Hd.
      destruct (Hd nd Hnd). unfold node_len. lia. }
    cbn [mk_ctx c_cats]. destruct (nth_error cs off) as [c|] eqn:E; [|apply nth_error_None in E; lia].
    destruct (inter c gate); [eauto|]. apply provide_all_total; assumption.
  Qed.
End Total.
