(* C11 — token boundaries and word identities do not depend on the loaded subset, under the stated conditions.
   Part 1 (this section): the path-rewrite plugins (builder G's Model/Rewrite.v) read, of every node, only its ranges,
   the dictionary-side surface, the normalised form, the part-of-speech id, the OOV flag and the character classes of
   its range -- JoinKatakanaOov not even the normalised form and the part of speech.  Stated as congruences: node lists
   that agree on those fields are rewritten to node lists that agree on them (and fail alike). *)
From Coq Require Import List NArith ZArith Bool Arith Lia.
From SudachiVerif Require Import Model.Numeric Model.Rewrite.
Import ListNotations.

(* ------------------------------------------------------------------ the fields the plugins look at *)
Definition kat_fields_eq (a b : node) : Prop :=
  nb a = nb b /\ ne a = ne b /\ bb a = bb b /\ be a = be b /\ surf a = surf b /\ oov a = oov b /\ cats a = cats b /\ cat0 a = cat0 b.
Definition num_fields_eq (a b : node) : Prop := kat_fields_eq a b /\ norm a = norm b /\ pos a = pos b.

Definition res_rel (R : node -> node -> Prop) (x y : res (list node)) : Prop :=
  match x, y with
  | Ok a, Ok b => Forall2 R a b
  | ErrRange, ErrRange => True
  | PanicIndex, PanicIndex => True
  | _, _ => False
  end.
Definition ores_rel (R : node -> node -> Prop) (x y : option (res (list node))) : Prop :=
  match x, y with
  | Some a, Some b => res_rel R a b
  | None, None => True
  | _, _ => False
  end.

Section Congruence.
Variable R : node -> node -> Prop.
Hypothesis R_kat : forall a b, R a b -> kat_fields_eq a b.
Hypothesis R_dnode : R dnode dnode.

Lemma F2_length : forall p q, Forall2 R p q -> length p = length q.
Proof. induction 1; cbn; congruence. Qed.

Lemma F2_at : forall p q i, Forall2 R p q -> R (at_ p i) (at_ q i).
Proof.
  unfold at_. intros p q i H. revert i. induction H as [|a b p q Hab _ IH]; intros i; destruct i; cbn; auto.
Qed.

Lemma F2_firstn : forall n p q, Forall2 R p q -> Forall2 R (firstn n p) (firstn n q).
Proof. induction n; intros p q H; cbn; [constructor|]. destruct H; constructor; auto. Qed.
Lemma F2_skipn : forall n p q, Forall2 R p q -> Forall2 R (skipn n p) (skipn n q).
Proof. induction n; intros p q H; cbn; [exact H|]. destruct H; [constructor|auto]. Qed.
Lemma F2_slice : forall p q b e, Forall2 R p q -> Forall2 R (slice p b e) (slice q b e).
Proof. intros. unfold slice. apply F2_firstn, F2_skipn. assumption. Qed.
Lemma F2_app : forall a b c d, Forall2 R a b -> Forall2 R c d -> Forall2 R (a ++ c) (b ++ d).
Proof. intros a b c d H. induction H; cbn; auto. Qed.

Lemma F2_hd : forall g g', Forall2 R g g' -> R (hd dnode g) (hd dnode g').
Proof. intros g g' H. destruct H; cbn; auto. Qed.
Lemma F2_last : forall g g', Forall2 R g g' -> R (last g dnode) (last g' dnode).
Proof.
  intros g g' H. induction H as [|a b g g' Hab H IH]; cbn; [exact R_dnode|].
  destruct H; [exact Hab|exact IH].
Qed.
Lemma F2_map_eq : forall {A} (f : node -> A) g g', (forall a b, R a b -> f a = f b) -> Forall2 R g g' -> map f g = map f g'.
Proof. intros A f g g' Hf H. induction H; cbn; [reflexivity|]. f_equal; auto. Qed.

Lemma is_kat_eq : forall a b, R a b -> is_kat a = is_kat b.
Proof. intros a b H. destruct (R_kat _ _ H) as (_ & _ & _ & _ & _ & _ & Hc & _). unfold is_kat. rewrite Hc. reflexivity. Qed.
Lemma can_oov_bow_eq : forall a b, R a b -> can_oov_bow a = can_oov_bow b.
Proof. intros a b H. destruct (R_kat _ _ H) as (_ & _ & _ & _ & _ & _ & _ & Hc). unfold can_oov_bow. rewrite Hc. reflexivity. Qed.
Lemma oov_eq : forall a b, R a b -> oov a = oov b.
Proof. intros a b H. destruct (R_kat _ _ H) as (_ & _ & _ & _ & _ & Ho & _). exact Ho. Qed.
Lemma is_shorter_eq : forall ml a b, R a b -> is_shorter ml a = is_shorter ml b.
Proof. intros ml a b H. destruct (R_kat _ _ H) as (H1 & H2 & _). unfold is_shorter. rewrite H1, H2. reflexivity. Qed.

Lemma and_cats_eq : forall g g', Forall2 R g g' -> and_cats g = and_cats g'.
Proof.
  intros g g' H. unfold and_cats. destruct H as [|a b g g' Hab H]; [reflexivity|].
  destruct (R_kat _ _ Hab) as (_ & _ & _ & _ & _ & _ & Hc & _). rewrite Hc. generalize (cats b). clear Hab Hc.
  induction H as [|x y g g' Hxy _ IH]; intros c; cbn; [reflexivity|].
  destruct (R_kat _ _ Hxy) as (_ & _ & _ & _ & _ & _ & Hc & _). rewrite Hc. apply IH.
Qed.

Lemma scan_left_eq : forall p q b, Forall2 R p q -> scan_left p b = scan_left q b.
Proof.
  intros p q b H. induction b as [|b IH]; cbn [scan_left]; [reflexivity|].
  rewrite (is_kat_eq _ _ (F2_at p q b H)), IH. reflexivity.
Qed.
Lemma scan_right_eq : forall p q fuel e, Forall2 R p q -> scan_right p e fuel = scan_right q e fuel.
Proof.
  intros p q fuel. induction fuel as [|f IH]; intros e H; cbn [scan_right]; [reflexivity|].
  rewrite (F2_length _ _ H), (is_kat_eq _ _ (F2_at p q e H)).
  destruct ((e <? length q) && is_kat (at_ q e)); [apply IH; exact H|reflexivity].
Qed.
Lemma skip_nobow_eq : forall p q fuel b e, Forall2 R p q -> skip_nobow p b e fuel = skip_nobow q b e fuel.
Proof.
  intros p q fuel. induction fuel as [|f IH]; intros b e H; cbn [skip_nobow]; [reflexivity|].
  rewrite (can_oov_bow_eq _ _ (F2_at p q b H)).
  destruct (negb (b =? e) && negb (can_oov_bow (at_ q b))); [apply IH; exact H|reflexivity].
Qed.

(* ---- JoinKatakanaOov ---- *)
Hypothesis R_merged_oov : forall g g' pid, Forall2 R g g' -> R (merged_oov g pid) (merged_oov g' pid).

Lemma concat_oov_rel : forall p q b e pid, Forall2 R p q ->
  res_rel R (concat_oov_nodes p b e pid) (concat_oov_nodes q b e pid).
Proof.
  intros p q b e pid H. unfold concat_oov_nodes. destruct (e <=? b); [exact I|].
  rewrite (F2_length _ _ H). destruct (length q <? e); [exact I|]. cbn [res_rel].
  apply F2_app; [apply F2_firstn; exact H|]. constructor; [apply R_merged_oov, F2_slice; exact H|apply F2_skipn; exact H].
Qed.

Lemma kat_loop_rel : forall ml op fuel p q i, Forall2 R p q ->
  ores_rel R (kat_loop ml op fuel p i) (kat_loop ml op fuel q i).
Proof.
  intros ml op fuel. induction fuel as [|f IH]; intros p q i H; cbn [kat_loop]; [exact I|].
  rewrite (F2_length _ _ H). destruct (length q <=? i); [exact H|].
  pose proof (F2_at p q i H) as Hi.
  rewrite (oov_eq _ _ Hi), (is_shorter_eq ml _ _ Hi), (is_kat_eq _ _ Hi).
  destruct (negb (oov (at_ q i) || is_shorter ml (at_ q i)) || negb (is_kat (at_ q i))); [apply IH; exact H|].
  rewrite (scan_left_eq p q i H), (scan_right_eq p q (length q) (S i) H).
  rewrite (skip_nobow_eq p q (length q) _ _ H).
  set (e := scan_right q (S i) (length q)). set (b := skip_nobow q (scan_left q i) e (length q)).
  destruct (N.to_nat RF.kat_merge_above <? e - b); [|apply IH; exact H].
  pose proof (concat_oov_rel p q b e op H) as Hc.
  destruct (concat_oov_nodes p b e op) as [p'| |], (concat_oov_nodes q b e op) as [q'| |]; cbn [res_rel] in Hc; try contradiction; try exact I.
  apply IH. exact Hc.
Qed.

Theorem join_katakana_rel : forall ml op p q, Forall2 R p q ->
  ores_rel R (join_katakana ml op p) (join_katakana ml op q).
Proof. intros ml op p q H. unfold join_katakana. rewrite (F2_length _ _ H). apply kat_loop_rel. exact H. Qed.

(* ---- JoinNumeric ---- *)
Hypothesis R_num : forall a b, R a b -> norm a = norm b /\ pos a = pos b.
Hypothesis R_merged_numeric : forall g g' nf, Forall2 R g g' -> R (merged_numeric g nf) (merged_numeric g' nf).

Lemma norm_of_eq : forall a b, R a b -> norm_of a = norm_of b.
Proof.
  intros a b H. destruct (R_kat _ _ H) as (_ & _ & _ & _ & Hs & _). destruct (R_num _ _ H) as [Hn _].
  unfold norm_of. rewrite Hn, Hs. reflexivity.
Qed.
Lemma is_numcat_eq : forall a b, R a b -> is_numcat a = is_numcat b.
Proof. intros a b H. destruct (R_kat _ _ H) as (_ & _ & _ & _ & _ & _ & Hc & _). unfold is_numcat. rewrite Hc. reflexivity. Qed.
Lemma pos_eq : forall a b, R a b -> pos a = pos b.
Proof. intros a b H. apply (R_num _ _ H). Qed.

Lemma concat_nodes_rel : forall p q b e nf, Forall2 R p q ->
  res_rel R (concat_nodes p b e nf) (concat_nodes q b e nf).
Proof.
  intros p q b e nf H. unfold concat_nodes. destruct (e <=? b); [exact I|].
  rewrite (F2_length _ _ H). destruct (length q <? e); [exact I|]. cbn [res_rel].
  apply F2_app; [apply F2_firstn; exact H|]. constructor; [apply R_merged_numeric, F2_slice; exact H|apply F2_skipn; exact H].
Qed.

Lemma num_concat_rel : forall en npos p q b e ps, Forall2 R p q ->
  res_rel R (num_concat en npos p b e ps) (num_concat en npos q b e ps).
Proof.
  intros en npos p q b e ps H. unfold num_concat.
  rewrite (pos_eq _ _ (F2_at p q b H)), (norm_of_eq _ _ (F2_at p q b H)).
  destruct (negb (N.eqb (pos (at_ q b)) npos)); [exact H|].
  destruct en.
  - destruct ((N.to_nat RF.num_merge_above <? e - b) || negb (text_eqb (s_to_string gen_cfg (tot ps)) (norm_of (at_ q b))));
      [apply concat_nodes_rel; exact H|exact H].
  - destruct (N.to_nat RF.num_merge_above <? e - b); [apply concat_nodes_rel; exact H|exact H].
Qed.

(* states of the numeric loop that differ only in fields the plugin does not read *)
Definition nstate_rel (s s' : nstate) : Prop :=
  Forall2 R (np s) (np s') /\ ni s = ni s' /\ nbeg s = nbeg s' /\ ncad s = ncad s' /\ npad s = npad s' /\ nps s = nps s'.

Definition step_rel (x y : option (res nstate)) : Prop :=
  match x, y with
  | None, None => True
  | Some (Ok a), Some (Ok b) => nstate_rel a b
  | Some ErrRange, Some ErrRange => True
  | Some PanicIndex, Some PanicIndex => True
  | _, _ => False
  end.

Definition res3_rel (x y : res (list node * Z * parser)) : Prop :=
  match x, y with
  | Ok (a, u, v), Ok (b, u', v') => Forall2 R a b /\ u = u' /\ v = v'
  | ErrRange, ErrRange => True
  | PanicIndex, PanicIndex => True
  | _, _ => False
  end.

Lemma num_step_rel : forall en npos s s', nstate_rel s s' -> step_rel (num_step en npos s) (num_step en npos s').
Proof.
  intros en npos [p i bg cad pad ps] [q i' bg' cad' pad' ps'] (H & Hi & Hb & Hc & Hp & Hs).
  cbn [np ni nbeg ncad npad nps] in *. subst i' bg' cad' pad' ps'.
  unfold num_step. cbn [np ni nbeg ncad npad nps].
  rewrite (F2_length _ _ H).
  destruct (negb (Z.ltb i (Z.of_nat (length q) - 1))); [exact I|].
  pose proof (F2_at p q (Z.to_nat (i + 1)) H) as Hn.
  rewrite (is_numcat_eq _ _ Hn), (norm_of_eq _ _ Hn).
  set (n := at_ q (Z.to_nat (i + 1))). set (s := norm_of n).
  destruct (is_numcat n || (cad && is_str s 44) || (pad && is_str s 46)).
  - destruct (if Z.ltb bg 0 then ((i + 1)%Z, p_new gen_cfg) else (bg, ps)) as [beg ps0].
    destruct (feed_chars ps0 s) as [ok ps1]. destruct ok; [repeat split; assumption|].
    destruct (N.eqb (er ps1) E_COMMA && (negb RF.restart_requires_flag || cad)); [repeat split; assumption|].
    destruct (N.eqb (er ps1) E_POINT && (negb RF.restart_requires_flag || pad)); repeat split; assumption.
  - (* the run ends here *)
    cbv zeta.
    match goal with
    | |- step_rel (match ?A with Ok _ => _ | ErrRange => _ | PanicIndex => _ end)
                  (match ?B with Ok _ => _ | ErrRange => _ | PanicIndex => _ end) =>
        assert (Hr : res3_rel A B); [|destruct A as [[[a x] y]| |], B as [[[b x'] y']| |]; cbn [res3_rel] in Hr; try contradiction; try exact I]
    end.
    + destruct (Z.leb 0 bg); [|repeat split; assumption].
      destruct (p_done gen_cfg ps) as [ok ps1]. destruct ok.
      * pose proof (num_concat_rel en npos p q (Z.to_nat bg) (Z.to_nat (i + 1)) ps1 H) as Hc.
        destruct (num_concat en npos p (Z.to_nat bg) (Z.to_nat (i + 1)) ps1), (num_concat en npos q (Z.to_nat bg) (Z.to_nat (i + 1)) ps1);
          cbn [res_rel] in Hc; try contradiction; try exact I. repeat split; assumption.
      * rewrite (norm_of_eq _ _ (F2_at p q (Z.to_nat (i + 1) - 1) H)).
        destruct ((N.eqb (er ps1) E_COMMA && is_str (norm_of (at_ q (Z.to_nat (i + 1) - 1))) 44)
                  || (N.eqb (er ps1) E_POINT && is_str (norm_of (at_ q (Z.to_nat (i + 1) - 1))) 46)); [|repeat split; assumption].
        pose proof (num_concat_rel en npos p q (Z.to_nat bg) (Z.to_nat (i + 1) - 1) ps1 H) as Hc.
        destruct (num_concat en npos p (Z.to_nat bg) (Z.to_nat (i + 1) - 1) ps1), (num_concat en npos q (Z.to_nat bg) (Z.to_nat (i + 1) - 1) ps1);
          cbn [res_rel] in Hc; try contradiction; try exact I. repeat split; assumption.
    + destruct Hr as (Hab & -> & ->). repeat split; try assumption; reflexivity.
Qed.

Lemma num_finish_rel : forall en npos s s', nstate_rel s s' -> res_rel R (num_finish en npos s) (num_finish en npos s').
Proof.
  intros en npos [p i bg cad pad ps] [q i' bg' cad' pad' ps'] (H & Hi & Hb & Hc & Hp & Hs).
  cbn [np ni nbeg ncad npad nps] in *. subst i' bg' cad' pad' ps'.
  unfold num_finish. cbn [np nbeg nps]. rewrite (F2_length _ _ H).
  destruct (Z.leb 0 bg); [|exact H].
  destruct (p_done gen_cfg ps) as [ok ps1]. destruct ok; [apply num_concat_rel; exact H|].
  rewrite (norm_of_eq _ _ (F2_at p q (length q - 1) H)).
  destruct ((N.eqb (er ps1) E_COMMA && is_str (norm_of (at_ q (length q - 1))) 44)
            || (N.eqb (er ps1) E_POINT && is_str (norm_of (at_ q (length q - 1))) 46)); [apply num_concat_rel; exact H|exact H].
Qed.

Lemma num_loop_rel : forall en npos fuel s s', nstate_rel s s' ->
  ores_rel R (num_loop en npos fuel s) (num_loop en npos fuel s').
Proof.
  intros en npos fuel. induction fuel as [|f IH]; intros s s' H; cbn [num_loop]; [exact I|].
  pose proof (num_step_rel en npos s s' H) as Hst.
  destruct (num_step en npos s) as [[a| |]|], (num_step en npos s') as [[b| |]|]; cbn [step_rel] in Hst; try contradiction; try exact I.
  - apply IH. exact Hst.
  - apply num_finish_rel. exact H.
Qed.

Theorem join_numeric_rel : forall en npos p q, Forall2 R p q ->
  ores_rel R (join_numeric en npos p) (join_numeric en npos q).
Proof.
  intros en npos p q H. unfold join_numeric, num_fuel. rewrite (F2_length _ _ H).
  apply num_loop_rel. repeat split; try reflexivity. exact H.
Qed.

(* ---- chains ---- *)
Theorem run_plugins_rel : forall pls p q, Forall2 R p q -> ores_rel R (run_plugins pls p) (run_plugins pls q).
Proof.
  induction pls as [|pl t IH]; intros p q H; cbn [run_plugins]; [exact H|].
  assert (Hp : ores_rel R (run_plugin pl p) (run_plugin pl q)).
  { destruct pl; cbn [run_plugin]; [apply join_numeric_rel|apply join_katakana_rel]; exact H. }
  destruct (run_plugin pl p) as [[a| |]|], (run_plugin pl q) as [[b| |]|]; cbn [ores_rel res_rel] in Hp; try contradiction; try exact I.
  apply IH. exact Hp.
Qed.
End Congruence.
