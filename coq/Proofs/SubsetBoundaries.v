(* C11 — token boundaries and word identities do not depend on the loaded subset, under the stated conditions.
   Part 1 (this section): the path-rewrite plugins (builder G's Model/Rewrite.v) read, of every node, only its ranges,
   the dictionary-side surface, the normalised form, the part-of-speech id, the OOV flag and the character classes of
   its range -- JoinKatakanaOov not even the normalised form and the part of speech.  Stated as congruences: node lists
   that agree on those fields are rewritten to node lists that agree on them (and fail alike). *)
From Coq Require Import List NArith ZArith Bool Arith Lia.
From SudachiVerif Require Import Model.Numeric Model.Rewrite.
Import ListNotations.

(* ------------------------------------------------------------------ the fields the plugins look at *)
Definition kat_fields_eq (a b : node) : Prop :=
  nb a = nb b /\ ne a = ne b /\ bb a = bb b /\ be a = be b /\ surf a = surf b /\ oov a = oov b /\ cats a = cats b /\ cat0 a = cat0 b.
Definition num_fields_eq (a b : node) : Prop := kat_fields_eq a b /\ norm a = norm b /\ pos a = pos b.

Definition res_rel (R : node -> node -> Prop) (x y : res (list node)) : Prop :=
  match x, y with
  | Ok a, Ok b => Forall2 R a b
  | ErrRange, ErrRange => True
  | PanicIndex, PanicIndex => True
  | _, _ => False
  end.
Definition ores_rel (R : node -> node -> Prop) (x y : option (res (list node))) : Prop :=
  match x, y with
  | Some a, Some b => res_rel R a b
  | None, None => True
  | _, _ => False
  end.

Section Congruence.
Variable R : node -> node -> Prop.
Hypothesis R_kat : forall a b, R a b -> kat_fields_eq a b.
Hypothesis R_dnode : R dnode dnode.

Lemma F2_length : forall p q, Forall2 R p q -> length p = length q.
Proof. induction 1; cbn; congruence. Qed.

Lemma F2_at : forall p q i, Forall2 R p q -> R (at_ p i) (at_ q i).
Proof.
  unfold at_. intros p q i H. revert i. induction H as [|a b p q Hab _ IH]; intros i; destruct i; cbn; auto.
Qed.

Lemma F2_firstn : forall n p q, Forall2 R p q -> Forall2 R (firstn n p) (firstn n q).
Proof. induction n; intros p q H; cbn; [constructor|]. destruct H; constructor; auto. Qed.
Lemma F2_skipn : forall n p q, Forall2 R p q -> Forall2 R (skipn n p) (skipn n q).
Proof. induction n; intros p q H; cbn; [exact H|]. destruct H; [constructor|auto]. Qed.
Lemma F2_slice : forall p q b e, Forall2 R p q -> Forall2 R (slice p b e) (slice q b e).
Proof. intros. unfold slice. apply F2_firstn, F2_skipn. assumption. Qed.
Lemma F2_app : forall a b c d, Forall2 R a b -> Forall2 R c d -> Forall2 R (a ++ c) (b ++ d).
Proof. intros a b c d H. induction H; cbn; auto. Qed.

Lemma F2_hd : forall g g', Forall2 R g g' -> R (hd dnode g) (hd dnode g').
Proof. intros g g' H. destruct H; cbn; auto. Qed.
Lemma F2_last : forall g g', Forall2 R g g' -> R (last g dnode) (last g' dnode).
Proof.
  intros g g' H. induction H as [|a b g g' Hab H IH]; cbn; [exact R_dnode|].
  destruct H; [exact Hab|exact IH].
Qed.
Lemma F2_map_eq : forall {A} (f : node -> A) g g', (forall a b, R a b -> f a = f b) -> Forall2 R g g' -> map f g = map f g'.
Proof. intros A f g g' Hf H. induction H; cbn; [reflexivity|]. f_equal; auto. Qed.

Lemma is_kat_eq : forall a b, R a b -> is_kat a = is_kat b.
Proof. intros a b H. destruct (R_kat _ _ H) as (_ & _ & _ & _ & _ & _ & Hc & _). unfold is_kat. rewrite Hc. reflexivity. Qed.
Lemma can_oov_bow_eq : forall a b, R a b -> can_oov_bow a = can_oov_bow b.
Proof. intros a b H. destruct (R_kat _ _ H) as (_ & _ & _ & _ & _ & _ & _ & Hc). unfold can_oov_bow. rewrite Hc. reflexivity. Qed.
Lemma oov_eq : forall a b, R a b -> oov a = oov b.
Proof. intros a b H. destruct (R_kat _ _ H) as (_ & _ & _ & _ & _ & Ho & _). exact Ho. Qed.
Lemma is_shorter_eq : forall ml a b, R a b -> is_shorter ml a = is_shorter ml b.
Proof. intros ml a b H. destruct (R_kat _ _ H) as (H1 & H2 & _). unfold is_shorter. rewrite H1, H2. reflexivity. Qed.

Lemma and_cats_eq : forall g g', Forall2 R g g' -> and_cats g = and_cats g'.
Proof.
  intros g g' H. unfold and_cats. destruct H as [|a b g g' Hab H]; [reflexivity|].
  destruct (R_kat _ _ Hab) as (_ & _ & _ & _ & _ & _ & Hc & _). rewrite Hc. generalize (cats b). clear Hab Hc.
  induction H as [|x y g g' Hxy _ IH]; intros c; cbn; [reflexivity|].
  destruct (R_kat _ _ Hxy) as (_ & _ & _ & _ & _ & _ & Hc & _). rewrite Hc. apply IH.
Qed.

Lemma scan_left_eq : forall p q b, Forall2 R p q -> scan_left p b = scan_left q b.
Proof.
  intros p q b H. induction b as [|b IH]; cbn [scan_left]; [reflexivity|].
  rewrite (is_kat_eq _ _ (F2_at p q b H)), IH. reflexivity.
Qed.
Lemma scan_right_eq : forall p q fuel e, Forall2 R p q -> scan_right p e fuel = scan_right q e fuel.
Proof.
  intros p q fuel. induction fuel as [|f IH]; intros e H; cbn [scan_right]; [reflexivity|].
  rewrite (F2_length _ _ H), (is_kat_eq _ _ (F2_at p q e H)).
  destruct ((e <? length q) && is_kat (at_ q e)); [apply IH; exact H|reflexivity].
Qed.
Lemma skip_nobow_eq : forall p q fuel b e, Forall2 R p q -> skip_nobow p b e fuel = skip_nobow q b e fuel.
Proof.
  intros p q fuel. induction fuel as [|f IH]; intros b e H; cbn [skip_nobow]; [reflexivity|].
  rewrite (can_oov_bow_eq _ _ (F2_at p q b H)).
  destruct (negb (b =? e) && negb (can_oov_bow (at_ q b))); [apply IH; exact H|reflexivity].
Qed.

(* ---- JoinKatakanaOov ---- *)
Hypothesis R_merged_oov : forall g g' pid, Forall2 R g g' -> R (merged_oov g pid) (merged_oov g' pid).

Lemma concat_oov_rel : forall p q b e pid, Forall2 R p q ->
  res_rel R (concat_oov_nodes p b e pid) (concat_oov_nodes q b e pid).
Proof.
  intros p q b e pid H. unfold concat_oov_nodes. destruct (e <=? b); [exact I|].
  rewrite (F2_length _ _ H). destruct (length q <? e); [exact I|]. cbn [res_rel].
  apply F2_app; [apply F2_firstn; exact H|]. constructor; [apply R_merged_oov, F2_slice; exact H|apply F2_skipn; exact H].
Qed.

Lemma kat_loop_rel : forall ml op fuel p q i, Forall2 R p q ->
  ores_rel R (kat_loop ml op fuel p i) (kat_loop ml op fuel q i).
Proof.
  intros ml op fuel. induction fuel as [|f IH]; intros p q i H; cbn [kat_loop]; [exact I|].
  rewrite (F2_length _ _ H). destruct (length q <=? i); [exact H|].
  pose proof (F2_at p q i H) as Hi.
  rewrite (oov_eq _ _ Hi), (is_shorter_eq ml _ _ Hi), (is_kat_eq _ _ Hi).
  destruct (negb (oov (at_ q i) || is_shorter ml (at_ q i)) || negb (is_kat (at_ q i))); [apply IH; exact H|].
  rewrite (scan_left_eq p q i H), (scan_right_eq p q (length q) (S i) H).
  rewrite (skip_nobow_eq p q (length q) _ _ H).
  set (e := scan_right q (S i) (length q)). set (b := skip_nobow q (scan_left q i) e (length q)).
  destruct (N.to_nat RF.kat_merge_above <? e - b); [|apply IH; exact H].
  pose proof (concat_oov_rel p q b e op H) as Hc.
  destruct (concat_oov_nodes p b e op) as [p'| |], (concat_oov_nodes q b e op) as [q'| |]; cbn [res_rel] in Hc; try contradiction; try exact I.
  apply IH. exact Hc.
Qed.

Theorem join_katakana_rel : forall ml op p q, Forall2 R p q ->
  ores_rel R (join_katakana ml op p) (join_katakana ml op q).
Proof. intros ml op p q H. unfold join_katakana. rewrite (F2_length _ _ H). apply kat_loop_rel. exact H. Qed.

(* ---- JoinNumeric ---- *)
Hypothesis R_num : forall a b, R a b -> norm a = norm b /\ pos a = pos b.
Hypothesis R_merged_numeric : forall g g' nf, Forall2 R g g' -> R (merged_numeric g nf) (merged_numeric g' nf).

Lemma norm_of_eq : forall a b, R a b -> norm_of a = norm_of b.
Proof.
  intros a b H. destruct (R_kat _ _ H) as (_ & _ & _ & _ & Hs & _). destruct (R_num _ _ H) as [Hn _].
  unfold norm_of. rewrite Hn, Hs. reflexivity.
Qed.
Lemma is_numcat_eq : forall a b, R a b -> is_numcat a = is_numcat b.
Proof. intros a b H. destruct (R_kat _ _ H) as (_ & _ & _ & _ & _ & _ & Hc & _). unfold is_numcat. rewrite Hc. reflexivity. Qed.
Lemma pos_eq : forall a b, R a b -> pos a = pos b.
Proof. intros a b H. apply (R_num _ _ H). Qed.

Lemma concat_nodes_rel : forall p q b e nf, Forall2 R p q ->
  res_rel R (concat_nodes p b e nf) (concat_nodes q b e nf).
Proof.
  intros p q b e nf H. unfold concat_nodes. destruct (e <=? b); [exact I|].
  rewrite (F2_length _ _ H). destruct (length q <? e); [exact I|]. cbn [res_rel].
  apply F2_app; [apply F2_firstn; exact H|]. constructor; [apply R_merged_numeric, F2_slice; exact H|apply F2_skipn; exact H].
Qed.

Lemma num_concat_rel : forall en npos p q b e ps, Forall2 R p q ->
  res_rel R (num_concat en npos p b e ps) (num_concat en npos q b e ps).
Proof.
  intros en npos p q b e ps H. unfold num_concat.
  rewrite (pos_eq _ _ (F2_at p q b H)), (norm_of_eq _ _ (F2_at p q b H)).
  destruct (negb (N.eqb (pos (at_ q b)) npos)); [exact H|].
  destruct en.
  - destruct ((N.to_nat RF.num_merge_above <? e - b) || negb (text_eqb (s_to_string gen_cfg (tot ps)) (norm_of (at_ q b))));
      [apply concat_nodes_rel; exact H|exact H].
  - destruct (N.to_nat RF.num_merge_above <? e - b); [apply concat_nodes_rel; exact H|exact H].
Qed.

(* states of the numeric loop that differ only in fields the plugin does not read *)
Definition nstate_rel (s s' : nstate) : Prop :=
  Forall2 R (np s) (np s') /\ ni s = ni s' /\ nbeg s = nbeg s' /\ ncad s = ncad s' /\ npad s = npad s' /\ nps s = nps s'.

Definition step_rel (x y : option (res nstate)) : Prop :=
  match x, y with
  | None, None => True
  | Some (Ok a), Some (Ok b) => nstate_rel a b
  | Some ErrRange, Some ErrRange => True
  | Some PanicIndex, Some PanicIndex => True
  | _, _ => False
  end.

Definition res3_rel (x y : res (list node * Z * parser)) : Prop :=
  match x, y with
  | Ok (a, u, v), Ok (b, u', v') => Forall2 R a b /\ u = u' /\ v = v'
  | ErrRange, ErrRange => True
  | PanicIndex, PanicIndex => True
  | _, _ => False
  end.

Lemma num_step_rel : forall en npos s s', nstate_rel s s' -> step_rel (num_step en npos s) (num_step en npos s').
Proof.
  intros en npos [p i bg cad pad ps] [q i' bg' cad' pad' ps'] (H & Hi & Hb & Hc & Hp & Hs).
  cbn [np ni nbeg ncad npad nps] in *. subst i' bg' cad' pad' ps'.
  unfold num_step. cbn [np ni nbeg ncad npad nps].
  rewrite (F2_length _ _ H).
  destruct (negb (Z.ltb i (Z.of_nat (length q) - 1))); [exact I|].
  pose proof (F2_at p q (Z.to_nat (i + 1)) H) as Hn.
  rewrite (is_numcat_eq _ _ Hn), (norm_of_eq _ _ Hn).
  set (n := at_ q (Z.to_nat (i + 1))). set (s := norm_of n).
  destruct (is_numcat n || (cad && is_str s 44) || (pad && is_str s 46)).
  - destruct (if Z.ltb bg 0 then ((i + 1)%Z, p_new gen_cfg) else (bg, ps)) as [beg ps0].
    destruct (feed_chars ps0 s) as [ok ps1]. destruct ok; [repeat split; assumption|].
    destruct (N.eqb (er ps1) E_COMMA && (negb RF.restart_requires_flag || cad)); [repeat split; assumption|].
    destruct (N.eqb (er ps1) E_POINT && (negb RF.restart_requires_flag || pad)); repeat split; assumption.
  - (* the run ends here *)
    cbv zeta.
    match goal with
    | |- step_rel (match ?A with Ok _ => _ | ErrRange => _ | PanicIndex => _ end)
                  (match ?B with Ok _ => _ | ErrRange => _ | PanicIndex => _ end) =>
        assert (Hr : res3_rel A B); [|destruct A as [[[a x] y]| |], B as [[[b x'] y']| |]; cbn [res3_rel] in Hr; try contradiction; try exact I]
    end.
    + destruct (Z.leb 0 bg); [|repeat split; assumption].
      destruct (p_done gen_cfg ps) as [ok ps1]. destruct ok.
      * pose proof (num_concat_rel en npos p q (Z.to_nat bg) (Z.to_nat (i + 1)) ps1 H) as Hc.
        destruct (num_concat en npos p (Z.to_nat bg) (Z.to_nat (i + 1)) ps1), (num_concat en npos q (Z.to_nat bg) (Z.to_nat (i + 1)) ps1);
          cbn [res_rel] in Hc; try contradiction; try exact I. repeat split; assumption.
      * rewrite (norm_of_eq _ _ (F2_at p q (Z.to_nat (i + 1) - 1) H)).
        destruct ((N.eqb (er ps1) E_COMMA && is_str (norm_of (at_ q (Z.to_nat (i + 1) - 1))) 44)
                  || (N.eqb (er ps1) E_POINT && is_str (norm_of (at_ q (Z.to_nat (i + 1) - 1))) 46)); [|repeat split; assumption].
        pose proof (num_concat_rel en npos p q (Z.to_nat bg) (Z.to_nat (i + 1) - 1) ps1 H) as Hc.
        destruct (num_concat en npos p (Z.to_nat bg) (Z.to_nat (i + 1) - 1) ps1), (num_concat en npos q (Z.to_nat bg) (Z.to_nat (i + 1) - 1) ps1);
          cbn [res_rel] in Hc; try contradiction; try exact I. repeat split; assumption.
    + destruct Hr as (Hab & -> & ->). repeat split; try assumption; reflexivity.
Qed.

Lemma num_finish_rel : forall en npos s s', nstate_rel s s' -> res_rel R (num_finish en npos s) (num_finish en npos s').
Proof.
  intros en npos [p i bg cad pad ps] [q i' bg' cad' pad' ps'] (H & Hi & Hb & Hc & Hp & Hs).
  cbn [np ni nbeg ncad npad nps] in *. subst i' bg' cad' pad' ps'.
  unfold num_finish. cbn [np nbeg nps]. rewrite (F2_length _ _ H).
  destruct (Z.leb 0 bg); [|exact H].
  destruct (p_done gen_cfg ps) as [ok ps1]. destruct ok; [apply num_concat_rel; exact H|].
  rewrite (norm_of_eq _ _ (F2_at p q (length q - 1) H)).
  destruct ((N.eqb (er ps1) E_COMMA && is_str (norm_of (at_ q (length q - 1))) 44)
            || (N.eqb (er ps1) E_POINT && is_str (norm_of (at_ q (length q - 1))) 46)); [apply num_concat_rel; exact H|exact H].
Qed.

Lemma num_loop_rel : forall en npos fuel s s', nstate_rel s s' ->
  ores_rel R (num_loop en npos fuel s) (num_loop en npos fuel s').
Proof.
  intros en npos fuel. induction fuel as [|f IH]; intros s s' H; cbn [num_loop]; [exact I|].
  pose proof (num_step_rel en npos s s' H) as Hst.
  destruct (num_step en npos s) as [[a| |]|], (num_step en npos s') as [[b| |]|]; cbn [step_rel] in Hst; try contradiction; try exact I.
  - apply IH. exact Hst.
  - apply num_finish_rel. exact H.
Qed.

Theorem join_numeric_rel : forall en npos p q, Forall2 R p q ->
  ores_rel R (join_numeric en npos p) (join_numeric en npos q).
Proof.
  intros en npos p q H. unfold join_numeric, num_fuel. rewrite (F2_length _ _ H).
  apply num_loop_rel. repeat split; try reflexivity. exact H.
Qed.

(* ---- chains ---- *)
Theorem run_plugins_rel : forall pls p q, Forall2 R p q -> ores_rel R (run_plugins pls p) (run_plugins pls q).
Proof.
  induction pls as [|pl t IH]; intros p q H; cbn [run_plugins]; [exact H|].
  assert (Hp : ores_rel R (run_plugin pl p) (run_plugin pl q)).
  { destruct pl; cbn [run_plugin]; [apply join_numeric_rel|apply join_katakana_rel]; exact H. }
  destruct (run_plugin pl p) as [[a| |]|], (run_plugin pl q) as [[b| |]|]; cbn [ores_rel res_rel] in Hp; try contradiction; try exact I.
  apply IH. exact Hp.
Qed.
End Congruence.

(* ------------------------------------------------------------------ the two instances *)
Lemma kat_fields_refl : forall a, kat_fields_eq a a.
Proof. intros a. repeat split. Qed.

Lemma F2k_hd : forall (R : node -> node -> Prop) g g', R dnode dnode -> Forall2 R g g' -> R (hd dnode g) (hd dnode g').
Proof. intros R g g' Hd H. destruct H; cbn; auto. Qed.

Lemma existsb_oov_eq : forall (R : node -> node -> Prop), (forall a b, R a b -> kat_fields_eq a b) ->
  forall g g', Forall2 R g g' -> existsb oov g = existsb oov g'.
Proof.
  intros R HR g g' H. induction H as [|a b g g' Hab _ IH]; cbn [existsb]; [reflexivity|].
  destruct (HR _ _ Hab) as (_ & _ & _ & _ & _ & Ho & _). rewrite Ho, IH. reflexivity.
Qed.

Lemma merged_oov_kat : forall g g' pid, Forall2 kat_fields_eq g g' -> kat_fields_eq (merged_oov g pid) (merged_oov g' pid).
Proof.
  intros g g' pid H.
  pose proof (F2_hd kat_fields_eq (kat_fields_refl dnode) g g' H) as Hh. pose proof (F2_last kat_fields_eq (kat_fields_refl dnode) g g' H) as Hl.
  destruct Hh as (h1 & _ & h3 & _ & _ & _ & _ & h8). destruct Hl as (_ & l2 & _ & l4 & _).
  assert (Hs : map surf g = map surf g') by (apply (F2_map_eq kat_fields_eq); [intros a b (_ & _ & _ & _ & E & _); exact E|exact H]).
  unfold merged_oov, kat_fields_eq. cbn [nb ne bb be surf oov cats cat0].
  rewrite h1, h3, l2, l4, Hs, h8, (and_cats_eq kat_fields_eq (fun a b E => E) g g' H),
          (existsb_oov_eq kat_fields_eq (fun a b E => E) g g' H). repeat split.
Qed.

Lemma num_fields_kat : forall a b, num_fields_eq a b -> kat_fields_eq a b.
Proof. intros a b [H _]. exact H. Qed.
Lemma num_fields_refl : forall a, num_fields_eq a a.
Proof. intros a. repeat split. Qed.

Lemma F2_num_kat : forall g g', Forall2 num_fields_eq g g' -> Forall2 kat_fields_eq g g'.
Proof. intros g g' H. induction H; constructor; [apply num_fields_kat|]; assumption. Qed.

Lemma merged_oov_num : forall g g' pid, Forall2 num_fields_eq g g' -> num_fields_eq (merged_oov g pid) (merged_oov g' pid).
Proof.
  intros g g' pid H. split; [apply merged_oov_kat, F2_num_kat; exact H|].
  assert (Hs : map surf g = map surf g').
  { apply (F2_map_eq num_fields_eq); [intros a b ((_ & _ & _ & _ & E & _) & _); exact E|exact H]. }
  unfold merged_oov. cbn [norm pos]. rewrite Hs. split; reflexivity.
Qed.

Lemma merged_numeric_num : forall g g' nf, Forall2 num_fields_eq g g' -> num_fields_eq (merged_numeric g nf) (merged_numeric g' nf).
Proof.
  intros g g' nf H.
  pose proof (F2_hd num_fields_eq (num_fields_refl dnode) g g' H) as Hh. pose proof (F2_last num_fields_eq (num_fields_refl dnode) g g' H) as Hl.
  destruct Hh as ((h1 & _ & h3 & _ & _ & _ & _ & h8) & _ & hp). destruct Hl as ((_ & l2 & _ & l4 & _) & _).
  assert (Hs : map surf g = map surf g').
  { apply (F2_map_eq num_fields_eq); [intros a b ((_ & _ & _ & _ & E & _) & _); exact E|exact H]. }
  assert (Hn : map norm g = map norm g').
  { apply (F2_map_eq num_fields_eq); [intros a b (_ & E & _); exact E|exact H]. }
  unfold merged_numeric, num_fields_eq, kat_fields_eq. cbn [nb ne bb be surf norm pos oov cats cat0].
  rewrite h1, h3, l2, l4, Hs, Hn, h8, hp, (and_cats_eq num_fields_eq num_fields_kat g g' H). repeat split.
Qed.

(* C11_rewrite_reads_only, JoinKatakanaOov: ranges, surface, OOV flag and the character classes are all it reads *)
Theorem join_katakana_reads_only : forall ml op p q, Forall2 kat_fields_eq p q ->
  ores_rel kat_fields_eq (join_katakana ml op p) (join_katakana ml op q).
Proof.
  intros ml op p q H.
  apply (join_katakana_rel kat_fields_eq (fun a b E => E) (kat_fields_refl dnode) merged_oov_kat ml op p q H).
Qed.

(* ... JoinNumeric additionally the normalised form and the part-of-speech id; whole chains preserve that agreement *)
Theorem run_plugins_reads_only : forall pls p q, Forall2 num_fields_eq p q ->
  ores_rel num_fields_eq (run_plugins pls p) (run_plugins pls q).
Proof.
  intros pls p q H.
  apply (run_plugins_rel num_fields_eq num_fields_kat (num_fields_refl dnode) merged_oov_num
           (fun a b E => let '(conj _ r) := E in r) merged_numeric_num pls p q H).
Qed.

(* ==================================================================================================================
   Part 2: what LexiconSet::get_word_info_subset guarantees to the later stages, for every loaded subset *)
From SudachiVerif Require Import Model.Codec Model.SubsetPipeline Proofs.CodecProofs Proofs.CodecLexSetProofs.
From SudachiVerif Require Proofs.CodecResolveLexProofs.
Open Scope N_scope.

Lemma parse_fields_cons : forall r rs fl info bs,
  parse_fields (r :: rs) fl info bs =
  if fl =? 0 then Some info
  else match rf_skip r with
       | Some skip =>
           if N.testbit fl (rf_bit r) then
             match rf_parse r bs with
             | Some (v, next) => parse_fields rs (N.clearbit fl (rf_bit r)) (set_field (rf_fid r) v info) next
             | None => None
             end
           else match skip bs with
                | Some next => parse_fields rs fl info next
                | None => None
                end
       | None =>
           match rf_parse r bs with
           | Some (v, next) => parse_fields rs (N.clearbit fl (rf_bit r)) (set_field (rf_fid r) v info) next
           | None => None
           end
       end.
Proof. reflexivity. Qed.

(* a light field right behind a heavy first field is loaded whenever some later flag is requested *)
Lemma light_after_heavy : forall r0 r1 rest fl i0 bs i sk k v next v1 next1,
  rf_skip r0 = Some sk -> rf_skip r1 = None ->
  (sk bs = Some next) ->
  N.testbit fl k = true -> k <> rf_bit r0 ->
  ~ In (rf_fid r1) (map rf_fid rest) ->
  rf_parse r0 bs = Some (v, next) -> rf_parse r1 next = Some (v1, next1) ->
  parse_fields (r0 :: r1 :: rest) fl i0 bs = Some i -> i (rf_fid r1) = v1.
Proof.
  intros r0 r1 rest fl i0 bs i sk k v next v1 next1 Hs0 Hs1 Hsk Hk Hne Hnin Hp0 Hp1 H.
  assert (Hfl : fl <> 0) by (intros ->; rewrite N.bits_0 in Hk; discriminate).
  assert (Hstep : forall fl' i', fl' <> 0 -> parse_fields (r1 :: rest) fl' i' next = Some i -> i (rf_fid r1) = v1).
  { intros fl' i' Hfl' E. rewrite (parse_step_light r1 rest fl' i' next v1 next1 Hfl' Hs1 Hp1) in E.
    rewrite (parse_fields_frame _ _ _ _ _ E _ Hnin). apply set_field_same. }
  rewrite parse_fields_cons in H. destruct (fl =? 0) eqn:E0; [apply N.eqb_eq in E0; contradiction|].
  rewrite Hs0 in H. destruct (N.testbit fl (rf_bit r0)) eqn:Et.
  - rewrite Hp0 in H. apply (Hstep (N.clearbit fl (rf_bit r0)) (set_field (rf_fid r0) v i0)); [|exact H].
    intros Ez. assert (N.testbit (N.clearbit fl (rf_bit r0)) k = true) by (rewrite N.clearbit_neq; [exact Hk|congruence]).
    rewrite Ez, N.bits_0 in H0. discriminate.
  - rewrite Hsk in H. apply (Hstep fl i0 Hfl H).
Qed.

Definition rs_surface : rfield := mkRF F_surface 0 (fun bs => option_map (fun p => (VText (fst p), snd p)) (read_string bs)) (Some skip_string).
Definition rs_hwlen : rfield := mkRF F_hwlen 1 (fun bs => option_map (fun p => (VNum (fst p), snd p)) (read_len bs)) None.
Definition rs_tail : list rfield := skipn 2 explicit_rs.
Lemma explicit_rs_split : explicit_rs = rs_surface :: rs_hwlen :: rs_tail.
Proof. reflexivity. Qed.
Lemma hwlen_not_in_tail : ~ In F_hwlen (map rf_fid rs_tail).
Proof. cbn. intros K. repeat (destruct K as [K|K]; [discriminate|]). exact K. Qed.

Lemma parse_hwlen_loaded : reader_facts_ok -> forall L bs iA iS,
  parse ALL bs = Some iA -> parse L bs = Some iS -> (N.testbit L 6 || N.testbit L 7) = true -> iS F_hwlen = iA F_hwlen.
Proof.
  intros HR L bs iA iS HA HS HL. unfold parse in HA, HS. rewrite (reader_is_explicit HR), explicit_rs_split in HA, HS.
  (* the full load parsed the surface and the length *)
  assert (HA' := HA). rewrite parse_fields_cons in HA'. change (ALL =? 0) with false in HA'.
  change (rf_skip rs_surface) with (Some skip_string) in HA'. change (N.testbit ALL (rf_bit rs_surface)) with true in HA'. cbv iota in HA'.
  destruct (rf_parse rs_surface bs) as [[v next]|] eqn:Hp0; [|discriminate].
  rewrite parse_fields_cons in HA'. change (N.clearbit ALL (rf_bit rs_surface) =? 0) with false in HA'.
  change (rf_skip rs_hwlen) with (@None (bytes -> option bytes)) in HA'. cbv iota in HA'.
  destruct (rf_parse rs_hwlen next) as [[v1 next1]|] eqn:Hp1; [|discriminate]. clear HA'.
  assert (Hsk : skip_string bs = Some next).
  { unfold rs_surface in Hp0. cbn [rf_parse] in Hp0. destruct (read_string bs) as [[s r]|] eqn:E; [|discriminate].
    cbn in Hp0. inversion Hp0; subst. eapply skip_string_width. exact E. }
  assert (EA : iA F_hwlen = v1).
  { apply (light_after_heavy rs_surface rs_hwlen rs_tail ALL default_info bs iA skip_string 6 v next v1 next1);
      try reflexivity; try assumption; try discriminate. exact hwlen_not_in_tail. }
  assert (ES : iS F_hwlen = v1).
  { apply orb_true_iff in HL. destruct HL as [H6|H7].
    - apply (light_after_heavy rs_surface rs_hwlen rs_tail L default_info bs iS skip_string 6 v next v1 next1);
        try reflexivity; try assumption; try discriminate. exact hwlen_not_in_tail.
    - apply (light_after_heavy rs_surface rs_hwlen rs_tail L default_info bs iS skip_string 7 v next v1 next1);
        try reflexivity; try assumption; try discriminate. exact hwlen_not_in_tail. }
  congruence.
Qed.

(* a split list that is not requested stays empty *)
Lemma parse_unrequested_split : reader_facts_ok -> forall fl bs i, parse fl bs = Some i ->
  (N.testbit fl 6 = false -> i F_a = VArr nil) /\ (N.testbit fl 7 = false -> i F_b = VArr nil).
Proof.
  intros HR fl bs i H. unfold parse in H. rewrite (reader_is_explicit HR) in H. split; intros Ht.
  - change (VArr nil) with (default_info F_a). apply (parse_fields_unrequested _ explicit_nodup_bits _ _ _ _ H).
    intros r Hin Heq. unfold explicit_rs in Hin. cbn [In] in Hin.
    repeat (destruct Hin as [Hin|Hin]; [subst r; first [discriminate Heq | split; [discriminate|exact Ht]]|]). contradiction.
  - change (VArr nil) with (default_info F_b). apply (parse_fields_unrequested _ explicit_nodup_bits _ _ _ _ H).
    intros r Hin Heq. unfold explicit_rs in Hin. cbn [In] in Hin.
    repeat (destruct Hin as [Hin|Hin]; [subst r; first [discriminate Heq | split; [discriminate|exact Ht]]|]). contradiction.
Qed.

(* the contract of get_word_info_subset the later stages rely on *)
Definition getinfo_ok (getinfo : N -> N -> option winfo) : Prop :=
  forall L w iA, subset_of L ALL -> getinfo ALL w = Some iA ->
  exists iS, getinfo L w = Some iS /\
    (forall f, f <> F_dicform -> N.testbit L (bit_of_fid f) = true -> iS f = iA f) /\
    ((N.testbit L 6 || N.testbit L 7) = true -> iS F_hwlen = iA F_hwlen) /\
    (N.testbit L 6 = false -> iS F_a = VArr nil) /\ (N.testbit L 7 = false -> iS F_b = VArr nil).

(* ... is met by the model of LexiconSet::get_word_info_subset over any lexicon whose entries parse *)
Theorem lexset_getinfo_ok : reader_facts_ok -> forall lx d n o, lex_ok lx ->
  getinfo_ok (fun L w => lexset_get lx true d n o w L).
Proof.
  intros HR lx d n o Hlex L w iA Hsub HA. unfold lexset_get in *.
  destruct (get_word_info lx true w ALL) as [jA|] eqn:EA; [|discriminate]. cbn [option_map] in HA. inversion HA; subst iA; clear HA.
  assert (Hd : deps_loaded L A_surface -> True) by trivial.
  (* existence under L: through the accessor theorem for a trivially loaded accessor is not available for every L (the
     surface may be missing); go through the parse instead *)
  destruct (CodecResolveLexProofs.get_word_info_raw _ _ _ _ EA) as (bs & wiA & Hb & HpA & HrawA).
  destruct (parse_subset_gen HR ALL L bs wiA Hsub HpA) as (wiS & HpS & Hag & HdS & HdA).
  (* the consultation of the dictionary form succeeds under L as well *)
  assert (HS : exists jS, get_word_info lx true w L = Some jS /\ forall f, f <> F_dicform -> jS f = wiS f).
  { rewrite get_word_info_consult, Hb. cbn [SYN_BIT]. rewrite HpS. rewrite consult_eq.
    rewrite get_word_info_consult, Hb in EA. rewrite HpA, consult_eq in EA.
    destruct (consult_val lx w (as_int (wiA F_dfwi))) as [oA|] eqn:EcA; [|discriminate].
    assert (Hc : exists oS, consult_val lx w (as_int (wiS F_dfwi)) = Some oS).
    { destruct (Hag F_dfwi ltac:(discriminate)) as [_ [Hsame|Hdef]].
      - rewrite Hsame. eauto.
      - rewrite Hdef. cbn [default_info as_int]. unfold consult_val.
        destruct ((0 <=? 0)%Z && negb (0 =? Z.of_N w)%Z); [|eauto].
        change (Z.to_N 0) with 0. rewrite lex_get_nth in Hb |- *. change (N.to_nat 0) with O.
        destruct lx as [|bs0 lx']; [destruct (N.to_nat w); discriminate|]. cbn [nth_error].
        destruct (parse ALL bs0) as [i0|] eqn:E0; [|exfalso; apply (Hlex bs0 (or_introl eq_refl)); exact E0].
        destruct (parse_subset_gen HR _ _ _ _ subset_one_all E0) as (inner & E1 & _). rewrite E1. eauto. }
    destruct Hc as (oS & EcS). rewrite EcS. cbn [option_map]. eexists. split; [reflexivity|].
    intros f Hf. destruct oS; cbn [with_dic]; [apply set_field_other; exact Hf|reflexivity]. }
  destruct HS as (jS & ES & HrawS). rewrite ES. cbn [option_map]. eexists. split; [reflexivity|].
  assert (Hparse_a : forall fl i, parse fl bs = Some i -> True) by trivial.
  split; [|split; [|split]].
  - intros f Hf Ht. rewrite !lexset_fix_field.
    assert (E : jS f = jA f) by (rewrite HrawS, HrawA by exact Hf; apply Hag; assumption).
    destruct f; try contradiction; cbn [fix_field bit_of_fid] in *; rewrite ?Ht, ?E;
      change (N.testbit ALL 2) with true; change (N.testbit ALL 6) with true; change (N.testbit ALL 7) with true;
      change (N.testbit ALL 8) with true; reflexivity.
  - intros Ht. rewrite !lexset_fix_field. cbn [fix_field]. rewrite HrawS, HrawA by discriminate.
    apply (parse_hwlen_loaded HR L bs wiA wiS HpA HpS Ht).
  - intros Ht. rewrite lexset_fix_field. cbn [fix_field]. rewrite Ht. rewrite HrawS by discriminate.
    apply (proj1 (parse_unrequested_split HR L bs wiS HpS) Ht).
  - intros Ht. rewrite lexset_fix_field. cbn [fix_field]. rewrite Ht. rewrite HrawS by discriminate.
    apply (proj2 (parse_unrequested_split HR L bs wiS HpS) Ht).
Qed.

(* ==================================================================================================================
   Part 3: the stages composed *)
From SudachiVerif Require Model.Split Model.Lattice.

(* (1) the lattice stage is not given the subset: the best path is the same whatever was requested *)
Theorem lattice_ignores_subset : forall L1 L2 conn n ns, lattice_stage L1 conn n ns = lattice_stage L2 conn n ns.
Proof. reflexivity. Qed.

Section Stages.
Variable getinfo : N -> N -> option winfo.
Hypothesis Hget : getinfo_ok getinfo.

(* what every ResultNode takes from the path, whatever the subset *)
Definition from_path (pn : pnode) (rn : node) : Prop :=
  nb rn = p_cb pn /\ ne rn = p_ce pn /\ bb rn = p_bb pn /\ be rn = p_be pn /\ oov rn = p_oov pn /\ cats rn = p_cats pn /\ cat0 rn = p_cat0 pn.

Lemma resolve_from_path : forall L path pr, resolve getinfo L path = Some pr -> Forall2 from_path path pr.
Proof.
  intros L. induction path as [|pn t IH]; intros pr H; cbn [resolve] in H.
  - inversion H. constructor.
  - destruct (resolve_node getinfo L pn) as [r|] eqn:Er; [|discriminate].
    destruct (resolve getinfo L t) as [rs|] eqn:Et; [|discriminate]. inversion H; subst.
    constructor; [|apply IH; reflexivity].
    unfold resolve_node in Er. destruct (p_oov pn) eqn:Eo.
    + inversion Er; subst. unfold from_path, rnode_of_info. cbn. rewrite Eo. repeat split.
    + destruct (getinfo L (p_wid pn)); [|discriminate]. inversion Er; subst. unfold from_path, rnode_of_info. cbn. rewrite Eo. repeat split.
Qed.

(* any subset resolves whenever the full one does *)
Lemma resolve_total : forall L path prA, subset_of L ALL -> resolve getinfo ALL path = Some prA ->
  exists prS, resolve getinfo L path = Some prS.
Proof.
  intros L. induction path as [|pn t IH]; intros prA Hsub H; cbn [resolve] in *; [eauto|].
  destruct (resolve_node getinfo ALL pn) as [r|] eqn:Er; [|discriminate].
  destruct (resolve getinfo ALL t) as [rs|] eqn:Et; [|discriminate].
  destruct (IH rs Hsub eq_refl) as (ps & ->).
  unfold resolve_node in *. destruct (p_oov pn); [eauto|].
  destruct (getinfo ALL (p_wid pn)) as [iA|] eqn:EA; [|discriminate].
  destruct (Hget L _ iA Hsub EA) as (iS & -> & _). cbn [option_map]. eauto.
Qed.

(* with SURFACE, POS_ID and NORMALIZED_FORM loaded the ResultNodes agree with the full load on all the plugins read *)
Lemma resolve_agree : forall L path prA, subset_of L ALL ->
  N.testbit L 0 = true -> N.testbit L 2 = true -> N.testbit L 3 = true ->
  resolve getinfo ALL path = Some prA ->
  exists prS, resolve getinfo L path = Some prS /\ Forall2 num_fields_eq prS prA.
Proof.
  intros L. induction path as [|pn t IH]; intros prA Hsub H0 H2 H3 H; cbn [resolve] in *.
  - inversion H. exists nil. split; [reflexivity|constructor].
  - destruct (resolve_node getinfo ALL pn) as [r|] eqn:Er; [|discriminate].
    destruct (resolve getinfo ALL t) as [rs|] eqn:Et; [|discriminate]. inversion H; subst prA.
    destruct (IH rs Hsub H0 H2 H3 eq_refl) as (ps & -> & Hps).
    unfold resolve_node in *. destruct (p_oov pn).
    + inversion Er; subst. eexists. split; [reflexivity|]. constructor; [apply num_fields_refl|exact Hps].
    + destruct (getinfo ALL (p_wid pn)) as [iA|] eqn:EA; [|discriminate]. inversion Er; subst r.
      destruct (Hget L _ iA Hsub EA) as (iS & -> & Heq & _). cbn [option_map]. eexists. split; [reflexivity|].
      constructor; [|exact Hps].
      unfold num_fields_eq, kat_fields_eq, rnode_of_info. cbn [nb ne bb be surf norm pos oov cats cat0].
      rewrite (Heq F_surface ltac:(discriminate) H0), (Heq F_norm ltac:(discriminate) H3), (Heq F_pos ltac:(discriminate) H2).
      repeat split.
Qed.

(* (3a) through the plugin chain: same outcome, and outputs that agree on ranges, surface, normalised form, part of
   speech and OOV flag *)
Theorem rewritten_agree : forall L pls path y, subset_of L ALL ->
  N.testbit L 0 = true -> N.testbit L 2 = true -> N.testbit L 3 = true ->
  rewritten getinfo ALL pls path = Some y ->
  exists x, rewritten getinfo L pls path = Some x /\ ores_rel num_fields_eq x y.
Proof.
  intros L pls path y Hsub H0 H2 H3 H. unfold rewritten in *.
  destruct (resolve getinfo ALL path) as [prA|] eqn:EA; [|discriminate]. cbn [option_map] in H. inversion H; subst y.
  destruct (resolve_agree L path prA Hsub H0 H2 H3 EA) as (prS & -> & Hag). cbn [option_map].
  eexists. split; [reflexivity|]. apply run_plugins_reads_only. exact Hag.
Qed.

(* (3b) without path-rewrite plugins: for EVERY subset the nodes carry the ranges (and word ids: those of the path) the
   lattice chose *)
Theorem rewritten_no_plugin : forall L path y, subset_of L ALL ->
  rewritten getinfo ALL nil path = Some y ->
  exists pr, rewritten getinfo L nil path = Some (Some (Ok pr)) /\ Forall2 from_path path pr.
Proof.
  intros L path y Hsub H. unfold rewritten in *.
  destruct (resolve getinfo ALL path) as [prA|] eqn:EA; [|discriminate].
  destruct (resolve_total L path prA Hsub EA) as (prS & ES). rewrite ES. cbn [option_map run_plugins].
  exists prS. split; [reflexivity|]. apply (resolve_from_path L). exact ES.
Qed.

(* ---- splitting (Model/Split.v) reads the split list of the mode and the head-word lengths of the units ---- *)
Lemma split_go_ext : forall hw1 hw2 t us a b c d, (forall u, In u us -> hw1 u = hw2 u) ->
  Split.split_go hw1 t us a b c d = Split.split_go hw2 t us a b c d.
Proof.
  intros hw1 hw2 t. induction us as [|u rest IH]; intros a b c d H; [reflexivity|].
  cbn [Split.split_go]. destruct rest as [|u2 rest']; [reflexivity|].
  rewrite (H u (or_introl eq_refl)). destruct (Split.ch_idx t (b + hw2 u)); [|reflexivity].
  rewrite IH; [reflexivity|]. intros x Hx. apply H. right. exact Hx.
Qed.

Lemma split_path_ext : forall hw1 hw2 t units1 units2 path,
  (forall n, In n path -> units1 (Split.wid n) = units2 (Split.wid n) /\
                          forall u, In u (units1 (Split.wid n)) -> hw1 u = hw2 u) ->
  Split.split_path hw1 t units1 path = Split.split_path hw2 t units2 path.
Proof.
  intros hw1 hw2 t units1 units2. induction path as [|n r IH]; intros H; [reflexivity|].
  cbn [Split.split_path]. destruct (H n (or_introl eq_refl)) as [Hu Hh]. rewrite <- Hu.
  rewrite IH by (intros m Hm; apply H; right; exact Hm).
  unfold Split.split_node. rewrite (split_go_ext hw1 hw2 t _ _ _ _ _ Hh). reflexivity.
Qed.

(* the words a split can reach exist in the dictionary *)
Definition words_known (ps : list Split.node) : Prop :=
  forall n, In n ps -> is_oov_id (Split.wid n) = false ->
  exists i, getinfo ALL (Split.wid n) = Some i /\
            forall u, In u (as_arr (i F_a) ++ as_arr (i F_b)) -> getinfo ALL u <> None.

Lemma units_loaded : forall L f w, subset_of L ALL -> f = F_a \/ f = F_b -> N.testbit L (bit_of_fid f) = true ->
  (is_oov_id w = false -> getinfo ALL w <> None) -> units_of getinfo f L w = units_of getinfo f ALL w.
Proof.
  intros L f w Hsub Hf Ht Hk. unfold units_of. destruct (is_oov_id w); [reflexivity|].
  destruct (getinfo ALL w) as [iA|] eqn:EA; [|exfalso; apply Hk; reflexivity].
  destruct (Hget L w iA Hsub EA) as (iS & -> & Heq & _).
  rewrite (Heq f); [reflexivity| |exact Ht]. destruct Hf as [-> | ->]; discriminate.
Qed.

Lemma hw_loaded : forall L u, subset_of L ALL -> (N.testbit L 6 || N.testbit L 7) = true -> getinfo ALL u <> None ->
  hw_of getinfo L u = hw_of getinfo ALL u.
Proof.
  intros L u Hsub Ht Hk. unfold hw_of. destruct (getinfo ALL u) as [iA|] eqn:EA; [|exfalso; apply Hk; reflexivity].
  destruct (Hget L u iA Hsub EA) as (iS & -> & _ & Hh & _). rewrite (Hh Ht). reflexivity.
Qed.

Definition mode_bit (m : Split.mode) : N := match m with Split.ModeA => 6 | Split.ModeB => 7 | Split.ModeC => 0 end.

(* (3c) the split stage of mode A / B gives the same sub-tokens (ranges AND word ids) as with all fields, as soon as the
   split field of the mode is loaded -- which set_mode / set_subset see to; mode C does not split *)
Theorem split_mode_preserved : forall L t m ps, subset_of L ALL ->
  (m <> Split.ModeC -> N.testbit L (mode_bit m) = true) -> words_known ps ->
  Split.tokenize_mode (hw_of getinfo L) t (units_of getinfo F_a L) (units_of getinfo F_b L) m ps =
  Split.tokenize_mode (hw_of getinfo ALL) t (units_of getinfo F_a ALL) (units_of getinfo F_b ALL) m ps.
Proof.
  intros L t m ps Hsub Hbit Hk. destruct m; cbn [Split.tokenize_mode]; [| |reflexivity].
  - assert (Ht : N.testbit L 6 = true) by (apply Hbit; discriminate).
    apply split_path_ext. intros n Hn.
    assert (Hw : is_oov_id (Split.wid n) = false -> getinfo ALL (Split.wid n) <> None).
    { intros Ho. destruct (Hk n Hn Ho) as (i & -> & _). discriminate. }
    split; [apply (units_loaded L F_a); auto|].
    intros u Hu. apply hw_loaded; [exact Hsub|rewrite Ht; reflexivity|].
    rewrite (units_loaded L F_a (Split.wid n) Hsub (or_introl eq_refl) Ht Hw) in Hu. unfold units_of in Hu.
    destruct (is_oov_id (Split.wid n)) eqn:Eo; [contradiction|]. destruct (Hk n Hn Eo) as (i & Ei & Hus). rewrite Ei in Hu.
    apply Hus. apply in_or_app. left. exact Hu.
  - assert (Ht : N.testbit L 7 = true) by (apply Hbit; discriminate).
    apply split_path_ext. intros n Hn.
    assert (Hw : is_oov_id (Split.wid n) = false -> getinfo ALL (Split.wid n) <> None).
    { intros Ho. destruct (Hk n Hn Ho) as (i & -> & _). discriminate. }
    split; [apply (units_loaded L F_b); auto|].
    intros u Hu. apply hw_loaded; [exact Hsub|rewrite Ht; apply orb_true_r|].
    rewrite (units_loaded L F_b (Split.wid n) Hsub (or_intror eq_refl) Ht Hw) in Hu. unfold units_of in Hu.
    destruct (is_oov_id (Split.wid n)) eqn:Eo; [contradiction|]. destruct (Hk n Hn Eo) as (i & Ei & Hus). rewrite Ei in Hu.
    apply Hus. apply in_or_app. right. exact Hu.
Qed.

(* without plugins, end to end: every subset the tokenizer can hold in that mode *)
Theorem split_stage_preserved : forall L t m path, subset_of L ALL ->
  (m <> Split.ModeC -> N.testbit L (mode_bit m) = true) -> words_known (map snode_of_p path) ->
  split_stage getinfo L t m path = split_stage getinfo ALL t m path.
Proof. intros L t m path Hsub Hbit Hk. unfold split_stage. apply split_mode_preserved; assumption. Qed.
End Stages.

(* ==================================================================================================================
   Part 4: the subsets the tokenizer actually holds (set_mode / set_subset in either order, Model/Codec.v) *)
Lemma loaded_for_facts : order_ok = true -> forall s m0 m order, s < 1024 ->
  subset_of (loaded_for s m0 m order) ALL /\
  (m <> Split.ModeC -> N.testbit (loaded_for s m0 m order) (mode_bit m) = true) /\
  (forall a, N.testbit s (acc_flag a) = true -> deps_loaded (loaded_for s m0 m order) a).
Proof.
  intros HO s m0 m order Hs.
  unfold order_ok in HO. rewrite forallb_forall in HO. specialize (HO s (below_in 1024 s Hs)).
  rewrite forallb_forall in HO. assert (Hm0 : In (cmode_of m0) all_modes) by (destruct m0; cbn; tauto). specialize (HO _ Hm0).
  rewrite forallb_forall in HO. assert (Hm : In (cmode_of m) all_modes) by (destruct m; cbn; tauto). specialize (HO _ Hm).
  apply andb_true_iff in HO as [O1 O2].
  assert (Hok : tok_ok s (cmode_of m) (if order then set_subset s (set_mode (cmode_of m) (tok_create (cmode_of m0)))
                                       else set_mode (cmode_of m) (set_subset s (tok_create (cmode_of m0)))) = true)
    by (destruct order; assumption).
  unfold tok_ok in Hok. apply andb_true_iff in Hok as [Hok K3]. apply andb_true_iff in Hok as [_ K2].
  destruct (loads_ok_spec _ _ K2) as [H1 H2]. unfold loaded_for.
  split; [exact H1|]. split; [|exact H2].
  intros Hne. apply N.eqb_eq in K3.
  assert (Hb : forall k, N.testbit (mode_bits (cmode_of m)) k = true ->
               N.testbit (t_subset (if order then set_subset s (set_mode (cmode_of m) (tok_create (cmode_of m0)))
                                    else set_mode (cmode_of m) (set_subset s (tok_create (cmode_of m0))))) k = true).
  { intros k Hk. rewrite <- K3 in Hk. rewrite N.land_spec in Hk. apply andb_true_iff in Hk. tauto. }
  destruct m; [apply Hb; reflexivity|apply Hb; reflexivity|contradiction].
Qed.

(* C11_boundaries_preserved, assembled for the tokenizer: requested subset s (any of the 2^10), initial mode, mode, either
   order of the two calls.  With SURFACE, POS_ID and NORMALIZED_FORM requested, every plugin chain gives the same outcome
   as with all fields and outputs that agree on ranges, surface, normalised form, part of speech and OOV flag; the split
   stage of the mode gives the same sub-tokens (ranges and word ids) for ANY requested subset. *)
Theorem boundaries_preserved : order_ok = true ->
  forall getinfo, getinfo_ok getinfo ->
  forall s m0 m order, s < 1024 ->
  (N.testbit s 0 = true -> N.testbit s 2 = true -> N.testbit s 3 = true ->
   forall pls path y, rewritten getinfo ALL pls path = Some y ->
   exists x, rewritten getinfo (loaded_for s m0 m order) pls path = Some x /\ ores_rel num_fields_eq x y)
  /\ (forall path y, rewritten getinfo ALL nil path = Some y ->
      exists pr, rewritten getinfo (loaded_for s m0 m order) nil path = Some (Some (Ok pr)) /\ Forall2 from_path path pr)
  /\ (forall t ps, words_known getinfo ps ->
      Split.tokenize_mode (hw_of getinfo (loaded_for s m0 m order)) t
        (units_of getinfo F_a (loaded_for s m0 m order)) (units_of getinfo F_b (loaded_for s m0 m order)) m ps =
      Split.tokenize_mode (hw_of getinfo ALL) t (units_of getinfo F_a ALL) (units_of getinfo F_b ALL) m ps).
Proof.
  intros HO getinfo Hget s m0 m order Hs. destruct (loaded_for_facts HO s m0 m order Hs) as (Hsub & Hbit & Hdeps).
  split; [|split].
  - intros H0 H2 H3 pls path y Hy.
    apply (rewritten_agree getinfo Hget _ pls path y Hsub); [| | |exact Hy].
    + apply (Hdeps A_surface H0). left. reflexivity.
    + apply (Hdeps A_pos H2). left. reflexivity.
    + apply (Hdeps A_norm H3). left. reflexivity.
  - intros path y Hy. apply (rewritten_no_plugin getinfo Hget _ path y Hsub Hy).
  - intros t ps Hk. apply (split_mode_preserved getinfo Hget _ t m ps Hsub Hbit Hk).
Qed.
