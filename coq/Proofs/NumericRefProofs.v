(* The model parser (string arithmetic) simulates the reference evaluator (exact decimals) step by step:
   every reachable parser state is well-formed, and an accepted string is normalised to the rendering of its value. *)
From Coq Require Import List NArith ZArith Bool Arith Lia ZifyBool ZifyNat ZifyN.
From SudachiVerif Require Import Model.Numeric Model.NumericRef Proofs.NumericProofs.
Import ListNotations.

Arguments N.add : simpl never.
Arguments N.mul : simpl never.
Arguments N.ltb : simpl never.
Arguments N.leb : simpl never.
Arguments N.eqb : simpl never.

Notation C := std_cfg.

(* ------------------------------------------------------------------ accumulator vs reference number *)
Definition rel (s : snum) (r : rnum) : Prop :=
  match r with
  | REmpty => sg s = [] /\ sc s = 0 /\ pt s = None
  | RNum ip fp k =>
      sg s <> [] /\ wf s /\ all_digits (sg s) /\ abs s = (ip, fp) /\ sc (s_normalize C s) = k /\ ip <> []
  end.

(* only significand, scale and point matter *)
Lemma rel_ext a b r : sg a = sg b -> sc a = sc b -> pt a = pt b -> rel a r -> rel b r.
Proof.
  destruct a as [sa ca pa za], b as [sb cb pb zb]. cbn [sg sc pt]. intros -> -> ->.
  destruct r as [|ip fp k]; cbn [rel sg sc pt]; [trivial|].
  unfold wf, abs. rewrite !normalize_std. cbn [sg sc pt].
  intros (H1 & H2 & H3 & H4 & H5 & H6). repeat split; try assumption.
  destruct pb as [p|]; [|assumption]. destruct (cb <? length sb - p); assumption.
Qed.

Lemma rel_wf s r : rel s r -> wf s /\ all_digits (sg s).
Proof.
  destruct r as [|ip fp k]; cbn [rel].
  - intros (H1 & _ & H3). unfold wf. rewrite H3, H1. split; [trivial | constructor].
  - tauto.
Qed.

Lemma rel_is_zero s r : rel s r -> s_is_zero s = r_is_empty r.
Proof.
  unfold s_is_zero. destruct r as [|ip fp k]; cbn [rel r_is_empty].
  - now intros (-> & _).
  - intros (H & _). destruct (sg s); [contradiction | reflexivity].
Qed.

Lemma snd_abs_length s p :
  pt s = Some p -> length (snd (abs s)) = length (sg s) - p - sc s.
Proof. intros E. unfold abs, dshift. rewrite E. cbn [fst snd]. now rewrite !skipn_length. Qed.

Lemma norm_sc_shift s j :
  sc (s_normalize C (mkS (sg s) (sc s + j) (pt s) (az s))) = sc (s_normalize C s) + j - length (snd (abs s)).
Proof.
  rewrite !normalize_std. cbn [sg sc pt az]. destruct (pt s) as [p|] eqn:E.
  - rewrite (snd_abs_length s p E).
    destruct (Nat.ltb_spec (sc s + j) (length (sg s) - p)), (Nat.ltb_spec (sc s) (length (sg s) - p)); cbn [sc]; lia.
  - unfold abs. rewrite E. cbn [snd length sc]. lia.
Qed.

Lemma rel_shift s ip fp k j : rel s (RNum ip fp k) -> rel (s_shift C s j) (r_shift (RNum ip fp k) j).
Proof.
  cbn [rel r_shift]. intros (Hne & Hwf & Hd & Ha & Hk & Hip).
  destruct (abs_shift s j Hne) as [Hs Hw].
  assert (E : s_shift C s j = mkS (sg s) (sc s + j) (pt s) (az s)).
  { unfold s_shift, s_is_zero. destruct (sg s); [contradiction | reflexivity]. }
  repeat split.
  - rewrite E. exact Hne.
  - now apply Hw.
  - rewrite E. exact Hd.
  - rewrite Hs, Ha. now destruct (dshift (ip, fp) j).
  - rewrite E, norm_sc_shift, Hk, Ha. reflexivity.
  - unfold dshift. cbn [fst]. destruct ip; [contradiction | discriminate].
Qed.

Lemma rel_shift_empty s j : rel s REmpty -> rel (s_shift C s j) (r_shift REmpty j).
Proof.
  cbn [rel r_shift]. intros (H1 & H2 & H3). unfold s_shift, s_is_zero. rewrite H1, H2, H3. cbn [app implicit C].
  unfold wf, abs, all_digits. rewrite normalize_std. cbn [sg sc pt].
  repeat split; try discriminate. constructor; [lia | constructor].
Qed.

Lemma all_digits_app a b : all_digits a -> all_digits b -> all_digits (a ++ b).
Proof. unfold all_digits. rewrite Forall_app. tauto. Qed.

Lemma all_digits_zeros n : all_digits (repeat 0%N n).
Proof. induction n; constructor; [lia | assumption]. Qed.

(* add: succeeds exactly when the reference addition is defined, and yields the reference sum *)
Lemma rel_add self number rs rn ok r number' :
  rel self rs -> rel number rn -> s_add C self number = (ok, r, number') ->
  match r_add rs rn with Some rr => ok = true /\ rel r rr | None => ok = false end.
Proof.
  intros Hs Hn. rewrite add_std. rewrite (rel_is_zero _ _ Hn), (rel_is_zero _ _ Hs).
  destruct rn as [|ipn fpn kn]; cbn [r_is_empty r_add].
  { intros [= <- <- <-]. split; [reflexivity | assumption]. }
  destruct rs as [|ips fps ks]; cbn [r_is_empty].
  { intros [= <- <- <-]. split; [reflexivity|].
    destruct Hs as (E & _). eapply rel_ext; [| | |exact Hn]; cbn [sg sc pt]; [now rewrite E | reflexivity | reflexivity]. }
  cbn [rel] in Hs, Hn.
  destruct Hs as (Hnes & Hws & Hds & Has & Hks & Hips). destruct Hn as (Hnen & Hwn & Hdn & Han & Hkn & Hipn).
  cbv zeta. destruct (s_int_length C number) as [number1 len] eqn:Eil.
  destruct (int_length_abs _ _ _ Hwn Eil) as (-> & ->).
  destruct (abs_normalize self Hws) as (Has1 & Hws1 & Hss & Hcs).
  destruct (abs_normalize number Hwn) as (Han1 & Hwn1 & Hsn & Hcn).
  rewrite Han. cbn [fst]. rewrite Hks.
  set (self1 := s_normalize C self) in *. set (number1 := s_normalize C number) in *.
  destruct (Nat.leb_spec (length ipn) ks) as [Hle|Hgt]; [|intros [= <- _ _]; reflexivity].
  intros [= <- <- _]. split; [reflexivity|].
  assert (Hlen : 0 < length ipn) by (destruct ipn; [contradiction | cbn; lia]).
  assert (Hps : pt self1 = None) by (destruct Hcs as [H|(H & _)]; [assumption | lia]).
  assert (Hips' : ips = sg self1 ++ repeat 0%N ks /\ fps = []).
  { rewrite <- Has1 in Has. unfold abs in Has. rewrite Hps, Hks in Has. now injection Has as <- <-. }
  destruct Hips' as [Eips ->].
  set (sgz := sg self1 ++ repeat 0%N (ks - length ipn)).
  assert (Ehi : firstn (length ips - length ipn) ips = sgz).
  { rewrite Eips. replace (repeat 0%N ks) with (repeat 0%N (ks - length ipn) ++ repeat 0%N (length ipn))
      by (rewrite repeat_app_add; f_equal; lia).
    rewrite app_assoc. fold sgz. rewrite app_length, repeat_length.
    replace (length sgz + length ipn - length ipn) with (length sgz) by lia. apply firstn_app_exact. }
  rewrite Ehi. cbn [rel sg sc pt].
  assert (Hsgz : all_digits sgz) by (apply all_digits_app; [now rewrite Hss | apply all_digits_zeros]).
  assert (Hnum1 : abs number1 = (ipn, fpn)) by congruence.
  split; [|split; [|split; [|split; [|split]]]].
  - intros E. apply app_eq_nil in E. destruct E as [_ E]. rewrite Hsn in E. contradiction.
  - unfold wf. cbn [pt sg]. destruct Hcn as [Hn|(Hz & p & Hp & Hlt)].
    + now rewrite Hn, Hps.
    + rewrite Hp, app_length, Hsn. lia.
  - apply all_digits_app; [assumption | now rewrite Hsn].
  - unfold abs in *. cbn [pt sg sc]. destruct Hcn as [Hn|(Hz & p & Hp & Hlt)].
    + rewrite Hn in *. rewrite Hps. injection Hnum1 as <- <-. now rewrite <- app_assoc.
    + rewrite Hp, Hz in *. rewrite dshift_le in * by lia. cbn [firstn skipn] in *.
      rewrite firstn_app_2, skipn_app_2. rewrite app_nil_r in *. injection Hnum1 as <- <-. reflexivity.
  - rewrite normalize_std. cbn [pt sg sc]. rewrite <- Hkn. destruct Hcn as [Hn|(Hz & p & Hp & Hlt)].
    + rewrite Hn, Hps. reflexivity.
    + rewrite Hp, Hz, app_length, Hsn.
      destruct (Nat.ltb_spec 0 (length sgz + length (sg number) - (length sgz + p))); [reflexivity | lia].
  - destruct sgz; cbn; [destruct ipn; [contradiction | discriminate] | discriminate].
Qed.

Lemma to_string_rel s r : rel s r -> s_to_string C s = render_r r.
Proof.
  destruct r as [|ip fp k]; cbn [rel render_r].
  - intros (E & _). unfold s_to_string, s_is_zero. now rewrite E.
  - intros (Hne & Hwf & Hd & Ha & _). rewrite <- Ha. now apply to_string_render.
Qed.

(* ------------------------------------------------------------------ the number being read *)
Definition trel (t : snum) (ip : list N) (fpo : option (list N)) : Prop :=
  sc t = 0 /\ all_digits (sg t) /\ az t = forallb (fun d => N.eqb d 0) (sg t) /\
  match fpo with
  | None => pt t = None /\ sg t = ip
  | Some fp => pt t = Some (length ip) /\ sg t = ip ++ fp /\ ip <> []
  end.

Lemma trel_rel t ip fpo :
  trel t ip fpo -> rel t (match ip with [] => REmpty | _ => RNum ip (frac_of fpo) 0 end).
Proof.
  intros (Hsc & Hd & _ & H). destruct fpo as [fp|]; cbn [frac_of].
  - destruct H as (Hp & Hs & Hne). destruct ip as [|i0 ip']; [contradiction|]. cbn [rel].
    unfold wf, abs. rewrite normalize_std, Hp, Hsc, Hs. cbn [sg sc pt].
    repeat split; try discriminate; try assumption.
    + rewrite app_length. lia.
    + now rewrite <- Hs.
    + rewrite dshift_le by lia. cbn [firstn skipn]. change (i0 :: ip' ++ fp) with ((i0 :: ip') ++ fp).
      now rewrite firstn_app_exact, skipn_app_exact, app_nil_r.
    + destruct (_ <? _); cbn [sc]; lia.
  - destruct H as (Hp & Hs). destruct ip as [|i0 ip']; cbn [rel].
    + repeat split; assumption.
    + unfold wf, abs. rewrite normalize_std, Hp, Hsc, Hs. cbn [repeat]. rewrite app_nil_r.
      repeat split; try discriminate; try assumption; trivial. now rewrite <- Hs.
Qed.

(* ------------------------------------------------------------------ parser vs reference parser *)
Definition R (p : parser) (rp : rparser) : Prop :=
  dl p = rdl rp /\ fd p = rfd rp /\ hc p = rhc rp /\ hp p = rhp rp /\ er p = rer rp /\
  rel (tot p) (rtot rp) /\ rel (sub p) (rsub rp) /\ trel (tmp p) (rip rp) (rfp rp) /\
  (rfd rp = false -> rip rp <> []).

Lemma R_new : R (p_new C) (r_new).
Proof.
  unfold R, p_new, r_new, s_new, trel. cbn. repeat split; try reflexivity; try constructor. intros; discriminate.
Qed.

Lemma trel_zero t ip fpo : trel t ip fpo -> s_is_zero t = match ip with [] => true | _ => false end.
Proof.
  intros (_ & _ & _ & H). unfold s_is_zero. destruct fpo as [fp|].
  - destruct H as (_ & -> & Hne). destruct ip; [contradiction | reflexivity].
  - destruct H as (_ & ->). reflexivity.
Qed.

Lemma trel_sg t ip fpo : trel t ip fpo -> sg t = ip ++ frac_of fpo.
Proof. intros (_ & _ & _ & H). destruct fpo; cbn [frac_of]; [tauto | destruct H as (_ & ->); now rewrite app_nil_r]. Qed.

Lemma check_comma_sim p rp : R p rp -> check_comma C p = r_check_comma C rp.
Proof.
  intros (H1 & H2 & H3 & _ & _ & _ & _ & Ht & _). unfold check_comma, r_check_comma.
  rewrite H1, H2, H3, (trel_zero _ _ _ Ht). destruct Ht as (Ha & Hb & Hc & Hd) eqn:E. rewrite Hc.
  now rewrite (trel_sg _ _ _ (conj Ha (conj Hb (conj Hc Hd)))).
Qed.

Lemma std_table_range c n : lookup_char std_table c = Some n -> (-12 <= n < 10)%Z.
Proof.
  unfold std_table. cbn [lookup_char].
  repeat (destruct (N.eqb _ c); [intros [= <-]; lia|]). discriminate.
Qed.

Lemma forallb_snoc {A} (f : A -> bool) l x : forallb f (l ++ [x]) = forallb f l && f x.
Proof. rewrite forallb_app. cbn. now rewrite andb_true_r. Qed.

Lemma trel_append t ip fpo d :
  (d < 10)%N -> trel t ip fpo ->
  trel (s_append t d) (match fpo with None => ip ++ [d] | Some _ => ip end)
       (match fpo with None => None | Some f => Some (f ++ [d]) end).
Proof.
  intros Hd (Hsc & Hdig & Haz & H). unfold trel, s_append. cbn [sg sc pt az].
  split; [assumption|]. split; [apply all_digits_app; [assumption | constructor; [assumption | constructor]]|].
  split.
  - rewrite forallb_snoc, Haz. destruct (N.eqb d 0); [now rewrite andb_true_r | now rewrite andb_false_r].
  - destruct fpo as [fp|].
    + destruct H as (Hp & Hs & Hne). repeat split; try assumption. now rewrite Hs, app_assoc.
    + destruct H as (Hp & Hs). split; [assumption | now rewrite Hs].
Qed.

Lemma s_new_trel : trel (s_new C) [] None.
Proof. unfold trel, s_new. cbn. repeat split; constructor. Qed.

Lemma s_new_rel : rel (s_new C) REmpty.
Proof. cbn. auto. Qed.

Ltac ok_case := cbn [fst snd er rer]; split; [reflexivity|]; split; [assumption|]; intros _.
Ltac fail_case := cbn [fst snd er rer set_er r_set_er]; repeat split; try assumption; try reflexivity; try discriminate.

(* one character: same verdict, same error state, related states after success *)
Lemma sim_append p rp c :
  R p rp ->
  fst (p_append C p c) = fst (r_append C rp c) /\
  er (snd (p_append C p c)) = rer (snd (r_append C rp c)) /\
  (fst (p_append C p c) = true -> R (snd (p_append C p c)) (snd (r_append C rp c))).
Proof.
  intros HR. pose proof HR as (Hdl & Hfd & Hhc & Hhp & Her & Htot & Hsub & Htmp & Hfdne).
  unfold p_append, r_append. cbn [point_c comma_c table C].
  destruct (N.eqb c 46).
  { (* point *)
    cbn [fd hc dl er tot sub tmp hp rfd rhc rdl rer rtot rsub rip rfp rhp].
    rewrite <- Hfd. destruct (fd p) eqn:Efd; [fail_case|].
    assert (Hcc : check_comma C (mkP (dl p) false (hc p) true (er p) (tot p) (sub p) (tmp p)) =
                  r_check_comma C (mkRP (rdl rp) false (rhc rp) true (rer rp) (rtot rp) (rsub rp) (rip rp) (rfp rp))).
    { apply check_comma_sim. unfold R. cbn [dl fd hc hp er tot sub tmp rdl rfd rhc rhp rer rtot rsub rip rfp].
      repeat split; try assumption; try reflexivity; try congruence; try apply Htmp. intros _. apply Hfdne. congruence. }
    rewrite <- Hcc, <- Hhc.
    destruct (hc p && negb _); [fail_case|].
    destruct Htmp as (Hsc & Hdig & Haz & Hm). unfold s_set_point. rewrite Hsc.
    destruct (rfp rp) as [fp|] eqn:Erfp.
    - destruct Hm as (-> & _). cbn. fail_case.
    - destruct Hm as (Hp & Hs). rewrite Hp. ok_case. unfold R, trel. cbn [dl fd hc hp er tot sub tmp rdl rfd rhc rhp rer rtot rsub rip rfp sg sc pt az].
      rewrite Hs, app_nil_r. repeat split; try assumption; try congruence; try (now rewrite <- Hs);
        match goal with
        | |- _ <> _ => apply Hfdne; congruence
        | |- _ -> _ <> _ => intros _; apply Hfdne; congruence
        end. }
  destruct (N.eqb c 44).
  { rewrite <- (check_comma_sim _ _ HR). destruct (check_comma C p); cbn [fst snd er rer set_er r_set_er]; [|fail_case].
    ok_case. unfold R. cbn [dl fd hc hp er tot sub tmp rdl rfd rhc rhp rer rtot rsub rip rfp].
    repeat split; try assumption; try reflexivity; apply Htmp. }
  destruct (lookup_char std_table c) as [n|] eqn:El; [|fail_case].
  destruct (is_small_unit C n) eqn:Esm.
  { (* small unit *)
    assert (Ht : rel (s_shift C (tmp p) (Z.to_nat (- n))) (r_shift (r_tmp rp) (Z.to_nat (- n)))).
    { pose proof (trel_rel _ _ _ Htmp) as Hr. unfold r_tmp. destruct (rip rp); [now apply rel_shift_empty | now apply rel_shift]. }
    destruct (s_add C (sub p) (s_shift C (tmp p) (Z.to_nat (- n)))) as [[ok s'] t'] eqn:Eadd.
    pose proof (rel_add _ _ _ _ _ _ _ Hsub Ht Eadd) as Hadd.
    destruct (r_add (rsub rp) _) as [rr|].
    - destruct Hadd as [-> Hrr]. ok_case.
      unfold R. cbn [dl fd hc hp er tot sub tmp rdl rfd rhc rhp rer rtot rsub rip rfp].
      repeat split; try assumption; try reflexivity; try apply s_new_trel. intros; discriminate.
    - subst ok. cbn. fail_case. }
  destruct (is_large_unit C n) eqn:Elg.
  { (* large unit *)
    destruct (s_add C (sub p) (tmp p)) as [[ok s'] t'] eqn:Eadd.
    pose proof (rel_add _ _ _ _ _ _ _ Hsub (trel_rel _ _ _ Htmp : rel (tmp p) (r_tmp rp)) Eadd) as Hadd.
    destruct (r_add (rsub rp) (r_tmp rp)) as [rr|]; [|subst ok; fail_case].
    destruct Hadd as [-> Hrr]. cbn [negb orb]. rewrite (rel_is_zero _ _ Hrr).
    destruct rr as [|ip fp k]; cbn [r_is_empty]; [fail_case|].
    destruct (s_add C (tot p) (s_shift C s' (Z.to_nat (- n)))) as [[ok2 tl] s3] eqn:Eadd2.
    pose proof (rel_add _ _ _ _ _ _ _ Htot (rel_shift _ _ _ _ (Z.to_nat (- n)) Hrr) Eadd2) as Hadd2.
    destruct (r_add (rtot rp) _) as [rr2|].
    - destruct Hadd2 as [-> Hrr2]. ok_case.
      unfold R. cbn [dl fd hc hp er tot sub tmp rdl rfd rhc rhp rer rtot rsub rip rfp].
      repeat split; try assumption; try reflexivity; try apply s_new_trel. intros; discriminate.
    - subst ok2. cbn. fail_case. }
  (* a digit *)
  assert (Hd : (Z.to_N n < 10)%N).
  { pose proof (std_table_range _ _ El). unfold is_small_unit, is_large_unit in *. cbn [small_lo small_hi large_below C] in *. lia. }
  pose proof (trel_append _ _ _ _ Hd Htmp) as Hta.
  destruct (rfp rp) as [f|] eqn:Erfp; ok_case;
    unfold R; cbn [dl fd hc hp er tot sub tmp rdl rfd rhc rhp rer rtot rsub rip rfp];
    do 7 (split; [first [assumption | reflexivity | congruence]|]); (split; [exact Hta|]); intros _.
  - destruct Htmp as (_ & _ & _ & Hm). tauto.
  - destruct (rip rp); discriminate.
Qed.

Lemma sim_feed cs : forall p rp,
  R p rp ->
  fst (p_feed C p cs) = fst (r_feed C rp cs) /\
  er (snd (p_feed C p cs)) = rer (snd (r_feed C rp cs)) /\
  (fst (p_feed C p cs) = true -> R (snd (p_feed C p cs)) (snd (r_feed C rp cs))).
Proof.
  induction cs as [|c cs IH]; intros p rp HR; cbn [p_feed r_feed].
  - cbn [fst snd]. split; [reflexivity|]. split; [|intros _; exact HR]. now destruct HR as (_ & _ & _ & _ & He & _).
  - destruct (sim_append p rp c HR) as (H1 & H2 & H3).
    destruct (p_append C p c) as [ok p'], (r_append C rp c) as [ok' rp']. cbn [fst snd] in *. subst ok'.
    destruct ok; [apply IH; now apply H3 | cbn [fst snd]; split; [reflexivity|]; split; [assumption | discriminate]].
Qed.

(* done(): same verdict and error state; when accepted, the result string is the rendering of the reference value *)
Lemma sim_done p rp :
  R p rp ->
  let '(ok, p') := p_done C p in
  let '(ok', e', v) := r_done C rp in
  ok = ok' /\ er p' = e' /\ (ok = true -> rel (tot p') v).
Proof.
  intros (Hdl & Hfd & Hhc & Hhp & Her & Htot & Hsub & Htmp & _).
  unfold p_done, r_done.
  destruct (s_add C (sub p) (tmp p)) as [[r1 s1] t1] eqn:E1.
  pose proof (rel_add _ _ _ _ _ _ _ Hsub (trel_rel _ _ _ Htmp : rel (tmp p) (r_tmp rp)) E1) as H1.
  destruct (r_add (rsub rp) (r_tmp rp)) as [rr1|].
  2:{ subst r1. cbn [negb er]. split; [reflexivity|]. split; [assumption | discriminate]. }
  destruct H1 as [-> Hrr1].
  destruct (s_add C (tot p) s1) as [[ret tl] s2] eqn:E2.
  pose proof (rel_add _ _ _ _ _ _ _ Htot Hrr1 E2) as H2.
  destruct (r_add (rtot rp) rr1) as [rr2|].
  2:{ subst ret. cbn [negb er]. split; [reflexivity|]. split; [assumption | discriminate]. }
  destruct H2 as [-> Hrr2]. cbn [negb]. rewrite <- Hhp, <- Hhc, <- Hdl.
  destruct (hp p); [cbn; split; [reflexivity|]; split; [reflexivity | discriminate]|].
  destruct (hc p && _); [cbn; split; [reflexivity|]; split; [reflexivity | discriminate]|].
  cbn [er tot]. split; [reflexivity|]. split; [assumption | intros _; assumption].
Qed.

(* ------------------------------------------------------------------ the two theorems *)
Definition pinv (p : parser) : Prop :=
  wf (tot p) /\ wf (sub p) /\ wf (tmp p) /\
  all_digits (sg (tot p)) /\ all_digits (sg (sub p)) /\ all_digits (sg (tmp p)) /\ sc (tmp p) = 0.

Lemma R_pinv p rp : R p rp -> pinv p.
Proof.
  intros (_ & _ & _ & _ & _ & Htot & Hsub & Htmp & _).
  destruct (rel_wf _ _ Htot), (rel_wf _ _ Hsub), (rel_wf _ _ (trel_rel _ _ _ Htmp)).
  destruct Htmp as (Hsc & _). unfold pinv. tauto.
Qed.

(* every state the parser reaches by a sequence of accepted characters is well-formed: this discharges the hypotheses
   [wf] / [all_digits] / [sc = 0] of the operation-level refinement lemmas for all reachable states *)
Theorem wf_reachable_std cs p : p_feed C (p_new C) cs = (true, p) -> pinv p.
Proof.
  intros E. destruct (sim_feed cs _ _ R_new) as (_ & _ & H). rewrite E in H. cbn [fst snd] in H.
  eapply R_pinv. now apply H.
Qed.

(* end to end: the model parser and the reference evaluator give the same verdict and error state on every string, and
   for an accepted string the normalised form is the rendering of the reference value *)
Theorem parse_refines_std cs :
  let '(ok, e, out) := parse C cs in
  let '(ok', e', v) := r_parse C cs in
  ok = ok' /\ e = e' /\ (ok = true -> out = render_r v).
Proof.
  unfold parse, r_parse. destruct (sim_feed cs _ _ R_new) as (H1 & H2 & H3).
  destruct (p_feed C (p_new C) cs) as [ok p], (r_feed C r_new cs) as [ok' rp]. cbn [fst snd] in *. subst ok'.
  destruct ok.
  - pose proof (sim_done p rp (H3 eq_refl)) as Hd.
    destruct (p_done C p) as [ok2 p2], (r_done C rp) as [[ok2' e'] v]. destruct Hd as (-> & <- & Hv).
    split; [reflexivity|]. split; [reflexivity|]. intros ->. apply to_string_rel. now apply Hv.
  - split; [reflexivity|]. split; [assumption | discriminate].
Qed.

Theorem accepted_value_std cs e out :
  parse C cs = (true, e, out) -> exists v, r_parse C cs = (true, e, v) /\ out = render_r v.
Proof.
  intros E. pose proof (parse_refines_std cs) as H. rewrite E in H.
  destruct (r_parse C cs) as [[ok' e'] v]. destruct H as (<- & <- & Hv). exists v. split; [reflexivity | now apply Hv].
Qed.

Theorem rejected_iff_std cs : fst (fst (parse C cs)) = fst (fst (r_parse C cs)) /\ snd (fst (parse C cs)) = snd (fst (r_parse C cs)).
Proof.
  pose proof (parse_refines_std cs) as H. destruct (parse C cs) as [[ok e] out], (r_parse C cs) as [[ok' e'] v].
  cbn. tauto.
Qed.

(* ------------------------------------------------------------------ the reference numbers are exact decimals *)
(* room k: the integer part ends in k zeros and there is no fraction when k > 0 *)
Definition rn_ok (r : rnum) : Prop :=
  match r with
  | REmpty => True
  | RNum ip fp k => ip <> [] /\ (0 < k -> fp = []) /\ exists hi, ip = hi ++ repeat 0%N k
  end.

Lemma rel_rn_ok s r : rel s r -> rn_ok r.
Proof.
  destruct r as [|ip fp k]; cbn [rel rn_ok]; [trivial|].
  intros (Hne & Hwf & _ & Ha & Hk & Hip). destruct (abs_normalize s Hwf) as (Ha1 & _ & Hs & Hc).
  rewrite <- Ha1 in Ha. unfold abs in Ha. split; [assumption|].
  destruct Hc as [Hn|(Hz & p & Hp & _)].
  - rewrite Hn, Hk in Ha. injection Ha as <- <-. split; [reflexivity | eexists; reflexivity].
  - rewrite Hz in Hk. subst k. split; [lia | exists ip; cbn; now rewrite app_nil_r].
Qed.

(* when the reference addition is defined on two non-empty exact decimals, it IS addition: a has no fraction, its
   integer part is hi * 10^n (n = integer digits of b) and the sum is hi followed by b *)
Theorem r_add_exact ips fps ks ipn fpn kn c :
  rn_ok (RNum ips fps ks) -> rn_ok (RNum ipn fpn kn) ->
  r_add (RNum ips fps ks) (RNum ipn fpn kn) = Some c ->
  exists ipc, c = RNum ipc fpn kn /\ fps = [] /\ (to_N ips + to_N ipn = to_N ipc)%N /\ length ipc = length ips.
Proof.
  intros (_ & Hf & hi & Ehi) (Hne & _ & _). cbn [r_add].
  destruct (Nat.leb_spec (length ipn) ks) as [Hle|]; [|discriminate]. intros [= <-].
  assert (0 < length ipn) by (destruct ipn; [contradiction | cbn; lia]).
  eexists; split; [reflexivity|]. split; [apply Hf; lia|].
  subst ips. replace (repeat 0%N ks) with (repeat 0%N (ks - length ipn) ++ repeat 0%N (length ipn))
    by (rewrite repeat_app_add; f_equal; lia).
  rewrite app_assoc. set (h := hi ++ repeat 0%N (ks - length ipn)).
  rewrite app_length, repeat_length. replace (length h + length ipn - length ipn) with (length h) by lia.
  rewrite firstn_app_exact. split; [apply concat_is_sum | now rewrite app_length].
Qed.

(* generic forms *)
Theorem wf_reachable cfg cs p : cfg = std_cfg -> p_feed cfg (p_new cfg) cs = (true, p) -> pinv p.
Proof. intros ->. apply wf_reachable_std. Qed.

Theorem parse_refines cfg cs :
  cfg = std_cfg ->
  let '(ok, e, out) := parse cfg cs in
  let '(ok', e', v) := r_parse cfg cs in
  ok = ok' /\ e = e' /\ (ok = true -> out = render_r v).
Proof. intros ->. apply parse_refines_std. Qed.

Theorem accepted_value cfg cs e out :
  cfg = std_cfg -> parse cfg cs = (true, e, out) -> exists v, r_parse cfg cs = (true, e, v) /\ out = render_r v.
Proof. intros ->. apply accepted_value_std. Qed.

(* every value the reference evaluator returns for an accepted string is an exact decimal in the above sense *)
Theorem accepted_value_ok cfg cs e v : cfg = std_cfg -> r_parse cfg cs = (true, e, v) -> rn_ok v.
Proof.
  intros -> E. unfold r_parse in E. destruct (sim_feed cs _ _ R_new) as (H1 & _ & H3).
  destruct (r_feed C r_new cs) as [ok rp] eqn:Ef. cbn [fst snd] in *. destruct ok; [|discriminate].
  destruct (p_feed C (p_new C) cs) as [ok p]. cbn [fst snd] in *. subst ok.
  pose proof (sim_done p rp (H3 eq_refl)) as Hd. rewrite E in Hd.
  destruct (p_done C p) as [ok2 p2]. destruct Hd as (-> & _ & Hv). eapply rel_rn_ok. now apply Hv.
Qed.
