(* C06 — lemmas about Model/BuildHistory.v: the header layout, and validity of every successful compile of every call
   history on one builder. *)
From Coq Require Import List ZArith NArith Bool Arith Lia.
From SudachiVerif Require Import Model.GuardLang Model.Params Model.Build Model.BuildHistory Proofs.GuardProofs Proofs.BuildProofs.
Import ListNotations.
Open Scope list_scope.
Open Scope Z_scope.

(* ------------------------------------------------------------------ little-endian integers *)

Lemma le_bytes_length : forall k n, List.length (le_bytes k n) = k.
Proof. induction k as [|k IH]; intros n; cbn [le_bytes List.length]; [reflexivity|rewrite IH; reflexivity]. Qed.

Lemma le_val_le_bytes : forall k n, le_val (le_bytes k n) = (n mod 256 ^ N.of_nat k)%N.
Proof.
  induction k as [|k IH]; intros n.
  - cbn [le_bytes le_val N.of_nat]. rewrite N.pow_0_r, N.mod_1_r. reflexivity.
  - cbn [le_bytes le_val]. rewrite IH. rewrite Nat2N.inj_succ, N.pow_succ_r'.
    rewrite (N.mod_mul_r n 256 (256 ^ N.of_nat k)); [reflexivity|lia|apply N.pow_nonzero; lia].
Qed.

Lemma le64_roundtrip : forall n, (n < 18446744073709551616)%N -> le_val (le_bytes 8 n) = n.
Proof. intros n H. rewrite le_val_le_bytes. apply N.mod_small. exact H. Qed.

Lemma upto_nul_padded : forall b k, ~ In 0%N b -> upto_nul (b ++ repeat 0%N k) = b.
Proof.
  induction b as [|x b IH]; intros k H; cbn [app upto_nul].
  - destruct k; reflexivity.
  - destruct (x =? 0)%N eqn:E; [apply N.eqb_eq in E; subst x; exfalso; apply H; left; reflexivity|].
    rewrite IH; [reflexivity|]. intros Hin. apply H. right. exact Hin.
Qed.

Lemma Ok_inj : forall (A : Type) (a b : A), @Ok A a = Ok b -> a = b.
Proof. intros A a b E. congruence. Qed.

(* ------------------------------------------------------------------ Header::write_to / Header::parse *)

Section Header.
Variable H : hfacts.
Hypothesis HH : hfacts_ok H = true.

Lemma hfacts_parts :
  h_in_bytes H = true /\ h_pad_exact H = true /\ 0 <= h_size H /\ h_storage H = 16 + h_size H
  /\ h_guard H = mkG CastNone CGt (OConst (h_size H)).
Proof.
  pose proof HH as E. unfold hfacts_ok in E.
  apply andb_true_iff in E as [E G]. apply andb_true_iff in E as [E S]. apply andb_true_iff in E as [E Z0].
  apply andb_true_iff in E as [B P]. apply Z.leb_le in Z0. apply Z.eqb_eq in S.
  repeat split; try assumption.
  destruct (h_guard H) as [[|] [| | | | |] [c| |]]; try discriminate. apply Z.eqb_eq in G. subst c. reflexivity.
Qed.

(* the layout of the header: a description of at most DESCRIPTION_SIZE bytes is written as version, time, the description
   bytes and zero padding -- exactly STORAGE_SIZE bytes, the value compile adds to every later offset; a longer one is an
   error value; never a panic, never a success with another length *)
Theorem header_layout : forall v t d,
  let lb := Z.of_nat (List.length (utf8 d)) in
  (lb <= h_size H ->
     header_write H v t d = Ok (le_bytes 8 v ++ le_bytes 8 t ++ utf8 d ++ repeat 0%N (Z.to_nat (h_size H - lb)))
     /\ Z.of_nat (List.length (le_bytes 8 v ++ le_bytes 8 t ++ utf8 d ++ repeat 0%N (Z.to_nat (h_size H - lb)))) = h_storage H)
  /\ (h_size H < lb -> header_write H v t d = Err).
Proof.
  intros v t d. cbv zeta. destruct hfacts_parts as (Hb & Hp & H0 & Hs & Hg).
  unfold header_write. cbv zeta. remember (Z.of_nat (List.length (utf8 d))) as lb eqn:Elb. rewrite Hb, Hp, Hg. unfold fires. cbn [g_cast g_cmp g_rhs cast_eval operand_eval cmp_eval].
  split.
  - intros Hle. assert ((lb >? h_size H) = false) as E by (unfold Z.gtb; destruct (lb ?= h_size H) eqn:C; try reflexivity; rewrite Z.compare_gt_iff in C; lia).
    rewrite E. assert ((h_size H <? lb) = false) as E2 by (apply Z.ltb_ge; lia). rewrite E2. split; [reflexivity|].
    rewrite !app_length, !le_bytes_length, repeat_length.
    rewrite !Nat2Z.inj_add. rewrite Z2Nat.id by lia. rewrite <- Elb, Hs. lia.
  - intros Hgt. assert ((lb >? h_size H) = true) as E by (unfold Z.gtb; destruct (lb ?= h_size H) eqn:C; try reflexivity; [apply Z.compare_eq in C|rewrite Z.compare_lt_iff in C]; lia).
    rewrite E. reflexivity.
Qed.

Corollary header_write_never_panics : forall v t d, header_write H v t d <> Panic.
Proof.
  intros v t d. destruct (header_layout v t d) as [A B].
  destruct (Z_le_gt_dec (Z.of_nat (List.length (utf8 d))) (h_size H)) as [L|G].
  - destruct (A L) as [E _]. rewrite E. discriminate.
  - rewrite (B ltac:(lia)). discriminate.
Qed.

Corollary header_ok_length : forall v t d bs, header_write H v t d = Ok bs -> Z.of_nat (List.length bs) = h_storage H.
Proof.
  intros v t d bs E. destruct (header_layout v t d) as [A B].
  destruct (Z_le_gt_dec (Z.of_nat (List.length (utf8 d))) (h_size H)) as [L|G].
  - destruct (A L) as [E1 E2]. rewrite E1 in E. inversion E; subst. exact E2.
  - rewrite (B ltac:(lia)) in E. discriminate.
Qed.

(* round trip through Header::parse: version, time and (a description without NUL) come back *)
Theorem header_roundtrip : forall v t d bs rest,
  (v < 18446744073709551616)%N -> (t < 18446744073709551616)%N -> ~ In 0%N (utf8 d) ->
  header_write H v t d = Ok bs -> header_parse H (bs ++ rest) = Some (v, t, utf8 d).
Proof.
  intros v t d bs rest Hv Ht Hn E. destruct hfacts_parts as (Hb & Hp & H0 & Hs & Hg).
  destruct (header_layout v t d) as [A B].
  destruct (Z_le_gt_dec (Z.of_nat (List.length (utf8 d))) (h_size H)) as [L|G]; [|rewrite (B ltac:(lia)) in E; discriminate].
  destruct (A L) as [E1 E2]. rewrite E1 in E. apply Ok_inj in E. rewrite <- E. clear E bs.
  unfold header_parse. lazy zeta.
  set (pad := repeat 0%N (Z.to_nat (h_size H - Z.of_nat (List.length (utf8 d))))) in *.
  assert (List.length (le_bytes 8 v ++ le_bytes 8 t ++ utf8 d ++ pad) = (16 + Z.to_nat (h_size H))%nat) as Len.
  { apply Nat2Z.inj. rewrite E2, Hs, Nat2Z.inj_add, Z2Nat.id by lia. reflexivity. }
  assert (Nat.ltb (List.length ((le_bytes 8 v ++ le_bytes 8 t ++ utf8 d ++ pad) ++ rest)) (16 + Z.to_nat (h_size H)) = false) as El.
  { apply Nat.ltb_ge. rewrite app_length, Len. lia. }
  rewrite El.
  assert (forall A0 (x y : list A0), firstn (List.length x) (x ++ y) = x) as F1.
  { intros A0 x y. rewrite firstn_app, Nat.sub_diag, firstn_all. cbn [firstn]. apply app_nil_r. }
  assert (forall A0 (x y : list A0), skipn (List.length x) (x ++ y) = y) as S1.
  { intros A0 x y. rewrite skipn_app, Nat.sub_diag, skipn_all. reflexivity. }
  rewrite <- !app_assoc.
  pose proof (F1 N (le_bytes 8 v) (le_bytes 8 t ++ utf8 d ++ pad ++ rest)) as Fv. rewrite le_bytes_length in Fv. rewrite Fv.
  pose proof (S1 N (le_bytes 8 v) (le_bytes 8 t ++ utf8 d ++ pad ++ rest)) as Sv. rewrite le_bytes_length in Sv. rewrite Sv.
  pose proof (F1 N (le_bytes 8 t) (utf8 d ++ pad ++ rest)) as Ft. rewrite le_bytes_length in Ft. rewrite Ft.
  replace (skipn 16 (le_bytes 8 v ++ le_bytes 8 t ++ utf8 d ++ pad ++ rest)) with (utf8 d ++ pad ++ rest).
  2:{ replace 16%nat with (List.length (le_bytes 8 v ++ le_bytes 8 t)) by (rewrite app_length, !le_bytes_length; reflexivity).
      rewrite (app_assoc (le_bytes 8 v)). rewrite S1. reflexivity. }
  rewrite !le64_roundtrip by assumption.
  replace (firstn (Z.to_nat (h_size H)) (utf8 d ++ pad ++ rest)) with (utf8 d ++ pad).
  2:{ rewrite app_assoc. assert (Z.to_nat (h_size H) = List.length (utf8 d ++ pad)) as E3.
      { rewrite app_length. unfold pad. rewrite repeat_length. lia. }
      rewrite E3, F1. reflexivity. }
  unfold pad. rewrite upto_nul_padded by exact Hn. reflexivity.
Qed.

End Header.

(* ------------------------------------------------------------------ call histories *)

Section History.
Variable F : bfacts.
Hypothesis HF : bfacts_ok F = true.

(* read_conn hands the dimensions to the lexicon whenever the buffer may have changed, and leaves the limits of a user
   dictionary alone: the two facts the history model takes *)
Notation stepF := (step F true true false false).

Definition Inv (st : hstate) : Prop :=
  conn_wf (mkConn (hs_nl st) (hs_nr st) (hs_stores st))
  /\ (forall e, In e (hs_entries st) -> entry_parsed_ok e)
  /\ 0 <= hs_liml st <= 32767 /\ 0 <= hs_limr st <= 32767
  /\ (hs_user st = true -> hs_liml st = hs_sys_nl st /\ hs_limr st = hs_sys_nr st)
  /\ (hs_user st = false -> hs_conn_seen st = true -> hs_liml st = hs_nl st /\ hs_limr st = hs_nr st).

Lemma read_lines_st_sound : forall ls c, conn_wf c ->
  let '(c', r) := read_lines_st F c ls in
  conn_wf c' /\ c_nl c' = c_nl c /\ c_nr c' = c_nr c /\ r <> Panic.
Proof.
  induction ls as [|ln t IH]; intros c W; cbn [read_lines_st].
  - refine (conj W (conj eq_refl (conj eq_refl _))). discriminate.
  - destruct ln as [|x xs]; [apply IH; exact W|].
    pose proof (parse_line_sound F HF c (x :: xs) W) as P.
    destruct (parse_line F c (x :: xs)) as [c1| |]; [|refine (conj W (conj eq_refl (conj eq_refl _))); discriminate|contradiction].
    destruct P as (W1 & E1 & E2). specialize (IH c1 W1). destruct (read_lines_st F c1 t) as [c' r].
    destruct IH as (A & B & C & D). refine (conj A (conj _ (conj _ D))); congruence.
Qed.

Lemma conn_read_st_sound : forall old ls, conn_wf old ->
  let '(c, seen, r) := conn_read_st F old ls in
  conn_wf c /\ r <> Panic /\ (seen = false -> c = old).
Proof.
  intros old ls W. destruct (bfacts_parts F HF) as (_ & _ & _ & _ & _ & Ep & _ & _ & Hl & Hr & _).
  assert (forall r0 : res unit, r0 = Err -> conn_wf old /\ r0 <> Panic /\ (false = false -> old = old)) as Keep.
  { intros r0 ->. refine (conj W (conj _ (fun _ => eq_refl))). discriminate. }
  unfold conn_read_st. destruct (skip_blank ls) as [|hdr rest].
  { rewrite Ep. apply Keep. reflexivity. }
  destruct (splitn (b_hdr_fields F) hdr) as [|a [|b [|x t]]]; try (apply Keep; reflexivity).
  destruct (parse_i16 a) as [l|] eqn:Ea; [|apply Keep; reflexivity].
  destruct (parse_i16 b) as [r|] eqn:Eb; [|apply Keep; reflexivity].
  destruct (accepted (b_hdr_left_g F) 0 0 l && accepted (b_hdr_right_g F) 0 0 r) eqn:A; [|apply Keep; reflexivity].
  apply andb_true_iff in A as [Al Ar].
  pose proof (parse_i16_range _ _ Ea) as Rl. pose proof (parse_i16_range _ _ Eb) as Rr.
  pose proof (hdr_nonneg _ _ _ Hl Rl Al) as Nl. pose proof (hdr_nonneg _ _ _ Hr Rr Ar) as Nr.
  assert ((l <? 0) || (r <? 0) = false) as En by (apply orb_false_iff; split; apply Z.ltb_ge; lia).
  rewrite En.
  assert (conn_wf (mkConn l r (filter (fun s => fst s <? l * r) (c_stores old)))) as W0.
  { destruct W as (_ & _ & Ws). unfold conn_wf. cbn [c_nl c_nr c_stores]. split; [lia|split; [lia|]].
    intros s Hs. apply filter_In in Hs as [Hin Hlt]. apply Z.ltb_lt in Hlt. specialize (Ws s Hin). lia. }
  pose proof (read_lines_st_sound rest _ W0) as R. destruct (read_lines_st F _ rest) as [c st].
  destruct R as (A & _ & _ & D). refine (conj A (conj D _)). discriminate.
Qed.

Lemma parse_records_st_sound : forall rs, forall e, In e (fst (parse_records_st F rs)) -> entry_parsed_ok e.
Proof.
  induction rs as [|r t IH]; intros e Hin; cbn [parse_records_st] in Hin; [destruct Hin|].
  destruct (parse_record F r) as [e0|] eqn:E; [|destruct Hin].
  destruct (parse_records_st F t) as [es ok]. cbn [fst] in *. destruct Hin as [<-|Hin]; [|apply IH; exact Hin].
  exact (proj1 (parse_record_sound F HF r e0 E)).
Qed.

Lemma Inv_mk : forall u ns sl sr nl nr sto ll lr es seen,
  conn_wf (mkConn nl nr sto) -> (forall e, In e es -> entry_parsed_ok e) -> 0 <= ll <= 32767 -> 0 <= lr <= 32767 ->
  (u = true -> ll = sl /\ lr = sr) -> (u = false -> seen = true -> ll = nl /\ lr = nr) ->
  Inv (mkH u ns sl sr nl nr sto ll lr es seen).
Proof. intros u ns sl sr nl nr sto ll lr es seen A B C D E G. exact (conj A (conj B (conj C (conj D (conj E G))))). Qed.

Lemma step_Inv : forall st o, Inv st -> Inv (fst (stepF st o)).
Proof.
  intros st o (Wc & We & Wl & Wr & Wu & Ws). destruct o as [s ls|s rs| |]; cbn [step].
  - pose proof (conn_read_st_sound (mkConn (hs_nl st) (hs_nr st) (hs_stores st)) ls Wc) as C.
    destruct (conn_read_st F (mkConn (hs_nl st) (hs_nr st) (hs_stores st)) ls) as [[c seen] r].
    destruct C as (Wc' & _ & Hunseen). cbn [fst].
    assert (conn_wf (mkConn (c_nl c) (c_nr c) (c_stores c))) as Wc2 by (destruct c; exact Wc').
    destruct Wc' as (D1 & D2 & _).
    assert (((match r with Ok _ => true | _ => true && negb (returns_early false false s) end) && negb (hs_user st && true)) = negb (hs_user st)) as Ef
      by (destruct r, s, (hs_user st); reflexivity).
    rewrite Ef. apply Inv_mk; try assumption.
    + destruct (hs_user st); cbn [negb]; lia.
    + destruct (hs_user st); cbn [negb]; lia.
    + intros Eu. rewrite Eu. cbn [negb]. apply Wu. exact Eu.
    + intros Eu _. rewrite Eu. cbn [negb]. split; reflexivity.
  - destruct (parse_records_st F rs) as [es ok] eqn:Ep. cbn [fst]. apply Inv_mk; try assumption.
    intros e Hin. apply in_app_or in Hin as [Hin|Hin]; [apply We; exact Hin|].
    apply (parse_records_st_sound rs). rewrite Ep. exact Hin.
  - cbn [fst]. exact (conj Wc (conj We (conj Wl (conj Wr (conj Wu Ws))))).
  - cbn [fst]. exact (conj Wc (conj We (conj Wl (conj Wr (conj Wu Ws))))).
Qed.

Ltac inv_init :=
  apply Inv_mk; try lia; try discriminate; try (intros e []);
  try (unfold conn_wf; cbn; split; [lia|split; [lia|intros s []]]); try (intros _; split; reflexivity).

Lemma Inv_init_system : Inv init_system.
Proof. unfold init_system, I16_MAX. inv_init. Qed.

Lemma Inv_init_user : forall a b n, 0 <= a <= 32767 -> 0 <= b <= 32767 -> Inv (init_user a b n).
Proof. intros a b n Ha Hb. unfold init_user. inv_init. Qed.

(* one compile on a builder satisfying the invariant: never a panic; once a matrix is known, success means validity *)
Lemma compile_dict_sound : forall st, Inv st ->
  compile_dict F st <> Panic
  /\ forall d, compile_dict F st = Ok d -> matrix_known st = true -> 0 <= hs_nsys st ->
       dict_valid d = true /\ stores_in_range d = true.
Proof.
  intros st (Wc & We & Wl & Wr & Wu & Ws). destruct (bfacts_parts F HF) as (_ & _ & _ & _ & _ & _ & _ & Et & _).
  unfold compile_dict.
  set (es := hs_entries st) in *. set (n := Z.of_nat (List.length es)).
  destruct (forallb _ es) eqn:Ev; [|split; [discriminate|intros d Hd; discriminate]].
  destruct (index_err F es) eqn:Ei; [split; [discriminate|intros d Hd; discriminate]|].
  destruct (existsb (indexed F) es) eqn:Ex; [|rewrite Et; split; [discriminate|intros d Hd; discriminate]].
  rewrite (no_nul_indexed F es We). split; [discriminate|].
  intros d Hd Hk Hn. inversion Hd; subst d. clear Hd.
  assert ((if hs_user st then hs_sys_nl st else hs_nl st) = hs_liml st /\ (if hs_user st then hs_sys_nr st else hs_nr st) = hs_limr st) as [El Er].
  { unfold matrix_known in Hk. destruct (hs_user st) eqn:Eu.
    - destruct (Wu eq_refl) as [A B]. split; congruence.
    - cbn [orb] in Hk. destruct (Ws eq_refl Hk) as [A B]. split; congruence. }
  rewrite El, Er. split.
  - unfold dict_valid. cbn [d_entries]. apply forallb_forall. intros e Hin.
    rewrite forallb_forall in Ev. specialize (Ev e Hin). destruct (We e Hin) as (Pl & Pr & Plim & Pn & _).
    destruct (entry_ok_sound F HF _ _ _ _ e Wl Wr (We e Hin) Ev) as [Ids Refs].
    apply andb_true_iff. split; [apply andb_true_iff; split; [|exact Plim]|].
    + unfold entry_ids_ok. cbn [d_nl d_nr]. destruct (0 <=? e_left e) eqn:E; [|reflexivity]. apply Z.leb_le in E.
      destruct (Ids E) as [A [B C]]. repeat (apply andb_true_iff; split); try apply Z.ltb_lt; try apply Z.leb_le; lia.
    + apply forallb_forall. intros w Hw. specialize (Refs w Hw). unfold ref_exists. cbn [d_entries d_user d_num_system].
      fold es. fold n. apply andb_true_iff. split; [apply Z.leb_le; lia|apply Z.ltb_lt].
      destruct (fst w), (hs_user st); lia.
  - unfold stores_in_range. cbn [d_stores d_nl d_nr]. destruct (hs_user st) eqn:Eu; [reflexivity|].
    unfold matrix_known in Hk. rewrite Eu in Hk. cbn [orb] in Hk. destruct (Ws eq_refl Hk) as [A B].
    destruct Wc as (_ & _ & W3). cbn [c_stores c_nl c_nr] in W3. apply forallb_forall. intros s Hin. specialize (W3 s Hin).
    apply andb_true_iff. split; [apply Z.leb_le|apply Z.ltb_lt]; lia.
Qed.

Lemma step_no_panic : forall st o, Inv st -> snd (stepF st o) <> Panic.
Proof.
  intros st o I. destruct o as [s ls|s rs| |]; cbn [step].
  - pose proof (conn_read_st_sound (mkConn (hs_nl st) (hs_nr st) (hs_stores st)) ls (proj1 I)) as C.
    destruct (conn_read_st F _ ls) as [[c seen] r]. destruct C as (_ & NP & _). cbn [snd]. destruct r; [discriminate|discriminate|contradiction].
  - destruct (parse_records_st F rs) as [es ok]. cbn [snd]. destruct ok; discriminate.
  - cbn [snd]. discriminate.
  - cbn [snd]. destruct (compile_dict_sound st I) as [NP _]. destruct (compile_dict F st); [discriminate|discriminate|contradiction].
Qed.

Lemma step_nsys : forall st o, hs_nsys (fst (stepF st o)) = hs_nsys st.
Proof.
  intros st [s ls|s rs| |]; cbn [step]; try reflexivity.
  - destruct (conn_read_st F _ ls) as [[c seen] r]. reflexivity.
  - destruct (parse_records_st F rs) as [es ok]. reflexivity.
Qed.

(* every call history: whichever calls were made before, in whatever order and with whatever outcomes, a compile that reports
   success after a matrix became known has produced a valid dictionary; and no call panics *)
Theorem history_success_means_valid : forall ops st, Inv st -> 0 <= hs_nsys st ->
  (forall i r, nth_error (run_history F true true false false st ops) i = Some r -> r <> Panic)
  /\ forall i d, nth_error (run_history F true true false false st ops) i = Some (Ok (Some d)) ->
       matrix_known (final_state F true true false false st (firstn i ops)) = true ->
       dict_valid d = true /\ stores_in_range d = true.
Proof.
  induction ops as [|o t IH]; intros st I Hn; cbn [run_history].
  - split; intros [|i]; cbn [nth_error]; discriminate.
  - pose proof (step_Inv st o I) as I'. pose proof (step_no_panic st o I) as NP.
    assert (0 <= hs_nsys (fst (stepF st o))) as Hn' by (rewrite step_nsys; exact Hn).
    destruct (IH _ I' Hn') as [A B]. split.
    + intros [|i] r E; cbn [nth_error] in E; [inversion E; subst; exact NP|exact (A i r E)].
    + intros [|i] d E K; cbn [nth_error firstn final_state] in *.
      * inversion E as [E1]. destruct o as [s ls|s rs| |]; cbn [step] in E1.
        -- destruct (conn_read_st F _ ls) as [[c seen] r]. cbn [snd] in E1. destruct r; discriminate.
        -- destruct (parse_records_st F rs) as [es ok]. cbn [snd] in E1. destruct ok; discriminate.
        -- discriminate.
        -- cbn [snd] in E1. destruct (compile_dict F st) as [d0| |] eqn:Ec; try discriminate. inversion E1; subst d0.
           exact (proj2 (compile_dict_sound st I) d Ec K Hn).
      * exact (B i d E K).
Qed.

(* the arrays of the word-id table: in every history, whatever the flags of read_conn, a compile that reports success has
   at most 127 indexed entries per surface (rows of several read_lexicon calls count together) *)
Lemma compile_dict_index_ok : forall st d, compile_dict F st = Ok d -> index_lists_ok d = true.
Proof.
  intros st d H. unfold compile_dict in H.
  destruct (forallb _ (hs_entries st)); [|discriminate]. destruct (index_err F (hs_entries st)) eqn:Ei; [discriminate|].
  destruct (existsb (indexed F) (hs_entries st)); [|destruct (b_empty_trie_err F); discriminate].
  destruct (existsb _ (hs_entries st)); [discriminate|]. inversion H; subst. apply (index_err_false_sound F HF). exact Ei.
Qed.

Theorem history_index_ok : forall fl fu ef eb ops st i d,
  nth_error (run_history F fl fu ef eb st ops) i = Some (Ok (Some d)) -> index_lists_ok d = true.
Proof.
  intros fl fu ef eb. induction ops as [|o t IH]; intros st i d E; cbn [run_history] in E.
  - destruct i; discriminate.
  - destruct i as [|i]; cbn [nth_error] in E; [|exact (IH _ i d E)].
    inversion E as [E1]. destruct o as [s ls|s rs| |]; cbn [step] in E1.
    + destruct (conn_read_st F _ ls) as [[c seen] r]. cbn [snd] in E1. destruct r; discriminate.
    + destruct (parse_records_st F rs) as [es ok]. cbn [snd] in E1. destruct ok; discriminate.
    + discriminate.
    + cbn [snd] in E1. destruct (compile_dict F st) as [d0| |] eqn:Ec; try discriminate. inversion E1; subst d0.
      exact (compile_dict_index_ok st d Ec).
Qed.

(* when neither arm of read_conn returns on its own, the kind of data source of a call does not matter: every history gives
   what the same calls give with all their data handed over as bytes in memory *)
Theorem history_source_irrelevant : forall fl fu ops st,
  run_history F fl fu false false st ops = run_history F fl fu false false st (map as_bytes ops).
Proof.
  intros fl fu. induction ops as [|o t IH]; intros st; cbn [run_history map]; [reflexivity|].
  assert (step F fl fu false false st o = step F fl fu false false st (as_bytes o)) as E.
  { destruct o as [s ls|s rs| |]; cbn [as_bytes step]; try reflexivity. destruct s; reflexivity. }
  rewrite E, IH. reflexivity.
Qed.

End History.
