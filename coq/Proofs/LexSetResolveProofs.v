(* C12: an inline split reference of a layered dictionary resolves to the word it names (builder B's resolution theorem
   composed with the loader's re-stamping). *)
From Coq Require Import String List Arith NArith ZArith Bool Lia.
From SudachiVerif Require Import Model.Codec Model.CodecResolve Model.LexSet Model.LexSetResolve.
From SudachiVerif Require Import Proofs.CodecResolveProofs Proofs.LexSetProofs.
Import ListNotations.
Open Scope N_scope.

Lemma own_stamp_parts i : i < 268435456 -> (1 * DIC + i) / 268435456 = 1 /\ (1 * DIC + i) mod 268435456 = i.
Proof.
  intros Hi. unfold DIC. replace (1 * 268435456 + i) with (i + 1 * 268435456) by lia.
  rewrite N.div_add by lia. rewrite N.mod_add by lia. rewrite N.div_small, N.mod_small by lia. split; reflexivity.
Qed.

(* A user dictionary loaded as dictionary d (1 <= d <= 14) whose CSV row holds the inline reference (s, p, rd):
   the word id the loaded word reports for it is
     - (d, i) where row i of the SAME dictionary is the first row with exactly that surface, POS and reading, or
     - (0, i) where no row of the dictionary has them and system word i is the first that does;
   never a word that differs from the named one in POS or reading *)
Lemma inline_reference_loaded : layout_ok = true -> guards_ok = true ->
  forall d own sys s p rd w,
  0 < d < 15 -> N.of_nat (length own) <= 268435456 -> N.of_nat (length sys) <= 268435456 ->
  loaded_refs d own sys [SInline s p rd] = Some [w] ->
  (exists i, dic_of w = d /\ word_of w = N.of_nat i /\ first_match own i s p rd)
  \/ ((forall k, In k own -> ~ key_is k s p rd) /\ exists i, dic_of w = 0 /\ word_of w = N.of_nat i /\ first_match sys i s p rd).
Proof.
  intros HL HG d own sys s p rd w Hd Hown Hsys H. unfold loaded_refs in H.
  replace (d =? 0) with false in H by (symmetry; apply N.eqb_neq; lia).
  cbn [resolve_units resolve_unit] in H.
  destruct (resolve_inline 1 own sys s p rd) as [w0|] eqn:Er; [|discriminate].
  cbn [option_map] in H. rewrite (restamp_spec HG) in H. cbn [map] in H.
  assert (Hw : (if 0 <? dic_of w0 then stamp d (word_of w0) else w0) = w) by congruence. clear H. subst w.
  destruct (layout_facts HL) as (_ & E2 & _ & E4 & _).
  destruct (resolve_inline_sound 1 own sys s p rd w0 Er) as [(i & -> & Hf)|(Hno & i & -> & Hf)].
  - left. exists i.
    assert (Hi : N.of_nat i < 268435456).
    { destruct Hf as [(k & Hk & _) _]. assert (i < length own)%nat by (apply nth_error_Some; congruence). lia. }
    destruct (own_stamp_parts (N.of_nat i) Hi) as [Hq Hr].
    assert (Hdic : dic_of (1 * DIC + N.of_nat i) = 1).
    { unfold dic_of. rewrite E2, N.shiftr_div_pow2. change (2 ^ 28) with 268435456. rewrite Hq. reflexivity. }
    assert (Hword : word_of (1 * DIC + N.of_nat i) = N.of_nat i).
    { unfold word_of. rewrite E4, N.land_ones. change (2 ^ 28) with 268435456. exact Hr. }
    rewrite Hdic, Hword. cbn [N.ltb]. replace (0 <? 1) with true by reflexivity.
    assert (Hm : N.of_nat i <= WORD_MASK) by (rewrite E4, N.ones_equiv; change (2 ^ 28) with 268435456; lia).
    split; [apply (dic_of_stamp HL); [lia|exact Hm]|]. split; [apply (word_of_stamp HL); [lia|exact Hm]|exact Hf].
  - right. split; [exact Hno|]. exists i.
    assert (Hi : N.of_nat i < 268435456).
    { destruct Hf as [(k & Hk & _) _]. assert (i < length sys)%nat by (apply nth_error_Some; congruence). lia. }
    assert (Hdic : dic_of (N.of_nat i) = 0).
    { unfold dic_of. rewrite E2, N.shiftr_div_pow2. change (2 ^ 28) with 268435456. rewrite N.div_small by lia. reflexivity. }
    rewrite Hdic. replace (0 <? 0) with false by reflexivity. split; [exact Hdic|]. split; [|exact Hf].
    unfold word_of. rewrite E4, N.land_ones. change (2 ^ 28) with 268435456. apply N.mod_small. lia.
Qed.
