(* C20 — lemmas about Model/Params.v, for every fact record F with facts_ok F = true. *)
From Coq Require Import List ZArith NArith Bool Lia.
From SudachiVerif Require Import Model.GuardLang Model.Params Proofs.GuardProofs.
Import ListNotations.
Open Scope Z_scope.

Section Sound.
Variable F : pfacts.
Hypothesis HF : facts_ok F = true.

Ltac split_ok H := do 12 (apply andb_true_iff in H; let H' := fresh "HF" in destruct H as [H H']).

Lemma facts_parts :
  covers (f_left_g F) NumRight = true /\ covers (f_right_g F) NumLeft = true /\ confines (f_cost_g F) (-32768) 32767 = true
  /\ covers (f_unk_left_g F) NumRight = true /\ covers (f_unk_right_g F) NumLeft = true
  /\ covers (f_inh_left_g F) NumLeft = true /\ covers (f_inh_right_g F) NumRight = true
  /\ index_shape_ok (f_index F) = true /\ f_unk_ty F = I16 /\ f_inh_ty F = I16.
Proof.
  pose proof HF as H. unfold facts_ok in H. split_ok H.
  repeat split; try assumption.
  - destruct (f_unk_ty F); try discriminate; reflexivity.
  - destruct (f_inh_ty F); try discriminate; reflexivity.
Qed.

Lemma in_ity_i64 : forall t x, in_ity t x = true -> -9223372036854775808 <= x < 9223372036854775808.
Proof.
  intros t x H. unfold in_ity in H. apply andb_true_iff in H as [H1 H2]. apply Z.leb_le in H1, H2.
  destruct t; cbn [ity_min ity_max] in *; lia.
Qed.

Lemma in_i16 : forall x, in_ity I16 x = true -> -32768 <= x <= 32767.
Proof. intros x H. unfold in_ity in H. apply andb_true_iff in H as [H1 H2]. apply Z.leb_le in H1, H2. cbn in *. lia. Qed.

Lemma as_u16_small : forall x, 0 <= x < 65536 -> as_u16 x = x.
Proof. intros. unfold as_u16. apply Z.mod_small. lia. Qed.

Lemma as_i16_small : forall x, -32768 <= x <= 32767 -> as_i16 x = x.
Proof.
  intros x H. unfold as_i16.
  pose proof (Z.div_mod x 65536 ltac:(lia)) as E. pose proof (Z.mod_pos_bound x 65536 ltac:(lia)) as B.
  destruct (x mod 65536 <? 32768) eqn:L; [apply Z.ltb_lt in L|apply Z.ltb_ge in L]; lia.
Qed.

Lemma dims_small : forall g d, wf_gram g -> 1 <= dim_val d (nl g) (nr g) < 9223372036854775808.
Proof. intros g d [H1 H2]. destruct d; cbn [dim_val]; lia. Qed.

Lemma check_left_sound : forall g ty gs x, wf_gram g -> covers gs NumRight = true -> check_value ty gs g x = true -> left_id_ok g x = true.
Proof.
  intros g ty gs x Hw Hc H. unfold check_value in H. apply andb_true_iff in H as [Ht Ha].
  pose proof (guard_sound gs NumRight (nl g) (nr g) x Hc (dims_small g NumRight Hw) (in_ity_i64 _ _ Ht) Ha) as R.
  cbn [dim_val] in R. unfold left_id_ok. apply andb_true_iff. split; [apply Z.leb_le|apply Z.ltb_lt]; lia.
Qed.

Lemma check_right_sound : forall g ty gs x, wf_gram g -> covers gs NumLeft = true -> check_value ty gs g x = true -> right_id_ok g x = true.
Proof.
  intros g ty gs x Hw Hc H. unfold check_value in H. apply andb_true_iff in H as [Ht Ha].
  pose proof (guard_sound gs NumLeft (nl g) (nr g) x Hc (dims_small g NumLeft Hw) (in_ity_i64 _ _ Ht) Ha) as R.
  cbn [dim_val] in R. unfold right_id_ok. apply andb_true_iff. split; [apply Z.leb_le|apply Z.ltb_lt]; lia.
Qed.

Lemma left_ok_bounds : forall g x, left_id_ok g x = true -> 0 <= x < nr g.
Proof. intros g x H. unfold left_id_ok in H. apply andb_true_iff in H as [H1 H2]. apply Z.leb_le in H1. apply Z.ltb_lt in H2. lia. Qed.
Lemma right_ok_bounds : forall g x, right_id_ok g x = true -> 0 <= x < nl g.
Proof. intros g x H. unfold right_id_ok in H. apply andb_true_iff in H as [H1 H2]. apply Z.leb_le in H1. apply Z.ltb_lt in H2. lia. Qed.
Lemma cost_ok_iff : forall x, cost_ok x = true <-> -32768 <= x <= 32767.
Proof. intros x. unfold cost_ok. rewrite andb_true_iff, !Z.leb_le. tauto. Qed.

(* ---------- handle_user_pos: the POS rule ---------- *)

Lemma index_of_some : forall k l i j, index_of k l i = Some j -> In k l.
Proof.
  induction l as [|x t IH]; cbn [index_of]; intros i j H; [discriminate|].
  destruct (N.eqb x k) eqn:E; [apply N.eqb_eq in E; left; exact E|right; eapply IH; exact H].
Qed.
Lemma index_of_none : forall k l i, index_of k l i = None -> ~ In k l.
Proof.
  induction l as [|x t IH]; cbn [index_of]; intros i H; [tauto|].
  destruct (N.eqb x k) eqn:E; [discriminate|]. apply N.eqb_neq in E. intros [Hx|Ht]; [congruence|]. eapply IH; eauto.
Qed.

(* exists -> its id, table unchanged; absent and allowed -> registered at the end; otherwise an error; never a panic *)
Lemma pos_rule : forall tbl p allow,
  match handle_user_pos F tbl p allow with
  | Ok (i, tbl') => fst p = true /\ ((In (snd p) tbl /\ tbl' = tbl) \/ (allow = true /\ ~ In (snd p) tbl /\ tbl' = tbl ++ [snd p] /\ i = N.of_nat (length tbl)))
  | Err => fst p = false \/ (~ In (snd p) tbl /\ (allow = false \/ fires (f_pos_limit F) 0 0 (Z.of_nat (length tbl)) = true))
  | Panic => False
  end.
Proof.
  intros tbl [ar k] allow. unfold handle_user_pos. cbn [fst snd]. destruct ar; cbn [negb]; [|left; reflexivity].
  destruct (index_of k tbl 0%N) as [i|] eqn:E.
  - split; [reflexivity|]. left. split; [eapply index_of_some; exact E|reflexivity].
  - apply index_of_none in E. destruct allow.
    + destruct (fires (f_pos_limit F) 0 0 (Z.of_nat (length tbl))) eqn:L.
      * right. split; [exact E|right; reflexivity].
      * split; [reflexivity|]. right. repeat split; try reflexivity. exact E.
    + right. split; [exact E|left; reflexivity].
Qed.

Lemma pos_forbid_keeps : forall tbl p i tbl', handle_user_pos F tbl p false = Ok (i, tbl') -> fst p = true /\ In (snd p) tbl /\ tbl' = tbl.
Proof.
  intros tbl p i tbl' H. pose proof (pos_rule tbl p false) as R. rewrite H in R. destruct R as [R1 [[R2 R3]|[R2 _]]]; [|discriminate].
  repeat split; assumption.
Qed.

(* ---------- OOV providers ---------- *)

Lemma oov_simple_sound : forall g tbl l r c p allow n tbl', wf_gram g ->
  oov_simple F g tbl l r c p allow = Ok (n, tbl') ->
  left_id_ok g l = true /\ right_id_ok g r = true /\ cost_ok c = true /\ fst p = true /\ exists pid, n = (l, r, c, pid).
Proof.
  intros g tbl l r c p allow n tbl' Hw H. destruct facts_parts as (Hl & Hr & Hc & _).
  unfold oov_simple in H. pose proof (pos_rule tbl p allow) as R.
  destruct (handle_user_pos F tbl p allow) as [[pid t']| |]; try discriminate.
  destruct (check_value (f_json_ty F) (f_left_g F) g l && check_value (f_json_ty F) (f_right_g F) g r
            && check_value (f_json_ty F) (f_cost_g F) g c) eqn:E; try discriminate.
  apply andb_true_iff in E as [E Ec]. apply andb_true_iff in E as [El Er].
  pose proof (check_left_sound _ _ _ _ Hw Hl El) as Ol. pose proof (check_right_sound _ _ _ _ Hw Hr Er) as Or.
  assert (cost_ok c = true) as Oc.
  { unfold check_value in Ec. apply andb_true_iff in Ec as [_ Ea]. apply cost_ok_iff. eapply confines_sound; eauto. }
  destruct R as [Rp _]. repeat split; try assumption.
  exists pid. inversion H; subst. pose proof (left_ok_bounds _ _ Ol). pose proof (right_ok_bounds _ _ Or). destruct Hw.
  rewrite !as_u16_small by lia. rewrite as_i16_small by (apply cost_ok_iff; exact Oc). reflexivity.
Qed.

Definition line_ok (g : gram) (ln : Z * Z * Z * posreq) : bool :=
  let '(l, r, c, p) := ln in left_id_ok g l && right_id_ok g r && cost_ok c && fst p.

Lemma mecab_line_sound : forall g tbl allow ln n tbl', wf_gram g ->
  mecab_line F g tbl allow ln = Ok (n, tbl') -> line_ok g ln = true /\ node_ok g n = true.
Proof.
  intros g tbl allow [[[l r] c] p] n tbl' Hw H. destruct facts_parts as (_ & _ & _ & Hl & Hr & _ & _ & _ & Hty & _).
  unfold mecab_line in H. rewrite Hty in H.
  destruct (in_ity I16 l && in_ity I16 r && in_ity I16 c) eqn:T; try discriminate.
  apply andb_true_iff in T as [T Tc]. apply andb_true_iff in T as [Tl Tr].
  pose proof (pos_rule tbl p allow) as R.
  destruct (handle_user_pos F tbl p allow) as [[pid t']| |]; try discriminate.
  destruct (accepted (f_unk_left_g F) (nl g) (nr g) l && accepted (f_unk_right_g F) (nl g) (nr g) r) eqn:E; try discriminate.
  apply andb_true_iff in E as [El Er].
  pose proof (guard_sound _ NumRight _ _ l Hl (dims_small g NumRight Hw) (in_ity_i64 _ _ Tl) El) as Bl.
  pose proof (guard_sound _ NumLeft _ _ r Hr (dims_small g NumLeft Hw) (in_ity_i64 _ _ Tr) Er) as Br.
  cbn [dim_val] in Bl, Br. pose proof (in_i16 _ Tc) as Bc. destruct R as [Rp _]. destruct Hw as [W1 W2].
  inversion H; subst. rewrite !as_u16_small by lia.
  assert (left_id_ok g l = true) as Ol by (unfold left_id_ok; apply andb_true_iff; split; [apply Z.leb_le|apply Z.ltb_lt]; lia).
  assert (right_id_ok g r = true) as Or by (unfold right_id_ok; apply andb_true_iff; split; [apply Z.leb_le|apply Z.ltb_lt]; lia).
  assert (cost_ok c = true) as Oc by (apply cost_ok_iff; lia).
  unfold line_ok, node_ok. rewrite Ol, Or, Oc, Rp. split; reflexivity.
Qed.

Lemma mecab_lines_sound : forall g allow lines tbl ns tbl', wf_gram g ->
  mecab_lines F g tbl allow lines = Ok (ns, tbl') -> forallb (line_ok g) lines = true /\ forallb (node_ok g) ns = true.
Proof.
  intros g allow lines. induction lines as [|ln t IH]; intros tbl ns tbl' Hw H; cbn [mecab_lines] in H.
  - inversion H; subst. split; reflexivity.
  - destruct (mecab_line F g tbl allow ln) as [[n t1]| |] eqn:E1; try discriminate.
    destruct (mecab_lines F g t1 allow t) as [[ns2 t2]| |] eqn:E2; try discriminate.
    inversion H; subst. destruct (mecab_line_sound _ _ _ _ _ _ Hw E1) as [A1 A2]. destruct (IH _ _ _ Hw E2) as [B1 B2].
    cbn [forallb]. rewrite A1, A2, B1, B2. split; reflexivity.
Qed.

Lemma oov_setup_sound : forall g tbl o ns tbl', wf_gram g ->
  oov_setup F g tbl o = Ok (ns, tbl') -> oov_params_ok g o = true /\ forallb (node_ok g) ns = true.
Proof.
  intros g tbl o ns tbl' Hw H. destruct o as [l r c p allow|l r c p allow|lines allow]; cbn [oov_setup] in H.
  1,2: destruct (oov_simple F g tbl l r c p allow) as [[n t1]| |] eqn:E; try discriminate;
       inversion H; subst; destruct (oov_simple_sound _ _ _ _ _ _ _ _ _ Hw E) as (A & B & C & D & pid & En); subst n;
       cbn [oov_params_ok forallb node_ok]; rewrite A, B, C, D; split; reflexivity.
  destruct (mecab_lines_sound _ _ _ _ _ _ Hw H) as [A B]. split; [|exact B].
  cbn [oov_params_ok]. exact A.
Qed.

Lemma oov_setups_sound : forall g os tbl nss tbl', wf_gram g ->
  oov_setups F g tbl os = Ok (nss, tbl') -> forallb (oov_params_ok g) os = true /\ forallb (forallb (node_ok g)) nss = true.
Proof.
  intros g os. induction os as [|o t IH]; intros tbl nss tbl' Hw H; cbn [oov_setups] in H.
  - inversion H; subst. split; reflexivity.
  - destruct (oov_setup F g tbl o) as [[ns t1]| |] eqn:E1; try discriminate.
    destruct (oov_setups F g t1 t) as [[nss2 t2]| |] eqn:E2; try discriminate.
    inversion H; subst. destruct (oov_setup_sound _ _ _ _ _ Hw E1) as [A1 A2]. destruct (IH _ _ _ Hw E2) as [B1 B2].
    cbn [forallb]. rewrite A1, A2, B1, B2. split; reflexivity.
Qed.

(* no OOV set_up can panic, whatever the facts *)
Lemma oov_simple_no_panic : forall g tbl l r c p allow, oov_simple F g tbl l r c p allow <> Panic.
Proof.
  intros. unfold oov_simple. pose proof (pos_rule tbl p allow) as R.
  destruct (handle_user_pos F tbl p allow) as [[pid t']| |]; [|discriminate|contradiction].
  destruct (_ && _ && _); discriminate.
Qed.
Lemma mecab_lines_no_panic : forall g allow lines tbl, mecab_lines F g tbl allow lines <> Panic.
Proof.
  intros g allow lines. induction lines as [|[[[l r] c] p] t IH]; intros tbl; cbn [mecab_lines]; [discriminate|].
  unfold mecab_line. destruct (_ && _ && _); [|discriminate].
  pose proof (pos_rule tbl p allow) as R.
  destruct (handle_user_pos F tbl p allow) as [[pid t']| |]; [|discriminate|contradiction].
  destruct (_ && _); [|discriminate].
  specialize (IH t'). destruct (mecab_lines F g t' allow t) as [[ns t2]| |]; [discriminate|discriminate|contradiction].
Qed.
Lemma oov_setups_no_panic : forall g os tbl, oov_setups F g tbl os <> Panic.
Proof.
  intros g os. induction os as [|o t IH]; intros tbl; cbn [oov_setups]; [discriminate|].
  destruct (oov_setup F g tbl o) as [[ns t1]| |] eqn:E; [|discriminate|].
  - specialize (IH t1). destruct (oov_setups F g t1 t) as [[a b]| |]; [discriminate|discriminate|contradiction].
  - exfalso. destruct o as [l r c p allow|l r c p allow|lines allow]; cbn [oov_setup] in E.
    1,2: pose proof (oov_simple_no_panic g tbl l r c p allow) as NP;
         destruct (oov_simple F g tbl l r c p allow) as [[n t1]| |]; [discriminate|discriminate|contradiction].
    exact (mecab_lines_no_panic _ _ _ _ E).
Qed.

(* ---------- inhibited connections ---------- *)

Lemma inhibit_pair_sound : forall g pr, wf_gram g -> inhibit_pair_ok F g pr = true -> inhibit_pair_spec g pr = true.
Proof.
  intros g [a b] Hw H. destruct facts_parts as (_ & _ & _ & _ & _ & Hl & Hr & _).
  unfold inhibit_pair_ok in H. cbn [fst snd] in H. apply andb_true_iff in H as [H Hb]. apply andb_true_iff in H as [H Ha].
  apply andb_true_iff in H as [Ta Tb].
  pose proof (guard_sound _ NumLeft _ _ a Hl (dims_small g NumLeft Hw) (in_ity_i64 _ _ Ta) Ha) as Ba.
  pose proof (guard_sound _ NumRight _ _ b Hr (dims_small g NumRight Hw) (in_ity_i64 _ _ Tb) Hb) as Bb.
  cbn [dim_val] in Ba, Bb. unfold inhibit_pair_spec, right_id_ok, left_id_ok. cbn [fst snd].
  repeat (apply andb_true_iff; split); try apply Z.leb_le; try apply Z.ltb_lt; lia.
Qed.

Lemma inhibit_setups_sound : forall g pss, wf_gram g ->
  forallb (inhibit_setup F g) pss = true -> forallb (inhibit_pair_spec g) (concat pss) = true.
Proof.
  intros g pss Hw. induction pss as [|ps t IH]; cbn [forallb concat]; intros H; [reflexivity|].
  apply andb_true_iff in H as [H1 H2]. rewrite forallb_app. rewrite (IH H2), andb_true_r.
  unfold inhibit_setup in H1. apply forallb_forall. intros pr Hin. apply inhibit_pair_sound; [exact Hw|].
  rewrite forallb_forall in H1. apply H1. exact Hin.
Qed.

Lemma pair_bounds : forall g a b, inhibit_pair_spec g (a, b) = true -> 0 <= a < nl g /\ 0 <= b < nr g.
Proof.
  intros g a b H. unfold inhibit_pair_spec in H. cbn [fst snd] in H. apply andb_true_iff in H as [H1 H2].
  split; [apply right_ok_bounds; exact H1|apply left_ok_bounds; exact H2].
Qed.

(* with both ids inside the matrix, index passes every debug assertion and lands inside the matrix *)
Lemma conn_index_safe : forall debug g l r, 0 <= l < nl g -> 0 <= r < nr g ->
  conn_index F debug g l r = Ok (r * nl g + l) /\ 0 <= r * nl g + l < nl g * nr g.
Proof.
  intros debug g l r Hl Hr. destruct facts_parts as (_ & _ & _ & _ & _ & _ & _ & Hi & _).
  pose proof (index_in_range l r (nl g) (nr g) Hl Hr) as B. split; [|exact B].
  unfold conn_index. rewrite (index_shape_eval _ l r (nl g) (nr g) Hi).
  assert (l <? nl g = true) as E1 by (apply Z.ltb_lt; lia). assert (r <? nr g = true) as E2 by (apply Z.ltb_lt; lia).
  assert (r * nl g + l <? nl g * nr g = true) as E3 by (apply Z.ltb_lt; lia).
  rewrite E1, E2, E3. cbn [negb]. destruct debug, (f_dbg_left F), (f_dbg_right F), (f_dbg_len F); reflexivity.
Qed.

Lemma inhibit_edit_spec : forall debug g pairs e0, wf_gram g -> forallb (inhibit_pair_spec g) pairs = true ->
  exists e, inhibit_edit F debug g e0 pairs = Ok e /\
    forall l r, 0 <= l < nl g -> 0 <= r < nr g ->
      lookup_edit (r * nl g + l) e =
      if existsb (fun pr => (fst pr =? l) && (snd pr =? r)) pairs then Some (f_inhibited F) else lookup_edit (r * nl g + l) e0.
Proof.
  intros debug g pairs. induction pairs as [|[a b] t IH]; intros e0 Hw H; cbn [inhibit_edit].
  - exists e0. split; [reflexivity|]. intros. reflexivity.
  - cbn [forallb] in H. apply andb_true_iff in H as [Hp Ht]. destruct (pair_bounds _ _ _ Hp) as [Ba Bb]. destruct Hw as [W1 W2].
    rewrite !as_u16_small by lia. unfold matrix_update.
    destruct (conn_index_safe debug g a b Ba Bb) as [Ei Bi]. rewrite Ei.
    assert ((0 <=? b * nl g + a) && (b * nl g + a <? nl g * nr g) = true) as Eb
      by (apply andb_true_iff; split; [apply Z.leb_le|apply Z.ltb_lt]; lia).
    rewrite Eb. destruct (IH ((b * nl g + a, f_inhibited F) :: e0) (conj W1 W2) Ht) as [e [He Hs]].
    exists e. split; [exact He|]. intros l r Hl Hr. rewrite (Hs l r Hl Hr). cbn [existsb fst snd lookup_edit].
    destruct (existsb (fun pr => (fst pr =? l) && (snd pr =? r)) t); [rewrite orb_true_r; reflexivity|]. rewrite orb_false_r.
    destruct (r * nl g + l =? b * nl g + a) eqn:E.
    + apply Z.eqb_eq in E. destruct (index_injective l r a b (nl g) Hl Ba E) as [-> ->]. rewrite !Z.eqb_refl. reflexivity.
    + apply Z.eqb_neq in E. destruct ((a =? l) && (b =? r)) eqn:E2; [|reflexivity].
      apply andb_true_iff in E2 as [X Y]. apply Z.eqb_eq in X, Y. subst. contradiction.
Qed.

(* ---------- the whole plugin phase ---------- *)

Theorem load_accepts_only_valid : forall debug g cfg L, wf_gram g ->
  load_with F debug g cfg = Ok L -> spec_accepts g cfg = true /\ forallb (forallb (node_ok g)) (l_nodes L) = true.
Proof.
  intros debug g cfg L Hw H. unfold load_with in H.
  destruct (forallb (inhibit_setup F g) (c_inhibit cfg)) eqn:Ei; try discriminate.
  destruct (oov_setups F g (pos g) (c_oov cfg)) as [[nss tbl]| |] eqn:Eo; try discriminate.
  destruct (oov_setups_sound _ _ _ _ _ Hw Eo) as [A B]. pose proof (inhibit_setups_sound _ _ Hw Ei) as C.
  unfold spec_accepts. rewrite A, C.
  destruct (c_oov cfg) as [|o os]; try discriminate.
  destruct (inhibit_edit F debug g [] (concat (c_inhibit cfg))) as [e| |]; try discriminate.
  inversion H; subst. cbn [l_nodes negb andb]. split; [reflexivity|exact B].
Qed.

Theorem load_never_panics : forall debug g cfg, wf_gram g -> load_with F debug g cfg <> Panic.
Proof.
  intros debug g cfg Hw. unfold load_with.
  destruct (forallb (inhibit_setup F g) (c_inhibit cfg)) eqn:Ei; [|discriminate].
  pose proof (oov_setups_no_panic g (c_oov cfg) (pos g)) as NP.
  destruct (oov_setups F g (pos g) (c_oov cfg)) as [[nss tbl]| |]; [|discriminate|contradiction].
  destruct (c_oov cfg) as [|o os]; [discriminate|].
  destruct (inhibit_edit_spec debug g _ [] Hw (inhibit_setups_sound _ _ Hw Ei)) as [e [He _]]. rewrite He. discriminate.
Qed.

(* an accepted configuration inhibits exactly the named cells: every cell of the matrix afterwards holds INHIBITED if it
   was named and its stored cost otherwise *)
Theorem inhibit_edits_named_cells : forall debug g cfg L init, wf_gram g ->
  load_with F debug g cfg = Ok L ->
  forall l r, 0 <= l < nl g -> 0 <= r < nr g ->
    cell_after F g init (l_edits L) l r = cell_spec (f_inhibited F) init (concat (c_inhibit cfg)) l r.
Proof.
  intros debug g cfg L init Hw H l r Hl Hr. destruct facts_parts as (_ & _ & _ & _ & _ & _ & _ & Hi & _).
  unfold load_with in H.
  destruct (forallb (inhibit_setup F g) (c_inhibit cfg)) eqn:Ei; try discriminate.
  destruct (oov_setups F g (pos g) (c_oov cfg)) as [[nss tbl]| |]; try discriminate.
  destruct (c_oov cfg) as [|o os]; try discriminate.
  destruct (inhibit_edit_spec debug g _ [] Hw (inhibit_setups_sound _ _ Hw Ei)) as [e [He Hs]]. rewrite He in H.
  inversion H; subst. cbn [l_edits]. unfold cell_after, cell_spec. rewrite (index_shape_eval _ l r (nl g) (nr g) Hi).
  rewrite (Hs l r Hl Hr). destruct (existsb _ _); reflexivity.
Qed.

Definition node_left (n : node) : Z := let '(l, _, _, _) := n in l.
Definition node_right (n : node) : Z := let '(_, r, _, _) := n in r.
Definition node_id (k : idkind) (n : node) : Z := match k with KLeftId => node_left n | KRightId => node_right n end.

(* consequently: the connection lookup of any two accepted node templates (as the lattice performs it:
   conn.cost(a.<f_arg_left>, b.<f_arg_right>)) passes the debug assertions and indexes inside the matrix *)
Theorem accepted_nodes_index_safe : forall debug g cfg L a b, wf_gram g ->
  load_with F debug g cfg = Ok L -> In a (concat (l_nodes L)) -> In b (concat (l_nodes L)) ->
  exists i, conn_index F debug g (node_id (f_arg_left F) a) (node_id (f_arg_right F) b) = Ok i /\ 0 <= i < nl g * nr g.
Proof.
  intros debug g cfg L a b Hw H Ha Hb.
  destruct (load_accepts_only_valid _ _ _ _ Hw H) as [_ N].
  assert (forall n, In n (concat (l_nodes L)) -> node_ok g n = true) as Hn.
  { intros n Hin. apply in_concat in Hin as [ns [H1 H2]]. rewrite forallb_forall in N. specialize (N _ H1).
    rewrite forallb_forall in N. exact (N _ H2). }
  pose proof HF as HF'. unfold facts_ok in HF'. split_ok HF'.
  assert (f_arg_left F = KRightId) as EL by (destruct (f_arg_left F); [discriminate|reflexivity]).
  assert (f_arg_right F = KLeftId) as ER by (destruct (f_arg_right F); [reflexivity|discriminate]).
  rewrite EL, ER. cbn [node_id].
  pose proof (Hn _ Ha) as Oa. pose proof (Hn _ Hb) as Ob.
  destruct a as [[[la ra] ca] pa], b as [[[lb rb] cb] pb]. cbn [node_left node_right]. unfold node_ok in Oa, Ob.
  apply andb_true_iff in Oa as [Oa _]. apply andb_true_iff in Oa as [_ Ora].
  apply andb_true_iff in Ob as [Ob _]. apply andb_true_iff in Ob as [Olb _].
  destruct (conn_index_safe debug g ra lb (right_ok_bounds _ _ Ora) (left_ok_bounds _ _ Olb)) as [E B].
  eexists. split; [exact E|exact B].
Qed.

(* with user-defined POS forbidden everywhere, an accepted configuration names only existing POS and registers none *)
Definition forbids (o : oov_cfg) : bool :=
  match o with Simple _ _ _ _ a | Regex _ _ _ _ a | Mecab _ a => negb a end.
Definition pos_keys (o : oov_cfg) : list N :=
  match o with Simple _ _ _ p _ | Regex _ _ _ p _ => [snd p] | Mecab lines _ => map (fun ln => snd (snd ln)) lines end.

Lemma mecab_lines_forbid : forall g lines tbl ns tbl',
  mecab_lines F g tbl false lines = Ok (ns, tbl') -> tbl' = tbl /\ forall k, In k (map (fun ln => snd (snd ln)) lines) -> In k tbl.
Proof.
  intros g lines. induction lines as [|[[[l r] c] p] t IH]; intros tbl ns tbl' H; cbn [mecab_lines] in H.
  - inversion H; subst. split; [reflexivity|]. intros k [].
  - unfold mecab_line in H. destruct (_ && _ && _); try discriminate.
    destruct (handle_user_pos F tbl p false) as [[pid t1]| |] eqn:E; try discriminate.
    destruct (pos_forbid_keeps _ _ _ _ E) as (_ & Hin & ->).
    destruct (_ && _); try discriminate.
    destruct (mecab_lines F g tbl false t) as [[ns2 t2]| |] eqn:E2; try discriminate.
    inversion H; subst. destruct (IH _ _ _ E2) as [-> Hk]. split; [reflexivity|].
    intros k [Hk1|Hk2]; [cbn [snd] in Hk1; subst k; exact Hin|apply Hk; exact Hk2].
Qed.

Theorem forbid_means_existing : forall debug g cfg L,
  load_with F debug g cfg = Ok L -> forallb forbids (c_oov cfg) = true ->
  l_pos L = pos g /\ forall o k, In o (c_oov cfg) -> In k (pos_keys o) -> In k (pos g).
Proof.
  intros debug g cfg L H Hf. unfold load_with in H.
  destruct (forallb (inhibit_setup F g) (c_inhibit cfg)); try discriminate.
  destruct (oov_setups F g (pos g) (c_oov cfg)) as [[nss tbl]| |] eqn:Eo; try discriminate.
  assert (tbl = pos g /\ forall o k, In o (c_oov cfg) -> In k (pos_keys o) -> In k (pos g)) as [Et Hk].
  { clear H. revert nss tbl Eo Hf. generalize (pos g) as t0. induction (c_oov cfg) as [|o os IH]; intros t0 nss tbl Eo Hf.
    - cbn [oov_setups] in Eo. inversion Eo; subst. split; [reflexivity|]. intros o k [].
    - cbn [oov_setups] in Eo. cbn [forallb] in Hf. apply andb_true_iff in Hf as [Ho Hos].
      destruct (oov_setup F g t0 o) as [[ns t1]| |] eqn:E1; try discriminate.
      destruct (oov_setups F g t1 os) as [[nss2 t2]| |] eqn:E2; try discriminate. inversion Eo; subst.
      assert (t1 = t0 /\ forall k, In k (pos_keys o) -> In k t0) as [-> Hko].
      { destruct o as [l r c p a|l r c p a|lines a]; cbn [forbids] in Ho; apply negb_true_iff in Ho; subst a; cbn [oov_setup] in E1.
        1,2: unfold oov_simple in E1; destruct (handle_user_pos F t0 p false) as [[pid t']| |] eqn:E; try discriminate;
             destruct (pos_forbid_keeps _ _ _ _ E) as (_ & Hin & ->); destruct (_ && _ && _); try discriminate;
             inversion E1; subst; split; [reflexivity|]; cbn [pos_keys]; intros k [<-|[]]; exact Hin.
        exact (mecab_lines_forbid _ _ _ _ _ E1). }
      destruct (IH _ _ _ E2 Hos) as [-> Hk2]. split; [reflexivity|].
      intros o' k [<-|Hin] Hkk; [apply Hko; exact Hkk|eapply Hk2; eauto]. }
  destruct (c_oov cfg); try discriminate.
  destruct (inhibit_edit F debug g [] (concat (c_inhibit cfg))); try discriminate. inversion H; subst. cbn [l_pos]. split; [reflexivity|exact Hk].
Qed.

End Sound.

(* ---------- userPOS not mentioned ---------- *)

(* when the Default of UserPosMode is Forbid, a mode that is not mentioned acts as a written "forbid" *)
Lemma eff_mode_explicit : Guards.user_pos_default_allow = false -> forall m, eff_mode m = explicit_mode m.
Proof. intros H [b|]; cbn; [reflexivity|exact H]. Qed.
