(* Lemmas about Model/Split.v (C09). *)
From Coq Require Import List NArith Bool Lia ZifyBool ZifyNat ZifyN.
From SudachiVerif Require Import Model.Harness Model.Split.
From SudachiVerif Require Generated.Limits Generated.SplitFacts.
Import ListNotations.
Import Generated.SplitFacts.
Open Scope N_scope.

Arguments N.add : simpl never.
Arguments N.sub : simpl never.
Arguments N.mul : simpl never.
Arguments N.ltb : simpl never.
Arguments N.leb : simpl never.
Arguments N.eqb : simpl never.
Arguments N.div : simpl never.
Arguments N.modulo : simpl never.

(* ---------- the regenerated guards ---------- *)
Lemma guard_eqb_eq a b : guard_eqb a b = true -> a = b.
Proof.
  destruct a as [c k], b as [c' k']; unfold guard_eqb; cbn [fst snd]. intros H.
  apply andb_prop in H as [H1 H2]. apply N.eqb_eq in H2. subst k'.
  destruct c, c'; cbn in H1; try discriminate; reflexivity.
Qed.

Lemma facts_unpack :
  split_facts_ok = true ->
  (forall x, restamp_when x = (0 <? x)) /\ (forall x, keep_when x = (x <=? 1)) /\ (forall x, nothing_when x = (x =? 0)).
Proof.
  unfold split_facts_ok. intros H.
  apply andb_prop in H as [H H5]. apply andb_prop in H as [H H4]. apply andb_prop in H as [H H3].
  apply andb_prop in H as [H1 H2].
  apply guard_eqb_eq in H1. apply guard_eqb_eq in H2. apply guard_eqb_eq in H3.
  unfold restamp_when, keep_when, nothing_when, guard. rewrite H1, H2, H3. cbn [fst snd cmp_eval].
  repeat split; reflexivity.
Qed.

(* ---------- text geometry ---------- *)
Lemma width_pos c : 1 <= width c.
Proof. unfold width. destruct (c <? 128); [lia|]. destruct (c <? 2048); [lia|]. destruct (c <? 65536); lia. Qed.

Lemma blen_app a b : blen (a ++ b) = blen a + blen b.
Proof. induction a as [|c a IH]; cbn [blen app]; [lia|]. rewrite IH. lia. Qed.

Lemma clen_app a b : clen (a ++ b) = clen a + clen b.
Proof. unfold clen. rewrite app_length. lia. Qed.

Lemma blen_pos k : k <> [] -> 0 < blen k.
Proof. destruct k as [|c r]; [congruence|]. intros _. cbn [blen]. pose proof (width_pos c). lia. Qed.

Lemma clen_pos (k : list N) : k <> [] -> 0 < clen k.
Proof. destruct k as [|c r]; [congruence|]. intros _. unfold clen. cbn [length]. lia. Qed.

Lemma nth_error_b2c_from : forall pre post k,
  nth_error (b2c_from k (pre ++ post)) (N.to_nat (blen pre)) = Some (k + clen pre).
Proof.
  induction pre as [|c pre IH]; intros post k.
  - cbn [app blen]. change (N.to_nat 0) with 0%nat. unfold clen; cbn [length].
    replace (k + N.of_nat 0) with k by lia.
    destruct post as [|c r]; cbn [b2c_from]; [reflexivity|].
    pose proof (width_pos c) as Hw.
    destruct (N.to_nat (width c)) as [|m] eqn:E; [lia|]. reflexivity.
  - cbn [app blen b2c_from].
    replace (N.to_nat (width c + blen pre)) with (length (repeat k (N.to_nat (width c))) + N.to_nat (blen pre))%nat
      by (rewrite repeat_length; lia).
    rewrite nth_error_app2 by lia.
    replace (length (repeat k (N.to_nat (width c))) + N.to_nat (blen pre) - length (repeat k (N.to_nat (width c))))%nat
      with (N.to_nat (blen pre)) by lia.
    rewrite IH. f_equal. unfold clen. cbn [length]. lia.
Qed.

Lemma ch_idx_boundary pre post : ch_idx (pre ++ post) (blen pre) = Some (clen pre).
Proof. unfold ch_idx. rewrite nth_error_b2c_from. f_equal. Qed.

(* ---------- NodeSplitIterator on well-formed unit declarations ---------- *)
Section wf.
  Variable hw : N -> N.
  Variable key : N -> list N.

  Lemma split_go_expected : forall us pre post,
    us <> [] ->
    (forall u, In u us -> hw u = blen (key u)) ->
    split_go hw (pre ++ concat (map key us) ++ post) us
             (clen pre) (blen pre) (clen (pre ++ concat (map key us))) (blen (pre ++ concat (map key us)))
    = Some (expected pre us (map key us)).
  Proof.
    induction us as [|u us IH]; intros pre post Hne Hhw; [congruence|].
    destruct us as [|u2 us'].
    - cbn [map concat split_go expected]. rewrite app_nil_r. reflexivity.
    - remember (u2 :: us') as rest eqn:Er.
      cbn [map concat].
      assert (Hsg : forall cs bs ce be_, split_go hw (pre ++ (key u ++ concat (map key rest)) ++ post) (u :: rest) cs bs ce be_ =
                match ch_idx (pre ++ (key u ++ concat (map key rest)) ++ post) (bs + hw u) with
                | None => None
                | Some ce' => match split_go hw (pre ++ (key u ++ concat (map key rest)) ++ post) rest ce' (bs + hw u) ce be_ with
                              | None => None
                              | Some l => Some (mkNode cs ce' bs (bs + hw u) u :: l)
                              end
                end).
      { intros. rewrite Er. reflexivity. }
      rewrite Hsg. clear Hsg.
      rewrite (Hhw u) by (left; reflexivity).
      replace (pre ++ (key u ++ concat (map key rest)) ++ post)
        with ((pre ++ key u) ++ concat (map key rest) ++ post) by (rewrite <- !app_assoc; reflexivity).
      replace (blen pre + blen (key u)) with (blen (pre ++ key u)) by (rewrite blen_app; reflexivity).
      rewrite ch_idx_boundary.
      replace (pre ++ key u ++ concat (map key rest)) with ((pre ++ key u) ++ concat (map key rest))
        by (rewrite <- !app_assoc; reflexivity).
      rewrite IH; [|rewrite Er; congruence|intros v Hv; apply Hhw; right; exact Hv].
      cbn [expected]. reflexivity.
  Qed.

End wf.

Section wf2.
  Variable key : N -> list N.

  Lemma expected_wids : forall us pre, map wid (expected pre us (map key us)) = us.
  Proof. induction us as [|u us IH]; intros pre; cbn [map expected]; [reflexivity|]. cbn [wid]. rewrite IH. reflexivity. Qed.

  Lemma expected_tiles : forall us pre,
    (forall u, In u us -> key u <> []) ->
    tiles (clen pre) (blen pre) (clen (pre ++ concat (map key us))) (blen (pre ++ concat (map key us)))
          (expected pre us (map key us)).
  Proof.
    induction us as [|u us IH]; intros pre Hk.
    - cbn [map concat expected tiles]. rewrite app_nil_r. split; reflexivity.
    - cbn [map concat expected tiles nb ne bb be].
      pose proof (blen_pos (key u) (Hk u (or_introl eq_refl))) as Hb.
      pose proof (clen_pos (key u) (Hk u (or_introl eq_refl))) as Hc.
      repeat split.
      + rewrite clen_app. lia.
      + rewrite blen_app. lia.
      + replace (pre ++ key u ++ concat (map key us)) with ((pre ++ key u) ++ concat (map key us))
          by (rewrite <- app_assoc; reflexivity).
        apply IH. intros v Hv. apply Hk. right. exact Hv.
  Qed.

  (* sub-token i covers exactly the text of unit i's key *)
  Lemma expected_spells : forall us pre post,
    Forall2 (fun s u => slice (pre ++ concat (map key us) ++ post) (nb s) (ne s) = key u) (expected pre us (map key us)) us.
  Proof.
    induction us as [|u us IH]; intros pre post; cbn [map concat expected]; [constructor|].
    constructor.
    - cbn [nb ne]. unfold slice. rewrite clen_app.
      replace (clen pre + clen (key u) - clen pre) with (clen (key u)) by lia.
      unfold clen. rewrite !Nat2N.id.
      rewrite skipn_app. rewrite skipn_all. replace (length pre - length pre)%nat with 0%nat by lia.
      cbn [skipn app]. rewrite <- app_assoc. rewrite firstn_app.
      rewrite firstn_all. replace (length (key u) - length (key u))%nat with 0%nat by lia.
      cbn [firstn]. rewrite app_nil_r. reflexivity.
    - replace (pre ++ (key u ++ concat (map key us)) ++ post) with ((pre ++ key u) ++ concat (map key us) ++ post)
        by (rewrite <- !app_assoc; reflexivity).
      apply IH.
  Qed.
End wf2.


(* "the declared split units concatenate to the word's key": the C token n covers, in the modified text, exactly the
   concatenation of the keys of its declared units (its own key, which the trie matched there), with consistent
   char/byte coordinates; no unit key is empty (the builder rejects an empty surface) *)
Definition units_wf (key : N -> list N) (t : list N) (n : node) (us : list N) : Prop :=
  exists pre post,
    t = pre ++ concat (map key us) ++ post /\
    nb n = clen pre /\ bb n = blen pre /\
    ne n = clen (pre ++ concat (map key us)) /\ be n = blen (pre ++ concat (map key us)) /\
    (forall u, In u us -> key u <> []).

Lemma split_partitions_parent :
  forall hw key t n us,
    (forall u, In u us -> hw u = blen (key u)) ->
    us <> [] ->
    units_wf key t n us ->
    exists subs,
      split_node hw t n us = Some subs /\
      map wid subs = us /\
      tiles (nb n) (bb n) (ne n) (be n) subs /\
      Forall2 (fun s u => slice t (nb s) (ne s) = key u) subs us.
Proof.
  intros hw key t n us Hhw Hne (pre & post & Ht & Hnb & Hbb & Hne' & Hbe & Hk).
  exists (expected pre us (map key us)).
  unfold split_node. rewrite Hnb, Hbb, Hne', Hbe, Ht.
  split; [apply split_go_expected; assumption|].
  split; [apply expected_wids|].
  split; [apply expected_tiles; assumption|apply expected_spells].
Qed.

(* ---------- refinement (no well-formedness needed) ---------- *)
Lemma split_go_bounds : forall hw t us cs bs ce be_ l,
  us <> [] -> split_go hw t us cs bs ce be_ = Some l ->
  In cs (cbounds l) /\ In ce (cbounds l) /\ In bs (bbounds l) /\ In be_ (bbounds l) /\ l <> [].
Proof.
  induction us as [|u us IH]; intros cs bs ce be_ l Hne H; [congruence|].
  destruct us as [|u2 us'].
  - cbn [split_go] in H. injection H as <-. cbn. intuition congruence.
  - remember (u2 :: us') as rest eqn:Er.
    assert (Hsg : split_go hw t (u :: rest) cs bs ce be_ =
              match ch_idx t (bs + hw u) with
              | None => None
              | Some ce' => match split_go hw t rest ce' (bs + hw u) ce be_ with
                            | None => None
                            | Some l => Some (mkNode cs ce' bs (bs + hw u) u :: l)
                            end
              end) by (rewrite Er; reflexivity).
    rewrite Hsg in H. clear Hsg.
    destruct (ch_idx t (bs + hw u)) as [ce'|]; [|discriminate].
    destruct (split_go hw t rest ce' (bs + hw u) ce be_) as [l'|] eqn:E; [|discriminate].
    injection H as <-.
    apply IH in E; [|rewrite Er; congruence].
    destruct E as (E1 & E2 & E3 & E4 & E5).
    cbn [cbounds bbounds flat_map nb ne bb be app].
    fold (cbounds l'). fold (bbounds l').
    repeat split; try (left; reflexivity); try (right; right; assumption); congruence.
Qed.

Lemma cbounds_app a b : cbounds (a ++ b) = cbounds a ++ cbounds b.
Proof. unfold cbounds. apply flat_map_app. Qed.
Lemma bbounds_app a b : bbounds (a ++ b) = bbounds a ++ bbounds b.
Proof. unfold bbounds. apply flat_map_app. Qed.

Definition unchanged_pieces (units : N -> list N) (path : list node) (pieces : list (list node)) : Prop :=
  Forall2 (fun n pc => pc <> [] /\ ((length (units (wid n)) <= 1)%nat -> pc = [n])) path pieces.

Lemma split_refines :
  forall hw t units path path',
    split_facts_ok = true ->
    split_path hw t units path = Some path' ->
    (forall x, In x (cbounds path) -> In x (cbounds path')) /\
    (forall x, In x (bbounds path) -> In x (bbounds path')) /\
    (exists pieces, path' = concat pieces /\ unchanged_pieces units path pieces).
Proof.
  intros hw t units path path' Hf. destruct (facts_unpack Hf) as (_ & Hkeep & _).
  revert path'. induction path as [|n r IH]; intros path' H.
  - cbn in H. injection H as <-. repeat split; try (intros x []). exists []. split; [reflexivity|constructor].
  - cbn [split_path] in H. rewrite Hkeep in H.
    destruct (N.of_nat (length (units (wid n))) <=? 1) eqn:Ek.
    + destruct (split_path hw t units r) as [l|] eqn:Er; [|discriminate]. injection H as <-.
      destruct (IH l eq_refl) as (I1 & I2 & (pcs & I3 & I4)).
      split; [|split].
      * intros x Hx. cbn in Hx. cbn. destruct Hx as [Hx|[Hx|Hx]]; auto.
      * intros x Hx. cbn in Hx. cbn. destruct Hx as [Hx|[Hx|Hx]]; auto.
      * exists ([n] :: pcs). split; [cbn; rewrite I3; reflexivity|].
        constructor; [|exact I4]. split; [congruence|reflexivity].
    + destruct (split_node hw t n (units (wid n))) as [a|] eqn:Ea; [|discriminate].
      destruct (split_path hw t units r) as [l|] eqn:Er; [|discriminate]. injection H as <-.
      destruct (IH l eq_refl) as (I1 & I2 & (pcs & I3 & I4)).
      unfold split_node in Ea. apply split_go_bounds in Ea.
      2:{ destruct (units (wid n)); [cbn in Ek; lia|congruence]. }
      destruct Ea as (E1 & E2 & E3 & E4 & E5).
      split; [|split].
      * intros x Hx. rewrite cbounds_app. apply in_or_app. cbn in Hx.
        destruct Hx as [<-|[<-|Hx]]; auto.
      * intros x Hx. rewrite bbounds_app. apply in_or_app. cbn in Hx.
        destruct Hx as [<-|[<-|Hx]]; auto.
      * exists (a :: pcs). split; [cbn; rewrite I3; reflexivity|].
        constructor; [|exact I4]. split; [exact E5|]. intros Hl. lia.
Qed.

Lemma unchanged_in : forall units path pieces n,
  unchanged_pieces units path pieces -> In n path -> (length (units (wid n)) <= 1)%nat -> In n (concat pieces).
Proof.
  intros units path pieces n H. induction H as [|m pc path pcs [_ Hm] _ IH]; intros Hin Hl; [contradiction|].
  cbn. apply in_or_app. destruct Hin as [->|Hin].
  - left. rewrite (Hm Hl). left. reflexivity.
  - right. apply IH; assumption.
Qed.

(* ---------- on-demand splitting ---------- *)
Lemma split_none_reports_false :
  forall hw t units n out,
    split_facts_ok = true -> units (wid n) = [] -> split_into hw t units n out = Some (false, out).
Proof.
  intros hw t units n out Hf Hu. destruct (facts_unpack Hf) as (_ & _ & Hn).
  unfold split_into. rewrite Hn, Hu. reflexivity.
Qed.

Lemma split_into_eq_split_path :
  forall hw t units n out,
    split_facts_ok = true -> (2 <= length (units (wid n)))%nat ->
    split_into hw t units n out =
    match split_path hw t units [n] with Some l => Some (true, out ++ l) | None => None end.
Proof.
  intros hw t units n out Hf Hl. destruct (facts_unpack Hf) as (_ & Hk & Hn).
  unfold split_into. cbn [split_path]. rewrite Hn, Hk.
  replace (N.of_nat (length (units (wid n))) =? 0) with false by lia.
  replace (N.of_nat (length (units (wid n))) <=? 1) with false by lia.
  destruct (split_node hw t n (units (wid n))) as [a|]; [|reflexivity].
  rewrite app_nil_r. reflexivity.
Qed.

(* tokenising in mode A/B = tokenising in mode C and splitting every token on demand, whenever no word on the path
   declares exactly one unit (there split_path keeps the token while split_into answers with the single unit) *)
Lemma split_path_eq_resplit :
  forall hw t units path,
    split_facts_ok = true ->
    (forall n, In n path -> length (units (wid n)) <> 1%nat) ->
    split_path hw t units path = resplit hw t units path.
Proof.
  intros hw t units path Hf. destruct (facts_unpack Hf) as (_ & Hk & Hn).
  induction path as [|n r IH]; intros H1; [reflexivity|].
  cbn [split_path resplit]. unfold split_into. rewrite Hk, Hn.
  rewrite IH by (intros m Hm; apply H1; right; exact Hm).
  pose proof (H1 n (or_introl eq_refl)) as Hn1.
  destruct (length (units (wid n))) as [|[|k]] eqn:El; [| congruence |].
  - replace (N.of_nat 0 <=? 1) with true by lia. replace (N.of_nat 0 =? 0) with true by lia.
    destruct (resplit hw t units r); reflexivity.
  - replace (N.of_nat (S (S k)) <=? 1) with false by lia. replace (N.of_nat (S (S k)) =? 0) with false by lia.
    destruct (split_node hw t n (units (wid n))); [|reflexivity].
    destruct (resplit hw t units r); reflexivity.
Qed.

(* ---------- re-stamping of unit ids (user -> user references follow the parent's dictionary id) ---------- *)
Lemma WORD_SPAN_pos : 0 < WORD_SPAN.
Proof. unfold WORD_SPAN. lia. Qed.

Lemma restamp_spec :
  forall d u,
    split_facts_ok = true ->
    (dic_of u = 0 -> restamp d u = u) /\
    (dic_of u <> 0 -> dic_of (restamp d u) = d /\ word_of (restamp d u) = word_of u).
Proof.
  intros d u Hf. destruct (facts_unpack Hf) as (Hr & _ & _).
  unfold restamp. rewrite Hr. split; intros H.
  - replace (0 <? dic_of u) with false by lia. reflexivity.
  - replace (0 <? dic_of u) with true by lia.
    unfold dic_of, word_of, mk_wid. pose proof WORD_SPAN_pos as Hp.
    pose proof (N.mod_upper_bound u WORD_SPAN ltac:(lia)) as Hm.
    split.
    + rewrite N.div_add_l by lia. rewrite N.div_small by exact Hm. lia.
    + rewrite N.add_comm, N.mod_add by lia. apply N.mod_small. exact Hm.
Qed.

Lemma modes_refine_C :
  forall hw t ua ub m path path',
    split_facts_ok = true ->
    tokenize_mode hw t ua ub m path = Some path' ->
    tokenize_mode hw t ua ub ModeC path = Some path /\
    (forall x, In x (cbounds path) -> In x (cbounds path')) /\
    (forall x, In x (bbounds path) -> In x (bbounds path')).
Proof.
  intros hw t ua ub m path path' Hf H. split; [reflexivity|].
  destruct m; cbn [tokenize_mode] in H.
  - destruct (split_refines _ _ _ _ _ Hf H) as (A & B & _). split; assumption.
  - destruct (split_refines _ _ _ _ _ Hf H) as (A & B & _). split; assumption.
  - injection H as <-. split; auto.
Qed.
