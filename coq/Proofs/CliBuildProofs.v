(* What the decidable reading of the build steps (Model/CliBuild.v) means. *)
From Coq Require Import String List NArith Bool.
From SudachiVerif Require Import Model.CliBuild.
Import ListNotations.
Open Scope string_scope.
Open Scope list_scope.

Lemma flushed_walk : forall b c,
  flushed_before_report true (b ++ "report" :: c) = true -> In "flush_checked" b \/ In "compile" b.
Proof.
  induction b as [|y b IHb]; intros c H.
  - cbn in H. discriminate.
  - cbn [app flushed_before_report] in H.
    destruct (String.eqb y "compile") eqn:E1; [apply String.eqb_eq in E1; subst; right; left; reflexivity|].
    destruct (String.eqb y "flush_checked") eqn:E2; [apply String.eqb_eq in E2; subst; left; left; reflexivity|].
    destruct (String.eqb y "report") eqn:E3; [cbn in H; discriminate|].
    destruct (IHb c H) as [G|G]; [left|right]; right; exact G.
Qed.

Lemma flushed_tail : forall x rest dirty,
  flushed_before_report dirty (x :: rest) = true -> exists d, flushed_before_report d rest = true.
Proof.
  intros x rest dirty H. cbn [flushed_before_report] in H.
  destruct (String.eqb x "compile"); [exists true; exact H|].
  destruct (String.eqb x "flush_checked"); [exists false; exact H|].
  destruct (String.eqb x "report"); [apply andb_true_iff in H; exists dirty; exact (proj2 H)|].
  exists dirty. exact H.
Qed.

(* whenever something was compiled and the tool goes on to report success, a flush whose outcome is checked (or a fresh
   compilation, itself subject to the same rule) lies in between *)
Lemma flushed_before_report_spec : forall a steps dirty b c,
  flushed_before_report dirty steps = true ->
  steps = a ++ "compile" :: b ++ "report" :: c -> In "flush_checked" b \/ In "compile" b.
Proof.
  induction a as [|x a IH]; intros steps dirty b c H Heq; subst steps.
  - cbn [app flushed_before_report] in H. change (String.eqb "compile" "compile") with true in H. cbv iota in H.
    exact (flushed_walk b c H).
  - cbn [app] in H. destruct (flushed_tail _ _ _ H) as [d Hd]. exact (IH _ d b c Hd eq_refl).
Qed.

(* ... in particular with a single compilation: compile, then a checked flush, then the report *)
Lemma single_compile_flushed : forall steps a b c,
  flushed_before_report false steps = true -> steps = a ++ "compile" :: b ++ "report" :: c -> ~ In "compile" b ->
  In "flush_checked" b.
Proof.
  intros steps a b c H Heq Hn. destruct (flushed_before_report_spec a steps false b c H Heq) as [G|G]; [exact G|contradiction].
Qed.
