(* Classification of shared / interior-mutable state (inventory regenerated into Generated/MutAudit.v every run).
   - config.rs, sentence_detector.rs, dic/build/{conn,parse}.rs, numeric_parser/mod.rs, util/testing.rs: lazy_static
     tables and compiled regexes: initialised once (std::sync::Once inside lazy_static), read-only afterwards.
   - analysis/mlist.rs: RefCell inside a MorphemeList (Rc<RefCell<InputPart>>): MorphemeList is !Sync and owned by one
     thread; never reachable from the shared dictionary.
   - dic/connect.rs `update`, dic/grammar.rs `set_connect_cost / register_pos / set_character_category / merge`,
     dic/lexicon_set.rs `append`, dic/lexicon/mod.rs `update_cost`: all take &mut self and are called only from
     JapaneseDictionary::from_cfg_storage before the dictionary value is returned (DictionaryAccess hands out & only:
     dictionary_access_takes_mut = false).
   - numeric_parser `append`, string_number `append`: &mut on a parser created per rewrite call (local).
   - python/src/morpheme.rs: `unsafe impl Sync/Send for PyMorphemeListWrapper`: used only while the GIL is held.
   - python/src/pretokenizer.rs: ThreadLocal<RefCell<PerThreadPreTokenizer>>: one tokenizer per thread; GILOnceCell caches
     of imported Python types (init-only). *)
From Coq Require Import List NArith String.
Import ListNotations.
Open Scope string_scope.

Definition classified : list (string * list (string * N)) :=
  [ ("sudachi/src/config.rs", [("lazy_static", 1%N); ("static_ref", 1%N)]);
    ("sudachi/src/sentence_detector.rs", [("lazy_static", 5%N); ("static_ref", 7%N)]);
    ("sudachi/src/analysis/mlist.rs", [("refcell", 4%N)]);
    ("sudachi/src/dic/connect.rs", [("set_or_update_on_dictionary", 1%N)]);
    ("sudachi/src/dic/grammar.rs", [("set_or_update_on_dictionary", 4%N)]);
    ("sudachi/src/dic/lexicon_set.rs", [("set_or_update_on_dictionary", 1%N)]);
    ("sudachi/src/dic/build/conn.rs", [("lazy_static", 1%N); ("static_ref", 2%N)]);
    ("sudachi/src/dic/build/parse.rs", [("lazy_static", 2%N); ("static_ref", 2%N)]);
    ("sudachi/src/dic/lexicon/mod.rs", [("set_or_update_on_dictionary", 1%N)]);
    ("sudachi/src/plugin/path_rewrite/join_numeric/numeric_parser/mod.rs", [("lazy_static", 1%N); ("static_ref", 1%N); ("set_or_update_on_dictionary", 1%N)]);
    ("sudachi/src/plugin/path_rewrite/join_numeric/numeric_parser/string_number.rs", [("set_or_update_on_dictionary", 1%N)]);
    ("sudachi/src/util/testing.rs", [("lazy_static", 1%N); ("static_ref", 2%N)]);
    ("python/src/morpheme.rs", [("unsafe_impl_sync_send", 2%N)]);
    ("python/src/pretokenizer.rs", [("thread_local", 3%N); ("refcell", 4%N); ("once", 3%N)]) ].
