(* The InputBuffer accessors behind Morpheme::{begin,end,begin_c,end_c,surface} and resolve_best_path: their index
   expressions (regenerated into Generated/AccessorSites.v) against the model functions of Model/Buffer.v, and the theorem
   that shows each in range. *)
From Coq Require Import List NArith String.
Import ListNotations.
Open Scope string_scope.

Definition buffer_accessors_classified : list (string * list string * N * list string) :=
  [ ("to_orig_byte_idx", ["self.mod_c2b[index]"; "self.m2o[byte_idx]"], 0%N, []);
    ("to_orig_char_idx", ["self.m2o_2[b_idx]"], 0%N, []);
    ("to_curr_byte_idx", ["self.mod_c2b[index]"], 0%N, []);
    ("curr_slice_c", ["self.mod_c2b[data.start]"; "self.mod_c2b[data.end]"; "self.modified[start..end]"], 0%N, []);
    ("orig_slice_c", ["self.original[start..end]"], 0%N, []);
    ("ch_idx", ["self.mod_b2c[idx]"], 0%N, []);
    ("orig_slice", ["self.original[self.to_orig(range)]"], 0%N, []);
    ("curr_slice", ["self.modified[range]"], 0%N, []);
    ("to_orig", ["self.m2o[range.start]"; "self.m2o[range.end]"], 0%N, []) ].

Definition resolve_best_path_classified : string * list string * N * list string :=
  ("resolve_best_path", [], 0%N, ["inner.word_id().word() as u16"; "byte_begin as u16"; "byte_end as u16"]).
Definition resolve_best_path_calls_classified : list string :=
  ["curr_slice_c"; "to_curr_byte_idx"; "to_curr_byte_idx"; "fill_top_path"; "node"].

Definition morpheme_accessors_classified : list (string * string) :=
  [ ("begin", "self.list.input().to_orig_byte_idx(self.node().begin())");
    ("end", "self.list.input().to_orig_byte_idx(self.node().end())");
    ("begin_c", "self.list.input().to_orig_char_idx(self.node().begin())");
    ("end_c", "self.list.input().to_orig_char_idx(self.node().end())");
    ("surface", "letinp=self.list.input();Ref::map(inp,|i|i.orig_slice(self.node().bytes_range()))") ].

(* (function, construct, model function, status) *)
Definition accessor_site_status : list (string * string * string * string) :=
  [ ("to_orig_byte_idx", "self.mod_c2b[index] / self.m2o[byte_idx]", "Buffer.to_orig_byte_idx",
     "proved: C03_accessors_no_index_panic (via C08 morpheme_offsets: rnode_ok nodes over a reachable buffer)");
    ("to_orig_char_idx", "self.m2o_2[b_idx] + debug_assert_ne!(res, usize::MAX)", "Buffer.to_orig_char_idx", "proved: C03_accessors_no_index_panic");
    ("to_curr_byte_idx", "self.mod_c2b[index]", "Buffer.to_curr_byte_idx", "proved: C03_resolve_node_ok (index <= char_len)");
    ("curr_slice_c", "mod_c2b[start] / mod_c2b[end] / &self.modified[start..end]", "Buffer.curr_slice_c", "proved: C03_resolve_node_ok (begin <= end <= char_len)");
    ("orig_slice", "&self.original[self.to_orig(range)] + 2 boundary debug_asserts", "Buffer.orig_slice", "proved: C03_accessors_no_index_panic (surface)");
    ("to_orig", "self.m2o[range.start] / self.m2o[range.end]", "Buffer.to_orig", "proved: C03_accessors_no_index_panic (surface)");
    ("ch_idx", "self.mod_b2c[idx]", "Buffer.ch_idx", "proved: C03_chain_accessors_ok (idx on a boundary of a non-empty text)");
    ("orig_slice_c", "&self.original[start..end]", "Buffer.orig_slice_c", "proved in C08 (orig_slice_c_spec); used by Lattice::dump and the OOV providers, not by the accessors");
    ("curr_slice", "&self.modified[range]", "Buffer.curr_slice", "proved in C08 (curr_slice_c_spec) for ranges coming from character indices");
    ("resolve_best_path", "byte_begin as u16 / byte_end as u16", "cast_u16", "proved: C03_resolve_node_ok (offsets <= length of the rewritten text <= 65535: reach_len_u16)");
    ("resolve_best_path", "inner.word_id().word() as u16", "-", "reviewed: the word part of an OOV id is the POS id the provider stored (u16 by construction)") ].

(* The classified constructs as keys (gen/sitekeys.py), per function: Generated.AccessorSites.accessor_site_keys has to stay WITHIN this table
   (obligation C03_fact_accessor_sites: Proofs/SiteCover.covered).  A construct that disappears from the code, or an index /
   cast operand spelled differently, leaves the obligation closed; a new construct or one more of a kind re-opens it.
   The table `buffer_accessors_classified` above is the reviewed inventory with the full expressions of the pinned tree (what the site-status
   table talks about); Generated/AccessorSites.v still lists the current expressions next to the keys. *)
Definition accessor_keys_classified : list (string * list string) :=
  [ ("to_orig_byte_idx", ["idx:self.m2o[i]"; "idx:self.mod_c2b[i]"]);
    ("to_orig_char_idx", ["idx:self.m2o_2[i]"]);
    ("to_curr_byte_idx", ["idx:self.mod_c2b[i]"]);
    ("curr_slice_c", ["idx:self.mod_c2b[i]"; "idx:self.mod_c2b[i]"; "idx:self.modified[r]"]);
    ("orig_slice_c", ["idx:self.original[r]"]);
    ("ch_idx", ["idx:self.mod_b2c[i]"]);
    ("orig_slice", ["idx:self.original[i]"]);
    ("curr_slice", ["idx:self.modified[i]"]);
    ("to_orig", ["idx:self.m2o[i]"; "idx:self.m2o[i]"]);
    ("resolve_best_path", ["cast:u16"; "cast:u16"; "cast:u16"]) ].
