(* C03, site-level consequences of builder I's Split model and builder C's Trie / WordIdTable models. *)
From Coq Require Import List NArith Bool Arith Lia.
From SudachiVerif Require Model.Split Proofs.SplitProofs Model.Trie Proofs.TrieProofs Model.WordIdTable Proofs.WordIdTableProofs.
From SudachiVerif Require Generated.TrieBits.
Import ListNotations.

Module Sp := SudachiVerif.Model.Split.
Module SpP := SudachiVerif.Proofs.SplitProofs.

(* ------------------------------------------------------------------ NodeSplitIterator::next (Model/Split.v: split_go)
   The sites of next(): `self.splits[idx]` sits behind `if idx >= self.splits.len() { return None }`;
   `self.text.ch_idx(byte_end)` = mod_b2c[byte_end] is the one index that depends on the dictionary's content: the model
   answers None there exactly when byte_start + head_word_length(unit) lies beyond the sentinel of mod_b2c. *)

(* split_node panics ONLY on ill-formed unit declarations: with head_word_length = key length for every unit, a panic
   implies that the units' keys do not concatenate to the text of the node *)
Theorem split_panics_only_on_ill_formed_units : forall hw key t n us,
  (forall u, In u us -> hw u = Sp.blen (key u)) -> us <> [] ->
  Sp.split_node hw t n us = None -> ~ SpP.units_wf key t n us.
Proof.
  intros hw key t n us Hhw Hne Hnone Hwf.
  destruct (SpP.split_partitions_parent hw key t n us Hhw Hne Hwf) as (subs & Hs & _). congruence.
Qed.

(* ... and such declarations do panic (the recorded finding c06_split_surface_mismatch): the word "ab" (characters 0..2,
   bytes 0..2) declared as the units 1 ("ab") and 2 ("cd"): head_word_length(1) = 2, the last unit is not looked at,
   fine; declared as 3 ("abcd") and 2: byte_end = 0 + 4 is beyond the text "ab" -> ch_idx panics *)
Definition ex_key (u : N) : list N := match u with 1%N => [97; 98] | 2%N => [99; 100] | 3%N => [97; 98; 99; 100] | _ => [] end%N.
Definition ex_hw (u : N) : N := Sp.blen (ex_key u).
Lemma split_ill_formed_units_panic :
  Sp.split_node ex_hw [97; 98]%N (Sp.mkNode 0 2 0 2 7) [3; 2]%N = None
  /\ (forall u, In u [3; 2]%N -> ex_hw u = Sp.blen (ex_key u)) /\ ~ SpP.units_wf ex_key [97; 98]%N (Sp.mkNode 0 2 0 2 7) [3; 2]%N.
Proof.
  assert (H : Sp.split_node ex_hw [97; 98]%N (Sp.mkNode 0 2 0 2 7) [3; 2]%N = None) by (vm_compute; reflexivity).
  split; [exact H|]. split; [reflexivity|].
  apply (split_panics_only_on_ill_formed_units ex_hw ex_key); [reflexivity | discriminate | exact H].
Qed.

(* ------------------------------------------------------------------ trie.rs: TrieEntryIter::next / Trie::get
   Model/Trie.v has the bounds-checked traversal traverse_opt: None = the argument of a get_unchecked (debug_assert!(index <
   self.trie.len())) lies outside the array. *)
Module Tr := SudachiVerif.Model.Trie.
Module TrP := SudachiVerif.Proofs.TrieProofs.

(* for a certified array (the verified enumerator answered) no read of the double array is out of bounds, for every byte
   text and every offset *)
Theorem trie_reader_no_index_panic : forall a fuel ks text off,
  Tr.keys_of a fuel = Some ks -> TrP.bytes text -> exists r, Tr.traverse_opt a text off = Some r.
Proof. intros a fuel ks text off H Hb. eexists. exact (TrP.traverse_in_bounds a fuel ks text off H Hb). Qed.

(* ------------------------------------------------------------------ word_id_table.rs: WordIdTable::entries
   Model/WordIdTable.v: entries = None when the count byte or one of the ids lies outside the table *)
Module Wt := SudachiVerif.Model.WordIdTable.
Module WtP := SudachiVerif.Proofs.WordIdTableProofs.

Theorem wid_table_reader_no_index_panic :
  (Generated.TrieBits.WID_MAX_GROUP <= 255)%N ->
  forall gs tbl offs, Wt.encode_groups gs = Some (tbl, offs) -> (forall g, In g gs -> Forall WtP.u32 g) ->
    forall o, In o offs -> exists g, Wt.entries tbl o = Some g.
Proof.
  intros Hlim gs tbl offs H Hall o Ho.
  destruct (proj2 (WtP.wid_table_roundtrip Hlim gs [] tbl offs H Hall)) as [Hlen Hr].
  destruct (In_nth_error _ _ Ho) as [i Hi].
  assert (Hig : i < length gs) by (rewrite <- Hlen; apply nth_error_Some; congruence).
  destruct (nth_error gs i) as [g|] eqn:Eg; [|apply nth_error_None in Eg; lia].
  destruct (Hr i g Eg) as (o' & Ho' & He). rewrite Hi in Ho'. inversion Ho'; subst. eauto.
Qed.
