(* C17: the classes of a character range as the analysis reads them (InputBuffer::cat_of_range, modelled in
   Model/Buffer.v): for characters whose classes are declared class bits - what get_category_types reports - the result
   is exactly the intersection of the characters' classes, marker classes NOOOVBOW / NOOOVBOW2 included; the empty range
   has no class. *)
From Coq Require Import List NArith Bool Arith Lia.
From SudachiVerif Require Import Model.Buffer Proofs.BufferProofs Proofs.BufferCharProofs.
From SudachiVerif Require Generated.CategoryFacts.
Import ListNotations.
Local Open Scope nat_scope.

(* every class bit of c is a declared flag *)
Definition declared (c : N) : Prop := N.land c cat_all = c.

Theorem cat_of_range_is_intersection : forall cats a b, a < b -> b <= length cats ->
  (forall i, a <= i -> i < b -> declared (nth i cats 0%N)) ->
  exists r, cat_of_range cats a b = Some r /\
    forall k, N.testbit r k = true <-> (forall i, a <= i -> i < b -> N.testbit (nth i cats 0%N) k = true).
Proof.
  intros cats a b Hab Hb Hd. destruct (cat_of_range_spec cats a b Hab Hb) as (r & Hr & Hs).
  exists r. split; [exact Hr|]. intros k. rewrite Hs. split.
  - intros [_ H]. exact H.
  - intros H. split; [|exact H].
    specialize (H a (le_n _) Hab). specialize (Hd a (le_n _) Hab). unfold declared in Hd.
    rewrite <- Hd, N.land_spec in H. apply andb_true_iff in H. exact (proj2 H).
Qed.

(* a single character: its own classes *)
Corollary cat_of_range_single : forall cats i, i < length cats -> declared (nth i cats 0%N) ->
  cat_of_range cats i (S i) = Some (nth i cats 0%N).
Proof.
  intros cats i Hi Hd. destruct (cat_of_range_is_intersection cats i (S i) (Nat.lt_succ_diag_r i) Hi) as (r & Hr & Hs).
  { intros j H1 H2. assert (j = i) by lia. subst. exact Hd. }
  rewrite Hr. f_equal. apply N.bits_inj. intros k. destruct (N.testbit r k) eqn:E.
  - symmetry. apply (proj1 (Hs k) E i); lia.
  - destruct (N.testbit (nth i cats 0%N) k) eqn:E2; [|reflexivity].
    assert (N.testbit r k = true) by (apply Hs; intros j H1 H2; assert (j = i) by lia; subst; exact E2). congruence.
Qed.

