(* C13, part 2: CreatedWords is a sound summary of the lengths created so far (exact below MAX_VALUE). *)
From Coq Require Import List NArith Bool Lia ZifyBool ZifyNat ZifyN PeanoNat String.
From SudachiVerif Require Import Model.Oov.
Import ListNotations.
Open Scope N_scope.

Arguments N.land : simpl never.
Arguments N.lor : simpl never.
Arguments N.eqb : simpl never.
Arguments N.shiftl : simpl never.
Arguments N.testbit : simpl never.
Arguments N.pow : simpl never.
Arguments N.min : simpl never.
Arguments N.sub : simpl never.

Definition shift_of (len : N) : N := N.min (len - 1) (MAXV - 1).

Lemma land_pow2_eqb a s : (N.land a (2 ^ s) =? 0) = negb (N.testbit a s).
Proof.
  destruct (N.testbit a s) eqn:E; cbn [negb].
  - apply N.eqb_neq. intros H.
    assert (N.testbit (N.land a (2 ^ s)) s = true) by (rewrite N.land_spec, E, N.pow2_bits_true; reflexivity).
    rewrite H, N.bits_0 in H0. discriminate.
  - apply N.eqb_eq. apply N.bits_inj. intros n. rewrite N.land_spec, N.bits_0, N.pow2_bits_eqb.
    destruct (N.eqb_spec s n) as [->|]; [rewrite E; reflexivity|apply andb_false_r].
Qed.

Lemma cw_single_some len m : cw_single len = Some m -> m = 2 ^ shift_of len.
Proof.
  unfold cw_single. destruct (OF.single_asserts_positive && (len =? 0)); [discriminate|].
  intros H. injection H as <-. unfold shift_of. apply N.shiftl_1_l.
Qed.

Lemma cw_single_pos len : len <> 0 -> cw_single len = Some (2 ^ shift_of len).
Proof.
  intros H. unfold cw_single. replace (len =? 0) with false by lia. rewrite andb_false_r.
  unfold shift_of. now rewrite N.shiftl_1_l.
Qed.

(* [Repr cw lens]: bit s is set iff some created length maps to shift s *)
Definition Repr (cw : N) (lens : list nat) : Prop :=
  forall s, N.testbit cw s = true <-> exists l, In l lens /\ shift_of (N.of_nat l) = s.

Lemma Repr_empty : Repr 0 [].
Proof. intros s. rewrite N.bits_0. split; [discriminate|]. intros [l [[] _]]. Qed.

Lemma Repr_add cw lens l cw' :
  Repr cw lens -> cw_add_word cw (N.of_nat l) = Some cw' -> Repr cw' (l :: lens).
Proof.
  intros R H. unfold cw_add_word in H. destruct (cw_single (N.of_nat l)) as [m|] eqn:E; [|discriminate].
  cbn in H. injection H as <-. apply cw_single_some in E. subst m.
  intros s. rewrite N.lor_spec, N.pow2_bits_eqb, orb_true_iff, (R s). split.
  - intros [[x [Hx Hs]]|Hs]; [exists x; split; [right; exact Hx|exact Hs]|].
    exists l. split; [left; reflexivity|]. now apply N.eqb_eq.
  - intros [x [[<-|Hx] Hs]]; [right; now apply N.eqb_eq|left; exists x; auto].
Qed.

Lemma Repr_add_all : forall ls cw lens cw',
  Repr cw lens -> cw_add_all cw ls = Some cw' -> Repr cw' (rev ls ++ lens).
Proof.
  induction ls as [|l ls IH]; intros cw lens cw' R H.
  - cbn in H. injection H as <-. exact R.
  - cbn [cw_add_all] in H. destruct (cw_add_word cw (N.of_nat l)) as [cw1|] eqn:E; [|discriminate].
    cbn [rev]. rewrite <- app_assoc. cbn [app]. apply (IH cw1); [|exact H]. eapply Repr_add; eauto.
Qed.

Lemma Repr_of_lens lens cw : cw_add_all 0 lens = Some cw -> Repr cw lens.
Proof.
  intros H. pose proof (Repr_add_all lens 0 [] cw Repr_empty H) as R. rewrite app_nil_r in R.
  intros s. rewrite (R s). split; intros [l [Hl Hs]]; exists l; split; auto; [now apply in_rev|now apply -> in_rev].
Qed.

(* the carrier is zero iff nothing was created *)
Lemma cw_add_all_zero : forall ls cw cw', cw_add_all cw ls = Some cw' -> (cw' = 0 <-> cw = 0 /\ ls = []).
Proof.
  induction ls as [|l ls IH]; intros cw cw' H.
  - cbn in H. injection H as <-. tauto.
  - cbn [cw_add_all] in H. unfold cw_add_word in H.
    destruct (cw_single (N.of_nat l)) as [m|] eqn:E; [|discriminate]. cbn in H.
    apply cw_single_some in E. subst m. apply IH in H. split; [|intros [_ X]; discriminate].
    intros Z. apply H in Z. destruct Z as [Z _]. exfalso.
    apply N.lor_eq_0_iff in Z. destruct Z as [_ Z].
    pose proof (N.pow_nonzero 2 (shift_of (N.of_nat l))). lia.
Qed.

Section Sound.
  Hypothesis Hcmp : OF.has_word_maybe_cmp = ">="%string.
  Hypothesis Hmax : 1 <= MAXV.

  Lemma has_word_eval cw len : len <> 0 ->
    cw_has_word cw len =
    Some (if negb (N.testbit cw (shift_of len)) then HNo else if MAXV <=? len then HMaybe else HYes).
  Proof.
    intros Hl. unfold cw_has_word. rewrite (cw_single_pos len Hl), land_pow2_eqb, Hcmp.
    change (cmp_eval ">=" (N.to_nat len) (N.to_nat MAXV)) with (Nat.leb (N.to_nat MAXV) (N.to_nat len)).
    replace (Nat.leb (N.to_nat MAXV) (N.to_nat len)) with (MAXV <=? len); [reflexivity|].
    destruct (N.leb_spec MAXV len); symmetry; [apply Nat.leb_le|apply Nat.leb_gt]; lia.
  Qed.

  (* No: no word of that length was created (and, from MAX_VALUE up, no long word at all);
     Yes: exactly that length was created (only possible below MAX_VALUE);
     Maybe: the length is >= MAX_VALUE and some word of length >= MAX_VALUE was created. *)
  Lemma created_words_sound_generic lens cw l :
    cw_add_all 0 lens = Some cw -> (forall x, In x lens -> (0 < x)%nat) -> (0 < l)%nat ->
    match cw_has_word cw (N.of_nat l) with
    | Some HNo => ~ In l lens /\ (MAXV <= N.of_nat l -> forall x, In x lens -> N.of_nat x < MAXV)
    | Some HYes => In l lens /\ N.of_nat l < MAXV
    | Some HMaybe => MAXV <= N.of_nat l /\ exists x, In x lens /\ MAXV <= N.of_nat x
    | None => False
    end.
  Proof.
    intros H Hpos Hl. apply Repr_of_lens in H.
    rewrite has_word_eval by lia.
    destruct (N.testbit cw (shift_of (N.of_nat l))) eqn:E; cbn [negb].
    - apply (H _) in E. destruct E as [x [Hx Hs]]. specialize (Hpos x Hx).
      unfold shift_of in Hs. destruct (N.leb_spec MAXV (N.of_nat l)).
      + split; [assumption|]. exists x. split; [exact Hx|]. lia.
      + split; [|assumption]. replace l with x by lia. exact Hx.
    - split.
      + intros Hin. assert (N.testbit cw (shift_of (N.of_nat l)) = true); [|congruence].
        apply (H _). exists l. auto.
      + intros Hge x Hx. specialize (Hpos x Hx).
        destruct (N.ltb_spec (N.of_nat x) MAXV); [assumption|]. exfalso.
        assert (N.testbit cw (shift_of (N.of_nat l)) = true); [|congruence].
        apply (H _). exists x. split; [exact Hx|]. unfold shift_of. lia.
  Qed.
End Sound.
