(* Writer/reader round trip of the word-id table (Model/WordIdTable.v). *)
From Coq Require Import List Arith NArith Bool Lia ZifyBool ZifyNat ZifyN.
From SudachiVerif Require Generated.TrieBits.
From SudachiVerif Require Import Model.Trie Model.WordIdTable.
Import ListNotations.
Open Scope N_scope.

Arguments N.add : simpl never.
Arguments N.mul : simpl never.
Arguments N.div : simpl never.
Arguments N.modulo : simpl never.
Arguments N.of_nat : simpl never.
Arguments N.to_nat : simpl never.
Arguments N.leb : simpl never.

Definition u32 (x : N) : Prop := x < 4294967296.

Lemma le32_le_bytes x : u32 x ->
  le32 (x mod 256) ((x / 256) mod 256) ((x / 65536) mod 256) ((x / 16777216) mod 256) = x.
Proof.
  unfold u32. intros Hx.
  change 65536 with (256 * 256). change 16777216 with (256 * 256 * 256).
  rewrite <- !N.div_div by lia.
  pose proof (N.div_mod x 256 ltac:(lia)) as E1. pose proof (N.mod_lt x 256 ltac:(lia)) as B1.
  remember (x / 256) as y eqn:Ey.
  pose proof (N.div_mod y 256 ltac:(lia)) as E2. pose proof (N.mod_lt y 256 ltac:(lia)) as B2.
  remember (y / 256) as z eqn:Ez.
  pose proof (N.div_mod z 256 ltac:(lia)) as E3. pose proof (N.mod_lt z 256 ltac:(lia)) as B3.
  remember (z / 256) as w eqn:Ew.
  assert (Hw : w < 256) by lia.
  rewrite (N.mod_small w 256 Hw). unfold le32.
  remember (x mod 256) as b0. remember (y mod 256) as b1. remember (z mod 256) as b2.
  lia.
Qed.

Lemma read_u32s_encode : forall g rest, Forall u32 g ->
  read_u32s (length g) (flat_map le_bytes g ++ rest) = Some g.
Proof.
  induction g as [|x t IH]; intros rest Hg; [reflexivity|].
  inversion Hg as [|x' t' Hx Ht]; subst.
  cbn [length flat_map le_bytes app read_u32s]. rewrite (IH rest Ht). cbn [option_map].
  rewrite (le32_le_bytes x Hx). reflexivity.
Qed.

Lemma skipn_length_app' {A} (a b : list A) : skipn (length a) (a ++ b) = b.
Proof. induction a as [|x t IH]; cbn; [reflexivity|exact IH]. Qed.

Lemma entries_encode_group pre g bs post :
  Generated.TrieBits.WID_MAX_GROUP <= 255 ->
  encode_group g = Some bs -> Forall u32 g ->
  entries (pre ++ bs ++ post) (N.of_nat (length pre)) = Some g.
Proof.
  intros HM He Hg. unfold encode_group in He.
  destruct (N.of_nat (length g) <=? Generated.TrieBits.WID_MAX_GROUP) eqn:Hl; [|discriminate].
  injection He as <-. unfold entries.
  replace (N.to_nat (N.of_nat (length pre))) with (length pre) by lia.
  rewrite skipn_length_app'. cbn [app].
  rewrite N.mod_small by lia.
  replace (N.to_nat (N.of_nat (length g))) with (length g) by lia.
  apply read_u32s_encode. exact Hg.
Qed.

(* every group written by build_word_id_table is read back unchanged from its recorded offset, wherever it lies *)
Lemma wid_table_roundtrip : Generated.TrieBits.WID_MAX_GROUP <= 255 ->
  forall gs acc tbl offs,
  encode_groups_from acc gs = Some (tbl, offs) -> (forall g, In g gs -> Forall u32 g) ->
  (exists ext, tbl = acc ++ ext) /\ length offs = length gs /\
  forall i g, nth_error gs i = Some g -> exists o, nth_error offs i = Some o /\ entries tbl o = Some g.
Proof.
  intros HM. induction gs as [|g t IH]; intros acc tbl offs He Hall; cbn [encode_groups_from] in He.
  - injection He as <- <-. split; [exists []; rewrite app_nil_r; reflexivity|]. split; [reflexivity|].
    intros [|i]; discriminate.
  - destruct (encode_group g) as [bs|] eqn:Hg; [|discriminate].
    destruct (encode_groups_from (acc ++ bs) t) as [[tbl' offs']|] eqn:Ht; [|discriminate].
    injection He as <- <-.
    destruct (IH _ _ _ Ht (fun g' Hin => Hall g' (or_intror Hin))) as [[ext ->] [Hlen Hnth]].
    split; [exists (bs ++ ext); rewrite app_assoc; reflexivity|]. split; [cbn [length]; rewrite Hlen; reflexivity|].
    intros [|i] g' Hi; cbn [nth_error] in *.
    + injection Hi as <-. exists (N.of_nat (length acc)). split; [reflexivity|].
      rewrite <- app_assoc. apply (entries_encode_group acc g bs ext HM Hg). apply Hall. left. reflexivity.
    + apply Hnth. exact Hi.
Qed.

(* the writer rejects exactly the groups of more than WID_MAX_GROUP ids (no silent truncation) *)
Lemma encode_group_rejects g : (encode_group g = None) <-> Generated.TrieBits.WID_MAX_GROUP < N.of_nat (length g).
Proof.
  unfold encode_group. destruct (N.of_nat (length g) <=? Generated.TrieBits.WID_MAX_GROUP) eqn:E; split; intros H; try discriminate; try reflexivity; lia.
Qed.
