(* C13, part 1: class continuity.  The forward segmentation of fill_cat_continuity computes the left-to-right
   specification; the specification is a segmentation into maximal class runs; values are distances to the run end. *)
From Coq Require Import List NArith Bool Lia ZifyBool ZifyNat ZifyN PeanoNat.
From SudachiVerif Require Import Model.Oov.
Import ListNotations.
Open Scope N_scope.

Arguments N.land : simpl never.
Arguments N.eqb : simpl never.

(* ---------- countdown ---------- *)
Lemma countdown_length n : List.length (countdown n) = n.
Proof. induction n as [|n IH]; cbn; [reflexivity|]. now rewrite IH. Qed.

Lemma countdown_nth n i : (i < n)%nat -> nth_error (countdown n) i = Some (n - i)%nat.
Proof.
  revert i; induction n as [|n IH]; intros i Hi; [lia|].
  destruct i as [|i]; cbn [countdown nth_error]; [f_equal; lia|].
  rewrite IH by lia. f_equal.
Qed.

(* ---------- run_ext ---------- *)
Lemma run_ext_le common t : (run_ext common t <= List.length t)%nat.
Proof.
  revert common; induction t as [|c t IH]; intros common; cbn [run_ext List.length]; [lia|].
  destruct (N.land common c =? 0); [lia|]. specialize (IH (N.land common c)). lia.
Qed.

(* ---------- fuel independence of seg_lengths ---------- *)
Lemma skipn_length_le {A} k (l : list A) : (List.length (skipn k l) <= List.length l)%nat.
Proof. rewrite skipn_length. lia. Qed.

Lemma seg_fuel f1 : forall f2 cs, (List.length cs <= f1)%nat -> (List.length cs <= f2)%nat ->
  seg_lengths f1 cs = seg_lengths f2 cs.
Proof.
  induction f1 as [|f1 IH]; intros f2 cs H1 H2.
  - destruct cs; [|cbn in H1; lia]. destruct f2; reflexivity.
  - destruct cs as [|c t]; [destruct f2; reflexivity|].
    destruct f2 as [|f2]; [cbn in H2; lia|].
    cbn [seg_lengths]. f_equal.
    cbn [List.length] in H1, H2.
    pose proof (skipn_length_le (run_ext c t) t).
    apply IH; lia.
Qed.

Lemma spec_cons c t :
  continuity_spec (c :: t) = countdown (S (run_ext c t)) ++ continuity_spec (skipn (run_ext c t) t).
Proof.
  unfold continuity_spec. cbn [List.length seg_lengths flat_map]. f_equal.
  f_equal. apply seg_fuel; [apply skipn_length_le|lia].
Qed.

(* ---------- the forward pass ---------- *)
Lemma fwd_spec : forall cs common,
  fwd common cs = (run_ext common cs,
                   countdown (run_ext common cs) ++ continuity_spec (skipn (run_ext common cs) cs)).
Proof.
  induction cs as [|c t IH]; intros common.
  - reflexivity.
  - cbn [fwd run_ext]. destruct (N.land common c =? 0) eqn:E.
    + rewrite IH. cbn [skipn countdown app]. rewrite spec_cons. reflexivity.
    + rewrite IH. cbn [skipn countdown app]. reflexivity.
Qed.

Lemma continuity_fwd_eq_spec cs : continuity_fwd cs = continuity_spec cs.
Proof.
  destruct cs as [|c t]; [reflexivity|].
  unfold continuity_fwd. rewrite fwd_spec, spec_cons. reflexivity.
Qed.

(* generic lemma + decidable side condition on the generated fact *)
Lemma continuity_eq_spec_generic :
  OF.continuity_forward = true -> forall cs, continuity cs = continuity_spec cs.
Proof. intros H cs. unfold continuity. rewrite H. apply continuity_fwd_eq_spec. Qed.

(* ---------- the specification is a segmentation into maximal class runs ---------- *)
(* classes common to all characters of a non-empty stretch *)
Definition common_of (c : N) (run : list N) : N := fold_left N.land run c.

(* [Seg cs ls]: cs is cut, from its start, into consecutive stretches of the lengths ls such that the characters of a
   stretch have a class in common and the stretch cannot be extended by the next character *)
Inductive Seg : list N -> list nat -> Prop :=
| Seg_nil : Seg [] []
| Seg_cons : forall c run rest ls,
    (run = [] \/ common_of c run <> 0) ->
    (rest = [] \/ N.land (common_of c run) (hd 0 rest) = 0) ->
    Seg rest ls ->
    Seg (c :: run ++ rest) (S (List.length run) :: ls).

Lemma run_ext_split : forall t common,
  let k := run_ext common t in
  (firstn k t = [] \/ common_of common (firstn k t) <> 0)
  /\ (skipn k t = [] \/ N.land (common_of common (firstn k t)) (hd 0 (skipn k t)) = 0).
Proof.
  induction t as [|c t IH]; intros common; cbn zeta.
  - cbn. auto.
  - cbn [run_ext]. destruct (N.land common c =? 0) eqn:E.
    + cbn. split; [auto|]. right. lia.
    + cbn [firstn skipn]. specialize (IH (N.land common c)). cbn zeta in IH. destruct IH as [H1 H2].
      unfold common_of in *. cbn [fold_left]. split; [|exact H2].
      right. destruct H1 as [H1|H1]; [|exact H1]. rewrite H1. cbn. lia.
Qed.

Lemma seg_lengths_Seg : forall f cs, (List.length cs <= f)%nat -> Seg cs (seg_lengths f cs).
Proof.
  induction f as [|f IH]; intros cs Hf.
  - destruct cs; [constructor|cbn in Hf; lia].
  - destruct cs as [|c t]; [constructor|].
    cbn [seg_lengths]. cbn [List.length] in Hf.
    pose proof (run_ext_split t c) as Hs. cbn zeta in Hs. destruct Hs as [H1 H2].
    pose proof (run_ext_le c t) as Hle.
    set (k := run_ext c t) in *.
    rewrite <- (firstn_skipn k t) at 1.
    replace (S k) with (S (List.length (firstn k t))) by (rewrite firstn_length; lia).
    apply Seg_cons; [exact H1|exact H2|].
    apply IH. pose proof (skipn_length_le k t). lia.
Qed.

(* the values are, per run, the distances to the end of that run *)
Theorem continuity_spec_is_segmentation cs :
  exists ls, Seg cs ls /\ continuity_spec cs = flat_map countdown ls.
Proof. exists (seg_lengths (List.length cs) cs). split; [apply seg_lengths_Seg; lia|reflexivity]. Qed.

(* ---- the segmentation is unique: the runs are determined left to right from the start of the text ---- *)
Lemma land_fold_sub : forall run c, N.land (fold_left N.land run c) c = fold_left N.land run c.
Proof.
  induction run as [|x run IH]; intros c; cbn [fold_left].
  - apply N.land_diag.
  - rewrite <- (IH (N.land c x)). rewrite <- N.land_assoc. f_equal.
    rewrite (N.land_comm c x), <- N.land_assoc, N.land_diag. reflexivity.
Qed.

Lemma fold_land_zero : forall run, fold_left N.land run 0 = 0.
Proof. induction run as [|x run IH]; cbn [fold_left]; [reflexivity|]. rewrite N.land_0_l. exact IH. Qed.

Lemma common_app c r1 r2 : common_of c (r1 ++ r2) = common_of (common_of c r1) r2.
Proof. unfold common_of. apply fold_left_app. Qed.

(* a stretch with a common class that continues past a point has, up to that point, a class in common with the next char *)
Lemma common_ext_nonzero c r1 x r2 :
  common_of c (r1 ++ x :: r2) <> 0 -> N.land (common_of c r1) x <> 0.
Proof.
  rewrite common_app. unfold common_of at 1. cbn [fold_left]. intros H E. apply H. rewrite E. apply fold_land_zero.
Qed.

Lemma Seg_first_unique : forall c run1 rest1 run2 rest2,
  run1 ++ rest1 = run2 ++ rest2 ->
  (run1 = [] \/ common_of c run1 <> 0) -> (rest1 = [] \/ N.land (common_of c run1) (hd 0 rest1) = 0) ->
  (run2 = [] \/ common_of c run2 <> 0) -> (rest2 = [] \/ N.land (common_of c run2) (hd 0 rest2) = 0) ->
  (List.length run1 <= List.length run2)%nat -> run1 = run2 /\ rest1 = rest2.
Proof.
  intros c run1 rest1 run2 rest2 E V1 M1 V2 M2 L.
  assert (Hs : exists d, run2 = run1 ++ d /\ rest1 = d ++ rest2).
  { clear V1 M1 V2 M2. revert run2 E L. induction run1 as [|a r1 IH]; intros run2 E L.
    - exists run2. split; [reflexivity|exact E].
    - destruct run2 as [|b r2]; [cbn in L; lia|]. cbn in E. injection E as -> E.
      cbn [List.length] in L. destruct (IH r2 E ltac:(lia)) as [d [-> ->]]. exists d. split; reflexivity. }
  destruct Hs as [d [-> ->]].
  destruct d as [|x d]; [rewrite app_nil_r; split; reflexivity|].
  exfalso.
  destruct M1 as [M1|M1]; [discriminate|]. cbn [hd app] in M1.
  destruct V2 as [V2|V2]; [destruct run1; discriminate|].
  apply (common_ext_nonzero c run1 x d V2). exact M1.
Qed.

Theorem Seg_unique : forall cs l1, Seg cs l1 -> forall l2, Seg cs l2 -> l1 = l2.
Proof.
  intros cs l1 H1. induction H1 as [|c run rest ls V M HS IH]; intros l2 H2.
  - inversion H2. reflexivity.
  - inversion H2 as [|c' run' rest' ls' V' M' HS' E]. subst c'.
    assert (run = run' /\ rest = rest') as [-> ->].
    { destruct (Nat.le_ge_cases (List.length run) (List.length run')) as [L|L].
      - apply (Seg_first_unique c); auto.
      - assert (run' = run /\ rest' = rest) as [-> ->]; [apply (Seg_first_unique c); auto|]. split; reflexivity. }
    f_equal. apply IH. exact HS'.
Qed.

(* ---------- bounds on the values ---------- *)
Lemma list_sum_cons a l : list_sum (a :: l) = (a + list_sum l)%nat.
Proof. reflexivity. Qed.

Lemma sum_seg_lengths : forall f cs, (List.length cs <= f)%nat -> list_sum (seg_lengths f cs) = List.length cs.
Proof.
  induction f as [|f IH]; intros cs Hf.
  - destruct cs; [reflexivity|cbn in Hf; lia].
  - destruct cs as [|c t]; [reflexivity|]. cbn [seg_lengths List.length] in *. rewrite list_sum_cons.
    pose proof (run_ext_le c t). pose proof (skipn_length (run_ext c t) t).
    rewrite IH by lia. lia.
Qed.

Lemma flat_countdown_length ls : List.length (flat_map countdown ls) = list_sum ls.
Proof. induction ls as [|n ls IH]; [reflexivity|]. cbn [flat_map]. rewrite list_sum_cons, app_length, countdown_length, IH. reflexivity. Qed.

Lemma flat_countdown_bound : forall ls i v,
  nth_error (flat_map countdown ls) i = Some v -> (1 <= v /\ i + v <= list_sum ls)%nat.
Proof.
  induction ls as [|n ls IH]; intros i v H.
  - destruct i; discriminate.
  - cbn [flat_map] in *. rewrite list_sum_cons. destruct (Nat.lt_ge_cases i n) as [L|L].
    + rewrite nth_error_app1 in H by (rewrite countdown_length; exact L).
      rewrite countdown_nth in H by exact L. injection H as <-. lia.
    + rewrite nth_error_app2 in H by (rewrite countdown_length; exact L).
      rewrite countdown_length in H. apply IH in H. lia.
Qed.

Lemma spec_length cs : List.length (continuity_spec cs) = List.length cs.
Proof. unfold continuity_spec. rewrite flat_countdown_length. apply sum_seg_lengths. lia. Qed.

Lemma spec_bound cs i v :
  nth_error (continuity_spec cs) i = Some v -> (1 <= v /\ i + v <= List.length cs)%nat.
Proof.
  unfold continuity_spec. intros H. apply flat_countdown_bound in H.
  rewrite sum_seg_lengths in H by lia. exact H.
Qed.

(* ---------- a character whose classes include all classes of its predecessor stays in the predecessor's run ---------- *)
(* values of the specification inside one run: generalisation over the running common class set *)
Definition run_vals (common : N) (cs : list N) : list nat :=
  countdown (run_ext common cs) ++ continuity_spec (skipn (run_ext common cs) cs).

Lemma run_vals_cons common c t :
  run_vals common (c :: t) =
  if N.land common c =? 0 then continuity_spec (c :: t) else S (run_ext (N.land common c) t) :: run_vals (N.land common c) t.
Proof. unfold run_vals. cbn [run_ext]. destruct (N.land common c =? 0); reflexivity. Qed.

Lemma spec_as_run_vals c t : continuity_spec (c :: t) = S (run_ext c t) :: run_vals c t.
Proof. rewrite spec_cons. reflexivity. Qed.

Lemma spec_is_run_vals cs : continuity_spec cs = run_vals 0 cs.
Proof. destruct cs as [|c t]; [reflexivity|]. rewrite run_vals_cons, N.land_0_l. reflexivity. Qed.

Lemma run_vals_joins : forall cs common j a b v w,
  nth_error cs j = Some a -> nth_error cs (S j) = Some b -> a <> 0 -> N.land a b = a ->
  nth_error (run_vals common cs) j = Some v -> nth_error (run_vals common cs) (S j) = Some w -> v = S w.
Proof.
  induction cs as [|c t IH]; intros common j a b v w Ha Hb Hnz Hsub Hv Hw.
  - destruct j; discriminate.
  - destruct j as [|j].
    + cbn in Ha. injection Ha as ->. destruct t as [|b' t']; [discriminate|]. cbn in Hb. injection Hb as ->.
      rewrite run_vals_cons in Hv, Hw.
      destruct (N.land common a =? 0) eqn:E.
      * rewrite spec_as_run_vals in Hv, Hw. cbn in Hv. injection Hv as <-.
        cbn [nth_error] in Hw. rewrite run_vals_cons, Hsub in Hw.
        destruct (a =? 0) eqn:E2; [lia|]. cbn in Hw. injection Hw as <-.
        cbn [run_ext]. rewrite Hsub, E2. reflexivity.
      * cbn in Hv. injection Hv as <-. cbn [nth_error] in Hw. rewrite run_vals_cons in Hw.
        assert (Hk : N.land (N.land common a) b = N.land common a).
        { rewrite <- N.land_assoc, Hsub. reflexivity. }
        rewrite Hk, E in Hw. cbn in Hw. injection Hw as <-.
        cbn [run_ext]. rewrite Hk, E. reflexivity.
    + cbn [nth_error] in Ha, Hb. rewrite run_vals_cons in Hv, Hw.
      destruct (N.land common c =? 0) eqn:E.
      * rewrite spec_as_run_vals in Hv, Hw. cbn [nth_error] in Hv, Hw.
        apply (IH c j a b v w); auto.
      * cbn [nth_error] in Hv, Hw. apply (IH (N.land common c) j a b v w); auto.
Qed.

(* base character a (some class), next character b carrying every class of a (e.g. a class-ALL combining mark or
   modifier): b belongs to the run of a, whatever follows -- the value at a is one more than the value at b *)
Theorem mark_joins_run cs j a b v w :
  nth_error cs j = Some a -> nth_error cs (S j) = Some b -> a <> 0 -> N.land a b = a ->
  nth_error (continuity_spec cs) j = Some v -> nth_error (continuity_spec cs) (S j) = Some w -> v = S w.
Proof. rewrite spec_is_run_vals. apply run_vals_joins. Qed.
