From Coq Require Import List NArith Bool Lia ZifyBool ZifyN.
From SudachiVerif Require Import Model.CharCat.
Import ListNotations.
Open Scope N_scope.

Arguments N.lor : simpl never.
Arguments N.ltb : simpl never.
Arguments N.leb : simpl never.
Arguments N.eqb : simpl never.

(* ---------- strictly sorted lists ---------- *)
Fixpoint above (lo : N) (l : list N) : Prop :=
  match l with [] => True | x :: t => lo < x /\ above x t end.
Definition ssorted (l : list N) : Prop :=
  match l with [] => True | x :: t => above x t end.

Lemma above_weaken lo lo' l : lo' <= lo -> above lo l -> above lo' l.
Proof. destruct l as [|x t]; cbn; [auto|]. intros H [H1 H2]. split; [lia|exact H2]. Qed.

Lemma above_all lo l : above lo l -> forall x, In x l -> lo < x.
Proof.
  revert lo; induction l as [|y t IH]; cbn; intros lo H x Hx; [contradiction|].
  destruct H as [H1 H2]. destruct Hx as [->|Hx]; [exact H1|].
  specialize (IH y H2 x Hx). lia.
Qed.

Lemma ins_above lo x l : lo < x -> above lo l -> above lo (ins x l).
Proof.
  revert lo; induction l as [|y t IH]; cbn; intros lo Hx H.
  - auto.
  - destruct H as [H1 H2].
    destruct (x <? y) eqn:E1; cbn.
    + repeat split; try lia. exact H2.
    + destruct (x =? y) eqn:E2; cbn.
      * split; assumption.
      * split; [exact H1|]. apply IH; [lia|exact H2].
Qed.

Lemma ins_ssorted x l : ssorted l -> ssorted (ins x l).
Proof.
  destruct l as [|y t]; cbn; [auto|]. intros H.
  destruct (x <? y) eqn:E1; cbn.
  - split; [lia|exact H].
  - destruct (x =? y) eqn:E2; cbn; [exact H|].
    apply ins_above; [lia|exact H].
Qed.

Lemma ins_in x l y : In y (ins x l) <-> y = x \/ In y l.
Proof.
  induction l as [|z t IH]; cbn.
  - intuition.
  - destruct (x <? z) eqn:E1; cbn; [intuition|].
    destruct (x =? z) eqn:E2; cbn.
    + assert (x = z) by lia. subst. intuition.
    + rewrite IH. intuition.
Qed.

Definition bnd_step (acc : list N) (r : crange) := ins (re r) (ins (rb r) acc).

Lemma collect_gen rs : forall acc, ssorted acc ->
  ssorted (fold_left bnd_step rs acc) /\
  (forall y, In y (fold_left bnd_step rs acc) <-> In y acc \/ exists r, In r rs /\ (y = rb r \/ y = re r)).
Proof.
  induction rs as [|r rs IH]; cbn [fold_left]; intros acc Hs.
  - split; [exact Hs|]. intros y. split; [auto|]. intros [H|[r [[] _]]]. exact H.
  - assert (Hs' : ssorted (bnd_step acc r)) by (unfold bnd_step; auto using ins_ssorted).
    destruct (IH _ Hs') as [H1 H2]. split; [exact H1|].
    intros y. rewrite H2. unfold bnd_step. rewrite !ins_in. split.
    + intros [[->|[->|H]]|[r' [Hr Hy]]].
      * right. exists r. cbn. auto.
      * right. exists r. cbn. auto.
      * auto.
      * right. exists r'. cbn. auto.
    + intros [H|[r' [[<-|Hr] Hy]]].
      * auto.
      * destruct Hy as [->| ->]; auto.
      * right. exists r'. auto.
Qed.

Lemma collect_sorted rs : ssorted (collect_boundaries rs).
Proof. apply (collect_gen rs []). exact I. Qed.

Lemma collect_in rs y :
  In y (collect_boundaries rs) <-> exists r, In r rs /\ (y = rb r \/ y = re r).
Proof.
  unfold collect_boundaries. fold bnd_step.
  destruct (collect_gen rs [] I) as [_ H]. rewrite H. cbn. intuition.
Qed.

(* ---------- the update loop is a pointwise update ---------- *)
Definition hit (r : crange) (b : N) : bool := (rb r <? b) && (b <=? re r).
Definition upd (r : crange) (b c : N) : N := if hit r b then N.lor c (rc r) else c.

Fixpoint map2 (f : N -> N -> N) (bs cs : list N) : list N :=
  match bs, cs with
  | b :: bs', c :: cs' => f b c :: map2 f bs' cs'
  | _, _ => []
  end.

Lemma map2_none_above r lo bs cs :
  above lo bs -> re r < lo \/ (forall b, In b bs -> hit r b = false) ->
  length cs = length bs -> map2 (upd r) bs cs = cs.
Proof.
  revert lo cs; induction bs as [|b bs IH]; intros lo cs Ha Hn Hl; destruct cs as [|c cs]; cbn in *; try discriminate; auto.
  destruct Ha as [Ha1 Ha2].
  assert (Hh : hit r b = false).
  { destruct Hn as [Hn|Hn]; [unfold hit; lia|apply Hn; auto]. }
  unfold upd at 1. rewrite Hh. f_equal.
  apply (IH b); auto.
  destruct Hn as [Hn|Hn]; [left; lia|right; intros; apply Hn; auto].
Qed.

Lemma apply_loop_pointwise r : forall bs cs lo,
  rb r <= lo -> above lo bs -> length cs = length bs ->
  apply_loop r bs cs = map2 (upd r) bs cs.
Proof.
  induction bs as [|b bs IH]; intros cs lo Hlo Ha Hl; destruct cs as [|c cs]; cbn in *; try discriminate; auto.
  destruct Ha as [Ha1 Ha2].
  destruct (re r <? b) eqn:E.
  - (* break: nothing further is hit *)
    symmetry. unfold upd at 1. unfold hit.
    replace ((rb r <? b) && (b <=? re r)) with false by lia.
    f_equal. apply (map2_none_above r b); auto. left; lia.
  - unfold upd at 1. unfold hit.
    replace ((rb r <? b) && (b <=? re r)) with true by lia.
    f_equal. apply (IH cs b); auto. lia.
Qed.

Lemma apply_range_pointwise r : forall bs cs lo,
  above lo bs -> In (rb r) bs -> length cs = length bs ->
  apply_range r bs cs = Some (map2 (upd r) bs cs).
Proof.
  induction bs as [|b bs IH]; intros cs lo Ha Hin Hl; destruct cs as [|c cs]; cbn in *; try discriminate; try contradiction.
  destruct Ha as [Ha1 Ha2].
  destruct (b =? rb r) eqn:E.
  - assert (b = rb r) by lia. subst b.
    unfold upd at 1, hit. replace ((rb r <? rb r) && (rb r <=? re r)) with false by lia.
    f_equal. f_equal. apply (apply_loop_pointwise r bs cs (rb r)); auto. lia.
  - destruct Hin as [Hin|Hin]; [lia|].
    assert (Hlt : b < rb r) by (apply (above_all _ _ Ha2); exact Hin).
    rewrite (IH cs b); auto. cbn.
    unfold upd at 2, hit. replace ((rb r <? b) && (b <=? re r)) with false by lia.
    reflexivity.
Qed.

Lemma map2_length f bs cs : length cs = length bs -> length (map2 f bs cs) = length bs.
Proof. revert cs; induction bs as [|b bs IH]; intros [|c cs]; cbn; intros; try discriminate; auto. Qed.

(* category accumulated at boundary b by the ranges rs starting from a *)
Definition cat_from (a : N) (rs : list crange) (b : N) : N :=
  fold_left (fun a r => upd r b a) rs a.

Lemma apply_all_pointwise rs : forall bs cs,
  ssorted bs -> (forall r, In r rs -> In (rb r) bs) -> length cs = length bs ->
  apply_all rs bs cs = Some (map2 (fun b c => cat_from c rs b) bs cs).
Proof.
  induction rs as [|r rs IH]; intros bs cs Hs Hin Hl; cbn [apply_all].
  - f_equal. clear Hs Hin. revert cs Hl; induction bs as [|b bs IHb]; intros [|c cs]; cbn; intros; try discriminate; auto.
    f_equal. apply IHb. lia.
  - assert (Har : apply_range r bs cs = Some (map2 (upd r) bs cs)).
    { destruct bs as [|b0 bs]; [exfalso; apply (Hin r); cbn; auto|].
      destruct cs as [|c0 cs]; [discriminate|].
      cbn in Hs.
      cbn [apply_range]. destruct (b0 =? rb r) eqn:E.
      - assert (b0 = rb r) by lia. subst b0. cbn [map2].
        unfold upd at 1, hit. replace ((rb r <? rb r) && (rb r <=? re r)) with false by lia.
        f_equal. f_equal. apply (apply_loop_pointwise r bs cs (rb r)); [lia|exact Hs|cbn in Hl; lia].
      - assert (Hin' : In (rb r) bs).
        { destruct (Hin r (or_introl eq_refl)) as [H|H]; [lia|exact H]. }
        assert (Hlt : b0 < rb r) by (apply (above_all _ _ Hs); exact Hin').
        rewrite (apply_range_pointwise r bs cs b0); [|exact Hs|exact Hin'|cbn in Hl; lia].
        cbn. unfold upd at 2, hit. replace ((rb r <? b0) && (b0 <=? re r)) with false by lia.
        reflexivity. }
    rewrite Har. rewrite IH; auto.
    + f_equal. clear - Hl. revert cs Hl; induction bs as [|b bs IHb]; intros [|c cs]; cbn; intros; try discriminate; auto.
      f_equal. apply IHb. lia.
    + intros r' Hr'. apply Hin. cbn; auto.
    + rewrite map2_length; auto.
Qed.

(* ---------- raw step function and its meaning ---------- *)
(* first pair (b, x) with c < b gives x, otherwise fin *)
Fixpoint plk (ps : list (N * N)) (fin c : N) : N :=
  match ps with
  | [] => fin
  | (b, x) :: ps' => if c <? b then x else plk ps' fin c
  end.

Lemma fold_ext {A} (f g : N -> A -> N) (l : list A) a :
  (forall x a, In x l -> f a x = g a x) -> fold_left f l a = fold_left g l a.
Proof.
  revert a; induction l as [|x l IH]; cbn; intros a H; [reflexivity|].
  rewrite H by auto. apply IH. intros; apply H; auto.
Qed.

Lemma raw_meaning rs : forall bs lo c,
  above lo bs \/ (ssorted bs /\ lo = 0) ->
  (forall r, In r rs -> rb r < re r) ->
  (forall r, In r rs -> (rb r <= lo \/ In (rb r) bs) /\ (re r <= lo \/ In (re r) bs)) ->
  lo <= c ->
  plk (combine bs (map (cat_from 0 rs) bs)) 0 c = union_at rs c.
Proof.
  induction bs as [|b bs IH]; intros lo c Hs Hwf Hpts Hc; cbn [map combine plk].
  - unfold union_at. symmetry.
    rewrite (fold_ext _ (fun a _ => a)).
    + clear. induction rs; cbn; auto.
    + intros r a Hr. destruct (Hpts r Hr) as [[H1|[]] [H2|[]]].
      unfold covers. replace ((rb r <=? c) && (c <? re r)) with false by lia. reflexivity.
  - assert (Hab : above b bs).
    { destruct Hs as [Hs|[Hs _]]; cbn in Hs; tauto. }
    assert (Hlob : lo <= b).
    { destruct Hs as [Hs|[Hs ->]]; cbn in Hs; lia. }
    destruct (c <? b) eqn:E.
    + unfold cat_from, union_at. apply fold_ext. intros r a Hr.
      destruct (Hpts r Hr) as [H1 H2]. specialize (Hwf r Hr).
      unfold upd, hit, covers.
      assert (Hrb : (rb r <? b) = (rb r <=? c)).
      { destruct H1 as [H1|[H1|H1]]; [lia|lia|].
        pose proof (above_all _ _ Hab _ H1). lia. }
      assert (Hre : (b <=? re r) = (c <? re r)).
      { destruct H2 as [H2|[H2|H2]]; [lia|lia|].
        pose proof (above_all _ _ Hab _ H2). lia. }
      rewrite Hrb, Hre. reflexivity.
    + apply (IH b c); auto; [|lia].
      intros r Hr. destruct (Hpts r Hr) as [H1 H2]. split.
      * destruct H1 as [H1|[H1|H1]]; [left; lia|left; lia|right; exact H1].
      * destruct H2 as [H2|[H2|H2]]; [left; lia|left; lia|right; exact H2].
Qed.

(* ---------- merge / fix_empty / final layout preserve the step function ---------- *)
Lemma merge_plk : forall ps lb lc fin c,
  above lb (map fst ps) ->
  plk (merge lb lc ps) fin c = plk ((lb, lc) :: ps) fin c.
Proof.
  induction ps as [|[b x] ps IH]; intros lb lc fin c Ha; cbn [merge]; [reflexivity|].
  cbn in Ha. destruct Ha as [Ha1 Ha2].
  destruct (x =? lc) eqn:E.
  - assert (x = lc) by lia. subst x. rewrite IH by exact Ha2. cbn [plk].
    destruct (c <? lb) eqn:E1; destruct (c <? b) eqn:E2; try reflexivity. lia.
  - cbn [plk]. rewrite IH by exact Ha2. reflexivity.
Qed.

Lemma fix_plk ps c :
  plk (map (fun p => (fst p, fix_empty (snd p))) ps) DEFAULT c = fix_empty (plk ps 0 c).
Proof.
  induction ps as [|[b x] ps IH]; cbn [map plk fst snd]; [reflexivity|].
  destruct (c <? b); [reflexivity|exact IH].
Qed.

Lemma lookup_aux_plk ps fin c :
  lookup_aux (map fst ps) (map snd ps ++ [fin]) c = plk ps fin c.
Proof.
  induction ps as [|[b x] ps IH]; cbn [map app lookup_aux plk fst snd]; [reflexivity|].
  destruct (c <? b); [reflexivity|exact IH].
Qed.

Lemma map_snd_fix ps :
  map (fun p : N * N => fix_empty (snd p)) ps = map snd (map (fun p => (fst p, fix_empty (snd p))) ps).
Proof. rewrite map_map. reflexivity. Qed.

Lemma map_fst_fix (ps : list (N * N)) :
  map fst ps = map fst (map (fun p => (fst p, fix_empty (snd p))) ps).
Proof. rewrite map_map. reflexivity. Qed.

Lemma merge_nonempty lb lc ps : merge lb lc ps <> [].
Proof.
  revert lb lc; induction ps as [|[b x] ps IH]; intros lb lc; cbn [merge]; [discriminate|].
  destruct (x =? lc); [apply IH|discriminate].
Qed.

Lemma map_fst_combine (bs cs : list N) : length cs = length bs -> map fst (combine bs cs) = bs.
Proof. revert cs; induction bs as [|b bs IH]; intros [|c cs]; cbn; intros; try discriminate; auto. f_equal. apply IH. lia. Qed.

Lemma map2_const0 rs bs :
  map2 (fun b c => cat_from c rs b) bs (map (fun _ => 0) bs) = map (cat_from 0 rs) bs.
Proof. induction bs as [|b bs IH]; cbn; [reflexivity|]. f_equal. exact IH. Qed.

Lemma cat_from_first rs b0 :
  (forall r, In r rs -> b0 <= rb r) -> cat_from 0 rs b0 = 0.
Proof.
  intros H. unfold cat_from. rewrite (fold_ext _ (fun a _ => a)).
  - clear. induction rs; cbn; auto.
  - intros r a Hr. specialize (H r Hr). unfold upd, hit.
    replace ((rb r <? b0) && (b0 <=? re r)) with false by lia. reflexivity.
Qed.

(* ---------- main theorems ---------- *)
Definition wf (rs : list crange) : Prop := forall r, In r rs -> rb r < re r.

Theorem compile_total rs : wf rs -> exists cc, compile rs = Some cc.
Proof.
  intros Hwf. unfold compile. destruct rs as [|r0 rs0]; [eexists; reflexivity|].
  set (rs := r0 :: rs0) in *.
  pose proof (collect_sorted rs) as Hs.
  rewrite apply_all_pointwise; auto.
  - assert (Hin0 : In (rb r0) (collect_boundaries rs)).
    { apply collect_in. exists r0. cbn; auto. }
    destruct (collect_boundaries rs) as [|b0 bs] eqn:Eb; [contradiction|].
    cbn [map map2]. eexists; reflexivity.
  - intros r Hr. apply collect_in. exists r; auto.
  - rewrite map_length. reflexivity.
Qed.

Theorem lookup_compile_is_union rs cc c :
  wf rs -> compile rs = Some cc -> lookup cc c = spec rs c.
Proof.
  intros Hwf. unfold compile. destruct rs as [|r0 rs0].
  - intros H; inversion H; subst. reflexivity.
  - set (rs := r0 :: rs0) in *.
    pose proof (collect_sorted rs) as Hs.
    rewrite apply_all_pointwise; auto.
    2:{ intros r Hr. apply collect_in. exists r; auto. }
    2:{ rewrite map_length. reflexivity. }
    rewrite map2_const0.
    pose proof (raw_meaning rs (collect_boundaries rs) 0 c) as Hraw.
    assert (Hin0 : In (rb r0) (collect_boundaries rs)).
    { apply collect_in. exists r0. cbn; auto. }
    assert (Hmin : forall b0 bs, collect_boundaries rs = b0 :: bs -> forall r, In r rs -> b0 <= rb r).
    { intros b0 bs Eb r Hr.
      assert (Hi : In (rb r) (collect_boundaries rs)) by (apply collect_in; exists r; auto).
      rewrite Eb in Hi, Hs. destruct Hi as [<-|Hi]; [lia|].
      cbn in Hs. pose proof (above_all _ _ Hs _ Hi). lia. }
    assert (Hall : forall r, In r rs -> In (rb r) (collect_boundaries rs) /\ In (re r) (collect_boundaries rs)).
    { intros r Hr. split; apply collect_in; exists r; auto. }
    destruct (collect_boundaries rs) as [|b0 bs] eqn:Eb; [contradiction|].
    cbn [map]. intros H; inversion H; subst cc; clear H.
    unfold lookup. cbn [boundaries categories].
    set (ps := merge b0 DEFAULT (combine bs (map (cat_from 0 rs) bs))).
    assert (Hne : map fst ps <> []).
    { intros E. apply (merge_nonempty b0 DEFAULT (combine bs (map (cat_from 0 rs) bs))).
      fold ps. destruct ps; [reflexivity|discriminate]. }
    destruct (map fst ps) as [|p0 pr] eqn:Ep; [contradiction|]. rewrite <- Ep.
    rewrite map_snd_fix, (map_fst_fix ps), lookup_aux_plk, fix_plk.
    unfold ps. rewrite merge_plk.
    2:{ rewrite map_fst_combine by (rewrite map_length; reflexivity). exact Hs. }
    unfold spec. rewrite <- Hraw; auto.
    + cbn [map combine plk]. rewrite (cat_from_first rs b0) by (apply (Hmin b0 bs eq_refl)).
      destruct (c <? b0); reflexivity.
    + intros r Hr. destruct (Hall r Hr). split; right; assumption.
    + lia.
Qed.

(* the iterator's ranges tile [0, CHAR_MAX) with the looked-up class *)
Lemma iter_aux_lookup : forall bs cs left c l r x,
  above left bs \/ (ssorted bs /\ left = 0) ->
  length cs = S (length bs) ->
  In (l, r, x) (iter_aux left bs cs) -> l <= c < r -> left <= c ->
  lookup_aux bs cs c = x.
Proof.
  induction bs as [|b bs IH]; intros cs left c l r x Hs Hl Hin Hc Hlc; destruct cs as [|y cs]; cbn in *; try discriminate.
  - destruct Hin as [Hin|[]]. inversion Hin; subst. reflexivity.
  - assert (Hab : above b bs) by (destruct Hs as [Hs|[Hs _]]; cbn in Hs; tauto).
    destruct Hin as [Hin|Hin].
    + inversion Hin; subst. replace (c <? r) with true by lia. reflexivity.
    + assert (Hb : b <= l).
      { clear - Hin Hab. revert cs b l r x Hin Hab. induction bs as [|b' bs IHb]; intros [|y' cs] b l r x Hin Hab; cbn in *; try contradiction.
        - destruct Hin as [Hin|[]]; inversion Hin; subst; lia.
        - destruct Hin as [Hin|Hin]; [inversion Hin; subst; lia|].
          destruct Hab as [H1 H2]. specialize (IHb _ _ _ _ _ Hin H2). lia. }
      replace (c <? b) with false by lia.
      apply (IH cs b c l r x); auto; lia.
Qed.

(* ---------- shape of the compiled table; the iterator agrees with lookup ---------- *)
Lemma merge_head : forall ps lb lc,
  above lb (map fst ps) ->
  exists h t, map fst (merge lb lc ps) = h :: t /\ lb <= h /\ above h t.
Proof.
  induction ps as [|[b x] ps IH]; intros lb lc Ha; cbn [merge].
  - exists lb, []. cbn. repeat split; auto. lia.
  - cbn [map fst above] in Ha. destruct Ha as [Ha1 Ha2]. destruct (x =? lc).
    + destruct (IH b lc Ha2) as (h & t & E & Hle & Hab). exists h, t. repeat split; auto. lia.
    + destruct (IH b x Ha2) as (h & t & E & Hle & Hab). exists lb, (h :: t). cbn [map fst]. rewrite E.
      split; [reflexivity|]. split; [lia|]. cbn [above]. split; [lia|exact Hab].
Qed.

Lemma compile_shape rs cc : wf rs -> compile rs = Some cc ->
  ssorted (boundaries cc) /\ length (categories cc) = S (length (boundaries cc)).
Proof.
  intros Hwf. unfold compile. destruct rs as [|r0 rs0].
  - intros H; inversion H; subst. cbn. auto.
  - set (rs := r0 :: rs0) in *.
    pose proof (collect_sorted rs) as Hs.
    rewrite apply_all_pointwise; auto.
    2:{ intros r Hr. apply collect_in. exists r; auto. }
    2:{ rewrite map_length. reflexivity. }
    assert (Hin0 : In (rb r0) (collect_boundaries rs)) by (apply collect_in; exists r0; cbn; auto).
    destruct (collect_boundaries rs) as [|b0 bs] eqn:Eb; [contradiction|].
    rewrite map2_const0. cbn [map]. intros H; inversion H; subst cc; clear H. cbn [boundaries categories].
    split.
    + cbn in Hs.
      destruct (merge_head (combine bs (map (cat_from 0 rs) bs)) b0 DEFAULT) as (h & t & E & _ & Hab).
      { rewrite map_fst_combine by (rewrite map_length; reflexivity). exact Hs. }
      rewrite E. cbn. exact Hab.
    + rewrite app_length, !map_length. cbn. lia.
Qed.

(* every range the iterator yields carries the classes that lookup reports inside it *)
Theorem iter_agrees_with_lookup rs cc its l r x c :
  wf rs -> compile rs = Some cc -> iter cc = Some its ->
  In (l, r, x) its -> l <= c < r -> lookup cc c = x.
Proof.
  intros Hwf Hc Hit Hin Hr. destruct (compile_shape rs cc Hwf Hc) as [Hs Hl].
  unfold lookup. unfold iter in Hit. destruct (boundaries cc) as [|b0 bs] eqn:Eb; [discriminate|]. rewrite <- Eb in *.
  inversion Hit; subst its. apply (iter_aux_lookup (boundaries cc) (categories cc) 0 c l r x); auto; lia.
Qed.

(* the iterator panics exactly on the table of an empty definition list *)
Theorem iter_none_iff_default rs cc : wf rs -> compile rs = Some cc -> (iter cc = None <-> rs = []).
Proof.
  intros Hwf Hc. unfold iter. split.
  - destruct rs as [|r0 rs0]; [reflexivity|]. intros Hn. exfalso.
    unfold compile in Hc. set (rs := r0 :: rs0) in *.
    pose proof (collect_sorted rs) as Hs.
    rewrite apply_all_pointwise in Hc; auto.
    2:{ intros r Hr. apply collect_in. exists r; auto. }
    2:{ rewrite map_length. reflexivity. }
    assert (Hin0 : In (rb r0) (collect_boundaries rs)) by (apply collect_in; exists r0; cbn; auto).
    destruct (collect_boundaries rs) as [|b0 bs] eqn:Eb; [contradiction|].
    rewrite map2_const0 in Hc. cbn [map] in Hc. inversion Hc; subst cc; clear Hc. cbn [boundaries] in Hn.
    destruct (map fst (merge b0 DEFAULT (combine bs (map (cat_from 0 rs) bs)))) eqn:E; [|discriminate].
    apply (merge_nonempty b0 DEFAULT (combine bs (map (cat_from 0 rs) bs))).
    destruct (merge b0 DEFAULT (combine bs (map (cat_from 0 rs) bs))); [reflexivity|discriminate].
  - intros ->. cbn in Hc. inversion Hc; subst. reflexivity.
Qed.
