From Coq Require Import List NArith Bool Arith Lia.
From SudachiVerif Require Import Model.Cli.
Import ListNotations.
Open Scope N_scope.

Lemma last_is_app b l x : last_is b (l ++ [x]) = (x =? b).
Proof. unfold last_is. rewrite rev_app_distr. reflexivity. Qed.

Lemma removelast_app1 (l : list N) x : removelast (l ++ [x]) = l.
Proof. apply removelast_last. Qed.

Lemma ltb0_app (l : list N) x : Nat.ltb 0 (length (l ++ [x])) = true.
Proof. apply Nat.ltb_lt. rewrite app_length. cbn. lia. Qed.

(* with both guards at 0: exactly one trailing "\r\n" or "\n" is removed, nothing else *)
Lemma strip_crlf l : strip_eol_gen 0 0 (l ++ [CR; LF]) = l.
Proof.
  unfold strip_eol_gen. replace (l ++ [CR; LF]) with ((l ++ [CR]) ++ [LF]) by (rewrite <- app_assoc; reflexivity).
  rewrite last_is_app, removelast_app1, last_is_app, removelast_app1, !ltb0_app.
  rewrite !N.eqb_refl. reflexivity.
Qed.

Lemma strip_lf l : last_is CR l = false -> strip_eol_gen 0 0 (l ++ [LF]) = l.
Proof.
  intros H. unfold strip_eol_gen. rewrite last_is_app, removelast_app1, H, andb_false_r, ltb0_app.
  rewrite N.eqb_refl. reflexivity.
Qed.

Lemma strip_none l : last_is LF l = false -> strip_eol_gen 0 0 l = l.
Proof. intros H. unfold strip_eol_gen. rewrite H, andb_false_r. reflexivity. Qed.

Lemma no_lf_last t : no_lf t = true -> last_is LF t = false.
Proof.
  unfold no_lf, last_is. intros H. destruct (rev t) as [|x r] eqn:E; [reflexivity|].
  assert (Hin : In x t) by (apply in_rev; rewrite E; cbn; auto).
  rewrite forallb_forall in H. specialize (H x Hin). destruct (x =? LF); [discriminate|reflexivity].
Qed.

(* never removes anything but one terminator *)
Theorem strip_eol_suffix l :
  exists t, l = strip_eol_gen 0 0 l ++ t /\ (t = [] \/ t = [LF] \/ t = [CR; LF]).
Proof.
  destruct (last_is LF l) eqn:E.
  - destruct (rev l) as [|x r] eqn:Er; [unfold last_is in E; rewrite Er in E; discriminate|].
    unfold last_is in E. rewrite Er in E.
    assert (x = LF) by (apply N.eqb_eq; exact E). subst x.
    assert (Hl : l = rev r ++ [LF]) by (rewrite <- (rev_involutive l), Er; reflexivity).
    destruct (last_is CR (rev r)) eqn:E2.
    + destruct (rev (rev r)) as [|y r2] eqn:Er2; [unfold last_is in E2; rewrite Er2 in E2; discriminate|].
      unfold last_is in E2. rewrite Er2 in E2. assert (y = CR) by (apply N.eqb_eq; exact E2). subst y.
      assert (Hr : rev r = rev r2 ++ [CR]) by (rewrite <- (rev_involutive (rev r)), Er2; reflexivity).
      exists [CR; LF]. split; [|auto]. rewrite Hl, Hr, <- app_assoc. cbn [app]. rewrite strip_crlf. reflexivity.
    + exists [LF]. split; [|auto]. rewrite Hl, strip_lf by exact E2. reflexivity.
  - exists []. rewrite strip_none by exact E. rewrite app_nil_r. auto.
Qed.

(* ---------- reading lines ---------- *)
Lemma split_aux_text : forall t cur rest,
  no_lf t = true ->
  split_lines_aux cur (t ++ LF :: rest) = (rev cur ++ t ++ [LF]) :: split_lines_aux [] rest.
Proof.
  induction t as [|b t IH]; intros cur rest H; cbn [app split_lines_aux].
  - rewrite N.eqb_refl. cbn [rev app]. reflexivity.
  - cbn in H. apply andb_true_iff in H. destruct H as [H1 H2].
    destruct (b =? LF) eqn:E; [discriminate|]. rewrite IH by exact H2. cbn [rev]. rewrite <- app_assoc. reflexivity.
Qed.

Lemma split_aux_last : forall t cur,
  no_lf t = true -> split_lines_aux cur t = match rev cur ++ t with [] => [] | l => [l] end.
Proof.
  induction t as [|b t IH]; intros cur H; cbn [split_lines_aux].
  - rewrite app_nil_r. destruct cur as [|c cur]; [reflexivity|].
    destruct (rev (c :: cur)) eqn:E; [|reflexivity].
    apply (f_equal (@length N)) in E. rewrite rev_length in E. discriminate.
  - cbn in H. apply andb_true_iff in H. destruct H as [H1 H2].
    destruct (b =? LF) eqn:E; [discriminate|]. rewrite IH by exact H2. cbn [rev]. rewrite <- app_assoc. reflexivity.
Qed.

Lemma no_lf_app a b : no_lf (a ++ b) = no_lf a && no_lf b.
Proof. unfold no_lf. apply forallb_app. Qed.

(* C19: every input line is analysed without its terminator; a blank line gives the empty text *)
Theorem cli_texts_spec : forall ls,
  lines_ok ls = true -> map (strip_eol_gen 0 0) (split_lines (file_of ls)) = map fst ls.
Proof.
  unfold split_lines, file_of.
  induction ls as [|[t k] ls IH]; intros Hok; [reflexivity|].
  assert (Hhead : no_lf t = true /\ (k = 1%nat -> last_is CR t = false) /\
                  (k = 0%nat -> ls = [] /\ t <> [])).
  { destruct ls as [|ln2 ls2]; cbn [lines_ok line_ok] in Hok.
    - apply andb_true_iff in Hok. destruct Hok as [H1 H2]. split; [exact H1|]. split.
      + intros ->. destruct (last_is CR t); [discriminate|reflexivity].
      + intros ->. split; [reflexivity|]. destruct t; [discriminate|discriminate].
    - apply andb_true_iff in Hok. destruct Hok as [Hok _]. apply andb_true_iff in Hok. destruct Hok as [H1 H2].
      split; [exact H1|]. split.
      + intros ->. destruct (last_is CR t); [discriminate|reflexivity].
      + intros ->. discriminate. }
  destruct Hhead as (Hn & Hcr & Hzero).
  assert (Hrest : lines_ok ls = true).
  { destruct ls as [|ln2 ls2]; [reflexivity|]. cbn [lines_ok] in Hok. apply andb_true_iff in Hok. tauto. }
  cbn [map concat fst snd].
  destruct k as [|[|k]]; cbn [term_bytes].
  - destruct (Hzero eq_refl) as [-> Ht]. cbn [map concat]. rewrite !app_nil_r.
    rewrite split_aux_last by exact Hn. cbn [rev app]. destruct t as [|b t]; [congruence|].
    cbn [map]. rewrite strip_none by (apply no_lf_last; exact Hn). reflexivity.
  - rewrite <- app_assoc. cbn [app]. rewrite split_aux_text by exact Hn. cbn [rev app map].
    rewrite strip_lf by (apply Hcr; reflexivity). f_equal. apply IH; exact Hrest.
  - rewrite <- app_assoc. cbn [app].
    replace (t ++ CR :: LF :: concat (map (fun ln => fst ln ++ term_bytes (snd ln)) ls))
      with ((t ++ [CR]) ++ LF :: concat (map (fun ln => fst ln ++ term_bytes (snd ln)) ls))
      by (rewrite <- app_assoc; reflexivity).
    rewrite split_aux_text by (rewrite no_lf_app, Hn; reflexivity). cbn [rev app map].
    rewrite <- app_assoc. cbn [app]. rewrite strip_crlf. f_equal. apply IH; exact Hrest.
Qed.

(* ---------- surface-only output ---------- *)
Lemma wakati_loop_spec : forall ss idx last_idx,
  ss <> [] -> (idx + length ss = S last_idx)%nat ->
  wakati_loop last_idx idx ss = intercalate word_sep ss ++ [LF].
Proof.
  induction ss as [|s ss IH]; intros idx last_idx Hne Hlen; [congruence|].
  cbn [wakati_loop]. destruct ss as [|s2 ss2].
  - cbn in Hlen. replace (Nat.eqb idx last_idx) with true by (symmetry; apply Nat.eqb_eq; lia).
    cbn. rewrite ?app_nil_r. reflexivity.
  - cbn [length] in Hlen. replace (Nat.eqb idx last_idx) with false by (symmetry; apply Nat.eqb_neq; lia).
    rewrite (IH (S idx) last_idx) by (try discriminate; cbn [length]; lia).
    cbn [intercalate]. rewrite <- !app_assoc. reflexivity.
Qed.

Theorem wakati_spec ss :
  wakati ss = match ss with [] => [LF] | _ => intercalate word_sep ss ++ [LF] end.
Proof.
  destruct ss as [|s ss]; [reflexivity|]. unfold wakati.
  apply wakati_loop_spec; [discriminate|cbn [length]; lia].
Qed.
