(* Round-trip lemmas of the word-info codec (C05) *)
From Coq Require Import List NArith ZArith Bool String Lia ZifyBool ZifyNat ZifyN.
From SudachiVerif Require Import Model.Codec.
From SudachiVerif Require Generated.FieldOrder.
Import ListNotations.
Open Scope N_scope.

Arguments N.add : simpl never.
Arguments N.sub : simpl never.
Arguments N.mul : simpl never.
Arguments N.ltb : simpl never.
Arguments N.leb : simpl never.
Arguments N.eqb : simpl never.
Arguments N.lor : simpl never.
Arguments N.div : simpl never.
Arguments N.modulo : simpl never.

Ltac Zify.zify_post_hook ::= Z.div_mod_to_equations.

(* ------------------------------------------------------------------ integers *)
Lemma read_le16_le16 : forall n rest, n < 65536 -> read_le16 (le16 n ++ rest) = Some (n, rest).
Proof.
  intros n rest H. unfold le16, read_le16. cbn [app]. f_equal. f_equal. lia.
Qed.

Lemma read_le32_le32 : forall n rest, n < 4294967296 -> read_le32 (le32 n ++ rest) = Some (n, rest).
Proof.
  intros n rest H. unfold le32, read_le32. cbn [app]. f_equal. f_equal. lia.
Qed.

Lemma to_i16_bits : forall z, (-32768 <= z < 32768)%Z -> to_i16 (i16_bits z) = z.
Proof.
  intros z H. unfold to_i16, i16_bits.
  destruct (Z.to_N (z mod 65536) <? 32768) eqn:E; lia.
Qed.

Lemma i16_bits_lt : forall z, i16_bits z < 65536.
Proof. intros z. unfold i16_bits. lia. Qed.

(* ------------------------------------------------------------------ length prefix *)
(* generic in the three generated thresholds: the decidable side condition is  short_below <= long_from <= 128, len_max <= 32767 *)
Definition len_thresholds_ok : bool :=
  (FO.short_below <=? FO.long_from) && (FO.long_from <=? 128) && (FO.len_max <=? 32767).

Lemma len_prefix_roundtrip :
  len_thresholds_ok = true ->
  forall n p rest, write_len n = Some p -> read_len (p ++ rest) = Some (n, rest).
Proof.
  unfold len_thresholds_ok. intros Hok n p rest Hw.
  unfold write_len in Hw.
  destruct (FO.len_max <? n) eqn:E1; [discriminate|].
  destruct (n <? FO.short_below) eqn:E2; inversion Hw; subst p; clear Hw; unfold read_len; cbn [app].
  - destruct (FO.long_from <=? n) eqn:E3; [lia|reflexivity].
  - destruct (FO.long_from <=? n / 256 + 128) eqn:E3; [|lia].
    f_equal. f_equal. lia.
Qed.

Lemma write_len_some : forall n, n <= FO.len_max -> exists p, write_len n = Some p.
Proof.
  intros n H. unfold write_len. destruct (FO.len_max <? n) eqn:E; [lia|].
  destruct (n <? FO.short_below); eauto.
Qed.

(* ------------------------------------------------------------------ UTF-16 *)
Lemma units_lt : forall c, is_scalar c = true -> Forall (fun u => u < 65536) (units_of_cp c).
Proof.
  intros c H. unfold is_scalar in H. unfold units_of_cp.
  destruct (c <? 65536) eqn:E; repeat constructor; lia.
Qed.

Lemma decode_units_app : forall c rest, is_scalar c = true ->
  decode_units (units_of_cp c ++ rest) = option_map (cons c) (decode_units rest).
Proof.
  intros c rest H. unfold is_scalar in H. unfold units_of_cp.
  destruct (c <? 65536) eqn:E; cbn [app decode_units].
  - destruct ((c <? 55296) || (57343 <? c)) eqn:E2; [reflexivity|lia].
  - set (h := 55296 + (c - 65536) / 1024). set (l := 56320 + (c - 65536) mod 1024).
    assert (Hh : 55296 <= h < 56320) by (unfold h; lia).
    assert (Hl : 56320 <= l <= 57343) by (unfold l; lia).
    destruct ((h <? 55296) || (57343 <? h)) eqn:E2; [lia|].
    destruct (56320 <=? h) eqn:E3; [lia|].
    destruct ((56320 <=? l) && (l <=? 57343)) eqn:E4; [|lia].
    replace (65536 + (h - 55296) * 1024 + (l - 56320)) with c by (unfold h, l; lia).
    reflexivity.
Qed.

Lemma utf16_roundtrip : forall s, forallb is_scalar s = true -> decode_units (utf16_units s) = Some s.
Proof.
  induction s as [|c s IH]; intros H; [reflexivity|].
  cbn [forallb] in H. apply andb_prop in H. destruct H as [Hc Hs].
  unfold utf16_units. cbn [flat_map]. rewrite decode_units_app by exact Hc.
  fold (utf16_units s). rewrite IH by exact Hs. reflexivity.
Qed.

Lemma utf16_units_lt : forall s, forallb is_scalar s = true -> Forall (fun u => u < 65536) (utf16_units s).
Proof.
  induction s as [|c s IH]; intros H; [constructor|].
  cbn [forallb] in H. apply andb_prop in H. destruct H as [Hc Hs].
  unfold utf16_units. cbn [flat_map]. apply Forall_app. split; [apply units_lt; exact Hc|apply IH; exact Hs].
Qed.

Lemma read_units_bytes : forall us rest, Forall (fun u => u < 65536) us ->
  read_units (List.length us) (units_bytes us ++ rest) = Some (us, rest).
Proof.
  induction us as [|u us IH]; intros rest H; [reflexivity|].
  inversion H as [|? ? Hu Hus]; subst.
  unfold units_bytes. cbn [flat_map List.length]. unfold le16 at 1. cbn [app read_units].
  fold (units_bytes us). rewrite IH by exact Hus.
  f_equal. f_equal. f_equal. lia.
Qed.

Lemma string_roundtrip :
  len_thresholds_ok = true ->
  forall s b rest, forallb is_scalar s = true -> write_string s = Some b -> read_string (b ++ rest) = Some (s, rest).
Proof.
  intros Hok s b rest Hs Hw. unfold write_string in Hw.
  destruct (FO.utf8_max <? utf8_len s); [discriminate|].
  destruct (write_len (N.of_nat (List.length (utf16_units s)))) as [p|] eqn:Hl; [|discriminate].
  inversion Hw; subst b; clear Hw.
  unfold read_string. rewrite <- app_assoc.
  rewrite (len_prefix_roundtrip Hok _ _ _ Hl). rewrite Nat2N.id.
  rewrite read_units_bytes by (apply utf16_units_lt; exact Hs).
  rewrite utf16_roundtrip by exact Hs. reflexivity.
Qed.

(* skip = parse width *)
Lemma skip_string_width : forall bs s rest, read_string bs = Some (s, rest) -> skip_string bs = Some rest.
Proof.
  intros bs s rest H. unfold read_string in H. unfold skip_string.
  destruct (read_len bs) as [[n r]|]; [|discriminate].
  destruct (read_units (N.to_nat n) r) as [[us r']|]; [|discriminate].
  destruct (decode_units us); [|discriminate]. inversion H; reflexivity.
Qed.

Lemma text_eqb_eq : forall a b, text_eqb a b = true <-> a = b.
Proof.
  induction a as [|x a IH]; destruct b as [|y b]; cbn; split; intros H; try reflexivity; try discriminate.
  - apply andb_prop in H. destruct H as [H1 H2]. apply N.eqb_eq in H1. apply IH in H2. subst. reflexivity.
  - inversion H; subst. apply andb_true_intro. split; [apply N.eqb_refl|apply IH; reflexivity].
Qed.

(* ------------------------------------------------------------------ u32 arrays *)
Lemma read_u32s_le32 : forall xs rest, Forall (fun x => x < 4294967296) xs ->
  read_u32s (List.length xs) (flat_map le32 xs ++ rest) = Some (xs, rest).
Proof.
  induction xs as [|x xs IH]; intros rest H; [reflexivity|].
  inversion H as [|? ? Hx Hxs]; subst.
  cbn [flat_map List.length read_u32s]. rewrite <- app_assoc.
  rewrite read_le32_le32 by exact Hx. rewrite IH by exact Hxs. reflexivity.
Qed.

Lemma u32arr_roundtrip : forall xs b rest, Forall (fun x => x < 4294967296) xs ->
  write_u32_array xs = Some b -> read_u32_array (b ++ rest) = Some (xs, rest).
Proof.
  intros xs b rest Hx Hw. unfold write_u32_array in Hw.
  destruct (FO.arr_max <? N.of_nat (List.length xs)); [discriminate|].
  inversion Hw; subst b. cbn [app read_u32_array]. rewrite Nat2N.id. apply read_u32s_le32. exact Hx.
Qed.

Lemma read_u32s_skip : forall n bs xs rest, read_u32s n bs = Some (xs, rest) ->
  (4 * n <= List.length bs)%nat /\ rest = skipn (4 * n) bs.
Proof.
  induction n as [|n IH]; intros bs xs rest H.
  - cbn in H. inversion H. split; [lia|reflexivity].
  - cbn [read_u32s] in H. unfold read_le32 in H.
    destruct bs as [|b0 [|b1 [|b2 [|b3 r]]]]; try discriminate.
    destruct (read_u32s n r) as [[ys r']|] eqn:E; [|discriminate].
    inversion H; subst. apply IH in E. destruct E as [E1 E2].
    split; [cbn [List.length]; lia|].
    replace (4 * S n)%nat with (S (S (S (S (4 * n))))) by lia. cbn [skipn]. exact E2.
Qed.

Lemma skip_u32_array_width : forall bs xs rest, read_u32_array bs = Some (xs, rest) -> skip_u32_array bs = Some rest.
Proof.
  intros bs xs rest H. destruct bs as [|n r]; [discriminate|].
  cbn [read_u32_array] in H. apply read_u32s_skip in H. destruct H as [H1 H2].
  unfold skip_u32_array. destruct (N.of_nat (List.length r) <? 4 * n) eqn:E; [lia|].
  f_equal. rewrite H2. f_equal. lia.
Qed.

(* ------------------------------------------------------------------ whole word info *)
Lemma write_fields_cons : forall w ws e b, write_fields (w :: ws) e = Some b ->
  exists a c, write_field e w = Some a /\ write_fields ws e = Some c /\ b = a ++ c.
Proof.
  intros w ws e b H. cbn [write_fields] in H.
  destruct (write_field e w) as [a|]; [|discriminate].
  destruct (write_fields ws e) as [c|]; [|discriminate].
  inversion H. eauto.
Qed.

Definition explicit_rs : list rfield :=
  [ mkRF F_surface 0 (fun bs => option_map (fun p => (VText (fst p), snd p)) (read_string bs)) (Some skip_string);
    mkRF F_hwlen 1 (fun bs => option_map (fun p => (VNum (fst p), snd p)) (read_len bs)) None;
    mkRF F_pos 2 (fun bs => option_map (fun p => (VNum (fst p), snd p)) (read_le16 bs)) None;
    mkRF F_norm 3 (fun bs => option_map (fun p => (VText (fst p), snd p)) (read_string bs)) (Some skip_string);
    mkRF F_dfwi 4 (fun bs => option_map (fun p => (VInt (to_i32 (fst p)), snd p)) (read_le32 bs)) None;
    mkRF F_reading 5 (fun bs => option_map (fun p => (VText (fst p), snd p)) (read_string bs)) (Some skip_string);
    mkRF F_a 6 (fun bs => option_map (fun p => (VArr (fst p), snd p)) (read_u32_array bs)) (Some skip_u32_array);
    mkRF F_b 7 (fun bs => option_map (fun p => (VArr (fst p), snd p)) (read_u32_array bs)) (Some skip_u32_array);
    mkRF F_ws 8 (fun bs => option_map (fun p => (VArr (fst p), snd p)) (read_u32_array bs)) (Some skip_u32_array);
    mkRF F_syn 9 (fun bs => option_map (fun p => (VArr (fst p), snd p)) (read_u32_array bs)) (Some skip_u32_array) ].

Lemma reader_explicit : resolve_rfields expected_bits expected_reader = Some explicit_rs.
Proof. reflexivity. Qed.

Definition reader_facts_ok : Prop :=
  FO.reader_fields = expected_reader /\ FO.subset_bits = expected_bits.

Lemma reader_is_explicit : reader_facts_ok -> reader = Some explicit_rs.
Proof. intros [H1 H2]. unfold reader. rewrite H1, H2. exact reader_explicit. Qed.

Lemma parse_step_heavy : forall r rs flds info bs sk v next,
  flds <> 0 -> rf_skip r = Some sk -> N.testbit flds (rf_bit r) = true -> rf_parse r bs = Some (v, next) ->
  parse_fields (r :: rs) flds info bs = parse_fields rs (N.clearbit flds (rf_bit r)) (set_field (rf_fid r) v info) next.
Proof.
  intros r rs flds info bs sk v next H0 Hs Ht Hp. cbn [parse_fields].
  destruct (flds =? 0) eqn:E; [apply N.eqb_eq in E; contradiction|].
  rewrite Hs, Ht, Hp. reflexivity.
Qed.

Lemma parse_step_light : forall r rs flds info bs v next,
  flds <> 0 -> rf_skip r = None -> rf_parse r bs = Some (v, next) ->
  parse_fields (r :: rs) flds info bs = parse_fields rs (N.clearbit flds (rf_bit r)) (set_field (rf_fid r) v info) next.
Proof.
  intros r rs flds info bs v next H0 Hs Hp. cbn [parse_fields].
  destruct (flds =? 0) eqn:E; [apply N.eqb_eq in E; contradiction|].
  rewrite Hs, Hp. reflexivity.
Qed.

Lemma forallb_lt_Forall : forall k xs, forallb (fun x => x <? k) xs = true -> Forall (fun x => x < k) xs.
Proof.
  intros k xs H. apply Forall_forall. intros x Hx.
  rewrite forallb_forall in H. specialize (H x Hx). lia.
Qed.

Lemma string_or_empty_roundtrip :
  len_thresholds_ok = true ->
  forall s o b rest, forallb is_scalar s = true -> write_string_or_empty s o = Some b ->
  read_string (b ++ rest) = Some ((if text_eqb s o then [] else s), rest).
Proof.
  intros Hok s o b rest Hs Hw. unfold write_string_or_empty in Hw.
  destruct (text_eqb s o); apply (string_roundtrip Hok); auto.
Qed.

(* the raw fields stored for an entry *)
Definition stored (e : entry) : winfo := fun f =>
  match f with
  | F_surface => VText (e_headword e)
  | F_hwlen => VNum (e_surface_len e)
  | F_pos => VNum (e_pos e)
  | F_norm => VText (if text_eqb (e_norm e) (e_headword e) then [] else e_norm e)
  | F_dfwi => VInt (to_i32 (e_dic_form e))
  | F_dicform => VText []
  | F_reading => VText (if text_eqb (e_reading e) (e_headword e) then [] else e_reading e)
  | F_a => VArr (e_splits_a e)
  | F_b => VArr (e_splits_b e)
  | F_ws => VArr (e_word_structure e)
  | F_syn => VArr (e_synonyms e)
  end.

Lemma wordinfo_roundtrip_raw :
  FO.writer_fields = expected_writer -> reader_facts_ok -> len_thresholds_ok = true ->
  forall e b rest, entry_ok e = true -> write_word_info e = Some b ->
  exists i, parse ALL (b ++ rest) = Some i /\ forall f, i f = stored e f.
Proof.
  intros HW HR Hok e b rest He Hw.
  unfold write_word_info in Hw. rewrite HW in Hw. unfold expected_writer in Hw.
  unfold entry_ok in He.
  apply andb_prop in He; destruct He as [He Ksyn]. apply andb_prop in He; destruct He as [He Kws].
  apply andb_prop in He; destruct He as [He Kb]. apply andb_prop in He; destruct He as [He Ka].
  apply andb_prop in He; destruct He as [He Kdf]. apply andb_prop in He; destruct He as [He Kpos].
  apply andb_prop in He; destruct He as [He Krd]. apply andb_prop in He; destruct He as [Khw Knm].
  apply write_fields_cons in Hw. destruct Hw as (b1 & c1 & W1 & Hw & ->).
  apply write_fields_cons in Hw. destruct Hw as (b2 & c2 & W2 & Hw & ->).
  apply write_fields_cons in Hw. destruct Hw as (b3 & c3 & W3 & Hw & ->).
  apply write_fields_cons in Hw. destruct Hw as (b4 & c4 & W4 & Hw & ->).
  apply write_fields_cons in Hw. destruct Hw as (b5 & c5 & W5 & Hw & ->).
  apply write_fields_cons in Hw. destruct Hw as (b6 & c6 & W6 & Hw & ->).
  apply write_fields_cons in Hw. destruct Hw as (b7 & c7 & W7 & Hw & ->).
  apply write_fields_cons in Hw. destruct Hw as (b8 & c8 & W8 & Hw & ->).
  apply write_fields_cons in Hw. destruct Hw as (b9 & c9 & W9 & Hw & ->).
  apply write_fields_cons in Hw. destruct Hw as (b10 & c10 & W10 & Hw & ->).
  cbn [write_fields] in Hw. inversion Hw; subst c10; clear Hw.
  change (write_string (e_headword e) = Some b1) in W1.
  change (write_len (e_surface_len e) = Some b2) in W2.
  change (Some (le16 (e_pos e)) = Some b3) in W3.
  change (write_string_or_empty (e_norm e) (e_headword e) = Some b4) in W4.
  change (Some (le32 (e_dic_form e)) = Some b5) in W5.
  change (write_string_or_empty (e_reading e) (e_headword e) = Some b6) in W6.
  change (write_u32_array (e_splits_a e) = Some b7) in W7.
  change (write_u32_array (e_splits_b e) = Some b8) in W8.
  change (write_u32_array (e_word_structure e) = Some b9) in W9.
  change (write_u32_array (e_synonyms e) = Some b10) in W10.
  inversion W3; subst b3; clear W3. inversion W5; subst b5; clear W5.
  unfold parse. rewrite (reader_is_explicit HR). unfold explicit_rs, ALL.
  repeat rewrite <- app_assoc. rewrite app_nil_l.
  erewrite parse_step_heavy; [| vm_compute; discriminate | reflexivity | reflexivity
    | cbn [rf_parse]; rewrite (string_roundtrip Hok _ _ _ Khw W1); cbn [option_map fst snd]; reflexivity ].
  cbn [fst snd].
  erewrite parse_step_light; [| vm_compute; discriminate | reflexivity
    | cbn [rf_parse]; rewrite (len_prefix_roundtrip Hok _ _ _ W2); cbn [option_map fst snd]; reflexivity ].
  cbn [fst snd].
  erewrite parse_step_light; [| vm_compute; discriminate | reflexivity
    | cbn [rf_parse]; rewrite read_le16_le16 by lia; cbn [option_map fst snd]; reflexivity ].
  cbn [fst snd].
  erewrite parse_step_heavy; [| vm_compute; discriminate | reflexivity | reflexivity
    | cbn [rf_parse]; rewrite (string_or_empty_roundtrip Hok _ _ _ _ Knm W4); cbn [option_map fst snd]; reflexivity ].
  cbn [fst snd].
  erewrite parse_step_light; [| vm_compute; discriminate | reflexivity
    | cbn [rf_parse]; rewrite read_le32_le32 by lia; cbn [option_map fst snd]; reflexivity ].
  cbn [fst snd].
  erewrite parse_step_heavy; [| vm_compute; discriminate | reflexivity | reflexivity
    | cbn [rf_parse]; rewrite (string_or_empty_roundtrip Hok _ _ _ _ Krd W6); cbn [option_map fst snd]; reflexivity ].
  cbn [fst snd].
  erewrite parse_step_heavy; [| vm_compute; discriminate | reflexivity | reflexivity
    | cbn [rf_parse]; rewrite (u32arr_roundtrip _ _ _ (forallb_lt_Forall _ _ Ka) W7); cbn [option_map fst snd]; reflexivity ].
  cbn [fst snd].
  erewrite parse_step_heavy; [| vm_compute; discriminate | reflexivity | reflexivity
    | cbn [rf_parse]; rewrite (u32arr_roundtrip _ _ _ (forallb_lt_Forall _ _ Kb) W8); cbn [option_map fst snd]; reflexivity ].
  cbn [fst snd].
  erewrite parse_step_heavy; [| vm_compute; discriminate | reflexivity | reflexivity
    | cbn [rf_parse]; rewrite (u32arr_roundtrip _ _ _ (forallb_lt_Forall _ _ Kws) W9); cbn [option_map fst snd]; reflexivity ].
  cbn [fst snd].
  erewrite parse_step_heavy; [| vm_compute; discriminate | reflexivity | reflexivity
    | cbn [rf_parse]; rewrite (u32arr_roundtrip _ _ _ (forallb_lt_Forall _ _ Ksyn) W10); cbn [option_map fst snd]; reflexivity ].
  cbn [fst snd parse_fields]. eexists. split; [reflexivity|].
  intros f. destruct f; reflexivity.
Qed.

(* ------------------------------------------------------------------ subset parsing (C11) *)
Definition subset_of (a b : N) : Prop := forall k, N.testbit a k = true -> N.testbit b k = true.

Lemma subset_of_zero : forall a, subset_of a 0 -> a = 0.
Proof.
  intros a H. apply N.bits_inj_0. intros n. destruct (N.testbit a n) eqn:E; [|reflexivity].
  apply H in E. rewrite N.bits_0 in E. discriminate.
Qed.

Lemma subset_of_clear : forall a b k, subset_of a b -> subset_of (N.clearbit a k) (N.clearbit b k).
Proof.
  intros a b k H n. rewrite !N.clearbit_eqb. intros E. apply andb_prop in E. destruct E as [E1 E2].
  rewrite (H _ E1), E2. reflexivity.
Qed.

Lemma subset_of_clear_r : forall a b k, subset_of a b -> N.testbit a k = false -> subset_of a (N.clearbit b k).
Proof.
  intros a b k H Hk n E. rewrite N.clearbit_eqb. rewrite (H _ E).
  destruct (k =? n) eqn:E2; [|reflexivity]. apply N.eqb_eq in E2. subst. congruence.
Qed.

Lemma fid_eqb_eq : forall a b, fid_eqb a b = true <-> a = b.
Proof. destruct a, b; cbn; split; intros H; try reflexivity; try discriminate. Qed.

Lemma set_field_same : forall f v i, set_field f v i f = v.
Proof. intros. unfold set_field. destruct (fid_eqb f f) eqn:E; [reflexivity|]. destruct f; discriminate. Qed.
Lemma set_field_other : forall f g v i, g <> f -> set_field f v i g = i g.
Proof.
  intros. unfold set_field. destruct (fid_eqb g f) eqn:E; [|reflexivity].
  apply fid_eqb_eq in E. contradiction.
Qed.

(* fields that are not a target of the remaining reader fields keep their value *)
Lemma parse_fields_frame : forall rs fl i0 bs i, parse_fields rs fl i0 bs = Some i ->
  forall f, ~ In f (map rf_fid rs) -> i f = i0 f.
Proof.
  induction rs as [|r rs IH]; intros fl i0 bs i H f Hf; cbn [parse_fields] in H.
  - inversion H. reflexivity.
  - cbn [map In] in Hf.
    destruct (fl =? 0); [inversion H; reflexivity|].
    assert (Hstep : forall v next fl', parse_fields rs fl' (set_field (rf_fid r) v i0) next = Some i -> i f = i0 f).
    { intros v next fl' E. rewrite (IH _ _ _ _ E f) by tauto. apply set_field_other. intros ->. tauto. }
    destruct (rf_skip r) as [sk|].
    + destruct (N.testbit fl (rf_bit r)).
      * destruct (rf_parse r bs) as [[v next]|]; [|discriminate]. eapply Hstep; eassumption.
      * destruct (sk bs) as [next|]; [|discriminate]. apply (IH _ _ _ _ H). tauto.
    + destruct (rf_parse r bs) as [[v next]|]; [|discriminate]. eapply Hstep; eassumption.
Qed.

(* a heavy field that is not requested keeps its initial value *)
Lemma parse_fields_unrequested : forall rs, NoDup (map rf_bit rs) ->
  forall fl i0 bs i, parse_fields rs fl i0 bs = Some i ->
  forall f, (forall r, In r rs -> rf_fid r = f -> rf_skip r <> None /\ N.testbit fl (rf_bit r) = false) -> i f = i0 f.
Proof.
  induction rs as [|r rs IH]; intros ND fl i0 bs i H f Hf; cbn [parse_fields] in H.
  - inversion H. reflexivity.
  - cbn [map] in ND. inversion ND as [|? ? Hnot ND']; subst.
    destruct (fl =? 0); [inversion H; reflexivity|].
    assert (Hset : forall v next, N.testbit fl (rf_bit r) = true \/ rf_skip r = None ->
               parse_fields rs (N.clearbit fl (rf_bit r)) (set_field (rf_fid r) v i0) next = Some i -> i f = i0 f).
    { intros v next Hreq E.
      assert (Hne : rf_fid r <> f).
      { intros Heq. destruct (Hf r (or_introl eq_refl) Heq) as [K1 K2]. destruct Hreq as [K|K]; congruence. }
      rewrite (IH ND' _ _ _ _ E f).
      - apply set_field_other. congruence.
      - intros r' Hin Heq. destruct (Hf r' (or_intror Hin) Heq) as [K1 K2]. split; [exact K1|].
        rewrite N.clearbit_neq; [exact K2|]. intros Hb. apply Hnot. rewrite Hb. apply in_map. exact Hin. }
    destruct (rf_skip r) as [sk|] eqn:Es.
    + destruct (N.testbit fl (rf_bit r)) eqn:Et.
      * destruct (rf_parse r bs) as [[v next]|]; [|discriminate]. eapply Hset; eauto.
      * destruct (sk bs) as [next|]; [|discriminate]. apply (IH ND' _ _ _ _ H).
        intros r' Hin Heq. apply Hf; [right; exact Hin|exact Heq].
    + destruct (rf_parse r bs) as [[v next]|]; [|discriminate]. eapply Hset; eauto.
Qed.

Definition skips_ok (rs : list rfield) : Prop :=
  forall r sk bs v next, In r rs -> rf_skip r = Some sk -> rf_parse r bs = Some (v, next) -> sk bs = Some next.

(* the heart of C11: whatever is requested comes out as in a load of a superset;
   anything else is either as in that load or untouched *)
Lemma parse_fields_subset : forall rs,
  NoDup (map rf_bit rs) -> NoDup (map rf_fid rs) -> skips_ok rs ->
  forall fA fS iA0 iS0 bs iA,
  subset_of fS fA ->
  parse_fields rs fA iA0 bs = Some iA ->
  exists iS, parse_fields rs fS iS0 bs = Some iS /\
    (forall r, In r rs -> (N.testbit fS (rf_bit r) = true -> iS (rf_fid r) = iA (rf_fid r)) /\
                          (iS (rf_fid r) = iA (rf_fid r) \/ iS (rf_fid r) = iS0 (rf_fid r))).
Proof.
  induction rs as [|r rs IH]; intros NDb NDf Hsk fA fS iA0 iS0 bs iA Hsub HA.
  - exists iS0. split; [reflexivity|]. intros r [].
  - cbn [map] in NDb, NDf. inversion NDb as [|? ? Hnb NDb']; subst. inversion NDf as [|? ? Hnf NDf']; subst.
    assert (Hsk' : skips_ok rs). { intros r' sk bs' v next Hin. apply Hsk. right. exact Hin. }
    cbn [parse_fields] in HA |- *.
    destruct (fA =? 0) eqn:EA.
    { apply N.eqb_eq in EA. subst fA. apply subset_of_zero in Hsub. subst fS. rewrite N.eqb_refl.
      exists iS0. split; [reflexivity|]. intros r' _. split; [|right; reflexivity].
      intros Ht. rewrite N.bits_0 in Ht. discriminate. }
    destruct (fS =? 0) eqn:ES.
    { apply N.eqb_eq in ES. subst fS. exists iS0. split; [reflexivity|].
      intros r' _. split; [|right; reflexivity]. intros Ht. rewrite N.bits_0 in Ht. discriminate. }
    assert (Hne : forall r', In r' rs -> rf_fid r' <> rf_fid r).
    { intros r' Hin Heq. apply Hnf. rewrite <- Heq. apply in_map. exact Hin. }
    (* both runs parse r with the same value v and continue at next *)
    assert (Hboth : forall v next,
              parse_fields rs (N.clearbit fA (rf_bit r)) (set_field (rf_fid r) v iA0) next = Some iA ->
              exists iS, parse_fields rs (N.clearbit fS (rf_bit r)) (set_field (rf_fid r) v iS0) next = Some iS /\
                forall r', In r' (r :: rs) -> (N.testbit fS (rf_bit r') = true -> iS (rf_fid r') = iA (rf_fid r')) /\
                            (iS (rf_fid r') = iA (rf_fid r') \/ iS (rf_fid r') = iS0 (rf_fid r'))).
    { intros v next E.
      destruct (IH NDb' NDf' Hsk' _ (N.clearbit fS (rf_bit r)) _ (set_field (rf_fid r) v iS0) _ _ (subset_of_clear _ _ _ Hsub) E)
        as (iS & E1 & E2).
      exists iS. split; [exact E1|]. intros r' [<-|Hin].
      - assert (K : iS (rf_fid r) = iA (rf_fid r)).
        { rewrite (parse_fields_frame _ _ _ _ _ E1 _ Hnf), (parse_fields_frame _ _ _ _ _ E _ Hnf).
          rewrite !set_field_same. reflexivity. }
        split; [intros _; exact K|left; exact K].
      - destruct (E2 r' Hin) as [E3 E4]. split.
        + intros Ht. apply E3. rewrite N.clearbit_neq; [exact Ht|].
          intros Hb. apply Hnb. rewrite Hb. apply in_map. exact Hin.
        + destruct E4 as [E4|E4]; [left; exact E4|right]. rewrite E4. apply set_field_other. apply Hne. exact Hin. }
    (* the S run skips r *)
    assert (Hskip : forall fA' iA0' next,
              subset_of fS fA' -> N.testbit fS (rf_bit r) = false ->
              parse_fields rs fA' iA0' next = Some iA ->
              exists iS, parse_fields rs fS iS0 next = Some iS /\
                forall r', In r' (r :: rs) -> (N.testbit fS (rf_bit r') = true -> iS (rf_fid r') = iA (rf_fid r')) /\
                            (iS (rf_fid r') = iA (rf_fid r') \/ iS (rf_fid r') = iS0 (rf_fid r'))).
    { intros fA' iA0' next Hsub' EtS E.
      destruct (IH NDb' NDf' Hsk' _ fS _ iS0 _ _ Hsub' E) as (iS & E1 & E2).
      exists iS. split; [exact E1|]. intros r' [<-|Hin]; [|apply E2; exact Hin].
      split; [congruence|right]. apply (parse_fields_frame _ _ _ _ _ E1 _ Hnf). }
    destruct (rf_skip r) as [sk|] eqn:Es.
    + destruct (N.testbit fA (rf_bit r)) eqn:EtA.
      * destruct (rf_parse r bs) as [[v next]|] eqn:Ep; [|discriminate].
        destruct (N.testbit fS (rf_bit r)) eqn:EtS.
        -- apply Hboth. exact HA.
        -- rewrite (Hsk r sk bs v next (or_introl eq_refl) Es Ep).
           eapply Hskip; [apply subset_of_clear_r; eassumption|first [exact EtS|reflexivity]|exact HA].
      * destruct (sk bs) as [next|] eqn:Ek; [|discriminate].
        destruct (N.testbit fS (rf_bit r)) eqn:EtS; [apply Hsub in EtS; congruence|].
        eapply Hskip; [exact Hsub|first [exact EtS|reflexivity]|exact HA].
    + destruct (rf_parse r bs) as [[v next]|] eqn:Ep; [|discriminate].
      apply Hboth. exact HA.
Qed.

Lemma explicit_nodup_bits : NoDup (map rf_bit explicit_rs).
Proof. cbn. repeat (constructor; [cbn; intros H; repeat (destruct H as [H|H]; [discriminate|]); exact H|]). constructor. Qed.
Lemma explicit_nodup_fids : NoDup (map rf_fid explicit_rs).
Proof. cbn. repeat (constructor; [cbn; intros H; repeat (destruct H as [H|H]; [discriminate|]); exact H|]). constructor. Qed.

Lemma option_map_some : forall {A B} (f : A -> B) o y, option_map f o = Some y -> exists x, o = Some x /\ y = f x.
Proof. intros A B f [x|] y H; [inversion H; eauto|discriminate]. Qed.

Lemma explicit_skips_ok : skips_ok explicit_rs.
Proof.
  intros r sk bs v next Hin Hs Hp. unfold explicit_rs in Hin. cbn [In] in Hin.
  repeat (destruct Hin as [<-|Hin]; [cbn [rf_skip rf_parse] in Hs, Hp; try discriminate; inversion Hs; subst sk;
    apply option_map_some in Hp; destruct Hp as ([x y] & Hp & Hq); inversion Hq; subst;
    first [eapply skip_string_width; exact Hp | eapply skip_u32_array_width; exact Hp] |]).
  contradiction.
Qed.

Definition idx_of_fid (f : fid) : nat :=
  match f with
  | F_surface => 0 | F_hwlen => 1 | F_pos => 2 | F_norm => 3 | F_dfwi => 4 | F_dicform => 0
  | F_reading => 5 | F_a => 6 | F_b => 7 | F_ws => 8 | F_syn => 9
  end%nat.
Lemma target_of_fid : forall f, f <> F_dicform -> exists r, In r explicit_rs /\ rf_fid r = f /\ rf_bit r = bit_of_fid f.
Proof.
  intros f Hf. exists (nth (idx_of_fid f) explicit_rs (mkRF F_surface 0 (fun _ => None) None)).
  destruct f; try contradiction; (split; [cbn; tauto|split; reflexivity]).
Qed.

(* parse level *)
Lemma parse_subset_gen :
  reader_facts_ok -> forall fA s bs iA, subset_of s fA -> parse fA bs = Some iA ->
  exists iS, parse s bs = Some iS /\
    (forall f, f <> F_dicform -> (N.testbit s (bit_of_fid f) = true -> iS f = iA f) /\ (iS f = iA f \/ iS f = default_info f))
    /\ iS F_dicform = default_info F_dicform /\ iA F_dicform = default_info F_dicform.
Proof.
  intros HR fA s bs iA Hsub HA. unfold parse in *. rewrite (reader_is_explicit HR) in *.
  destruct (parse_fields_subset _ explicit_nodup_bits explicit_nodup_fids explicit_skips_ok _ s _ default_info _ _ Hsub HA)
    as (iS & E1 & E2).
  exists iS. split; [exact E1|]. split; [|split].
  - intros f Hf. destruct (target_of_fid f Hf) as (r & Hin & <- & <-). apply E2. exact Hin.
  - apply (parse_fields_frame _ _ _ _ _ E1). cbn. intros H. repeat (destruct H as [H|H]; [discriminate|]). exact H.
  - apply (parse_fields_frame _ _ _ _ _ HA). cbn. intros H. repeat (destruct H as [H|H]; [discriminate|]). exact H.
Qed.

(* C11 subset_preserves_requested *)
Lemma subset_preserves_requested :
  reader_facts_ok -> forall s bs iA, subset_of s ALL -> parse ALL bs = Some iA ->
  exists iS, parse s bs = Some iS /\ (forall f, f <> F_dicform -> N.testbit s (bit_of_fid f) = true -> iS f = iA f).
Proof.
  intros HR s bs iA Hsub HA. destruct (parse_subset_gen HR _ _ _ _ Hsub HA) as (iS & E1 & E2 & _).
  exists iS. split; [exact E1|]. intros f Hf. apply E2. exact Hf.
Qed.

Lemma parse_unrequested_syn : reader_facts_ok -> forall fl bs i, parse fl bs = Some i -> N.testbit fl 9 = false ->
  i F_syn = default_info F_syn.
Proof.
  intros HR fl bs i H Ht. unfold parse in H. rewrite (reader_is_explicit HR) in H.
  apply (parse_fields_unrequested _ explicit_nodup_bits _ _ _ _ H).
  intros r Hin Heq. unfold explicit_rs in Hin. cbn [In] in Hin.
  repeat (destruct Hin as [Hin|Hin]; [subst r; first [discriminate Heq | split; [discriminate|exact Ht]]|]).
  contradiction.
Qed.

(* ------------------------------------------------------------------ accessors (C11 accessor_preserved) *)
Definition acc_fids (a : acc) : list fid :=
  match a with
  | A_surface => [F_surface] | A_hwlen => [F_hwlen] | A_pos => [F_pos] | A_norm => [F_norm; F_surface]
  | A_dfwi => [F_dfwi] | A_dicform => [F_dicform; F_surface] | A_reading => [F_reading; F_surface]
  | A_a => [F_a] | A_b => [F_b] | A_ws => [F_ws] | A_syn => [F_syn]
  end.
Lemma acc_deps_fids : forall a, acc_deps a = map bit_of_fid (acc_fids a).
Proof. destruct a; reflexivity. Qed.

Lemma accessor_ext : forall a i j, (forall f, In f (acc_fids a) -> i f = j f) -> accessor a i = accessor a j.
Proof.
  intros a i j H. destruct a; cbn [accessor acc_fids In] in *; unfold or_surface;
    repeat match goal with |- context [i ?f] => rewrite (H f) by tauto end; reflexivity.
Qed.

Lemma lex_get_nth : forall lx w, lex_get lx w = nth_error lx (N.to_nat w).
Proof.
  intros lx w. unfold lex_get. destruct (w <? N.of_nat (List.length lx)) eqn:E; [reflexivity|].
  symmetry. apply nth_error_None. lia.
Qed.

Definition lex_ok (lx : lexicon) : Prop := forall bs, In bs lx -> parse ALL bs <> None.
Definition deps_loaded (L : N) (a : acc) : Prop := forall d, In d (acc_deps a) -> N.testbit L d = true.

Definition with_dic (o : option fval) (wi : winfo) : winfo :=
  match o with Some x => set_field F_dicform x wi | None => wi end.

(* the dictionary-form consultation of get_word_info as a function of the parsed info *)
Definition consult (lx : lexicon) (wid : N) (wi : winfo) : option winfo :=
  let dfwi := as_int (wi F_dfwi) in
  if (0 <=? dfwi)%Z && negb (dfwi =? Z.of_N wid)%Z then
    match lex_get lx (Z.to_N dfwi) with
    | None => None
    | Some bs2 => match parse SURFACE_ONLY bs2 with
                  | None => None
                  | Some inner => Some (set_field F_dicform (inner F_surface) wi)
                  end
    end
  else Some wi.

Lemma get_word_info_consult : forall lx has_syn wid s,
  get_word_info lx has_syn wid s =
  match lex_get lx wid with
  | None => None
  | Some bs => match parse (if has_syn then s else N.clearbit s SYN_BIT) bs with
               | None => None
               | Some wi => consult lx wid wi
               end
  end.
Proof. reflexivity. Qed.

Definition consult_val (lx : lexicon) (wid : N) (d : Z) : option (option fval) :=
  if (0 <=? d)%Z && negb (d =? Z.of_N wid)%Z then
    match lex_get lx (Z.to_N d) with
    | None => None
    | Some bs2 => match parse SURFACE_ONLY bs2 with
                  | None => None
                  | Some inner => Some (Some (inner F_surface))
                  end
    end
  else Some None.

Lemma consult_eq : forall lx wid wi,
  consult lx wid wi = option_map (fun o => with_dic o wi) (consult_val lx wid (as_int (wi F_dfwi))).
Proof.
  intros. unfold consult, consult_val.
  destruct ((0 <=? as_int (wi F_dfwi))%Z && negb (as_int (wi F_dfwi) =? Z.of_N wid)%Z); [|reflexivity].
  destruct (lex_get lx (Z.to_N (as_int (wi F_dfwi)))) as [bs2|]; [|reflexivity].
  destruct (parse SURFACE_ONLY bs2); reflexivity.
Qed.

Lemma subset_one_all : subset_of SURFACE_ONLY ALL.
Proof.
  intros k H. unfold SURFACE_ONLY in H. unfold ALL.
  destruct (k =? 0) eqn:E; [apply N.eqb_eq in E; subst; reflexivity|].
  assert (N.testbit 1 k = false). { apply (N.bits_above_log2 1 k). cbn. lia. } congruence.
Qed.

Theorem accessor_preserved :
  reader_facts_ok -> forall lx has_syn wid L a iA,
  lex_ok lx -> subset_of L ALL -> deps_loaded L a ->
  get_word_info lx has_syn wid ALL = Some iA ->
  exists iS, get_word_info lx has_syn wid L = Some iS /\ accessor a iS = accessor a iA.
Proof.
  intros HR lx has_syn wid L a iA Hlex Hsub Hdeps HA.
  rewrite get_word_info_consult in HA |- *.
  destruct (lex_get lx wid) as [bs|] eqn:Eb; [|discriminate].
  set (LA := if has_syn then ALL else N.clearbit ALL SYN_BIT) in *.
  set (LS := if has_syn then L else N.clearbit L SYN_BIT) in *.
  assert (Hsub' : subset_of LS LA).
  { unfold LS, LA. destruct has_syn; [exact Hsub|apply subset_of_clear; exact Hsub]. }
  destruct (parse LA bs) as [wiA|] eqn:EpA; [|discriminate].
  destruct (parse_subset_gen HR _ _ _ _ Hsub' EpA) as (wiS & EpS & Hagree & HdS & HdA).
  rewrite EpS.
  (* fields whose flag is in L agree between the two parses *)
  assert (Hfield : forall f, f <> F_dicform -> N.testbit L (bit_of_fid f) = true -> wiS f = wiA f).
  { intros f Hf Ht. destruct has_syn.
    - apply Hagree; assumption.
    - destruct (N.eqb (bit_of_fid f) 9) eqn:E9.
      + assert (f = F_syn) by (destruct f; try discriminate; try contradiction; reflexivity). subst f.
        rewrite (parse_unrequested_syn HR _ _ _ EpS) by (unfold LS, SYN_BIT; apply N.clearbit_eq).
        rewrite (parse_unrequested_syn HR _ _ _ EpA) by (unfold LA, SYN_BIT; apply N.clearbit_eq). reflexivity.
      + apply Hagree; [exact Hf|]. unfold LS, SYN_BIT. rewrite N.clearbit_neq; [exact Ht|].
        intros K. rewrite <- K in E9. rewrite N.eqb_refl in E9. discriminate. }
  rewrite consult_eq in HA |- *.
  destruct (consult_val lx wid (as_int (wiA F_dfwi))) as [oA|] eqn:EcA; [|discriminate].
  cbn [option_map] in HA. inversion HA; subst iA; clear HA.
  (* the S run also succeeds, and with the same dictionary form when DIC_FORM_WORD_ID is loaded *)
  assert (HS : exists oS, consult_val lx wid (as_int (wiS F_dfwi)) = Some oS /\ (N.testbit L 4 = true -> oS = oA)).
  { destruct (Hagree F_dfwi ltac:(discriminate)) as [Hreq [Hsame|Hdef]].
    - exists oA. rewrite Hsame. split; [exact EcA|reflexivity].
    - destruct (N.testbit L 4) eqn:E4.
      + exists oA. rewrite (Hfield F_dfwi ltac:(discriminate) E4). split; [exact EcA|reflexivity].
      + rewrite Hdef. cbn [default_info as_int]. unfold consult_val.
        destruct ((0 <=? 0)%Z && negb (0 =? Z.of_N wid)%Z) eqn:Ec; [|exists None; split; [reflexivity|discriminate]].
        change (Z.to_N 0) with 0. rewrite lex_get_nth in Eb |- *. change (N.to_nat 0) with O.
        destruct lx as [|bs0 lx']; [destruct (N.to_nat wid); discriminate|]. cbn [nth_error].
        destruct (parse ALL bs0) as [i0|] eqn:E0; [|exfalso; apply (Hlex bs0 (or_introl eq_refl)); exact E0].
        destruct (parse_subset_gen HR _ _ _ _ subset_one_all E0) as (inner & E1 & _). rewrite E1.
        eexists. split; [reflexivity|discriminate]. }
  destruct HS as (oS & EcS & HoS). rewrite EcS. cbn [option_map].
  eexists. split; [reflexivity|].
  apply accessor_ext. intros f Hf.
  assert (Hbit : N.testbit L (bit_of_fid f) = true).
  { apply Hdeps. rewrite acc_deps_fids. apply in_map. exact Hf. }
  destruct (fid_eqb f F_dicform) eqn:Ef.
  - apply fid_eqb_eq in Ef. subst f. rewrite (HoS Hbit).
    destruct oA as [x|]; cbn [with_dic]; [rewrite !set_field_same; reflexivity|]. rewrite HdS, HdA. reflexivity.
  - assert (Hne : f <> F_dicform). { intros ->. cbn in Ef. discriminate. }
    destruct oS, oA; cbn [with_dic]; rewrite ?set_field_other by exact Hne; apply Hfield; assumption.
Qed.

(* ------------------------------------------------------------------ normalize and the tokenizer's subset (finite sweeps) *)
Fixpoint below (n : nat) : list N := match n with O => [] | S k => N.of_nat k :: below k end.
Lemma below_in : forall n x, x < N.of_nat n -> In x (below n).
Proof.
  induction n as [|n IH]; intros x H; [lia|]. cbn [below].
  destruct (N.eq_dec x (N.of_nat n)) as [->|Hne]; [left; reflexivity|right; apply IH; lia].
Qed.

Definition loads_ok (s L : N) : bool :=
  (N.land L ALL =? L) &&
  forallb (fun a => implb (N.testbit s (acc_flag a)) (forallb (fun d => N.testbit L d) (acc_deps a))) all_acc.

Lemma loads_ok_spec : forall s L, loads_ok s L = true ->
  subset_of L ALL /\ forall a, N.testbit s (acc_flag a) = true -> deps_loaded L a.
Proof.
  intros s L H. unfold loads_ok in H. apply andb_prop in H. destruct H as [H1 H2]. split.
  - apply N.eqb_eq in H1. intros k Hk. rewrite <- H1 in Hk. rewrite N.land_spec in Hk.
    apply andb_prop in Hk. tauto.
  - intros a Ha d Hd. rewrite forallb_forall in H2.
    assert (Hin : In a all_acc) by (destruct a; cbn; tauto).
    specialize (H2 a Hin). rewrite Ha in H2. cbn [implb] in H2. rewrite forallb_forall in H2. apply H2. exact Hd.
Qed.

(* decidable obligation on the generated closure rules of InfoSubset::normalize *)
Definition closure_ok : bool := forallb (fun s => loads_ok s (normalize s)) (below 1024).

Lemma normalize_loads : closure_ok = true -> forall s, s < 1024 -> loads_ok s (normalize s) = true.
Proof.
  intros H s Hs. unfold closure_ok in H. rewrite forallb_forall in H. apply H. apply (below_in 1024). exact Hs.
Qed.

Theorem accessor_preserved_normalize :
  reader_facts_ok -> closure_ok = true ->
  forall lx has_syn wid s a iA,
  lex_ok lx -> s < 1024 -> N.testbit s (acc_flag a) = true ->
  get_word_info lx has_syn wid ALL = Some iA ->
  exists iS, get_word_info lx has_syn wid (normalize s) = Some iS /\ accessor a iS = accessor a iA.
Proof.
  intros HR HC lx has_syn wid s a iA Hlex Hs Ha HA.
  destruct (loads_ok_spec _ _ (normalize_loads HC s Hs)) as [H1 H2].
  apply (accessor_preserved HR lx has_syn wid (normalize s) a iA Hlex H1 (H2 a Ha) HA).
Qed.

(* both orders of set_mode / set_subset, from any initial mode: same mode, and a loaded subset that serves every
   requested accessor and the splits of the mode *)
Definition all_modes : list mode := [ModeA; ModeB; ModeC].
Definition tok_ok (s : N) (m : mode) (t : tokcfg) : bool :=
  (match t_mode t, m with ModeA, ModeA | ModeB, ModeB | ModeC, ModeC => true | _, _ => false end)
  && loads_ok s (t_subset t) && (N.land (t_subset t) (mode_bits m) =? mode_bits m).
Definition order_ok : bool :=
  forallb (fun s => forallb (fun m0 => forallb (fun m =>
     tok_ok s m (set_subset s (set_mode m (tok_create m0))) && tok_ok s m (set_mode m (set_subset s (tok_create m0))))
     all_modes) all_modes) (below 1024).

Theorem set_order_irrelevant :
  reader_facts_ok -> order_ok = true ->
  forall s m0 m t, s < 1024 ->
  t = set_subset s (set_mode m (tok_create m0)) \/ t = set_mode m (set_subset s (tok_create m0)) ->
  t_mode t = m /\
  (N.land (t_subset t) (mode_bits m) = mode_bits m) /\
  forall lx has_syn wid a iA, lex_ok lx -> N.testbit s (acc_flag a) = true ->
    get_word_info lx has_syn wid ALL = Some iA ->
    exists iS, get_word_info lx has_syn wid (t_subset t) = Some iS /\ accessor a iS = accessor a iA.
Proof.
  intros HR HO s m0 m t Hs Ht.
  unfold order_ok in HO. rewrite forallb_forall in HO. specialize (HO s (below_in 1024 s Hs)).
  rewrite forallb_forall in HO. assert (Hm0 : In m0 all_modes) by (destruct m0; cbn; tauto). specialize (HO m0 Hm0).
  rewrite forallb_forall in HO. assert (Hm : In m all_modes) by (destruct m; cbn; tauto). specialize (HO m Hm).
  apply andb_prop in HO. destruct HO as [O1 O2].
  assert (Hok : tok_ok s m t = true) by (destruct Ht as [-> | ->]; assumption).
  unfold tok_ok in Hok. apply andb_prop in Hok. destruct Hok as [Hok K3]. apply andb_prop in Hok. destruct Hok as [K1 K2].
  split; [destruct (t_mode t), m; try discriminate; reflexivity|]. split; [apply N.eqb_eq; exact K3|].
  intros lx has_syn wid a iA Hlex Ha HA.
  destruct (loads_ok_spec _ _ K2) as [H1 H2].
  apply (accessor_preserved HR lx has_syn wid (t_subset t) a iA Hlex H1 (H2 a Ha) HA).
Qed.

(* ------------------------------------------------------------------ word params *)
Lemma params_roundtrip : forall e rest,
  (-32768 <= e_left e < 32768)%Z -> (-32768 <= e_right e < 32768)%Z -> (-32768 <= e_cost e < 32768)%Z ->
  read_params (write_params e ++ rest) = Some (e_left e, e_right e, e_cost e).
Proof.
  intros e rest H1 H2 H3. unfold write_params, le16. cbn [app read_params].
  assert (K : forall z, (-32768 <= z < 32768)%Z -> to_i16 (i16_bits z mod 256 + 256 * (i16_bits z / 256 mod 256)) = z).
  { intros z Hz. rewrite <- (to_i16_bits z Hz) at 3. f_equal. pose proof (i16_bits_lt z). lia. }
  rewrite !K by assumption. reflexivity.
Qed.

(* ------------------------------------------------------------------ C05: what the accessors return for a compiled entry *)
(* the dictionary form the declared entry asks for *)
Inductive dic_spec (lx : lexicon) (wid : N) (e : entry) : text -> Prop :=
| dic_self : (to_i32 (e_dic_form e) < 0 \/ to_i32 (e_dic_form e) = Z.of_N wid)%Z -> dic_spec lx wid e (e_headword e)
| dic_ref : forall ed bd restd,
    (0 <= to_i32 (e_dic_form e))%Z -> to_i32 (e_dic_form e) <> Z.of_N wid ->
    lex_get lx (Z.to_N (to_i32 (e_dic_form e))) = Some (bd ++ restd) ->
    write_word_info ed = Some bd -> entry_ok ed = true ->
    dic_spec lx wid e (or_headword e (e_headword ed)).

Definition loaded_as (e : entry) (dicform : text) (i : winfo) : Prop :=
  accessor A_surface i = VText (e_headword e) /\
  accessor A_hwlen i = VNum (e_surface_len e) /\
  accessor A_pos i = VNum (e_pos e) /\
  accessor A_norm i = VText (or_headword e (e_norm e)) /\
  accessor A_dfwi i = VInt (to_i32 (e_dic_form e)) /\
  accessor A_dicform i = VText dicform /\
  accessor A_reading i = VText (or_headword e (e_reading e)) /\
  accessor A_a i = VArr (e_splits_a e) /\ accessor A_b i = VArr (e_splits_b e) /\
  accessor A_ws i = VArr (e_word_structure e) /\ accessor A_syn i = VArr (e_synonyms e).

Lemma or_surface_stored : forall e t i, i F_surface = VText (e_headword e) ->
  or_surface i (if text_eqb t (e_headword e) then [] else t) = or_headword e t.
Proof.
  intros e t i Hs. unfold or_surface, or_headword. rewrite Hs. cbn [as_text].
  destruct (text_eqb t (e_headword e)) eqn:E.
  - apply text_eqb_eq in E. subst t. destruct (e_headword e); reflexivity.
  - destruct t; reflexivity.
Qed.

Theorem wordinfo_roundtrip :
  FO.writer_fields = expected_writer -> reader_facts_ok -> len_thresholds_ok = true ->
  forall lx wid e b rest df,
  lex_get lx wid = Some (b ++ rest) -> entry_ok e = true -> write_word_info e = Some b ->
  dic_spec lx wid e df ->
  exists i, get_word_info lx true wid ALL = Some i /\ loaded_as e df i.
Proof.
  intros HW HR Hok lx wid e b rest df Eb He Hw Hdf.
  rewrite get_word_info_consult, Eb.
  destruct (wordinfo_roundtrip_raw HW HR Hok e b rest He Hw) as (i0 & Ep & Hst). rewrite Ep.
  rewrite consult_eq. rewrite (Hst F_dfwi). cbn [stored as_int].
  assert (Hfin : forall o, (match o with Some x => or_surface i0 (as_text x) | None => e_headword e end) = df ->
             loaded_as e df (with_dic o i0)).
  { intros o Ho.
    assert (Hget : forall f, f <> F_dicform -> with_dic o i0 f = stored e f).
    { intros f Hf. destruct o; cbn [with_dic]; rewrite ?set_field_other by exact Hf; apply Hst. }
    assert (Hs : with_dic o i0 F_surface = VText (e_headword e)) by (apply Hget; discriminate).
    unfold loaded_as. cbn [accessor].
    rewrite (Hget F_surface), (Hget F_hwlen), (Hget F_pos), (Hget F_norm), (Hget F_dfwi), (Hget F_reading),
      (Hget F_a), (Hget F_b), (Hget F_ws), (Hget F_syn) by discriminate.
    cbn [stored as_text as_num as_int as_arr].
    rewrite !(or_surface_stored e _ _ Hs).
    repeat (split; [reflexivity|]). split; [|repeat split; reflexivity].
    f_equal. rewrite <- Ho. destruct o as [x|]; cbn [with_dic].
    - rewrite set_field_same. unfold or_surface. rewrite set_field_other by discriminate. reflexivity.
    - rewrite (Hst F_dicform). cbn [stored as_text]. unfold or_surface. rewrite (Hst F_surface). reflexivity. }
  unfold consult_val. destruct Hdf as [Hself | ed bd restd H0 Hne Ebd Hwd Hed].
  - destruct ((0 <=? to_i32 (e_dic_form e))%Z && negb (to_i32 (e_dic_form e) =? Z.of_N wid)%Z) eqn:Ec; [lia|].
    cbn [option_map]. eexists. split; [reflexivity|]. apply Hfin. reflexivity.
  - destruct ((0 <=? to_i32 (e_dic_form e))%Z && negb (to_i32 (e_dic_form e) =? Z.of_N wid)%Z) eqn:Ec; [|lia].
    rewrite Ebd.
    destruct (wordinfo_roundtrip_raw HW HR Hok ed bd restd Hed Hwd) as (id & Epd & Hstd).
    destruct (parse_subset_gen HR _ _ _ _ subset_one_all Epd) as (inner & E1 & E2 & _). rewrite E1.
    cbn [option_map]. eexists. split; [reflexivity|]. apply Hfin.
    destruct (E2 F_surface ltac:(discriminate)) as [E3 _]. rewrite (E3 eq_refl), (Hstd F_surface). cbn [stored as_text].
    unfold or_surface, or_headword. rewrite (Hst F_surface). reflexivity.
Qed.
