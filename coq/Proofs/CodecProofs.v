(* Round-trip lemmas of the word-info codec (C05) *)
From Coq Require Import List NArith ZArith Bool String Lia ZifyBool ZifyNat ZifyN.
From SudachiVerif Require Import Model.Codec.
From SudachiVerif Require Generated.FieldOrder.
Import ListNotations.
Open Scope N_scope.

Arguments N.add : simpl never.
Arguments N.sub : simpl never.
Arguments N.mul : simpl never.
Arguments N.ltb : simpl never.
Arguments N.leb : simpl never.
Arguments N.eqb : simpl never.
Arguments N.lor : simpl never.
Arguments N.div : simpl never.
Arguments N.modulo : simpl never.

Ltac Zify.zify_post_hook ::= Z.div_mod_to_equations.

(* ------------------------------------------------------------------ integers *)
Lemma read_le16_le16 : forall n rest, n < 65536 -> read_le16 (le16 n ++ rest) = Some (n, rest).
Proof.
  intros n rest H. unfold le16, read_le16. cbn [app]. f_equal. f_equal. lia.
Qed.

Lemma read_le32_le32 : forall n rest, n < 4294967296 -> read_le32 (le32 n ++ rest) = Some (n, rest).
Proof.
  intros n rest H. unfold le32, read_le32. cbn [app]. f_equal. f_equal. lia.
Qed.

Lemma to_i16_bits : forall z, (-32768 <= z < 32768)%Z -> to_i16 (i16_bits z) = z.
Proof.
  intros z H. unfold to_i16, i16_bits.
  destruct (Z.to_N (z mod 65536) <? 32768) eqn:E; lia.
Qed.

Lemma i16_bits_lt : forall z, i16_bits z < 65536.
Proof. intros z. unfold i16_bits. lia. Qed.

(* ------------------------------------------------------------------ length prefix *)
(* generic in the three generated thresholds: the decidable side condition is  short_below <= long_from <= 128, len_max <= 32767 *)
Definition len_thresholds_ok : bool :=
  (FO.short_below <=? FO.long_from) && (FO.long_from <=? 128) && (FO.len_max <=? 32767).

Lemma len_prefix_roundtrip :
  len_thresholds_ok = true ->
  forall n p rest, write_len n = Some p -> read_len (p ++ rest) = Some (n, rest).
Proof.
  unfold len_thresholds_ok. intros Hok n p rest Hw.
  unfold write_len in Hw.
  destruct (FO.len_max <? n) eqn:E1; [discriminate|].
  destruct (n <? FO.short_below) eqn:E2; inversion Hw; subst p; clear Hw; unfold read_len; cbn [app].
  - destruct (FO.long_from <=? n) eqn:E3; [lia|reflexivity].
  - destruct (FO.long_from <=? n / 256 + 128) eqn:E3; [|lia].
    f_equal. f_equal. lia.
Qed.

Lemma write_len_some : forall n, n <= FO.len_max -> exists p, write_len n = Some p.
Proof.
  intros n H. unfold write_len. destruct (FO.len_max <? n) eqn:E; [lia|].
  destruct (n <? FO.short_below); eauto.
Qed.

(* ------------------------------------------------------------------ UTF-16 *)
Lemma units_lt : forall c, is_scalar c = true -> Forall (fun u => u < 65536) (units_of_cp c).
Proof.
  intros c H. unfold is_scalar in H. unfold units_of_cp.
  destruct (c <? 65536) eqn:E; repeat constructor; lia.
Qed.

Lemma decode_units_app : forall c rest, is_scalar c = true ->
  decode_units (units_of_cp c ++ rest) = option_map (cons c) (decode_units rest).
Proof.
  intros c rest H. unfold is_scalar in H. unfold units_of_cp.
  destruct (c <? 65536) eqn:E; cbn [app decode_units].
  - destruct ((c <? 55296) || (57343 <? c)) eqn:E2; [reflexivity|lia].
  - set (h := 55296 + (c - 65536) / 1024). set (l := 56320 + (c - 65536) mod 1024).
    assert (Hh : 55296 <= h < 56320) by (unfold h; lia).
    assert (Hl : 56320 <= l <= 57343) by (unfold l; lia).
    destruct ((h <? 55296) || (57343 <? h)) eqn:E2; [lia|].
    destruct (56320 <=? h) eqn:E3; [lia|].
    destruct ((56320 <=? l) && (l <=? 57343)) eqn:E4; [|lia].
    replace (65536 + (h - 55296) * 1024 + (l - 56320)) with c by (unfold h, l; lia).
    reflexivity.
Qed.

Lemma utf16_roundtrip : forall s, forallb is_scalar s = true -> decode_units (utf16_units s) = Some s.
Proof.
  induction s as [|c s IH]; intros H; [reflexivity|].
  cbn [forallb] in H. apply andb_prop in H. destruct H as [Hc Hs].
  unfold utf16_units. cbn [flat_map]. rewrite decode_units_app by exact Hc.
  fold (utf16_units s). rewrite IH by exact Hs. reflexivity.
Qed.

Lemma utf16_units_lt : forall s, forallb is_scalar s = true -> Forall (fun u => u < 65536) (utf16_units s).
Proof.
  induction s as [|c s IH]; intros H; [constructor|].
  cbn [forallb] in H. apply andb_prop in H. destruct H as [Hc Hs].
  unfold utf16_units. cbn [flat_map]. apply Forall_app. split; [apply units_lt; exact Hc|apply IH; exact Hs].
Qed.

Lemma read_units_bytes : forall us rest, Forall (fun u => u < 65536) us ->
  read_units (List.length us) (units_bytes us ++ rest) = Some (us, rest).
Proof.
  induction us as [|u us IH]; intros rest H; [reflexivity|].
  inversion H as [|? ? Hu Hus]; subst.
  unfold units_bytes. cbn [flat_map List.length]. unfold le16 at 1. cbn [app read_units].
  fold (units_bytes us). rewrite IH by exact Hus.
  f_equal. f_equal. f_equal. lia.
Qed.

Lemma string_roundtrip :
  len_thresholds_ok = true ->
  forall s b rest, forallb is_scalar s = true -> write_string s = Some b -> read_string (b ++ rest) = Some (s, rest).
Proof.
  intros Hok s b rest Hs Hw. unfold write_string in Hw.
  destruct (FO.utf8_max <? utf8_len s); [discriminate|].
  destruct (write_len (N.of_nat (List.length (utf16_units s)))) as [p|] eqn:Hl; [|discriminate].
  inversion Hw; subst b; clear Hw.
  unfold read_string. rewrite <- app_assoc.
  rewrite (len_prefix_roundtrip Hok _ _ _ Hl). rewrite Nat2N.id.
  rewrite read_units_bytes by (apply utf16_units_lt; exact Hs).
  rewrite utf16_roundtrip by exact Hs. reflexivity.
Qed.

(* skip = parse width *)
Lemma skip_string_width : forall bs s rest, read_string bs = Some (s, rest) -> skip_string bs = Some rest.
Proof.
  intros bs s rest H. unfold read_string in H. unfold skip_string.
  destruct (read_len bs) as [[n r]|]; [|discriminate].
  destruct (read_units (N.to_nat n) r) as [[us r']|]; [|discriminate].
  destruct (decode_units us); [|discriminate]. inversion H; reflexivity.
Qed.

Lemma text_eqb_eq : forall a b, text_eqb a b = true <-> a = b.
Proof.
  induction a as [|x a IH]; destruct b as [|y b]; cbn; split; intros H; try reflexivity; try discriminate.
  - apply andb_prop in H. destruct H as [H1 H2]. apply N.eqb_eq in H1. apply IH in H2. subst. reflexivity.
  - inversion H; subst. apply andb_true_intro. split; [apply N.eqb_refl|apply IH; reflexivity].
Qed.

(* ------------------------------------------------------------------ u32 arrays *)
Lemma read_u32s_le32 : forall xs rest, Forall (fun x => x < 4294967296) xs ->
  read_u32s (List.length xs) (flat_map le32 xs ++ rest) = Some (xs, rest).
Proof.
  induction xs as [|x xs IH]; intros rest H; [reflexivity|].
  inversion H as [|? ? Hx Hxs]; subst.
  cbn [flat_map List.length read_u32s]. rewrite <- app_assoc.
  rewrite read_le32_le32 by exact Hx. rewrite IH by exact Hxs. reflexivity.
Qed.

Lemma u32arr_roundtrip : forall xs b rest, Forall (fun x => x < 4294967296) xs ->
  write_u32_array xs = Some b -> read_u32_array (b ++ rest) = Some (xs, rest).
Proof.
  intros xs b rest Hx Hw. unfold write_u32_array in Hw.
  destruct (FO.arr_max <? N.of_nat (List.length xs)); [discriminate|].
  inversion Hw; subst b. cbn [app read_u32_array]. rewrite Nat2N.id. apply read_u32s_le32. exact Hx.
Qed.

Lemma read_u32s_skip : forall n bs xs rest, read_u32s n bs = Some (xs, rest) ->
  (4 * n <= List.length bs)%nat /\ rest = skipn (4 * n) bs.
Proof.
  induction n as [|n IH]; intros bs xs rest H.
  - cbn in H. inversion H. split; [lia|reflexivity].
  - cbn [read_u32s] in H. unfold read_le32 in H.
    destruct bs as [|b0 [|b1 [|b2 [|b3 r]]]]; try discriminate.
    destruct (read_u32s n r) as [[ys r']|] eqn:E; [|discriminate].
    inversion H; subst. apply IH in E. destruct E as [E1 E2].
    split; [cbn [List.length]; lia|].
    replace (4 * S n)%nat with (S (S (S (S (4 * n))))) by lia. cbn [skipn]. exact E2.
Qed.

Lemma skip_u32_array_width : forall bs xs rest, read_u32_array bs = Some (xs, rest) -> skip_u32_array bs = Some rest.
Proof.
  intros bs xs rest H. destruct bs as [|n r]; [discriminate|].
  cbn [read_u32_array] in H. apply read_u32s_skip in H. destruct H as [H1 H2].
  unfold skip_u32_array. destruct (N.of_nat (List.length r) <? 4 * n) eqn:E; [lia|].
  f_equal. rewrite H2. f_equal. lia.
Qed.

(* ------------------------------------------------------------------ whole word info *)
Lemma write_fields_cons : forall w ws e b, write_fields (w :: ws) e = Some b ->
  exists a c, write_field e w = Some a /\ write_fields ws e = Some c /\ b = a ++ c.
Proof.
  intros w ws e b H. cbn [write_fields] in H.
  destruct (write_field e w) as [a|]; [|discriminate].
  destruct (write_fields ws e) as [c|]; [|discriminate].
  inversion H. eauto.
Qed.

Definition explicit_rs : list rfield :=
  [ mkRF F_surface 0 (fun bs => option_map (fun p => (VText (fst p), snd p)) (read_string bs)) (Some skip_string);
    mkRF F_hwlen 1 (fun bs => option_map (fun p => (VNum (fst p), snd p)) (read_len bs)) None;
    mkRF F_pos 2 (fun bs => option_map (fun p => (VNum (fst p), snd p)) (read_le16 bs)) None;
    mkRF F_norm 3 (fun bs => option_map (fun p => (VText (fst p), snd p)) (read_string bs)) (Some skip_string);
    mkRF F_dfwi 4 (fun bs => option_map (fun p => (VInt (to_i32 (fst p)), snd p)) (read_le32 bs)) None;
    mkRF F_reading 5 (fun bs => option_map (fun p => (VText (fst p), snd p)) (read_string bs)) (Some skip_string);
    mkRF F_a 6 (fun bs => option_map (fun p => (VArr (fst p), snd p)) (read_u32_array bs)) (Some skip_u32_array);
    mkRF F_b 7 (fun bs => option_map (fun p => (VArr (fst p), snd p)) (read_u32_array bs)) (Some skip_u32_array);
    mkRF F_ws 8 (fun bs => option_map (fun p => (VArr (fst p), snd p)) (read_u32_array bs)) (Some skip_u32_array);
    mkRF F_syn 9 (fun bs => option_map (fun p => (VArr (fst p), snd p)) (read_u32_array bs)) (Some skip_u32_array) ].

Lemma reader_explicit : resolve_rfields expected_bits expected_reader = Some explicit_rs.
Proof. reflexivity. Qed.

Definition reader_facts_ok : Prop :=
  FO.reader_fields = expected_reader /\ FO.subset_bits = expected_bits.

Lemma reader_is_explicit : reader_facts_ok -> reader = Some explicit_rs.
Proof. intros [H1 H2]. unfold reader. rewrite H1, H2. exact reader_explicit. Qed.

Lemma parse_step_heavy : forall r rs flds info bs sk v next,
  flds <> 0 -> rf_skip r = Some sk -> N.testbit flds (rf_bit r) = true -> rf_parse r bs = Some (v, next) ->
  parse_fields (r :: rs) flds info bs = parse_fields rs (N.clearbit flds (rf_bit r)) (set_field (rf_fid r) v info) next.
Proof.
  intros r rs flds info bs sk v next H0 Hs Ht Hp. cbn [parse_fields].
  destruct (flds =? 0) eqn:E; [apply N.eqb_eq in E; contradiction|].
  rewrite Hs, Ht, Hp. reflexivity.
Qed.

Lemma parse_step_light : forall r rs flds info bs v next,
  flds <> 0 -> rf_skip r = None -> rf_parse r bs = Some (v, next) ->
  parse_fields (r :: rs) flds info bs = parse_fields rs (N.clearbit flds (rf_bit r)) (set_field (rf_fid r) v info) next.
Proof.
  intros r rs flds info bs v next H0 Hs Hp. cbn [parse_fields].
  destruct (flds =? 0) eqn:E; [apply N.eqb_eq in E; contradiction|].
  rewrite Hs, Hp. reflexivity.
Qed.

Lemma forallb_lt_Forall : forall k xs, forallb (fun x => x <? k) xs = true -> Forall (fun x => x < k) xs.
Proof.
  intros k xs H. apply Forall_forall. intros x Hx.
  rewrite forallb_forall in H. specialize (H x Hx). lia.
Qed.

Lemma string_or_empty_roundtrip :
  len_thresholds_ok = true ->
  forall s o b rest, forallb is_scalar s = true -> write_string_or_empty s o = Some b ->
  read_string (b ++ rest) = Some ((if text_eqb s o then [] else s), rest).
Proof.
  intros Hok s o b rest Hs Hw. unfold write_string_or_empty in Hw.
  destruct (text_eqb s o); apply (string_roundtrip Hok); auto.
Qed.

(* the raw fields stored for an entry *)
Definition stored (e : entry) : winfo := fun f =>
  match f with
  | F_surface => VText (e_headword e)
  | F_hwlen => VNum (e_surface_len e)
  | F_pos => VNum (e_pos e)
  | F_norm => VText (if text_eqb (e_norm e) (e_headword e) then [] else e_norm e)
  | F_dfwi => VInt (to_i32 (e_dic_form e))
  | F_dicform => VText []
  | F_reading => VText (if text_eqb (e_reading e) (e_headword e) then [] else e_reading e)
  | F_a => VArr (e_splits_a e)
  | F_b => VArr (e_splits_b e)
  | F_ws => VArr (e_word_structure e)
  | F_syn => VArr (e_synonyms e)
  end.

Lemma wordinfo_roundtrip_raw :
  FO.writer_fields = expected_writer -> reader_facts_ok -> len_thresholds_ok = true ->
  forall e b rest, entry_ok e = true -> write_word_info e = Some b ->
  exists i, parse ALL (b ++ rest) = Some i /\ forall f, i f = stored e f.
Proof.
  intros HW HR Hok e b rest He Hw.
  unfold write_word_info in Hw. rewrite HW in Hw. unfold expected_writer in Hw.
  unfold entry_ok in He.
  apply andb_prop in He; destruct He as [He Ksyn]. apply andb_prop in He; destruct He as [He Kws].
  apply andb_prop in He; destruct He as [He Kb]. apply andb_prop in He; destruct He as [He Ka].
  apply andb_prop in He; destruct He as [He Kdf]. apply andb_prop in He; destruct He as [He Kpos].
  apply andb_prop in He; destruct He as [He Krd]. apply andb_prop in He; destruct He as [Khw Knm].
  apply write_fields_cons in Hw. destruct Hw as (b1 & c1 & W1 & Hw & ->).
  apply write_fields_cons in Hw. destruct Hw as (b2 & c2 & W2 & Hw & ->).
  apply write_fields_cons in Hw. destruct Hw as (b3 & c3 & W3 & Hw & ->).
  apply write_fields_cons in Hw. destruct Hw as (b4 & c4 & W4 & Hw & ->).
  apply write_fields_cons in Hw. destruct Hw as (b5 & c5 & W5 & Hw & ->).
  apply write_fields_cons in Hw. destruct Hw as (b6 & c6 & W6 & Hw & ->).
  apply write_fields_cons in Hw. destruct Hw as (b7 & c7 & W7 & Hw & ->).
  apply write_fields_cons in Hw. destruct Hw as (b8 & c8 & W8 & Hw & ->).
  apply write_fields_cons in Hw. destruct Hw as (b9 & c9 & W9 & Hw & ->).
  apply write_fields_cons in Hw. destruct Hw as (b10 & c10 & W10 & Hw & ->).
  cbn [write_fields] in Hw. inversion Hw; subst c10; clear Hw.
  change (write_string (e_headword e) = Some b1) in W1.
  change (write_len (e_surface_len e) = Some b2) in W2.
  change (Some (le16 (e_pos e)) = Some b3) in W3.
  change (write_string_or_empty (e_norm e) (e_headword e) = Some b4) in W4.
  change (Some (le32 (e_dic_form e)) = Some b5) in W5.
  change (write_string_or_empty (e_reading e) (e_headword e) = Some b6) in W6.
  change (write_u32_array (e_splits_a e) = Some b7) in W7.
  change (write_u32_array (e_splits_b e) = Some b8) in W8.
  change (write_u32_array (e_word_structure e) = Some b9) in W9.
  change (write_u32_array (e_synonyms e) = Some b10) in W10.
  inversion W3; subst b3; clear W3. inversion W5; subst b5; clear W5.
  unfold parse. rewrite (reader_is_explicit HR). unfold explicit_rs, ALL.
  repeat rewrite <- app_assoc. rewrite app_nil_l.
  erewrite parse_step_heavy; [| vm_compute; discriminate | reflexivity | reflexivity
    | cbn [rf_parse]; rewrite (string_roundtrip Hok _ _ _ Khw W1); cbn [option_map fst snd]; reflexivity ].
  cbn [fst snd].
  erewrite parse_step_light; [| vm_compute; discriminate | reflexivity
    | cbn [rf_parse]; rewrite (len_prefix_roundtrip Hok _ _ _ W2); cbn [option_map fst snd]; reflexivity ].
  cbn [fst snd].
  erewrite parse_step_light; [| vm_compute; discriminate | reflexivity
    | cbn [rf_parse]; rewrite read_le16_le16 by lia; cbn [option_map fst snd]; reflexivity ].
  cbn [fst snd].
  erewrite parse_step_heavy; [| vm_compute; discriminate | reflexivity | reflexivity
    | cbn [rf_parse]; rewrite (string_or_empty_roundtrip Hok _ _ _ _ Knm W4); cbn [option_map fst snd]; reflexivity ].
  cbn [fst snd].
  erewrite parse_step_light; [| vm_compute; discriminate | reflexivity
    | cbn [rf_parse]; rewrite read_le32_le32 by lia; cbn [option_map fst snd]; reflexivity ].
  cbn [fst snd].
  erewrite parse_step_heavy; [| vm_compute; discriminate | reflexivity | reflexivity
    | cbn [rf_parse]; rewrite (string_or_empty_roundtrip Hok _ _ _ _ Krd W6); cbn [option_map fst snd]; reflexivity ].
  cbn [fst snd].
  erewrite parse_step_heavy; [| vm_compute; discriminate | reflexivity | reflexivity
    | cbn [rf_parse]; rewrite (u32arr_roundtrip _ _ _ (forallb_lt_Forall _ _ Ka) W7); cbn [option_map fst snd]; reflexivity ].
  cbn [fst snd].
  erewrite parse_step_heavy; [| vm_compute; discriminate | reflexivity | reflexivity
    | cbn [rf_parse]; rewrite (u32arr_roundtrip _ _ _ (forallb_lt_Forall _ _ Kb) W8); cbn [option_map fst snd]; reflexivity ].
  cbn [fst snd].
  erewrite parse_step_heavy; [| vm_compute; discriminate | reflexivity | reflexivity
    | cbn [rf_parse]; rewrite (u32arr_roundtrip _ _ _ (forallb_lt_Forall _ _ Kws) W9); cbn [option_map fst snd]; reflexivity ].
  cbn [fst snd].
  erewrite parse_step_heavy; [| vm_compute; discriminate | reflexivity | reflexivity
    | cbn [rf_parse]; rewrite (u32arr_roundtrip _ _ _ (forallb_lt_Forall _ _ Ksyn) W10); cbn [option_map fst snd]; reflexivity ].
  cbn [fst snd parse_fields]. eexists. split; [reflexivity|].
  intros f. destruct f; reflexivity.
Qed.

(* ------------------------------------------------------------------ subset parsing (C11) *)
Definition subset_of (a b : N) : Prop := forall k, N.testbit a k = true -> N.testbit b k = true.

Lemma subset_of_zero : forall a, subset_of a 0 -> a = 0.
Proof.
  intros a H. apply N.bits_inj_0. intros n. destruct (N.testbit a n) eqn:E; [|reflexivity].
  apply H in E. rewrite N.bits_0 in E. discriminate.
Qed.

Lemma subset_of_clear : forall a b k, subset_of a b -> subset_of (N.clearbit a k) (N.clearbit b k).
Proof.
  intros a b k H n. rewrite !N.clearbit_eqb. intros E. apply andb_prop in E. destruct E as [E1 E2].
  rewrite (H _ E1), E2. reflexivity.
Qed.

Lemma subset_of_clear_r : forall a b k, subset_of a b -> N.testbit a k = false -> subset_of a (N.clearbit b k).
Proof.
  intros a b k H Hk n E. rewrite N.clearbit_eqb. rewrite (H _ E).
  destruct (k =? n) eqn:E2; [|reflexivity]. apply N.eqb_eq in E2. subst. congruence.
Qed.

Lemma fid_eqb_eq : forall a b, fid_eqb a b = true <-> a = b.
Proof. destruct a, b; cbn; split; intros H; try reflexivity; try discriminate. Qed.

Lemma set_field_same : forall f v i, set_field f v i f = v.
Proof. intros. unfold set_field. destruct (fid_eqb f f) eqn:E; [reflexivity|]. destruct f; discriminate. Qed.
Lemma set_field_other : forall f g v i, g <> f -> set_field f v i g = i g.
Proof.
  intros. unfold set_field. destruct (fid_eqb g f) eqn:E; [|reflexivity].
  apply fid_eqb_eq in E. contradiction.
Qed.

(* fields that are not a target of the remaining reader fields keep their value *)
Lemma parse_fields_frame : forall rs fl i0 bs i, parse_fields rs fl i0 bs = Some i ->
  forall f, ~ In f (map rf_fid rs) -> i f = i0 f.
Proof.
  induction rs as [|r rs IH]; intros fl i0 bs i H f Hf; cbn [parse_fields] in H.
  - inversion H. reflexivity.
  - cbn [map In] in Hf.
    destruct (fl =? 0); [inversion H; reflexivity|].
    assert (Hstep : forall v next fl', parse_fields rs fl' (set_field (rf_fid r) v i0) next = Some i -> i f = i0 f).
    { intros v next fl' E. rewrite (IH _ _ _ _ E f) by tauto. apply set_field_other. intros ->. tauto. }
    destruct (rf_skip r) as [sk|].
    + destruct (N.testbit fl (rf_bit r)).
      * destruct (rf_parse r bs) as [[v next]|]; [|discriminate]. eapply Hstep; eassumption.
      * destruct (sk bs) as [next|]; [|discriminate]. apply (IH _ _ _ _ H). tauto.
    + destruct (rf_parse r bs) as [[v next]|]; [|discriminate]. eapply Hstep; eassumption.
Qed.

(* a heavy field that is not requested keeps its initial value *)
Lemma parse_fields_unrequested : forall rs, NoDup (map rf_bit rs) ->
  forall fl i0 bs i, parse_fields rs fl i0 bs = Some i ->
  forall f, (forall r, In r rs -> rf_fid r = f -> rf_skip r <> None /\ N.testbit fl (rf_bit r) = false) -> i f = i0 f.
Proof.
  induction rs as [|r rs IH]; intros ND fl i0 bs i H f Hf; cbn [parse_fields] in H.
  - inversion H. reflexivity.
  - cbn [map] in ND. inversion ND as [|? ? Hnot ND']; subst.
    destruct (fl =? 0); [inversion H; reflexivity|].
    assert (Hset : forall v next, N.testbit fl (rf_bit r) = true \/ rf_skip r = None ->
               parse_fields rs (N.clearbit fl (rf_bit r)) (set_field (rf_fid r) v i0) next = Some i -> i f = i0 f).
    { intros v next Hreq E.
      assert (Hne : rf_fid r <> f).
      { intros Heq. destruct (Hf r (or_introl eq_refl) Heq) as [K1 K2]. destruct Hreq as [K|K]; congruence. }
      rewrite (IH ND' _ _ _ _ E f).
      - apply set_field_other. congruence.
      - intros r' Hin Heq. destruct (Hf r' (or_intror Hin) Heq) as [K1 K2]. split; [exact K1|].
        rewrite N.clearbit_neq; [exact K2|]. intros Hb. apply Hnot. rewrite Hb. apply in_map. exact Hin. }
    destruct (rf_skip r) as [sk|] eqn:Es.
    + destruct (N.testbit fl (rf_bit r)) eqn:Et.
      * destruct (rf_parse r bs) as [[v next]|]; [|discriminate]. eapply Hset; eauto.
      * destruct (sk bs) as [next|]; [|discriminate]. apply (IH ND' _ _ _ _ H).
        intros r' Hin Heq. apply Hf; [right; exact Hin|exact Heq].
    + destruct (rf_parse r bs) as [[v next]|]; [|discriminate]. eapply Hset; eauto.
Qed.

Definition skips_ok (rs : list rfield) : Prop :=
  forall r sk bs v next, In r rs -> rf_skip r = Some sk -> rf_parse r bs = Some (v, next) -> sk bs = Some next.

(* the heart of C11: whatever is requested comes out as in a load of a superset;
   anything else is either as in that load or untouched *)
Lemma parse_fields_subset : forall rs,
  NoDup (map rf_bit rs) -> NoDup (map rf_fid rs) -> skips_ok rs ->
  forall fA fS iA0 iS0 bs iA,
  subset_of fS fA ->
  parse_fields rs fA iA0 bs = Some iA ->
  exists iS, parse_fields rs fS iS0 bs = Some iS /\
    (forall r, In r rs -> (N.testbit fS (rf_bit r) = true -> iS (rf_fid r) = iA (rf_fid r)) /\
                          (iS (rf_fid r) = iA (rf_fid r) \/ iS (rf_fid r) = iS0 (rf_fid r))).
Proof.
  induction rs as [|r rs IH]; intros NDb NDf Hsk fA fS iA0 iS0 bs iA Hsub HA.
  - exists iS0. split; [reflexivity|]. intros r [].
  - cbn [map] in NDb, NDf. inversion NDb as [|? ? Hnb NDb']; subst. inversion NDf as [|? ? Hnf NDf']; subst.
    assert (Hsk' : skips_ok rs). { intros r' sk bs' v next Hin. apply Hsk. right. exact Hin. }
    cbn [parse_fields] in HA |- *.
    destruct (fA =? 0) eqn:EA.
    { apply N.eqb_eq in EA. subst fA. apply subset_of_zero in Hsub. subst fS. rewrite N.eqb_refl.
      exists iS0. split; [reflexivity|]. intros r' _. split; [|right; reflexivity].
      intros Ht. rewrite N.bits_0 in Ht. discriminate. }
    destruct (fS =? 0) eqn:ES.
    { apply N.eqb_eq in ES. subst fS. exists iS0. split; [reflexivity|].
      intros r' _. split; [|right; reflexivity]. intros Ht. rewrite N.bits_0 in Ht. discriminate. }
    assert (Hne : forall r', In r' rs -> rf_fid r' <> rf_fid r).
    { intros r' Hin Heq. apply Hnf. rewrite <- Heq. apply in_map. exact Hin. }
    (* both runs parse r with the same value v and continue at next *)
    assert (Hboth : forall v next,
              parse_fields rs (N.clearbit fA (rf_bit r)) (set_field (rf_fid r) v iA0) next = Some iA ->
              exists iS, parse_fields rs (N.clearbit fS (rf_bit r)) (set_field (rf_fid r) v iS0) next = Some iS /\
                forall r', In r' (r :: rs) -> (N.testbit fS (rf_bit r') = true -> iS (rf_fid r') = iA (rf_fid r')) /\
                            (iS (rf_fid r') = iA (rf_fid r') \/ iS (rf_fid r') = iS0 (rf_fid r'))).
    { intros v next E.
      destruct (IH NDb' NDf' Hsk' _ (N.clearbit fS (rf_bit r)) _ (set_field (rf_fid r) v iS0) _ _ (subset_of_clear _ _ _ Hsub) E)
        as (iS & E1 & E2).
      exists iS. split; [exact E1|]. intros r' [<-|Hin].
      - assert (K : iS (rf_fid r) = iA (rf_fid r)).
        { rewrite (parse_fields_frame _ _ _ _ _ E1 _ Hnf), (parse_fields_frame _ _ _ _ _ E _ Hnf).
          rewrite !set_field_same. reflexivity. }
        split; [intros _; exact K|left; exact K].
      - destruct (E2 r' Hin) as [E3 E4]. split.
        + intros Ht. apply E3. rewrite N.clearbit_neq; [exact Ht|].
          intros Hb. apply Hnb. rewrite Hb. apply in_map. exact Hin.
        + destruct E4 as [E4|E4]; [left; exact E4|right]. rewrite E4. apply set_field_other. apply Hne. exact Hin. }
    (* the S run skips r *)
    assert (Hskip : forall fA' iA0' next,
              subset_of fS fA' -> N.testbit fS (rf_bit r) = false ->
              parse_fields rs fA' iA0' next = Some iA ->
              exists iS, parse_fields rs fS iS0 next = Some iS /\
                forall r', In r' (r :: rs) -> (N.testbit fS (rf_bit r') = true -> iS (rf_fid r') = iA (rf_fid r')) /\
                            (iS (rf_fid r') = iA (rf_fid r') \/ iS (rf_fid r') = iS0 (rf_fid r'))).
    { intros fA' iA0' next Hsub' EtS E.
      destruct (IH NDb' NDf' Hsk' _ fS _ iS0 _ _ Hsub' E) as (iS & E1 & E2).
      exists iS. split; [exact E1|]. intros r' [<-|Hin]; [|apply E2; exact Hin].
      split; [congruence|right]. apply (parse_fields_frame _ _ _ _ _ E1 _ Hnf). }
    destruct (rf_skip r) as [sk|] eqn:Es.
    + destruct (N.testbit fA (rf_bit r)) eqn:EtA.
      * destruct (rf_parse r bs) as [[v next]|] eqn:Ep; [|discriminate].
        destruct (N.testbit fS (rf_bit r)) eqn:EtS.
        -- apply Hboth. exact HA.
        -- rewrite (Hsk r sk bs v next (or_introl eq_refl) Es Ep).
           eapply Hskip; [apply subset_of_clear_r; eassumption|first [exact EtS|reflexivity]|exact HA].
      * destruct (sk bs) as [next|] eqn:Ek; [|discriminate].
        destruct (N.testbit fS (rf_bit r)) eqn:EtS; [apply Hsub in EtS; congruence|].
        eapply Hskip; [exact Hsub|first [exact EtS|reflexivity]|exact HA].
    + destruct (rf_parse r bs) as [[v next]|] eqn:Ep; [|discriminate].
      apply Hboth. exact HA.
Qed.

Lemma explicit_nodup_bits : NoDup (map rf_bit explicit_rs).
Proof. cbn. repeat (constructor; [cbn; intros H; repeat (destruct H as [H|H]; [discriminate|]); exact H|]). constructor. Qed.
Lemma explicit_nodup_fids : NoDup (map rf_fid explicit_rs).
Proof. cbn. repeat (constructor; [cbn; intros H; repeat (destruct H as [H|H]; [discriminate|]); exact H|]). constructor. Qed.

Lemma option_map_some : forall {A B} (f : A -> B) o y, option_map f o = Some y -> exists x, o = Some x /\ y = f x.
Proof. intros A B f [x|] y H; [inversion H; eauto|discriminate]. Qed.

Lemma explicit_skips_ok : skips_ok explicit_rs.
Proof.
  intros r sk bs v next Hin Hs Hp. unfold explicit_rs in Hin. cbn [In] in Hin.
  repeat (destruct Hin as [<-|Hin]; [cbn [rf_skip rf_parse] in Hs, Hp; try discriminate; inversion Hs; subst sk;
    apply option_map_some in Hp; destruct Hp as ([x y] & Hp & Hq); inversion Hq; subst;
    first [eapply skip_string_width; exact Hp | eapply skip_u32_array_width; exact Hp] |]).
  contradiction.
Qed.

Definition idx_of_fid (f : fid) : nat :=
  match f with
  | F_surface => 0 | F_hwlen => 1 | F_pos => 2 | F_norm => 3 | F_dfwi => 4 | F_dicform => 0
  | F_reading => 5 | F_a => 6 | F_b => 7 | F_ws => 8 | F_syn => 9
  end%nat.
Lemma target_of_fid : forall f, f <> F_dicform -> exists r, In r explicit_rs /\ rf_fid r = f /\ rf_bit r = bit_of_fid f.
Proof.
  intros f Hf. exists (nth (idx_of_fid f) explicit_rs (mkRF F_surface 0 (fun _ => None) None)).
  destruct f; try contradiction; (split; [cbn; tauto|split; reflexivity]).
Qed.

(* parse level: C11 subset_preserves_requested *)
Lemma subset_preserves_requested :
  reader_facts_ok -> forall s bs iA, subset_of s ALL -> parse ALL bs = Some iA ->
  exists iS, parse s bs = Some iS /\
    (forall f, f <> F_dicform -> (N.testbit s (bit_of_fid f) = true -> iS f = iA f) /\ (iS f = iA f \/ iS f = default_info f))
    /\ iS F_dicform = default_info F_dicform /\ iA F_dicform = default_info F_dicform.
Proof.
  intros HR s bs iA Hsub HA. unfold parse in *. rewrite (reader_is_explicit HR) in *.
  destruct (parse_fields_subset _ explicit_nodup_bits explicit_nodup_fids explicit_skips_ok _ s _ default_info _ _ Hsub HA)
    as (iS & E1 & E2).
  exists iS. split; [exact E1|]. split; [|split].
  - intros f Hf. destruct (target_of_fid f Hf) as (r & Hin & <- & <-). apply E2. exact Hin.
  - apply (parse_fields_frame _ _ _ _ _ E1). cbn. intros H. repeat (destruct H as [H|H]; [discriminate|]). exact H.
  - apply (parse_fields_frame _ _ _ _ _ HA). cbn. intros H. repeat (destruct H as [H|H]; [discriminate|]). exact H.
Qed.
