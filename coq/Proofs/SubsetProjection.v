(* C11 through the Python entry point Dictionary.create(fields=F, projection=P): the requested subset contains F and what P
   reads, and the projected surface is the one a tokenizer with all fields (fields=None) computes.  Builder G's model of the
   binding (Model/PyProjection.v) and its theorem projection_served_for_every_field_set (Proofs/PyProjectionProofs.v, which rests
   on this property's accessor_preserved_normalize) do the work; here they are put in C11's words. *)
From Coq Require Import List NArith ZArith Bool.
From SudachiVerif Require Import Model.Codec Model.PyProjection Proofs.CodecProofs Proofs.PyProjectionProofs.
Open Scope N_scope.

(* what create() hands to set_subset contains every requested field and every field the projection requires *)
Lemma create_subset_contains : forall F k b,
  N.testbit F b = true \/ N.testbit (required_subset k) b = true -> N.testbit (create_subset F (Some k)) b = true.
Proof.
  intros F k b H. unfold create_subset. rewrite N.lor_spec. destruct H as [H|H]; rewrite H; [reflexivity|apply orb_true_r].
Qed.

Lemma create_subset_default : forall F b, N.testbit F b = true -> N.testbit (create_subset F None) b = true.
Proof. intros F b H. unfold create_subset. rewrite N.lor_0_r. exact H. Qed.

(* every requested accessor of a tokenizer created with (F, P) reads what it reads after a full load *)
Lemma create_serves_requested_fields :
  reader_facts_ok -> closure_ok = true -> py_facts_ok ->
  forall lx has_syn wid F k a iA, lex_ok lx -> F < 1024 -> N.testbit F (acc_flag a) = true ->
  get_word_info lx has_syn wid ALL = Some iA ->
  exists iS, get_word_info lx has_syn wid (loaded_subset F (Some k)) = Some iS /\ accessor a iS = accessor a iA.
Proof.
  intros HR HC HF lx has_syn wid F k a iA Hlex HFlt Hbit HA. unfold loaded_subset.
  apply (accessor_preserved_normalize HR HC); try assumption.
  - unfold create_subset. apply lor_lt_1024; [assumption|apply required_lt_1024; assumption].
  - apply create_subset_contains. left. exact Hbit.
Qed.

(* the projected surface under (F, P) is the projected surface under (fields=None, P) *)
Lemma projection_same_as_all_fields :
  py_facts_ok -> reader_facts_ok -> closure_ok = true ->
  forall lx has_syn wid F k pl surf iA iS iN, lex_ok lx -> F < 1024 ->
  get_word_info lx has_syn wid ALL = Some iA ->
  get_word_info lx has_syn wid (loaded_subset F (Some k)) = Some iS ->
  get_word_info lx has_syn wid (loaded_subset ALL (Some k)) = Some iN ->
  project pl k (view_of surf iS) = project pl k (view_of surf iN).
Proof.
  intros HF HR HC lx has_syn wid F k pl surf iA iS iN Hlex HFlt HA HS HN.
  destruct (projection_served_for_every_field_set HF HR HC lx has_syn wid F k pl surf iA Hlex HFlt HA) as [H1 _].
  destruct (projection_served_for_every_field_set HF HR HC lx has_syn wid ALL k pl surf iA Hlex ltac:(reflexivity) HA) as [H2 _].
  rewrite (H1 _ HS), (H2 _ HN). reflexivity.
Qed.
