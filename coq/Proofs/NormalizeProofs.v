(* Lemmas about Model/Normalize.v (C07). *)
From Coq Require Import List NArith Bool Arith Lia.
From SudachiVerif Require Generated.NormalizeFacts.
From SudachiVerif Require Import Model.Harness Model.Normalize.
Import ListNotations.
Local Open Scope nat_scope.

(* ------------------------------------------------------------------ small list facts *)
Lemma text_eqb_eq : forall a b : text, text_eqb a b = true <-> a = b.
Proof.
  unfold text_eqb. induction a as [|x a IH]; destruct b as [|y b]; cbn [list_eqb]; split; intro H;
    try reflexivity; try discriminate.
  - apply andb_true_iff in H. destruct H as [H1 H2]. apply N.eqb_eq in H1. apply IH in H2. congruence.
  - inversion H; subst. apply andb_true_iff. split; [apply N.eqb_refl | apply IH; reflexivity].
Qed.

Lemma text_eqb_false : forall a b : text, text_eqb a b = false -> a <> b.
Proof. intros a b H E. apply text_eqb_eq in E. congruence. Qed.

Lemma skipn_pre : forall (pre x : text), skipn (length pre) (pre ++ x) = x.
Proof. induction pre; intros; cbn; auto. Qed.

Lemma slice_app : forall (pre t : text) k, slice (pre ++ t) (length pre) (length pre + k) = firstn k t.
Proof.
  intros. unfold slice. rewrite skipn_pre. replace (length pre + k - length pre) with k by lia. reflexivity.
Qed.

Lemma slice_cons : forall (pre t' : text) c s, S (length pre) <= s ->
  slice (pre ++ c :: t') (length pre) s = c :: slice (pre ++ c :: t') (S (length pre)) s.
Proof.
  intros pre t' c s Hs. unfold slice. rewrite skipn_pre.
  replace (pre ++ c :: t') with ((pre ++ [c]) ++ t') by (rewrite <- app_assoc; reflexivity).
  replace (S (length pre)) with (length (pre ++ [c])) by (rewrite app_length; cbn; lia).
  rewrite skipn_pre. rewrite app_length; cbn [length].
  replace (s - length pre) with (S (s - (length pre + 1))) by lia. reflexivity.
Qed.

(* ------------------------------------------------------------------ edit resolution *)
Lemma resolve_some_edits_ok : forall t es s r, resolve t s es = Some r -> edits_ok_from s (length t) es = true.
Proof.
  intros t. induction es as [|e es IH]; intros s r H; cbn [resolve edits_ok_from] in *.
  - destruct (s <=? length t); [reflexivity | discriminate].
  - destruct ((s <=? e_start e) && (e_start e <=? e_end e) && (e_end e <=? length t)) eqn:E; [|discriminate].
    destruct (resolve t (e_end e) es) eqn:R; [|discriminate]. cbn. eapply IH; eauto.
Qed.

(* sorted, non-overlapping, in-range edits are exactly what resolve_edits needs in order not to panic *)
Lemma edits_ok_resolve : forall t es s, edits_ok_from s (length t) es = true -> exists r, resolve t s es = Some r.
Proof.
  intros t. induction es as [|e es IH]; intros s H; cbn [resolve edits_ok_from] in *.
  - rewrite H. eauto.
  - apply andb_true_iff in H. destruct H as [H1 H2]. rewrite H1. destruct (IH _ H2) as [r Hr]. rewrite Hr. eauto.
Qed.

Lemma apply_edits_resolve : forall t es r, resolve t 0 es = Some r -> apply_edits t es = Some r.
Proof.
  intros t es r H. destruct es; [|exact H]. cbn in H. inversion H; subst. reflexivity.
Qed.

Lemma resolve_shift : forall (pre t' : text) c es,
  (forall e, hd_error es = Some e -> S (length pre) <= e_start e) ->
  resolve (pre ++ c :: t') (length pre) es = option_map (cons c) (resolve (pre ++ c :: t') (S (length pre)) es).
Proof.
  intros pre t' c es Hhd. destruct es as [|e es]; cbn [resolve].
  - rewrite app_length; cbn [length].
    replace (length pre <=? length pre + S (length t')) with true by (symmetry; apply Nat.leb_le; lia).
    replace (S (length pre) <=? length pre + S (length t')) with true by (symmetry; apply Nat.leb_le; lia).
    cbn [option_map]. f_equal. rewrite skipn_pre.
    replace (pre ++ c :: t') with ((pre ++ [c]) ++ t') by (rewrite <- app_assoc; reflexivity).
    replace (S (length pre)) with (length (pre ++ [c])) by (rewrite app_length; cbn; lia).
    rewrite skipn_pre. reflexivity.
  - specialize (Hhd e eq_refl).
    replace (length pre <=? e_start e) with true by (symmetry; apply Nat.leb_le; lia).
    replace (S (length pre) <=? e_start e) with true by (symmetry; apply Nat.leb_le; lia).
    destruct (true && (e_start e <=? e_end e) && (e_end e <=? length (pre ++ c :: t'))); [|reflexivity].
    destruct (resolve (pre ++ c :: t') (e_end e) es); [|reflexivity].
    cbn [option_map]. f_equal. rewrite slice_cons by assumption. reflexivity.
Qed.

(* ------------------------------------------------------------------ the shared scan *)
(* the text a scan produces, stated without edits *)
Fixpoint scan_out (act : text -> action) (skip : nat) (t : text) : text :=
  match t with
  | [] => []
  | c :: t' =>
      match skip with
      | S k => scan_out act k t'
      | O => match act t with
             | Some (off, n, v) => firstn off t ++ v ++ scan_out act (n - 1) t'
             | None => c :: scan_out act 0 t'
             end
      end
  end.

Definition act_ok (act : text -> action) : Prop :=
  forall t off n v, act t = Some (off, n, v) -> off <= n /\ 1 <= n /\ n <= length t.

Lemma scan_hd_ge : forall act t pos skip e,
  hd_error (scan_edits act pos skip t) = Some e -> pos + skip <= e_start e.
Proof.
  intros act. induction t as [|c t IH]; intros pos skip e H; cbn [scan_edits] in H.
  - discriminate.
  - destruct skip as [|k].
    + destruct (act (c :: t)) as [[[off n] v]|].
      * cbn in H. inversion H; subst. cbn. lia.
      * apply IH in H. lia.
    + apply IH in H. lia.
Qed.

Lemma scan_resolve : forall act, act_ok act -> forall t pre pos skip,
  pos = length pre -> skip <= length t ->
  resolve (pre ++ t) (pos + skip) (scan_edits act pos skip t) = Some (scan_out act skip t).
Proof.
  intros act Hok. induction t as [|c t IH]; intros pre pos skip Hpos Hskip.
  - cbn [length] in Hskip. assert (skip = 0) by lia. subst skip. cbn [scan_edits scan_out resolve].
    rewrite app_nil_r, Nat.add_0_r. subst pos. rewrite Nat.leb_refl. rewrite skipn_all. reflexivity.
  - assert (Hfull : pre ++ c :: t = (pre ++ [c]) ++ t) by (rewrite <- app_assoc; reflexivity).
    assert (Hlen : S pos = length (pre ++ [c])) by (rewrite app_length; cbn; lia).
    destruct skip as [|k]; cbn [scan_edits scan_out].
    + destruct (act (c :: t)) as [[[off n] v]|] eqn:Ha.
      * destruct (Hok _ _ _ _ Ha) as (Hon & Hn1 & Hnl). cbn [length] in Hnl.
        cbn [resolve e_start e_end e_repl].
        assert (Hc : (pos + 0 <=? pos + off) && (pos + off <=? pos + n) && (pos + n <=? length (pre ++ c :: t)) = true).
        { rewrite !andb_true_iff, !Nat.leb_le, app_length. cbn [length]. lia. }
        rewrite Hc.
        replace (pos + n) with (S pos + (n - 1)) by lia.
        rewrite Hfull at 1. rewrite (IH (pre ++ [c]) (S pos) (n - 1) Hlen) by lia.
        f_equal. f_equal. rewrite Nat.add_0_r. subst pos. apply slice_app.
      * rewrite Nat.add_0_r. subst pos. rewrite resolve_shift.
        -- rewrite Hfull. replace (S (length pre)) with (S (length pre) + 0) at 1 by lia.
           rewrite (IH (pre ++ [c]) (S (length pre)) 0 Hlen) by lia. reflexivity.
        -- intros e He. apply scan_hd_ge in He. lia.
    + cbn [length] in Hskip. replace (pos + S k) with (S pos + k) by lia.
      rewrite Hfull. apply IH; [assumption | lia].
Qed.

Lemma scan_apply : forall act, act_ok act -> forall t,
  apply_edits t (scan_edits act 0 0 t) = Some (scan_out act 0 t).
Proof.
  intros act Hok t. apply apply_edits_resolve.
  exact (scan_resolve act Hok t [] 0 0 eq_refl (Nat.le_0_l _)).
Qed.

Lemma scan_edits_ok : forall act, act_ok act -> forall t, edits_ok t (scan_edits act 0 0 t) = true.
Proof.
  intros act Hok t. unfold edits_ok. eapply resolve_some_edits_ok.
  exact (scan_resolve act Hok t [] 0 0 eq_refl (Nat.le_0_l _)).
Qed.

Lemma scan_out_skip : forall act t skip, skip <= length t -> scan_out act skip t = scan_out act 0 (skipn skip t).
Proof.
  intros act. induction t as [|c t IH]; intros skip H.
  - cbn [length] in H. assert (skip = 0) by lia. subst. reflexivity.
  - destruct skip as [|k]; [reflexivity|]. cbn [scan_out skipn]. apply IH. cbn [length] in H. lia.
Qed.

(* every edit of a scan is the answer of `act` at the position where it was emitted *)
Lemma scan_edits_in : forall act t pre pos skip e,
  pos = length pre -> In e (scan_edits act pos skip t) ->
  exists p off n v, pos + skip <= p /\ p < pos + length t /\ act (skipn p (pre ++ t)) = Some (off, n, v)
                    /\ e = mkE (p + off) (p + n) v.
Proof.
  intros act. induction t as [|c t IH]; intros pre pos skip e Hpos Hin; cbn [scan_edits] in Hin.
  - contradiction.
  - assert (Hfull : pre ++ c :: t = (pre ++ [c]) ++ t) by (rewrite <- app_assoc; reflexivity).
    assert (Hlen : S pos = length (pre ++ [c])) by (rewrite app_length; cbn; lia).
    destruct skip as [|k].
    + destruct (act (c :: t)) as [[[off n] v]|] eqn:Ha.
      * destruct Hin as [He | Hin].
        -- exists pos, off, n, v. subst pos. rewrite skipn_pre. cbn [length]. repeat split; try lia; auto.
        -- destruct (IH (pre ++ [c]) (S pos) (n - 1) e Hlen Hin) as (p & off' & n' & v' & H1 & H2 & H3 & H4).
           exists p, off', n', v'. rewrite Hfull. cbn [length]. repeat split; try lia; auto.
      * destruct (IH (pre ++ [c]) (S pos) 0 e Hlen Hin) as (p & off' & n' & v' & H1 & H2 & H3 & H4).
        exists p, off', n', v'. rewrite Hfull. cbn [length]. repeat split; try lia; auto.
    + destruct (IH (pre ++ [c]) (S pos) k e Hlen Hin) as (p & off' & n' & v' & H1 & H2 & H3 & H4).
      exists p, off', n', v'. rewrite Hfull. cbn [length]. repeat split; try lia; auto.
Qed.

(* ------------------------------------------------------------------ rewrite table *)
Lemma is_prefix_length : forall k t, is_prefix k t = true -> length k <= length t.
Proof.
  induction k as [|x k IH]; intros [|y t] H; cbn in *; try lia; try discriminate.
  apply andb_true_iff in H. destruct H as [_ H]. apply IH in H. lia.
Qed.

Lemma is_prefix_firstn : forall k t m, is_prefix k (firstn m t) = is_prefix k t && (length k <=? m).
Proof.
  induction k as [|x k IH]; intros t m.
  - cbn. reflexivity.
  - destruct m as [|m]; destruct t as [|y t]; cbn [firstn is_prefix length].
    + reflexivity.
    + cbn. rewrite andb_false_r. reflexivity.
    + reflexivity.
    + rewrite IH. change (S (length k) <=? S m) with (length k <=? m).
      destruct (x =? y)%N; reflexivity.
Qed.

Lemma longest_in : forall ms m, longest ms = Some m -> In m ms.
Proof.
  induction ms as [|x ms IH]; intros m H; cbn [longest] in H; [discriminate|].
  destruct (longest ms) as [b|].
  - destruct (fst b <? fst x); inversion H; subst; [left; reflexivity | right; apply IH; reflexivity].
  - inversion H; subst. left; reflexivity.
Qed.

Lemma longest_none : forall ms, longest ms = None -> ms = [].
Proof.
  destruct ms as [|x ms]; [reflexivity|]. cbn [longest]. destruct (longest ms) as [b|]; [destruct (fst b <? fst x)|]; discriminate.
Qed.

Lemma longest_max : forall ms m, longest ms = Some m -> forall x, In x ms -> fst x <= fst m.
Proof.
  induction ms as [|y ms IH]; intros m H x Hx; [contradiction|]. cbn [longest] in H.
  destruct (longest ms) as [b|] eqn:Eb.
  - destruct (fst b <? fst y) eqn:E.
    + inversion H; subst. apply Nat.ltb_lt in E. destruct Hx as [<-|Hx]; [lia|]. specialize (IH b eq_refl x Hx). lia.
    + inversion H; subst. apply Nat.ltb_ge in E. destruct Hx as [<-|Hx]; [lia|]. exact (IH m eq_refl x Hx).
  - inversion H; subst. apply longest_none in Eb. subst. destruct Hx as [<-|[]]. lia.
Qed.

(* dropping candidates longer than m does not change the longest one, if that one has length <= m *)
Lemma longest_filter : forall m ms r, longest ms = Some r -> fst r <= m ->
  longest (filter (fun x => fst x <=? m) ms) = Some r.
Proof.
  intros m. induction ms as [|x ms IH]; intros r H Hr; cbn [longest] in H; [discriminate|].
  cbn [filter]. destruct (longest ms) as [b|] eqn:Eb.
  - destruct (fst b <? fst x) eqn:E.
    + inversion H; subst. apply Nat.ltb_lt in E.
      replace (fst r <=? m) with true by (symmetry; apply Nat.leb_le; lia).
      cbn [longest]. rewrite (IH b eq_refl) by lia. rewrite (proj2 (Nat.ltb_lt _ _) E). reflexivity.
    + inversion H; subst. apply Nat.ltb_ge in E.
      replace (fst x <=? m) with true by (symmetry; apply Nat.leb_le; lia).
      cbn [longest]. rewrite (IH r eq_refl) by lia. rewrite (proj2 (Nat.ltb_ge _ _) E). reflexivity.
  - inversion H; subst. apply longest_none in Eb. subst.
    replace (fst r <=? m) with true by (symmetry; apply Nat.leb_le; lia). reflexivity.
Qed.

Lemma filter_map_comm : forall {A B} (f : A -> B) (q : B -> bool) l,
  filter q (map f l) = map f (filter (fun x => q (f x)) l).
Proof. induction l as [|x l IH]; cbn; [reflexivity|]. destruct (q (f x)); cbn; rewrite IH; reflexivity. Qed.

Lemma filter_filter : forall {A} (p q : A -> bool) l, filter q (filter p l) = filter (fun x => p x && q x) l.
Proof.
  induction l as [|x l IH]; cbn; [reflexivity|]. destruct (p x); cbn; [destruct (q x)|]; rewrite IH; reflexivity.
Qed.

Lemma filter_ext' : forall {A} (p q : A -> bool) l, (forall x, p x = q x) -> filter p l = filter q l.
Proof. induction l as [|x l IH]; intros H; cbn; [reflexivity|]. rewrite H, IH by assumption. reflexivity. Qed.

Lemma matches_at_firstn : forall tb t m,
  matches_at tb (firstn m t) = filter (fun x => fst x <=? m) (matches_at tb t).
Proof.
  intros tb t m. unfold matches_at. rewrite filter_map_comm, filter_filter. f_equal.
  apply filter_ext'. intros kv. rewrite is_prefix_firstn. reflexivity.
Qed.

Lemma longest_match_firstn : forall tb t m r,
  longest_match tb t = r -> match r with Some (n, _) => n <= m | None => True end ->
  longest_match tb (firstn m t) = r.
Proof.
  intros tb t m r H Hr. unfold longest_match in *. rewrite matches_at_firstn.
  destruct r as [[n v]|].
  - apply longest_filter; assumption.
  - apply longest_none in H. rewrite H. reflexivity.
Qed.

Lemma matches_at_in : forall tb t n v, In (n, v) (matches_at tb t) ->
  exists k, In (k, v) tb /\ is_prefix k t = true /\ n = length k.
Proof.
  intros tb t n v H. unfold matches_at in H. apply in_map_iff in H. destruct H as [[k v'] [E H]].
  apply filter_In in H. destruct H as [Hin Hp]. cbn in *. inversion E; subst. eauto.
Qed.

Lemma table_wf_nonempty : forall tb k v, table_wf tb = true -> In (k, v) tb -> 1 <= length k.
Proof.
  intros tb k v H Hin. unfold table_wf in H. apply andb_true_iff in H. destruct H as [H _].
  rewrite forallb_forall in H. specialize (H _ Hin). cbn in H.
  destruct k; [cbn in H; discriminate | cbn; lia].
Qed.

Lemma longest_match_bounds : forall tb t n v, table_wf tb = true -> longest_match tb t = Some (n, v) ->
  1 <= n /\ n <= length t.
Proof.
  intros tb t n v Hwf H. apply longest_in in H. apply matches_at_in in H. destruct H as (k & Hin & Hp & ->).
  split; [eapply table_wf_nonempty; eauto | apply is_prefix_length; assumption].
Qed.

(* the key chosen is a key of the table, it starts here, and no key starting here is longer: "the longest table key
   starting at a position" *)
Lemma longest_match_is_longest_key : forall tb t n v, longest_match tb t = Some (n, v) ->
  (exists k, In (k, v) tb /\ is_prefix k t = true /\ n = length k)
  /\ (forall k' v', In (k', v') tb -> is_prefix k' t = true -> length k' <= n).
Proof.
  intros tb t n v H. split.
  - apply matches_at_in. apply longest_in. exact H.
  - intros k' v' Hin Hp. unfold longest_match in H.
    assert (Hm : In (length k', v') (matches_at tb t)).
    { unfold matches_at. apply in_map_iff. exists (k', v'). split; [reflexivity|]. apply filter_In. split; assumption. }
    exact (longest_max _ _ H _ Hm).
Qed.

Lemma longest_match_none : forall tb t, longest_match tb t = None ->
  forall k v, In (k, v) tb -> is_prefix k t = false.
Proof.
  intros tb t H k v Hin. unfold longest_match in H. apply longest_none in H.
  destruct (is_prefix k t) eqn:E; [|reflexivity].
  assert (Hm : In (length k, v) (matches_at tb t)).
  { unfold matches_at. apply in_map_iff. exists (k, v). split; [reflexivity|]. apply filter_In. split; assumption. }
  rewrite H in Hm. contradiction.
Qed.

(* ------------------------------------------------------------------ DefaultInputTextPlugin *)
Definition head_law (c : cp) (r : text) : Prop :=
  match r with
  | [] => False
  | x :: r' => x = c -> r' = []
  end.

Lemma norm_edit_of_head : forall c r, head_law c r ->
  match norm_edit_of c r with Some r' => r' | None => [c] end = r.
Proof.
  intros c r H. destruct r as [|x r']; cbn in *; [contradiction|].
  destruct (x =? c)%N eqn:E; [|reflexivity]. apply N.eqb_eq in E. rewrite (H E). subst. reflexivity.
Qed.

Section DefaultProofs.
  (* facts re-read from the source on every run (closed in Properties/C07.v by vm_compute) *)
  Hypothesis F_slow : Generated.NormalizeFacts.slow_search_earliest = false.
  Hypothesis F_guard : Generated.NormalizeFacts.lowercase_guard_is_uppercase = false.
  Hypothesis F_path : Generated.NormalizeFacts.path_guard_is_uppercase = false.

  Variable lower : cp -> text.
  Variable nfkc : text -> text.
  Variable qc_yes upper : cp -> bool.
  Variable tb : table.
  Variable ign : cp -> bool.

  Hypothesis Hwf : table_wf tb = true.
  (* oracle laws *)
  Hypothesis law_qc : forall c, qc_yes c = true -> nfkc (lower c) = lower c.
  Hypothesis law_head : forall c, head_law c (lower c) /\ head_law c (nfkc [c]) /\ head_law c (nfkc (lower c)).

  Lemma norm_edit_spec : forall c,
    match norm_edit lower nfkc qc_yes upper ign c with Some r => r | None => [c] end = spec_char lower nfkc ign c.
  Proof.
    intros c. destruct (law_head c) as (Hl & Hn & Hnl).
    unfold norm_edit, need_lower, spec_char. rewrite F_guard.
    destruct (text_eqb (lower c) [c]) eqn:El; cbn [negb].
    - apply text_eqb_eq in El. destruct (ign c); cbn [negb andb].
      + symmetry; exact El.
      + destruct (qc_yes c) eqn:Eq; cbn [negb].
        * rewrite (law_qc c Eq). symmetry; exact El.
        * rewrite El. apply norm_edit_of_head. exact Hn.
    - destruct (ign c); cbn [negb andb].
      + apply norm_edit_of_head. exact Hl.
      + destruct (qc_yes c) eqn:Eq; cbn [negb].
        * rewrite (law_qc c Eq). apply norm_edit_of_head. exact Hl.
        * apply norm_edit_of_head. exact Hnl.
  Qed.

  Lemma slow_act_ok : act_ok (slow_act lower nfkc qc_yes upper tb ign).
  Proof.
    intros t off n v H. unfold slow_act, slow_match in H. rewrite F_slow in H.
    destruct (longest_match tb t) as [[n' v']|] eqn:E.
    - inversion H; subst. destruct (longest_match_bounds _ _ _ _ Hwf E). lia.
    - destruct t as [|c t]; [discriminate|].
      destruct (norm_edit lower nfkc qc_yes upper ign c); inversion H; subst. cbn. lia.
  Qed.

  Lemma fast_act_ok : act_ok (fast_act tb).
  Proof.
    intros t off n v H. unfold fast_act in H.
    destruct (longest_match tb t) as [[n' v']|] eqn:E; inversion H; subst.
    destruct (longest_match_bounds _ _ _ _ Hwf E). lia.
  Qed.

  Lemma spec_eq_slow_out : forall t skip,
    spec_scan lower nfkc tb ign skip t = scan_out (slow_act lower nfkc qc_yes upper tb ign) skip t.
  Proof.
    induction t as [|c t IH]; intros skip; [reflexivity|]. destruct skip as [|k]; cbn [spec_scan scan_out].
    - unfold slow_act at 1, slow_match. rewrite F_slow.
      destruct (longest_match tb (c :: t)) as [[n v]|].
      + cbn [firstn app]. rewrite IH. reflexivity.
      + rewrite <- norm_edit_spec. destruct (norm_edit lower nfkc qc_yes upper ign c).
        * cbn [firstn app Nat.sub]. rewrite IH. reflexivity.
        * cbn [app]. rewrite IH. reflexivity.
    - apply IH.
  Qed.

  Lemma spec_eq_fast_out : forall t skip,
    (forall c, In c t -> spec_char lower nfkc ign c = [c]) ->
    spec_scan lower nfkc tb ign skip t = scan_out (fast_act tb) skip t.
  Proof.
    induction t as [|c t IH]; intros skip Hc; [reflexivity|].
    assert (Ht : forall c', In c' t -> spec_char lower nfkc ign c' = [c']) by (intros; apply Hc; right; assumption).
    destruct skip as [|k]; cbn [spec_scan scan_out].
    - unfold fast_act at 1. destruct (longest_match tb (c :: t)) as [[n v]|].
      + cbn [firstn app]. rewrite IH by assumption. reflexivity.
      + rewrite (Hc c (or_introl eq_refl)). cbn [app]. rewrite IH by assumption. reflexivity.
    - apply IH; assumption.
  Qed.

  Lemma slow_eq_spec : forall t,
    apply_edits t (slow_edits lower nfkc qc_yes upper tb ign t) = Some (normalize_spec lower nfkc tb ign t).
  Proof.
    intros t. unfold slow_edits, normalize_spec. rewrite spec_eq_slow_out. apply scan_apply. apply slow_act_ok.
  Qed.

  (* what the fast path relies on: no character needs lower-casing and every character passes the quick check *)
  Lemma plain_char : forall c, need_lower_text lower upper c = false -> qc_yes c = true ->
    spec_char lower nfkc ign c = [c].
  Proof.
    intros c Hn Hq. unfold need_lower_text in Hn. rewrite F_path in Hn. apply negb_false_iff in Hn.
    apply text_eqb_eq in Hn. unfold spec_char. destruct (ign c); [exact Hn|]. rewrite (law_qc c Hq). exact Hn.
  Qed.

  Lemma fast_eq_spec : forall t,
    (forall c, In c t -> need_lower_text lower upper c = false /\ qc_yes c = true) ->
    apply_edits t (fast_edits tb t) = Some (normalize_spec lower nfkc tb ign t).
  Proof.
    intros t H. unfold fast_edits, normalize_spec. rewrite spec_eq_fast_out.
    - apply scan_apply. apply fast_act_ok.
    - intros c Hc. destruct (H c Hc). apply plain_char; assumption.
  Qed.

  Lemma takes_fast_plain : forall qc_text t,
    (qc_text = true -> forall c, In c t -> qc_yes c = true) ->
    takes_slow lower upper qc_text t = false ->
    forall c, In c t -> need_lower_text lower upper c = false /\ qc_yes c = true.
  Proof.
    intros qc_text t Hq H c Hc. unfold takes_slow in H. apply orb_false_iff in H. destruct H as [H1 H2].
    apply negb_false_iff in H1. split; [|exact (Hq H1 c Hc)].
    destruct (need_lower_text lower upper c) eqn:E; [|reflexivity].
    assert (existsb (need_lower_text lower upper) t = true) by (apply existsb_exists; eauto). congruence.
  Qed.

  (* whichever path rewrite_impl chooses, the result is the specified text *)
  Lemma rewrite_eq_spec : forall qc_text t,
    (qc_text = true -> forall c, In c t -> qc_yes c = true) ->
    default_rewrite lower nfkc qc_yes upper tb ign qc_text t = Some (normalize_spec lower nfkc tb ign t).
  Proof.
    intros qc_text t Hq. unfold default_rewrite, default_edits.
    destruct (takes_slow lower upper qc_text t) eqn:E.
    - apply slow_eq_spec.
    - apply fast_eq_spec. eapply takes_fast_plain; eauto.
  Qed.

  (* the optimised and the general path agree wherever the optimised one is taken *)
  Lemma fast_eq_slow : forall qc_text t,
    (qc_text = true -> forall c, In c t -> qc_yes c = true) ->
    takes_slow lower upper qc_text t = false ->
    apply_edits t (fast_edits tb t) = apply_edits t (slow_edits lower nfkc qc_yes upper tb ign t).
  Proof.
    intros qc_text t Hq H. rewrite slow_eq_spec. apply fast_eq_spec. eapply takes_fast_plain; eauto.
  Qed.

  Lemma default_edits_ok : forall qc_text t,
    edits_ok t (default_edits lower nfkc qc_yes upper tb ign qc_text t) = true.
  Proof.
    intros. unfold default_edits. destruct (takes_slow lower upper qc_text t).
    - apply scan_edits_ok. apply slow_act_ok.
    - apply scan_edits_ok. apply fast_act_ok.
  Qed.
End DefaultProofs.

(* ---- context freedom of the specification (no oracle law needed) ---- *)
Section ContextFree.
  Variable lower : cp -> text.
  Variable nfkc : text -> text.
  Variable tb : table.
  Variable ign : cp -> bool.

  Lemma cut_scan_skip_le : forall t i skip, cut_scan tb skip t i = true -> skip <= i.
  Proof.
    induction t as [|c t IH]; intros i skip H; destruct i as [|i]; cbn [cut_scan] in H.
    - destruct skip; [lia | discriminate].
    - discriminate.
    - destruct skip; [lia | discriminate].
    - destruct skip as [|k]; [lia|]. apply IH in H. lia.
  Qed.

  Lemma context_free_gen : forall t i skip, cut_scan tb skip t i = true ->
    spec_scan lower nfkc tb ign skip t
    = spec_scan lower nfkc tb ign skip (firstn i t) ++ spec_scan lower nfkc tb ign 0 (skipn i t).
  Proof.
    induction t as [|c t IH]; intros i skip H.
    - destruct i; cbn [cut_scan] in H; [|discriminate]. destruct skip; [reflexivity | discriminate].
    - destruct i as [|i].
      + cbn [cut_scan] in H. destruct skip; [|discriminate]. reflexivity.
      + cbn [cut_scan] in H. cbn [firstn skipn]. destruct skip as [|k].
        * cbn [spec_scan].
          destruct (longest_match tb (c :: t)) as [[n v]|] eqn:E.
          -- pose proof (cut_scan_skip_le _ _ _ H) as Hle.
             assert (E' : longest_match tb (c :: firstn i t) = Some (n, v)).
             { change (c :: firstn i t) with (firstn (S i) (c :: t)). apply longest_match_firstn; [exact E | lia]. }
             rewrite E'. rewrite (IH _ _ H). rewrite app_assoc. reflexivity.
          -- assert (E' : longest_match tb (c :: firstn i t) = None).
             { change (c :: firstn i t) with (firstn (S i) (c :: t)). apply longest_match_firstn; [exact E | exact I]. }
             rewrite E'. rewrite (IH _ _ H). rewrite app_assoc. reflexivity.
        * cbn [spec_scan]. apply IH. exact H.
  Qed.

  Lemma context_free : forall t i, cut_point tb t i = true ->
    normalize_spec lower nfkc tb ign t
    = normalize_spec lower nfkc tb ign (firstn i t) ++ normalize_spec lower nfkc tb ign (skipn i t).
  Proof. intros t i H. unfold normalize_spec. apply context_free_gen. exact H. Qed.

  (* the three equations that determine normalize_spec: they read like the property text *)
  Lemma spec_scan_skip : forall t skip, skip <= length t ->
    spec_scan lower nfkc tb ign skip t = spec_scan lower nfkc tb ign 0 (skipn skip t).
  Proof.
    induction t as [|c t IH]; intros skip H.
    - cbn [length] in H. assert (skip = 0) by lia. subst. reflexivity.
    - destruct skip as [|k]; [reflexivity|]. cbn [spec_scan skipn]. apply IH. cbn [length] in H. lia.
  Qed.

  Lemma spec_unfold :
    table_wf tb = true ->
    normalize_spec lower nfkc tb ign [] = []
    /\ (forall t n v, longest_match tb t = Some (n, v) ->
          normalize_spec lower nfkc tb ign t = v ++ normalize_spec lower nfkc tb ign (skipn n t))
    /\ (forall c t, longest_match tb (c :: t) = None ->
          normalize_spec lower nfkc tb ign (c :: t) = spec_char lower nfkc ign c ++ normalize_spec lower nfkc tb ign t).
  Proof.
    intros Hwf. unfold normalize_spec. split; [reflexivity|]. split.
    - intros t n v E. destruct (longest_match_bounds _ _ _ _ Hwf E) as [H1 H2].
      destruct t as [|c t]; [cbn in H2; lia|]. cbn [spec_scan]. rewrite E. cbn [length] in H2.
      rewrite spec_scan_skip by lia. destruct n as [|n]; [lia|]. cbn [skipn]. replace (S n - 1) with n by lia. reflexivity.
    - intros c t E. cbn [spec_scan]. rewrite E. reflexivity.
  Qed.

  (* a character that occurs in no key separates: what is left and right of it is normalised independently *)
  Definition in_no_key (c : cp) : Prop := forall k v, In (k, v) tb -> ~ In c k.

  Lemma is_prefix_app_sep : forall k a c b, is_prefix k (a ++ c :: b) = true -> ~ In c k -> length k <= length a.
  Proof.
    induction k as [|x k IH]; intros a c b H Hn; [cbn; lia|].
    destruct a as [|y a]; cbn [app is_prefix length] in *.
    - apply andb_true_iff in H. destruct H as [H _]. apply N.eqb_eq in H. subst. exfalso. apply Hn. left; reflexivity.
    - apply andb_true_iff in H. destruct H as [_ H]. apply IH in H; [lia|]. intro Hc. apply Hn. right; assumption.
  Qed.

  Lemma separator_gen : forall a c b skip, table_wf tb = true -> in_no_key c -> skip <= length a ->
    spec_scan lower nfkc tb ign skip (a ++ c :: b)
    = spec_scan lower nfkc tb ign skip a ++ spec_char lower nfkc ign c ++ spec_scan lower nfkc tb ign 0 b.
  Proof.
    intros a c b skip Hwf Hsep. revert skip. induction a as [|x a IH]; intros skip Hskip.
    - cbn [length] in Hskip. assert (skip = 0) by lia. subst. cbn [app spec_scan].
      destruct (longest_match tb (c :: b)) as [[n v]|] eqn:E; [|reflexivity].
      exfalso. apply longest_match_is_longest_key in E. destruct E as [(k & Hin & Hp & Hn) _].
      pose proof (table_wf_nonempty _ _ _ Hwf Hin) as Hk.
      destruct k as [|y k]; [cbn in Hk; lia|]. cbn in Hp. apply andb_true_iff in Hp. destruct Hp as [Hp _].
      apply N.eqb_eq in Hp. subst. apply (Hsep _ _ Hin). left; reflexivity.
    - cbn [length] in Hskip. destruct skip as [|k]; cbn [app spec_scan].
      + destruct (longest_match tb (x :: a ++ c :: b)) as [[n v]|] eqn:E.
        * assert (Hn : n <= S (length a)).
          { pose proof E as E0. apply longest_match_is_longest_key in E0. destruct E0 as [(k & Hin & Hp & ->) _].
            change (x :: a ++ c :: b) with ((x :: a) ++ c :: b) in Hp.
            apply is_prefix_app_sep in Hp; [exact Hp | exact (Hsep _ _ Hin)]. }
          assert (E' : longest_match tb (x :: a) = Some (n, v)).
          { replace (x :: a) with (firstn (S (length a)) (x :: a ++ c :: b)).
            - apply longest_match_firstn; assumption.
            - cbn [firstn]. f_equal. rewrite firstn_app, firstn_all, Nat.sub_diag. cbn. apply app_nil_r. }
          rewrite E'. destruct (longest_match_bounds _ _ _ _ Hwf E') as [Hn1 _].
          rewrite IH by lia. rewrite app_assoc. reflexivity.
        * assert (E' : longest_match tb (x :: a) = None).
          { replace (x :: a) with (firstn (S (length a)) (x :: a ++ c :: b)).
            - apply longest_match_firstn; [assumption | exact I].
            - cbn [firstn]. f_equal. rewrite firstn_app, firstn_all, Nat.sub_diag. cbn. apply app_nil_r. }
          rewrite E'. rewrite IH by lia. rewrite app_assoc. reflexivity.
      + apply IH. lia.
  Qed.

  Lemma separator : forall a c b, table_wf tb = true -> in_no_key c ->
    normalize_spec lower nfkc tb ign (a ++ c :: b)
    = normalize_spec lower nfkc tb ign a ++ spec_char lower nfkc ign c ++ normalize_spec lower nfkc tb ign b.
  Proof. intros. unfold normalize_spec. apply separator_gen; auto. lia. Qed.
End ContextFree.

Lemma nth_error_skipn' : forall (t : text) p n, nth_error (skipn p t) n = nth_error t (p + n).
Proof.
  induction t as [|c t IH]; intros p n.
  - rewrite skipn_nil. destruct n, p; reflexivity.
  - destruct p; [reflexivity|]. cbn [skipn Nat.add nth_error]. apply IH.
Qed.

(* ------------------------------------------------------------------ ProlongedSoundMarkPlugin *)
Section PsmProofs.
  Variable mark : cp -> bool.
  Variable sym : text.

  Lemma run_len_le : forall t, run_len mark t <= length t.
  Proof. induction t as [|c t IH]; cbn [run_len length]; [lia|]. destruct (mark c); lia. Qed.

  (* run_len is the length of the maximal run of mark characters at the head *)
  Lemma run_len_spec : forall t,
    forallb mark (firstn (run_len mark t) t) = true
    /\ match nth_error t (run_len mark t) with Some c => mark c = false | None => True end.
  Proof.
    induction t as [|c t [IH1 IH2]]; cbn [run_len]; [split; [reflexivity | exact I]|].
    destruct (mark c) eqn:E.
    - cbn [firstn forallb nth_error]. rewrite E, IH1. split; [reflexivity | exact IH2].
    - cbn [firstn forallb nth_error]. split; [reflexivity | exact E].
  Qed.

  Lemma psm_act_ok : act_ok (psm_act mark sym).
  Proof.
    intros t off n v H. unfold psm_act in H. destruct (2 <=? run_len mark t) eqn:E; inversion H; subst.
    apply Nat.leb_le in E. pose proof (run_len_le t). lia.
  Qed.

  Lemma psm_spec_true_nonmark : forall t, run_len mark t = 0 ->
    psm_spec_scan mark sym true t = psm_spec_scan mark sym false t.
  Proof.
    destruct t as [|c t]; [reflexivity|]. cbn [run_len psm_spec_scan]. destruct (mark c); [discriminate | reflexivity].
  Qed.

  Lemma psm_spec_skip_marks : forall t,
    psm_spec_scan mark sym true t = psm_spec_scan mark sym false (skipn (run_len mark t) t).
  Proof.
    induction t as [|c t IH]; [reflexivity|]. cbn [run_len]. destruct (mark c) eqn:E.
    - cbn [psm_spec_scan skipn]. rewrite E. exact IH.
    - cbn [skipn psm_spec_scan]. rewrite E. reflexivity.
  Qed.

  Lemma psm_out_eq_spec : forall n t, length t <= n ->
    scan_out (psm_act mark sym) 0 t = psm_spec_scan mark sym false t.
  Proof.
    induction n as [|n IH]; intros t Hn.
    - destruct t; [reflexivity | cbn in Hn; lia].
    - destruct t as [|c t]; [reflexivity|]. cbn [length] in Hn.
      cbn [scan_out]. unfold psm_act at 1. cbn [run_len psm_spec_scan]. destruct (mark c) eqn:Ec.
      + destruct (run_len mark t) as [|m] eqn:Er.
        * cbn [Nat.leb]. rewrite IH by lia. destruct t as [|d t]; [reflexivity|].
          assert (Ed : mark d = false) by (cbn [run_len] in Er; destruct (mark d); [discriminate | reflexivity]).
          rewrite Ed. rewrite psm_spec_true_nonmark by exact Er. reflexivity.
        * cbn [Nat.leb firstn app]. replace (S (S m) - 1) with (S m) by lia.
          pose proof (run_len_le t) as Hle.
          rewrite scan_out_skip by lia. rewrite IH by (rewrite skipn_length; lia).
          destruct t as [|d t]; [cbn in Er; discriminate|].
          assert (Ed : mark d = true) by (cbn [run_len] in Er; destruct (mark d); [reflexivity | discriminate]).
          rewrite Ed. rewrite psm_spec_skip_marks. rewrite Er. reflexivity.
      + cbn [Nat.leb]. rewrite IH by lia. reflexivity.
  Qed.

  Lemma psm_eq_spec : forall t, apply_edits t (psm_edits mark sym t) = Some (psm_spec mark sym t).
  Proof.
    intros t. unfold psm_edits, psm_spec. rewrite <- (psm_out_eq_spec (length t) t (le_n _)).
    apply scan_apply. apply psm_act_ok.
  Qed.

  Lemma psm_edits_ok : forall t, edits_ok t (psm_edits mark sym t) = true.
  Proof. intros. apply scan_edits_ok. apply psm_act_ok. Qed.

  (* every rewritten span is a run of at least two mark characters that cannot be extended to the right,
     and it is replaced by the configured symbol *)
  Lemma psm_edits_sound : forall t e, In e (psm_edits mark sym t) ->
    exists p n, e = mkE p (p + n) sym /\ 2 <= n /\ p + n <= length t
                /\ forallb mark (slice t p (p + n)) = true
                /\ match nth_error t (p + n) with Some c => mark c = false | None => True end.
  Proof.
    intros t e H. unfold psm_edits in H.
    destruct (scan_edits_in _ t [] 0 0 e eq_refl H) as (p & off & n & v & _ & Hp & Ha & ->).
    cbn [app] in Ha. unfold psm_act in Ha. destruct (2 <=? run_len mark (skipn p t)) eqn:E; inversion Ha; subst.
    apply Nat.leb_le in E. exists p, (run_len mark (skipn p t)). rewrite Nat.add_0_r.
    pose proof (run_len_le (skipn p t)) as Hle. rewrite skipn_length in Hle.
    destruct (run_len_spec (skipn p t)) as [H1 H2].
    repeat split; try assumption; try lia.
    - unfold slice. replace (p + run_len mark (skipn p t) - p) with (run_len mark (skipn p t)) by lia. exact H1.
    - rewrite nth_error_skipn' in H2. exact H2.
  Qed.
End PsmProofs.

(* ------------------------------------------------------------------ IgnoreYomiganaPlugin *)
Section YomiProofs.
  Variable isK isR isL isB : cp -> bool.
  Variable maxlen : nat.

  (* k reading characters followed by a right bracket *)
  Definition reading_ok (t : text) (k : nat) : Prop :=
    forallb isR (firstn k t) = true /\ exists b, nth_error t k = Some b /\ isB b = true.

  Lemma reading_match_sound : forall n t k, reading_match isR isB n t = Some k ->
    1 <= k /\ k <= n /\ reading_ok t k.
  Proof.
    induction n as [|n IH]; intros t k H; cbn [reading_match] in H; [discriminate|].
    destruct t as [|c t]; [discriminate|]. destruct (isR c) eqn:Ec; [|discriminate].
    destruct (reading_match isR isB n t) as [k'|] eqn:E.
    - inversion H; subst. destruct (IH _ _ E) as (H1 & H2 & H3 & b & H4 & H5).
      repeat split; try lia.
      + cbn [firstn forallb]. rewrite Ec, H3. reflexivity.
      + exists b. cbn [nth_error]. auto.
    - destruct t as [|b t]; [discriminate|]. destruct (isB b) eqn:Eb; [|discriminate]. inversion H; subst.
      repeat split; try lia.
      + cbn [firstn forallb]. rewrite Ec. reflexivity.
      + exists b. cbn [nth_error]. auto.
  Qed.

  (* greedy with backtracking: no longer reading of at most n characters would also be closed by a bracket *)
  Lemma reading_match_greedy : forall n t k', 1 <= k' -> k' <= n -> reading_ok t k' ->
    exists k, reading_match isR isB n t = Some k /\ k' <= k.
  Proof.
    induction n as [|n IH]; intros t k' H1 Hn (Hr & b & Hb & HB); [lia|].
    destruct t as [|c t]; [destruct k'; discriminate|].
    destruct k' as [|k']; [lia|]. cbn [firstn forallb] in Hr. apply andb_true_iff in Hr. destruct Hr as [Hc Hr].
    cbn [nth_error] in Hb. cbn [reading_match]. rewrite Hc.
    destruct k' as [|k'].
    - destruct t as [|d t]; [discriminate|]. cbn [nth_error] in Hb. inversion Hb; subst.
      destruct (reading_match isR isB n (b :: t)) as [k|].
      + exists (S k). split; [reflexivity | lia].
      + rewrite HB. exists 1. split; [reflexivity | lia].
    - destruct (IH t (S k')) as (k & Hk & Hle); [lia | lia | split; eauto |].
      rewrite Hk. exists (S k). split; [reflexivity | lia].
  Qed.

  Lemma yomi_act_ok : act_ok (yomi_act isK isR isL isB maxlen).
  Proof.
    intros t off n v H. unfold yomi_act, yomi_at in H.
    destruct t as [|c [|l t]]; try discriminate.
    destruct (isK c && isL l); [|discriminate].
    destruct (reading_match isR isB maxlen t) as [k|] eqn:E; [|discriminate]. inversion H; subst.
    destruct (reading_match_sound _ _ _ E) as (H1 & H2 & _ & b & Hb & _).
    assert (k < length t) by (apply nth_error_Some; congruence). cbn [length]. lia.
  Qed.

  Lemma yomi_edits_ok : forall t, edits_ok t (yomi_edits isK isR isL isB maxlen t) = true.
  Proof. intros. apply scan_edits_ok. apply yomi_act_ok. Qed.

  Lemma yomi_no_panic : forall t, exists r, apply_edits t (yomi_edits isK isR isL isB maxlen t) = Some r.
  Proof. intros. eexists. apply scan_apply. apply yomi_act_ok. Qed.

  (* every removed span is  left bracket, 1..maxlen reading characters, right bracket  directly behind a kanji,
     with the longest such reading; nothing else is touched (the replacement is empty, the kanji stays) *)
  Lemma yomi_edits_sound : forall t e, In e (yomi_edits isK isR isL isB maxlen t) ->
    exists p k c l rest,
      e = mkE (S p) (p + k + 3) [] /\ skipn p t = c :: l :: rest /\ isK c = true /\ isL l = true
      /\ 1 <= k /\ k <= maxlen /\ reading_ok rest k
      /\ (forall k', k < k' -> k' <= maxlen -> ~ reading_ok rest k').
  Proof.
    intros t e H. unfold yomi_edits in H.
    destruct (scan_edits_in _ t [] 0 0 e eq_refl H) as (p & off & n & v & _ & Hp & Ha & ->).
    cbn [app] in Ha. unfold yomi_act, yomi_at in Ha.
    destruct (skipn p t) as [|c [|l rest]] eqn:Es; try discriminate.
    destruct (isK c && isL l) eqn:Ekl; [|discriminate]. apply andb_true_iff in Ekl. destruct Ekl as [Hk Hl].
    destruct (reading_match isR isB maxlen rest) as [k|] eqn:E; [|discriminate]. inversion Ha; subst.
    destruct (reading_match_sound _ _ _ E) as (H1 & H2 & H3).
    exists p, k, c, l, rest. replace (p + 1) with (S p) by lia. replace (p + (k + 3)) with (p + k + 3) by lia.
    split; [reflexivity|]. split; [exact Es|]. split; [exact Hk|]. split; [exact Hl|].
    split; [exact H1|]. split; [exact H2|]. split; [exact H3|].
    intros k' Hlt Hle Hok. destruct (reading_match_greedy maxlen rest k') as (k2 & Hk2 & Hge); try lia; auto.
    rewrite E in Hk2. inversion Hk2. lia.
  Qed.
End YomiProofs.

(* ------------------------------------------------------------------ completeness of a scan *)
(* position i is reached by the scan outside a previous match *)
Fixpoint scan_cut (act : text -> action) (skip : nat) (t : text) (i : nat) : bool :=
  match i, t with
  | O, _ => match skip with O => true | _ => false end
  | S _, [] => false
  | S i', _ :: t' =>
      match skip with
      | S k => scan_cut act k t' i'
      | O => match act t with
             | Some (_, n, _) => scan_cut act (n - 1) t' i'
             | None => scan_cut act 0 t' i'
             end
      end
  end.

Lemma scan_cut_0 : forall act skip t, scan_cut act skip t 0 = match skip with O => true | _ => false end.
Proof. intros. destruct t; reflexivity. Qed.

Lemma scan_complete : forall act t pos skip i off n v,
  scan_cut act skip t i = true -> act (skipn i t) = Some (off, n, v) -> i < length t ->
  In (mkE (pos + i + off) (pos + i + n) v) (scan_edits act pos skip t).
Proof.
  intros act. induction t as [|c t IH]; intros pos skip i off n v Hc Ha Hi; [cbn in Hi; lia|].
  destruct i as [|i].
  - cbn [scan_cut] in Hc. destruct skip; [|discriminate]. cbn [skipn] in Ha. cbn [scan_edits]. rewrite Ha.
    left. rewrite Nat.add_0_r. reflexivity.
  - cbn [scan_cut] in Hc. cbn [skipn] in Ha. cbn [length] in Hi. cbn [scan_edits].
    replace (pos + S i) with (S pos + i) by lia.
    destruct skip as [|k].
    + destruct (act (c :: t)) as [[[off' n'] v']|].
      * right. apply IH; [assumption | assumption | lia].
      * apply IH; [assumption | assumption | lia].
    + apply IH; [assumption | assumption | lia].
Qed.

(* a run of >= 2 marks that the scan reaches outside a previous match is rewritten *)
Lemma psm_complete : forall mark sym t i,
  scan_cut (psm_act mark sym) 0 t i = true -> i < length t -> 2 <= run_len mark (skipn i t) ->
  In (mkE i (i + run_len mark (skipn i t)) sym) (psm_edits mark sym t).
Proof.
  intros mark sym t i Hc Hi Hr. unfold psm_edits.
  assert (Ha : psm_act mark sym (skipn i t) = Some (0, run_len mark (skipn i t), sym)).
  { unfold psm_act. rewrite (proj2 (Nat.leb_le _ _) Hr). reflexivity. }
  pose proof (scan_complete _ t 0 0 i _ _ _ Hc Ha Hi) as H. cbn [Nat.add] in H. rewrite Nat.add_0_r in H. exact H.
Qed.

(* a yomigana candidate (kanji, left bracket, 1..maxlen readings, right bracket) that the scan reaches outside a
   previous match is removed, with a reading at least as long *)
Lemma yomi_complete : forall isK isR isL isB maxlen t p c l rest k',
  scan_cut (yomi_act isK isR isL isB maxlen) 0 t p = true ->
  skipn p t = c :: l :: rest -> isK c = true -> isL l = true ->
  1 <= k' -> k' <= maxlen -> reading_ok isR isB rest k' ->
  exists k, k' <= k /\ In (mkE (S p) (p + k + 3) []) (yomi_edits isK isR isL isB maxlen t).
Proof.
  intros isK isR isL isB maxlen t p c l rest k' Hc Hs Hk Hl H1 H2 Hok.
  destruct (reading_match_greedy isR isB maxlen rest k' H1 H2 Hok) as (k & Hm & Hle).
  exists k. split; [exact Hle|]. unfold yomi_edits.
  assert (Ha : yomi_act isK isR isL isB maxlen (skipn p t) = Some (1, k + 3, [])).
  { unfold yomi_act, yomi_at. rewrite Hs, Hk, Hl. cbn [andb]. rewrite Hm. reflexivity. }
  assert (Hp : p < length t).
  { destruct (Nat.lt_ge_cases p (length t)) as [|Hge]; [assumption|]. rewrite skipn_all2 in Hs by assumption. discriminate. }
  pose proof (scan_complete _ t 0 0 p _ _ _ Hc Ha Hp) as H. cbn [Nat.add] in H.
  replace (p + 1) with (S p) in H by lia. replace (p + (k + 3)) with (p + k + 3) in H by lia. exact H.
Qed.

(* every edit of a scan is emitted at a position the scan reaches outside a previous match *)
Lemma scan_edits_in_cut : forall act t pos skip e, In e (scan_edits act pos skip t) ->
  exists i off n v, scan_cut act skip t i = true /\ i < length t /\ act (skipn i t) = Some (off, n, v)
                    /\ e = mkE (pos + i + off) (pos + i + n) v.
Proof.
  intros act. induction t as [|c t IH]; intros pos skip e H; cbn [scan_edits] in H; [contradiction|].
  destruct skip as [|k].
  - destruct (act (c :: t)) as [[[off n] v]|] eqn:Ha.
    + destruct H as [<-|H].
      * exists 0, off, n, v. cbn [scan_cut skipn length]. rewrite Nat.add_0_r. repeat split; auto; lia.
      * destruct (IH _ _ _ H) as (i & off' & n' & v' & H1 & H2 & H3 & ->).
        exists (S i), off', n', v'. cbn [scan_cut skipn length]. rewrite Ha.
        replace (pos + S i) with (S pos + i) by lia. repeat split; auto; lia.
    + destruct (IH _ _ _ H) as (i & off' & n' & v' & H1 & H2 & H3 & ->).
      exists (S i), off', n', v'. cbn [scan_cut skipn length]. rewrite Ha.
      replace (pos + S i) with (S pos + i) by lia. repeat split; auto; lia.
  - destruct (IH _ _ _ H) as (i & off' & n' & v' & H1 & H2 & H3 & ->).
    exists (S i), off', n', v'. cbn [scan_cut skipn length].
    replace (pos + S i) with (S pos + i) by lia. repeat split; auto; lia.
Qed.

Section PsmMaximal.
  Variable mark : cp -> bool.
  Variable sym : text.

  Definition is_mark_at (t : text) (i : nat) : bool :=
    match nth_error t i with Some c => mark c | None => false end.

  Lemma run_len_0_head : forall t, run_len mark t = 0 -> is_mark_at t 0 = false.
  Proof.
    destruct t as [|c t]; [reflexivity|]. unfold is_mark_at. cbn [run_len nth_error].
    destruct (mark c); [discriminate | reflexivity].
  Qed.

  (* wherever the scan starts afresh, the characters left and right of that position are not both marks;
     `skip` > 0 means: we are inside a run that has been matched, and skip is exactly what is left of it *)
  Lemma psm_cut_left : forall t skip j,
    (skip = 0 \/ skip = run_len mark t) ->
    scan_cut (psm_act mark sym) skip t (S j) = true ->
    is_mark_at t j && is_mark_at t (S j) = false.
  Proof.
    induction t as [|c t IH]; intros skip j Hinv Hc; [cbn in Hc; discriminate|].
    cbn [scan_cut] in Hc.
    assert (Hstep : forall k, (k = 0 \/ k = run_len mark t) -> (mark c = true -> k = run_len mark t) ->
                    scan_cut (psm_act mark sym) k t j = true ->
                    is_mark_at (c :: t) j && is_mark_at (c :: t) (S j) = false).
    { intros k Hk Hm Hcut. destruct j as [|j].
      - rewrite scan_cut_0 in Hcut. destruct k; [|discriminate Hcut].
        unfold is_mark_at at 1. cbn [nth_error]. destruct (mark c) eqn:Ec; [|reflexivity].
        change (is_mark_at (c :: t) 1) with (is_mark_at t 0). rewrite run_len_0_head; [reflexivity|].
        symmetry. apply Hm. reflexivity.
      - change (is_mark_at (c :: t) (S j)) with (is_mark_at t j).
        change (is_mark_at (c :: t) (S (S j))) with (is_mark_at t (S j)). apply (IH k j Hk Hcut). }
    destruct skip as [|k].
    - unfold psm_act in Hc at 1. cbn [run_len] in Hc. destruct (mark c) eqn:Ec.
      + destruct (2 <=? S (run_len mark t)) eqn:E2.
        * apply (Hstep (S (run_len mark t) - 1)); [right; lia | intros; lia | exact Hc].
        * apply Nat.leb_gt in E2. apply (Hstep 0); [left; reflexivity | intros; lia | exact Hc].
      + cbn [Nat.leb] in Hc. apply (Hstep 0); [left; reflexivity | intros X; discriminate X | exact Hc].
    - destruct Hinv as [Hinv|Hinv]; [discriminate Hinv|]. cbn [run_len] in Hinv.
      destruct (mark c) eqn:Ec; [|discriminate Hinv].
      apply (Hstep k); [right; lia | intros; lia | exact Hc].
  Qed.

  (* a rewritten run cannot be extended to the left either: it starts the text or follows a non-mark *)
  Lemma psm_edits_left_maximal : forall t e, In e (psm_edits mark sym t) ->
    e_start e = 0 \/ exists p, e_start e = S p /\ is_mark_at t p = false.
  Proof.
    intros t e H. unfold psm_edits in H.
    destruct (scan_edits_in_cut _ _ _ _ _ H) as (i & off & n & v & Hc & Hi & Ha & ->).
    unfold psm_act in Ha. destruct (2 <=? run_len mark (skipn i t)) eqn:E; [|discriminate Ha].
    inversion Ha as [[Ho Hn Hv]]. subst off n v.
    cbn [e_start]. rewrite Nat.add_0_r. cbn [Nat.add]. destruct i as [|i]; [left; reflexivity|].
    right. exists i. split; [reflexivity|].
    pose proof (psm_cut_left t 0 i (or_introl eq_refl) Hc) as Hl.
    apply Nat.leb_le in E.
    assert (Hm : is_mark_at t (S i) = true).
    { unfold is_mark_at. rewrite <- (Nat.add_0_r (S i)), <- nth_error_skipn'.
      destruct (skipn (S i) t) as [|d r]; [cbn in E; lia|]. cbn [nth_error]. cbn [run_len] in E.
      destruct (mark d); [reflexivity | lia]. }
    rewrite Hm, andb_true_r in Hl. exact Hl.
  Qed.
End PsmMaximal.
