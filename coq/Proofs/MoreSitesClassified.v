(* node.rs / split glue / edit.rs / build() / trie.rs / word_id_table.rs: the panic-capable constructs per function
   (regenerated into Generated/MoreSites.v on every run) the site-level statements of C03 were written for. *)
From Coq Require Import List NArith String.
Import ListNotations.
Open Scope string_scope.

(* Generated.more_fns of the pinned tree, as reviewed; the obligation compares the keys at the end of this file *)
Definition more_fns_classified : list (string * string * list string * N * N * list string) :=
  [ ("analysis/node.rs", "split", [], 0%N, 0%N, ["self.begin() as u16"; "self.end() as u16"]);
    ("analysis/node.rs", "next", ["self.splits[idx]"], 1%N, 0%N, ["char_end as u16"; "byte_end as u16"]);
    ("analysis/node.rs", "concat_nodes", ["path[end-1]"; "path[begin]"; "path[begin..end]"; "path[begin..end]"; "path[begin]"; "path[begin]"; "path[end-1]"; "path[end-1]"; "path[begin]"; "path[end-1]"; "path[begin]"], 0%N, 0%N, [".begin() as u16"; ".end() as u16"]);
    ("analysis/node.rs", "concat_oov_nodes", ["path[end-1]"; "path[begin]"; "path[begin..end]"; "path[begin]"; "path[end-1]"; "path[end-1]"; "path[begin]"; "path[end-1]"; "path[begin]"], 0%N, 0%N, [".begin() as u16"; ".end() as u16"]);
    ("analysis/stateless_tokenizer.rs", "split_path", [], 0%N, 0%N, []);
    ("input_text/buffer/edit.rs", "resolve_edits", ["source[start..edit.what.start]"; "source_mapping[start..edit.what.start]"; "source[start..]"; "source_mapping[start..]"], 0%N, 0%N, []);
    ("input_text/buffer/edit.rs", "add_replace", ["source_mapping[what.start]"; "source_mapping[what.end]"], 0%N, 0%N, []);
    ("input_text/buffer/mod.rs", "build", ["self.mod_bow[bidx]"], 0%N, 0%N, []);
    ("input_text/buffer/mod.rs", "fill_cat_continuity", ["self.mod_cat[start]"; "self.mod_cat[end]"; "self.mod_cat_continuity[i]"], 0%N, 0%N, []);
    ("input_text/buffer/mod.rs", "fill_orig_b2c", ["self.m2o_2[b_idx]"; "self.m2o_2[self.original.len()]"], 0%N, 0%N, []);
    ("input_text/buffer/mod.rs", "commit", [], 0%N, 0%N, []);
    ("dic/lexicon/trie.rs", "next", [], 1%N, 0%N, []);
    ("dic/lexicon/trie.rs", "common_prefix_iterator", [], 0%N, 0%N, []);
    ("dic/lexicon/word_id_table.rs", "entries", [], 0%N, 0%N, []) ].

(* (file, function, construct, status) *)
Definition more_site_status : list (string * string * string * string) :=
  [ ("analysis/node.rs", "concat_nodes / concat_oov_nodes", "path[end-1], path[begin], path[begin..end], end_bytes - beg_bytes, head_word_length +=",
     "proved: C03_concat_no_panic (Proofs/SitesConcat.v: panicking variant = builder G's model for a proper range over a byte chain; the range is C14_no_invalid_range, the chain C01's path_ok_b through every rewrite)");
    ("analysis/node.rs", "concat_nodes / concat_oov_nodes", ".begin() as u16 / .end() as u16", "reviewed: character positions <= 65535 (C03_positions_fit_u16)");
    ("analysis/node.rs", "next", "self.splits[idx]", "proved by the guard `if idx >= self.splits.len() { return None }` two lines above (Model/Split.v split_go recurses on the list)");
    ("analysis/node.rs", "next", "self.text.ch_idx(byte_end) = mod_b2c[byte_end]", "proved: C03_split_panics_only_on_ill_formed_units (never with units_wf: C09_split_partitions_parent; witness of the panic without: known finding c06_split_surface_mismatch)");
    ("analysis/node.rs", "next", "get_word_info_subset(word_id, ..).unwrap()", "reviewed: split ids are validated by the dictionary compiler (C06)");
    ("analysis/node.rs", "next / split", "as u16 of char / byte positions", "reviewed: positions <= 65535 (C03_positions_fit_u16)");
    ("analysis/node.rs", "split", "panic!(Mode::C)", "reviewed: split_path returns before for Mode::C (Model/Split.v tokenize_mode)");
    ("input_text/buffer/edit.rs", "resolve_edits", "source[start..edit.what.start], source_mapping[start..edit.what.start], source[start..], source_mapping[start..]",
     "proved: C03_resolve_edits_no_index_panic (edits_ok batches: C07_plugin_edits_translate_ok)");
    ("input_text/buffer/edit.rs", "add_replace", "source_mapping[what.start], source_mapping[what.end]", "proved: C03_resolve_edits_no_index_panic");
    ("input_text/buffer/mod.rs", "build", "self.mod_bow[bidx], bidx - last_offset, modified.len() - last_offset", "proved: C03_build_writes_in_range (char_indices offsets are below the length and increase)");
    ("input_text/buffer/mod.rs", "fill_cat_continuity / fill_orig_b2c", "mod_cat[start], mod_cat[end], mod_cat_continuity[i], m2o_2[b_idx], m2o_2[original.len()]",
     "reviewed: every index is bounded by the loop condition on the vector's own length (start < len, end < len, i < end <= len; m2o_2 resized to len + 1)");
    ("dic/lexicon/trie.rs", "TrieEntryIter::get / Trie::get", "debug_assert!(index < len) + get_unchecked",
     "proved for certified arrays: C03_trie_reader_no_index_panic (= C04_traverse_in_bounds); NOT for every array the loader accepts: finding c03_damaged_dictionary");
    ("dic/lexicon/trie.rs", "next", "self.data.get(i).unwrap()", "proved by the loop range i in offset..data.len()");
    ("dic/lexicon/word_id_table.rs", "entries", "2 debug_asserts + raw pointer reads", "proved for tables written by the builder at recorded offsets: C03_wid_table_reader_no_index_panic (= C04_wid_table_roundtrip); NOT for every table the loader accepts: finding c03_damaged_dictionary") ].

(* The classified constructs as keys (gen/sitekeys.py), per function: Generated.MoreSites.more_site_keys has to stay WITHIN this table
   (obligation C03_fact_more_sites: Proofs/SiteCover.covered).  A construct that disappears from the code, or an index /
   cast operand spelled differently, leaves the obligation closed; a new construct or one more of a kind re-opens it.
   The table `more_fns_classified` above is the reviewed inventory with the full expressions of the pinned tree (what the site-status
   table talks about); Generated/MoreSites.v still lists the current expressions next to the keys. *)
Definition more_keys_classified : list (string * list string) :=
  [ ("analysis/node.rs:split", ["cast:u16"; "cast:u16"]);
    ("analysis/node.rs:next", ["cast:u16"; "cast:u16"; "idx:self.splits[i]"; "unwrap"]);
    ("analysis/node.rs:concat_nodes", ["cast:u16"; "cast:u16"; "idx:path[i]"; "idx:path[i]"; "idx:path[i]"; "idx:path[i]"; "idx:path[i]"; "idx:path[i]"; "idx:path[i]"; "idx:path[i]"; "idx:path[i]"; "idx:path[r]"; "idx:path[r]"]);
    ("analysis/node.rs:concat_oov_nodes", ["cast:u16"; "cast:u16"; "idx:path[i]"; "idx:path[i]"; "idx:path[i]"; "idx:path[i]"; "idx:path[i]"; "idx:path[i]"; "idx:path[i]"; "idx:path[i]"; "idx:path[r]"]);
    ("analysis/stateless_tokenizer.rs:split_path", []);
    ("input_text/buffer/edit.rs:resolve_edits", ["idx:source[r]"; "idx:source[r]"; "idx:source_mapping[r]"; "idx:source_mapping[r]"]);
    ("input_text/buffer/edit.rs:add_replace", ["idx:source_mapping[i]"; "idx:source_mapping[i]"]);
    ("input_text/buffer/mod.rs:build", ["idx:self.mod_bow[i]"]);
    ("input_text/buffer/mod.rs:fill_cat_continuity", ["idx:self.mod_cat[i]"; "idx:self.mod_cat[i]"; "idx:self.mod_cat_continuity[i]"]);
    ("input_text/buffer/mod.rs:fill_orig_b2c", ["idx:self.m2o_2[i]"; "idx:self.m2o_2[i]"]);
    ("input_text/buffer/mod.rs:commit", []);
    ("dic/lexicon/trie.rs:next", ["unwrap"]);
    ("dic/lexicon/trie.rs:common_prefix_iterator", []);
    ("dic/lexicon/word_id_table.rs:entries", []) ].
