(* C05 / word ids: the 4-bit dictionary number + 28-bit word number encoding (sudachi/src/dic/word_id.rs), the out-of-vocabulary
   marker (dictionary number 0xF) and the capacity of a dictionary stack (MAX_DICTIONARIES, LexiconSet::is_full / append).
   The model of the encoding is builder C's (Model/LexSet.v: stamp, dic_of, word_of, is_oov, reported_dic, merge_all), whose
   constants are regenerated from the sources (Generated/LexFacts.v, Generated/Limits.v); the layout lemmas are C's
   (Proofs/LexSetProofs.v).  Here: what C05 needs of them -- every word of every dictionary that can be loaded has an id that
   decodes to (dictionary, word), is never in the out-of-vocabulary class, reports a dictionary id in 0..14 -- under the
   obligation that the capacity constant is EXACTLY the out-of-vocabulary dictionary number; the reading of the dictionary
   number by an arithmetic shift of the signed value agrees exactly for the numbers 0..7 and 15. *)
From Coq Require Import List NArith ZArith Lia String Bool.
From SudachiVerif Require Import Model.LexSet Proofs.LexSetProofs.
From SudachiVerif Require Generated.LexFacts Generated.Limits.
Import ListNotations.
Open Scope N_scope.

Module LF := Generated.LexFacts.
Module LM := Generated.Limits.

(* decidable obligation on the regenerated facts: is_full is `len >= MAX_DICTIONARIES`; MAX_DICTIONARIES is exactly the dictionary
   number WordId::oov uses, which is the number WordId::is_oov tests; Morpheme::dictionary_id is `oov -> -1, else dic()`
   (dic() is `(raw >> s) as u8`: a logical shift of the unsigned value, Generated/LexFacts.v is not produced otherwise) *)
Definition wordid_capacity_ok : bool :=
  String.eqb LF.is_full_cmp ">=" && (LM.MAX_DICTIONARIES =? LF.OOV_DIC) && (LF.IS_OOV_DIC =? LF.OOV_DIC)
  && String.eqb LF.dictionary_id_shape "oov->-1;else->dic".

Section WordId.
Hypothesis HL : layout_ok = true.
Hypothesis HC : wordid_capacity_ok = true.

Lemma capacity_facts : LF.is_full_cmp = ">="%string /\ LM.MAX_DICTIONARIES = 15 /\ LF.OOV_DIC = 15.
Proof.
  unfold wordid_capacity_ok in HC. repeat rewrite andb_true_iff in HC. rewrite !N.eqb_eq in HC. rewrite !String.eqb_eq in HC.
  destruct (layout_facts HL) as [_ [_ [_ [_ E5]]]]. destruct HC as [[[E1 E2] _] _]. rewrite E5 in E2. tauto.
Qed.

(* decode (encode dic word) = (dic, word), for every 4-bit dictionary number and 28-bit word number *)
Lemma word_id_roundtrip : forall dic word, dic < 16 -> word <= WORD_MASK ->
  dic_of (stamp dic word) = dic /\ word_of (stamp dic word) = word.
Proof. intros dic word Hd Hw. split; [apply dic_of_stamp|apply word_of_stamp]; assumption. Qed.

Lemma word_id_injective : forall d1 w1 d2 w2, d1 < 16 -> d2 < 16 -> w1 <= WORD_MASK -> w2 <= WORD_MASK ->
  stamp d1 w1 = stamp d2 w2 -> d1 = d2 /\ w1 = w2.
Proof. intros. apply stamp_inj; assumption. Qed.

(* a word of a dictionary below the capacity is never in the out-of-vocabulary class and reports its dictionary, 0..14 *)
Lemma loaded_word_never_oov : forall dic word, dic < LM.MAX_DICTIONARIES -> word <= WORD_MASK ->
  is_oov (stamp dic word) = false /\ reported_dic (stamp dic word) = Z.of_N dic
  /\ (0 <= reported_dic (stamp dic word) <= 14)%Z.
Proof.
  intros dic word Hd Hw. destruct capacity_facts as [_ [E2 E3]]. rewrite E2 in Hd.
  assert (Ho : is_oov (stamp dic word) = false).
  { unfold is_oov. rewrite dic_of_stamp by (try lia; assumption). rewrite E3. apply N.eqb_neq. lia. }
  assert (Hr : reported_dic (stamp dic word) = Z.of_N dic) by (apply reported_dic_stamp; assumption).
  split; [exact Ho|]. split; [exact Hr|]. rewrite Hr. lia.
Qed.

(* ... and it is the capacity that keeps the dictionaries below that number: LexiconSet::append gives a dictionary its
   position in the stack as its number and refuses when the stack is full *)
Lemma is_full_spec' s : is_full s = (15 <=? N.of_nat (List.length (s_words s))).
Proof. destruct capacity_facts as [E1 [E2 _]]. unfold is_full. rewrite E1, E2. reflexivity. Qed.

Lemma merge_all_length : forall us s s', merge_all s us = Some s' ->
  List.length (s_words s') = (List.length (s_words s) + List.length us)%nat /\ (us <> [] -> (List.length (s_words s') <= 15)%nat).
Proof.
  induction us as [|u t IH]; intros s s' Hm; cbn [merge_all] in Hm.
  - injection Hm as <-. split; [cbn; lia|intros Hn; contradiction].
  - unfold merge_user in Hm. rewrite is_full_spec' in Hm.
    destruct (15 <=? N.of_nat (List.length (s_words s))) eqn:E; [discriminate|].
    apply N.leb_gt in E. destruct (IH _ _ Hm) as [Hlen Hcap]. cbn [s_words] in Hlen, Hcap. rewrite app_length in Hlen. cbn [List.length] in *.
    split; [lia|]. intros _. destruct t as [|u2 t2].
    + cbn [merge_all] in Hm. injection Hm as <-. cbn [s_words]. rewrite app_length. cbn [List.length]. lia.
    + apply Hcap. discriminate.
Qed.

Lemma stack_words_never_oov : forall s us s', List.length (s_words s) = 1%nat -> merge_all s us = Some s' ->
  forall d, (d < List.length (s_words s'))%nat ->
  N.of_nat d < LF.OOV_DIC /\
  forall word, word <= WORD_MASK ->
    is_oov (stamp (N.of_nat d) word) = false /\ reported_dic (stamp (N.of_nat d) word) = Z.of_nat d
    /\ dic_of (stamp (N.of_nat d) word) = N.of_nat d /\ word_of (stamp (N.of_nat d) word) = word.
Proof.
  intros s us s' H1 Hm d Hd. destruct capacity_facts as [_ [E2 E3]].
  assert (Hd15 : N.of_nat d < 15).
  { destruct (merge_all_length _ _ _ Hm) as [Hlen Hcap]. destruct us as [|u t].
    - cbn [List.length] in Hlen. lia.
    - assert (List.length (s_words s') <= 15)%nat by (apply Hcap; discriminate). lia. }
  split; [rewrite E3; exact Hd15|]. intros word Hw.
  destruct (loaded_word_never_oov (N.of_nat d) word) as [Ho [Hr _]]; [rewrite E2; exact Hd15|exact Hw|].
  destruct (word_id_roundtrip (N.of_nat d) word) as [R1 R2]; [lia|exact Hw|].
  rewrite nat_N_Z in Hr. repeat split; assumption.
Qed.

(* the refutation shape: were a 15th user dictionary loaded (dictionary number 15), each of its words WOULD BE an
   out-of-vocabulary id: the same raw value, the out-of-vocabulary class, dictionary id -1 *)
Lemma fifteenth_user_dictionary_is_oov : forall word, word <= WORD_MASK ->
  stamp LM.MAX_DICTIONARIES word = oov_id word /\ is_oov (stamp LM.MAX_DICTIONARIES word) = true
  /\ reported_dic (stamp LM.MAX_DICTIONARIES word) = (-1)%Z.
Proof.
  intros word Hw. destruct capacity_facts as [_ [E2 E3]]. unfold oov_id. rewrite E2, E3.
  assert (Ho : is_oov (stamp 15 word) = true).
  { unfold is_oov. rewrite dic_of_stamp by (try lia; assumption). rewrite E3. reflexivity. }
  split; [reflexivity|]. split; [exact Ho|]. unfold reported_dic. rewrite Ho. reflexivity.
Qed.

(* ---------- reading the dictionary number with an arithmetic shift of the signed value ---------- *)
(* `(raw as i32) >> 28` *)
Definition signed32 (w : N) : Z := if w <? 2147483648 then Z.of_N w else (Z.of_N w - 4294967296)%Z.
Definition arith_dic (w : N) : Z := (signed32 w / 268435456)%Z.

Lemma lor_shift_add d raw : raw < 268435456 -> N.lor (N.shiftl d 28) raw = d * 268435456 + raw.
Proof.
  intros Hr. rewrite N.shiftl_mul_pow2. change (2 ^ 28) with 268435456.
  assert (Hz : N.land (d * 268435456) raw = 0).
  { apply N.bits_inj_iff. intros n. rewrite N.land_spec, N.bits_0.
    destruct (N.lt_ge_cases n 28) as [Hn | Hn].
    - change 268435456 with (2 ^ 28). rewrite N.mul_pow2_bits_low by exact Hn. reflexivity.
    - rewrite <- (N.mod_small raw (2 ^ 28)) by (change (2 ^ 28) with 268435456; exact Hr).
      rewrite N.mod_pow2_bits_high by exact Hn. apply andb_false_r. }
  rewrite <- (N.lxor_lor _ _ Hz). symmetry. apply N.add_nocarry_lxor. exact Hz.
Qed.

Lemma stamp_add d word : d < 16 -> word <= WORD_MASK -> stamp d word = d * 268435456 + word.
Proof.
  intros Hd Hw. rewrite stamp_eq by assumption. apply lor_shift_add.
  pose proof (raw_small HL word Hw) as Hs. change (2 ^ 28) with 268435456 in Hs. exact Hs.
Qed.

Lemma arith_dic_stamp : forall d word, d < 16 -> word <= WORD_MASK ->
  arith_dic (stamp d word) = if d <? 8 then Z.of_N d else (Z.of_N d - 16)%Z.
Proof.
  intros d word Hd Hw. rewrite stamp_add by assumption.
  pose proof (raw_small HL word Hw) as Hs. change (2 ^ 28) with 268435456 in Hs.
  unfold arith_dic, signed32.
  destruct (d <? 8) eqn:E8.
  - apply N.ltb_lt in E8. assert (Hlt : d * 268435456 + word < 2147483648) by lia.
    apply N.ltb_lt in Hlt. rewrite Hlt.
    symmetry. apply (Z.div_unique_pos _ _ _ (Z.of_N word)); lia.
  - apply N.ltb_ge in E8. assert (Hge : 2147483648 <= d * 268435456 + word) by lia.
    apply N.ltb_ge in Hge. rewrite Hge.
    symmetry. apply (Z.div_unique_pos _ _ _ (Z.of_N word)); lia.
Qed.

(* the arithmetic-shift reading is the dictionary id exactly for the numbers 0..7 and for the out-of-vocabulary marker;
   for the user dictionaries 8..14 it is negative *)
Lemma arith_shift_agrees_iff : forall d word, d < 16 -> word <= WORD_MASK ->
  (arith_dic (stamp d word) = reported_dic (stamp d word) <-> d < 8 \/ d = 15).
Proof.
  intros d word Hd Hw. rewrite arith_dic_stamp by assumption.
  destruct (layout_facts HL) as [_ [_ [_ [_ E5]]]].
  assert (Hrep : reported_dic (stamp d word) = if d =? 15 then (-1)%Z else Z.of_N d).
  { unfold reported_dic, is_oov. rewrite dic_of_stamp by assumption. rewrite E5. reflexivity. }
  rewrite Hrep. clear Hrep.
  destruct (N.ltb_spec d 8) as [E8|E8]; destruct (N.eqb_spec d 15) as [E15|E15]; split; intros; lia.
Qed.
End WordId.
