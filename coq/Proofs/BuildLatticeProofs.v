(* With a fallback provider that always yields a node, lattice construction never reports EosBosDisconnect. *)
From Coq Require Import List ZArith NArith Bool Arith Lia.
From SudachiVerif Require Import Model.Lattice Model.BuildLattice Proofs.LatticeProofs.
Import ListNotations.

Section P.
  Variable conn : N -> N -> Z.
  Variable cands : nat -> list node.
  Variable fallback : nat -> option node.
  Variable n : nat.

  Definition node_wf (p : nat) (m : node) : Prop := nbeg m = p /\ (p < nend m)%nat /\ (nend m <= n)%nat.

  Hypothesis cands_wf : forall p m, In m (cands p) -> node_wf p m.
  Hypothesis fallback_total_hyp : forall p, (p < n)%nat -> exists f, fallback p = Some f /\ node_wf p f.

  (* all stored entries are connected, and some row at or beyond the frontier is non-empty *)
  Definition connected (L : lattice) : Prop := forall i e, In e (row L i) -> etotal e <> None.
  Definition J (L : lattice) (p : nat) : Prop :=
    length L = S n /\ connected L /\ exists q, (p <= q <= n)%nat /\ row L q <> [].

  Lemma has_prev_row L i : has_previous_node L i = true <-> row L i <> [].
  Proof.
    unfold has_previous_node, row. destruct (nth_error L i) as [r|] eqn:E.
    - rewrite (nth_error_nth L i [] E). destruct r; split; intros; try discriminate; try congruence; auto.
    - rewrite nth_overflow by (apply nth_error_None; exact E). split; [discriminate|congruence].
  Qed.

  Lemma scan_connected es : forall i lft cst acc,
    es <> [] -> (forall e, In e es -> etotal e <> None) -> scan conn es i lft cst acc <> None.
  Proof.
    intros i lft cst acc Hne Hc. destruct es as [|e es]; [congruence|].
    destruct (etotal e) as [t|] eqn:Et; [|exfalso; apply (Hc e); cbn; auto].
    destruct (scan_le conn (e :: es) i lft cst acc e t (or_introl eq_refl) Et) as (j & c & H & _). congruence.
  Qed.

  Lemma insert_connected L m :
    length L = S n -> connected L -> row L (nbeg m) <> [] -> (nend m <= n)%nat ->
    connected (fst (insert conn L m)) /\ row (fst (insert conn L m)) (nend m) <> [] /\
    length (fst (insert conn L m)) = S n /\
    (forall q, row L q <> [] -> row (fst (insert conn L m)) q <> []).
  Proof.
    intros HL HC Hrow Hend. unfold insert, connect_node.
    pose proof (scan_connected (row L (nbeg m)) 0 (nleft m) (ncost m) None Hrow (HC (nbeg m))) as Hs.
    destruct (scan conn (row L (nbeg m)) 0 (nleft m) (ncost m) None) as [[j c]|]; [|congruence].
    cbn [fst]. repeat split.
    - intros i e. rewrite row_push by lia. destruct (Nat.eqb i (nend m)); [|apply HC].
      intros Hin. apply in_app_or in Hin. destruct Hin as [Hin|[<-|[]]]; [apply (HC i); exact Hin|cbn; discriminate].
    - rewrite row_push by lia. rewrite Nat.eqb_refl. destruct (row L (nend m)); discriminate.
    - rewrite push_length. exact HL.
    - intros q Hq. rewrite row_push by lia. destruct (Nat.eqb q (nend m)); [|exact Hq].
      destruct (row L q); [congruence|discriminate].
  Qed.

  Lemma insert_all_connected : forall ns L p,
    length L = S n -> connected L -> row L p <> [] -> (forall m, In m ns -> node_wf p m) ->
    let L' := insert_all conn L ns in
    connected L' /\ length L' = S n /\ (forall q, row L q <> [] -> row L' q <> []) /\
    (forall m, In m ns -> row L' (nend m) <> []).
  Proof.
    induction ns as [|m ns IH]; intros L p HL HC Hrow Hwf; cbn [insert_all fold_left].
    - repeat split; auto; try (intros m []).
    - destruct (Hwf m (or_introl eq_refl)) as (Hb & Hlt & Hle).
      destruct (insert_connected L m HL HC) as (C1 & C2 & C3 & C4); [rewrite Hb; exact Hrow|exact Hle|].
      destruct (IH (fst (insert conn L m)) p C3 C1 (C4 p Hrow)) as (D1 & D2 & D3 & D4).
      { intros; apply Hwf; cbn; auto. }
      repeat split; auto.
      intros m' [<-|Hin]; [apply D3; exact C2|apply D4; exact Hin].
  Qed.

  Lemma step_J L p : (p < n)%nat -> J L p -> exists L', step conn cands fallback L p = Some L' /\ J L' (S p).
  Proof.
    intros Hp (HL & HC & q & Hq & Hrow). unfold step.
    destruct (has_previous_node L p) eqn:Hh.
    - apply has_prev_row in Hh.
      set (ns := match cands p with
                 | [] => match fallback p with Some f => [f] | None => [] end
                 | l => l end).
      assert (Hns : ns <> [] /\ forall m, In m ns -> node_wf p m).
      { unfold ns. destruct (cands p) as [|c cs] eqn:Ec.
        - destruct (fallback_total_hyp p Hp) as (f & -> & Hf). split; [discriminate|]. intros m [<-|[]]. exact Hf.
        - split; [discriminate|]. intros m Hm. apply cands_wf. rewrite Ec. exact Hm. }
      destruct Hns as [Hne Hwf]. fold ns.
      destruct ns as [|m0 ns0] eqn:En; [congruence|]. eexists. split; [reflexivity|].
      destruct (insert_all_connected (m0 :: ns0) L p HL HC Hh Hwf) as (D1 & D2 & D3 & D4).
      split; [exact D2|]. split; [exact D1|].
      destruct (Hwf m0 (or_introl eq_refl)) as (_ & Hlt & Hle).
      exists (nend m0). split; [lia|]. apply D4. cbn; auto.
    - eexists. split; [reflexivity|]. split; [exact HL|]. split; [exact HC|].
      exists q. split; [|exact Hrow]. destruct (Nat.eq_dec q p) as [->|Hne]; [|lia].
      apply has_prev_row in Hrow. congruence.
  Qed.

  Lemma loop_J : forall todo L p, (p + todo = n)%nat -> J L p ->
    exists L', loop conn cands fallback L p todo = Some L' /\ J L' n.
  Proof.
    induction todo as [|t IH]; intros L p Hsum HJ; cbn [loop].
    - replace n with p by lia. eauto.
    - destruct (step_J L p) as (L' & -> & HJ'); [lia|exact HJ|]. apply (IH L' (S p)); [lia|exact HJ'].
  Qed.

  (* C03: with a fallback provider, build_lattice succeeds for every non-empty text *)
  Theorem fallback_total : exists L e, build conn cands fallback n = Some (L, e).
  Proof.
    unfold build.
    assert (J0 : J (reset n) 0).
    { split; [unfold reset; cbn; rewrite repeat_length; reflexivity|]. split.
      - intros i e. rewrite row_reset. destruct (Nat.eqb i 0); [|intros []]. intros [<-|[]]. cbn. discriminate.
      - exists 0%nat. split; [lia|]. rewrite row_reset. cbn. discriminate. }
    destruct (loop_J n (reset n) 0 eq_refl J0) as (L & -> & (HL & HC & q & Hq & Hrow)).
    assert (q = n) by lia. subst q.
    unfold connect_eos, connect_node. rewrite HL. cbn [length Nat.sub]. rewrite Nat.sub_0_r.
    pose proof (scan_connected (row L n) 0 0%N 0%Z None Hrow (HC n)) as Hs.
    destruct (scan conn (row L n) 0 0%N 0%Z None) as [[i c]|]; [|congruence]. eauto.
  Qed.
End P.
