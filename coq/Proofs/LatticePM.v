(* The two machine-level models of analysis/lattice.rs agree: on well-formed input the panicking-index model
   (Model/LatticeP.v) returns POk exactly with the values of Model/LatticeM.v, and stops at the i32 addition exactly when
   LatticeM does.  With LatticeM's exactness under the cost bound (LatticeMProofs.i32_exact_if_bounded) this gives one
   statement: under the bound nothing panics in the debug profile. *)
From Coq Require Import List ZArith NArith Bool Arith Lia.
From SudachiVerif Require Import Model.Lattice Model.LatticeM Model.LatticeP Proofs.LatticePProofs Proofs.LatticeMProofs.
From SudachiVerif Require Generated.ConnFacts.
Import ListNotations.
Local Open Scope nat_scope.

(* the connection matrix as the total function LatticeM is parameterised by: a read outside the table gives 0 *)
Definition mconn (nl nr : N) (data : list Z) (l r : N) : Z :=
  nth (N.to_nat (Generated.ConnFacts.conn_index l r nl nr)) data 0%Z.

(* one slot of LatticeM as the VNode of `ends` *)
Definition vm (e : mentry) : vnode := mkV (mtotal e) (mright e).
(* LatticeM's "index of the best predecessor" as a NodeIdx *)
Definition pb (begin : nat) (b : option nat) : nidx := match b with None => EMPTY_IDX | Some i => (begin, i) end.

Definition lift {A B} (f : A -> B) (x : res A) : pres B :=
  match x with Ok a => POk (f a) | Panic => PPanic S_add_overflow end.

Lemma mpush_row_spec : forall (L : mlattice) i e, i < length L ->
  length (mpush_row L i e) = length L /\ mrow (mpush_row L i e) i = mrow L i ++ [e]
  /\ forall j, j <> i -> mrow (mpush_row L i e) j = mrow L j.
Proof.
  induction L as [|r L IH]; intros i e H; cbn [length] in H; [lia|].
  destruct i as [|i]; cbn [mpush_row].
  - repeat split; auto. intros [|j] Hj; [contradiction | reflexivity].
  - destruct (IH i e ltac:(lia)) as (H1 & H2 & H3). repeat split.
    + cbn. lia.
    + exact H2.
    + intros [|j] Hj; [reflexivity|]. apply H3. lia.
Qed.

(* connect_node lowers the cost only together with setting the predecessor *)
Lemma mscan_best : forall checked conn es i lft cst best minc b' m',
  mscan checked conn es i lft cst best minc = Ok (b', m') -> (b' = best /\ m' = minc) \/ exists j, b' = Some j.
Proof.
  intros checked conn. induction es as [|e es IH]; intros i lft cst best minc b' m' H; cbn [mscan] in H.
  - inversion H; subst. left; auto.
  - destruct (mtotal e =? MAX32)%Z; [exact (IH _ _ _ _ _ _ _ H)|].
    destruct (add32 checked (mtotal e) (conn (mright e) lft)) as [s1|]; [|discriminate H].
    destruct (add32 checked s1 cst) as [nc|]; [|discriminate H].
    destruct (nc <? minc)%Z; [|exact (IH _ _ _ _ _ _ _ H)].
    destruct (IH _ _ _ _ _ _ _ H) as [[-> _]|Hj]; right; eauto.
Qed.

Section Sim.
  Variable dbg ovf : bool.
  Variable nl nr : N.
  Variable data : list Z.
  Hypothesis Hm : matrix_ok nl nr data = true.

  Lemma pconn_eq : forall l r, (l < nl)%N -> (r < nr)%N -> pconn dbg nl nr data l r = POk (mconn nl nr data l r).
  Proof.
    intros l r Hl Hr. destruct (matrix_facts nl nr data Hm) as (_ & _ & Hd). unfold pconn, mconn.
    rewrite (proj2 (N.ltb_lt _ _) Hl), (proj2 (N.ltb_lt _ _) Hr). cbn [negb]. rewrite !andb_false_r.
    assert (Hi : N.to_nat (Generated.ConnFacts.conn_index l r nl nr) < length data).
    { rewrite <- Hd. unfold Generated.ConnFacts.conn_index. assert (r * nl + l < nl * nr)%N by nia. lia. }
    rewrite (proj2 (Nat.ltb_lt _ _) Hi). cbn [negb]. rewrite andb_false_r.
    rewrite (nth_error_nth' data 0%Z Hi). reflexivity.
  Qed.

  Lemma padd_add32 : forall a b, padd ovf a b = lift (fun z => z) (add32 ovf a b).
  Proof. intros. unfold padd, lift. destruct (add32 ovf a b); reflexivity. Qed.

  (* the loop of connect_node *)
  Lemma pscan_sim : forall es i begin lft cst best minc,
    (lft < nr)%N -> (forall e, In e es -> (mright e < nl)%N) ->
    (N.of_nat (i + length es) <= 65536)%N -> (N.of_nat begin < 65536)%N ->
    pscan dbg ovf nl nr data (map vm es) i begin lft cst (pb begin best) minc
    = lift (fun bm => (pb begin (fst bm), snd bm)) (mscan ovf (mconn nl nr data) es i lft cst best minc).
  Proof.
    induction es as [|e es IH]; intros i begin lft cst best minc Hl Hr Hlen Hb; [reflexivity|].
    assert (Hr' : forall e', In e' es -> (mright e' < nl)%N) by (intros; apply Hr; right; assumption).
    cbn [length] in Hlen. cbn [map pscan mscan vm v_total v_right].
    destruct (mtotal e =? MAX32)%Z.
    - apply IH; auto. lia.
    - rewrite (pconn_eq (mright e) lft) by (auto; apply Hr; left; reflexivity). cbn [pbind].
      rewrite padd_add32. destruct (add32 ovf (mtotal e) (mconn nl nr data (mright e) lft)) as [s1|]; cbn [lift pbind]; [|reflexivity].
      rewrite padd_add32. destruct (add32 ovf s1 cst) as [nc|]; cbn [lift pbind]; [|reflexivity].
      destruct (nc <? minc)%Z.
      + rewrite (as_u16_small begin Hb), (as_u16_small i) by lia.
        change (begin, i) with (pb begin (Some i)). apply IH; auto. lia.
      + apply IH; auto. lia.
  Qed.

  (* the rows of `ends` are LatticeM's rows *)
  Definition Rel (LP : plat) (LM : mlattice) : Prop := forall r, row (p_ends LP) r = map vm (mrow LM r).

  Lemma pconnect_node_sim : forall len rest LP LM n,
    Inv nl len rest LP -> Rel LP LM -> nbeg n <= len -> (N.of_nat len <= 65535)%N -> (nleft n < nr)%N ->
    pconnect_node dbg ovf nl nr data LP n
    = lift (fun bm => (pb (nbeg n) (fst bm), snd bm)) (mconnect_node ovf (mconn nl nr data) LM (nbeg n) (nleft n) (ncost n)).
  Proof.
    intros len rest LP LM n HI HR Hb Hlen Hl. unfold pconnect_node, mconnect_node.
    rewrite idx_ok by (pose proof (i_cap_e _ _ _ _ HI); lia). cbn [pbind]. rewrite (HR (nbeg n)).
    change EMPTY_IDX with (pb (nbeg n) None). apply pscan_sim.
    - exact Hl.
    - intros e He. apply (i_ids _ _ _ _ HI (nbeg n) (vm e)). rewrite (HR (nbeg n)). apply in_map. exact He.
    - pose proof (i_small _ _ _ _ HI (nbeg n)) as Hs. rewrite (HR (nbeg n)), map_length in Hs. cbn [Nat.add]. lia.
    - lia.
  Qed.

  Lemma pinsert_sim : forall len rest LP LM n,
    Inv nl len (n :: rest) LP -> Rel LP LM -> length LM = S len ->
    pnode_wf len n = true -> ids_ok nl nr n = true -> (N.of_nat len <= 65535)%N ->
    match minsert ovf (mconn nl nr data) LM n with
    | Ok (LM', c) => exists LP', pinsert dbg ovf nl nr data LP n = POk (LP', c) /\ Rel LP' LM' /\ length LM' = S len
    | Panic => pinsert dbg ovf nl nr data LP n = PPanic S_add_overflow
    end.
  Proof.
    intros len rest LP LM n HI HR HL Hwf Hids Hlen.
    unfold pnode_wf in Hwf. apply andb_true_iff in Hwf. destruct Hwf as [Hbe Hel]. apply Nat.ltb_lt in Hbe. apply Nat.leb_le in Hel.
    unfold ids_ok in Hids. apply andb_true_iff in Hids. destruct Hids as [Hir Hil]. apply N.ltb_lt in Hir, Hil.
    unfold pinsert, minsert. rewrite (pconnect_node_sim len (n :: rest) LP LM n HI HR ltac:(lia) Hlen Hil).
    destruct (mconnect_node ovf (mconn nl nr data) LM (nbeg n) (nleft n) (ncost n)) as [[best c]|]; cbn [lift pbind fst snd]; [|reflexivity].
    destruct (push_idx_ok S_insert_ends_end (p_ends LP) (nend n) (mkV c (nright n))) as (E' & -> & Le & Re & Oe);
      [pose proof (i_cap_e _ _ _ _ HI); lia|].
    destruct (push_idx_ok S_insert_indices_end (p_idx LP) (nend n) (pb (nbeg n) best)) as (I' & -> & _);
      [pose proof (i_cap_i _ _ _ _ HI); lia|].
    destruct (push_idx_ok S_insert_full_end (p_full LP) (nend n) n) as (F' & -> & _);
      [pose proof (i_cap_f _ _ _ _ HI); lia|].
    cbn [pbind]. eexists. split; [reflexivity|].
    destruct (mpush_row_spec LM (nend n) (mkM (Some n) c (option_map (fun i => (nbeg n, i)) best)) ltac:(lia)) as (M1 & M2 & M3).
    split; [|lia]. intros r. cbn [p_ends]. destruct (Nat.eq_dec r (nend n)) as [->|Hne].
    - rewrite Re, M2, map_app, (HR (nend n)). reflexivity.
    - rewrite (Oe r Hne), (M3 r Hne). apply HR.
  Qed.

  Lemma pinsert_all_sim : forall len ns LP LM,
    Inv nl len ns LP -> Rel LP LM -> length LM = S len ->
    forallb (pnode_wf len) ns = true -> forallb (ids_ok nl nr) ns = true -> (N.of_nat len <= 65535)%N ->
    match minsert_all ovf (mconn nl nr data) LM ns with
    | Ok (LM', cs) => exists LP', pinsert_all dbg ovf nl nr data LP ns = POk (LP', cs) /\ Rel LP' LM' /\ length LM' = S len
                                  /\ Inv nl len [] LP'
    | Panic => pinsert_all dbg ovf nl nr data LP ns = PPanic S_add_overflow
    end.
  Proof.
    intros len. induction ns as [|n ns IH]; intros LP LM HI HR HL Hwf Hids Hlen; cbn [pinsert_all minsert_all].
    - exists LP. auto.
    - cbn [forallb] in Hwf, Hids. apply andb_true_iff in Hwf, Hids. destruct Hwf as [Hn Hwf]. destruct Hids as [Hi Hids].
      pose proof (pinsert_sim len ns LP LM n HI HR HL Hn Hi Hlen) as Hs.
      pose proof (pinsert_inv dbg ovf nl nr data Hm len ns LP n HI Hn Hi Hlen) as Hv.
      destruct (minsert ovf (mconn nl nr data) LM n) as [[LM1 c]|].
      + destruct Hs as (LP1 & E1 & HR1 & HL1). rewrite E1 in Hv |- *. cbn [pbind fst snd]. destruct Hv as [HI1 _].
        specialize (IH LP1 LM1 HI1 HR1 HL1 Hwf Hids Hlen).
        destruct (minsert_all ovf (mconn nl nr data) LM1 ns) as [[LM2 cs]|].
        * destruct IH as (LP2 & E2 & HR2 & HL2 & HI2). rewrite E2. cbn [pbind fst snd]. exists LP2. auto.
        * rewrite IH. reflexivity.
      + rewrite Hs. reflexivity.
  Qed.

  (* reset: the rows of a freshly reset Lattice - whatever it held before - are those of LatticeM's mreset *)
  Lemma preset_rel : forall L0 len L1, preset L0 len = POk L1 -> Rel L1 (mreset len) /\ length (mreset len) = S len.
  Proof.
    intros L0 len L1 H. split; [|unfold mreset; cbn; rewrite repeat_length; reflexivity].
    unfold preset, push_idx in H.
    destruct (push_at (reset_vec (p_ends L0) (len + 1)) 0 _) as [e|] eqn:E; cbn [pbind] in H; [|discriminate H].
    inversion H; subst. destruct (push_at_spec _ _ _ _ E) as (_ & R0 & Ro). destruct (reset_vec_spec (p_ends L0) (len + 1)) as [_ Ee].
    intros r. cbn [p_ends]. destruct r as [|r].
    - rewrite R0, Ee. reflexivity.
    - rewrite (Ro (S r)) by lia. rewrite Ee. unfold mrow, mreset. cbn [nth].
      destruct (Nat.lt_ge_cases r len) as [Hr|Hr]; [rewrite nth_repeat | rewrite nth_overflow by (rewrite repeat_length; lia)]; reflexivity.
  Qed.

  Lemma pconnect_eos_sim : forall len rest LP LM,
    Inv nl len rest LP -> Rel LP LM -> length LM = S len -> (N.of_nat len <= 65535)%N ->
    match mconnect_eos ovf (mconn nl nr data) LM with
    | Ok e => exists LP', pconnect_eos dbg ovf nl nr data LP = POk (LP', match e with Some _ => true | None => false end)
                          /\ (forall r i c, e = Some (r, i, c) -> p_eos LP' = Some ((r, i), c))
    | Panic => pconnect_eos dbg ovf nl nr data LP = PPanic S_add_overflow
    end.
  Proof.
    intros len rest LP LM HI HR HL Hlen. destruct (matrix_facts nl nr data Hm) as (_ & Hnr & _).
    unfold pconnect_eos, mconnect_eos. rewrite (i_size _ _ _ _ HI), HL. rewrite (as_u16_small len) by lia.
    replace (S len - 1) with len by lia.
    set (en := mkNode len len Generated.ConnFacts.eos_left Generated.ConnFacts.eos_right Generated.ConnFacts.eos_cost).
    rewrite (pconnect_node_sim len rest LP LM en HI HR (le_n _) Hlen Hnr).
    change (nbeg en) with len. change (nleft en) with 0%N. change (ncost en) with 0%Z.
    destruct (mconnect_node ovf (mconn nl nr data) LM len 0%N 0%Z) as [[best c]|] eqn:Em; cbn [lift pbind fst snd]; [|reflexivity].
    destruct (c =? MAX32)%Z eqn:Ec.
    - eexists. split; [reflexivity|]. intros r i c0 H; discriminate H.
    - destruct best as [i|].
      + eexists. split; [reflexivity|]. intros r i0 c0 H. inversion H; subst. reflexivity.
      + exfalso. unfold mconnect_node in Em. destruct (mscan_best _ _ _ _ _ _ _ _ _ _ Em) as [[_ ->]|[j Hj]]; [|discriminate Hj].
        rewrite Z.eqb_refl in Ec. discriminate Ec.
  Qed.
End Sim.

Definition is_some {A} (o : option A) : bool := match o with Some _ => true | None => false end.

(* the cost bound of C03_no_overflow_if_bounded, per analysis *)
Definition round_bounded (K1 K2 : Z) (r : nat * list node) : Prop :=
  (forall n, In n (snd r) -> (- K2 <= ncost n <= K2)%Z) /\ ((Z.of_nat (fst r) + 1) * (K1 + K2) < MAX32)%Z.

Section Agree.
  Variable dbg ovf : bool.
  Variable nl nr : N.
  Variable data : list Z.
  Hypothesis Hm : matrix_ok nl nr data = true.

  (* one analysis: reset + inserts + connect_eos of the panicking model against LatticeM on the fresh lattice *)
  Theorem models_agree : forall L0 len ns, round_wf nl nr data (len, ns) = true ->
    exists L1, preset L0 len = POk L1 /\
    match minsert_all ovf (mconn nl nr data) (mreset len) ns with
    | Ok (LM, cs) =>
        exists LP, pinsert_all dbg ovf nl nr data L1 ns = POk (LP, cs) /\ Rel LP LM /\ Inv nl len [] LP /\
          match mconnect_eos ovf (mconn nl nr data) LM with
          | Ok e => exists LP', pconnect_eos dbg ovf nl nr data LP = POk (LP', is_some e)
                                /\ (forall r i c, e = Some (r, i, c) -> p_eos LP' = Some ((r, i), c))
          | Panic => pconnect_eos dbg ovf nl nr data LP = PPanic S_add_overflow
          end
    | Panic => pinsert_all dbg ovf nl nr data L1 ns = PPanic S_add_overflow
    end.
  Proof.
    intros L0 len ns Hwf. unfold round_wf in Hwf. cbn [fst snd] in Hwf. repeat rewrite andb_true_iff in Hwf.
    destruct Hwf as [[[[H1 H2] H3] H4] H5]. apply N.leb_le in H2.
    destruct (preset_inv nl nr data Hm L0 len ns H3 H5) as (L1 & E1 & HI1 & _). exists L1. split; [exact E1|].
    destruct (preset_rel L0 len L1 E1) as [HR1 HL1].
    pose proof (pinsert_all_sim dbg ovf nl nr data Hm len ns L1 (mreset len) HI1 HR1 HL1 H3 H4 H2) as Hs.
    destruct (minsert_all ovf (mconn nl nr data) (mreset len) ns) as [[LM cs]|]; [|exact Hs].
    destruct Hs as (LP & E2 & HR2 & HL2 & HI2). exists LP. split; [exact E2|]. split; [exact HR2|]. split; [exact HI2|].
    pose proof (pconnect_eos_sim dbg ovf nl nr data Hm len [] LP LM HI2 HR2 HL2 H2) as He.
    destruct (mconnect_eos ovf (mconn nl nr data) LM) as [e|]; [|exact He].
    destruct He as (LP' & E3 & He). exists LP'. destruct e; auto.
  Qed.

  Lemma mconn_bounded : forall K1, (0 <= K1)%Z -> (forall z, In z data -> (- K1 <= z <= K1)%Z) ->
    forall l r, (- K1 <= mconn nl nr data l r <= K1)%Z.
  Proof.
    intros K1 H0 Hd l r. unfold mconn. destruct (nth_in_or_default (N.to_nat (Generated.ConnFacts.conn_index l r nl nr)) data 0%Z) as [Hin| ->].
    - apply Hd. exact Hin.
    - lia.
  Qed.

  (* under the cost bound one analysis never panics, with or without overflow checks *)
  Theorem pround_never_panics : forall K1 K2 L0 len ns,
    (0 <= K1)%Z -> (0 <= K2)%Z -> (forall z, In z data -> (- K1 <= z <= K1)%Z) ->
    round_wf nl nr data (len, ns) = true -> round_bounded K1 K2 (len, ns) ->
    exists r, pround dbg ovf nl nr data L0 len ns = POk r.
  Proof.
    intros K1 K2 L0 len ns HK1 HK2 Hd Hwf [Hc Hb]. cbn [fst snd] in Hc, Hb.
    pose proof Hwf as Hwf0. unfold round_wf in Hwf. cbn [fst snd] in Hwf. repeat rewrite andb_true_iff in Hwf.
    destruct Hwf as [[[[H1 H2] H3] H4] H5]. apply Nat.leb_le in H1. apply N.leb_le in H2.
    assert (Hns : forall n, In n ns -> nbeg n < nend n /\ nend n <= len /\ (- K2 <= ncost n <= K2)%Z).
    { intros n Hn. rewrite forallb_forall in H3. specialize (H3 n Hn). unfold pnode_wf in H3. apply andb_true_iff in H3.
      destruct H3 as [A B]. apply Nat.ltb_lt in A. apply Nat.leb_le in B. destruct (Hc n Hn). auto. }
    destruct (i32_exact_if_bounded ovf (mconn nl nr data) K1 K2 (mconn_bounded K1 HK1 Hd) HK1 HK2 len ns Hns Hb) as (cs & Em & Ee).
    destruct (models_agree L0 len ns Hwf0) as (L1 & E1 & Ha). rewrite Em in Ha.
    destruct Ha as (LP & E2 & _ & HI2 & Ha). rewrite Ee in Ha. destruct Ha as (LP' & E3 & _).
    unfold pround. rewrite E1. cbn [pbind]. rewrite E2. cbn [pbind fst snd]. rewrite E3. cbn [pbind fst snd].
    pose proof (pconnect_eos_inv dbg ovf nl nr data Hm len [] LP HI2 H2) as Hi. rewrite E3 in Hi. cbn [okp fst snd] in Hi.
    destruct Hi as [HI3 He]. destruct (is_some _); [|eauto].
    destruct (pfill_top_path_ok nl len [] LP' HI3 H1 (He eq_refl)) as (ids & -> & Hv). cbn [pbind].
    destruct (pnodes_ok nl len [] LP' HI3 (rev ids)) as [xs ->]; [apply Forall_rev; exact Hv|]. cbn [pbind]. eauto.
  Qed.

  Theorem prounds_never_panic : forall K1 K2,
    (0 <= K1)%Z -> (0 <= K2)%Z -> (forall z, In z data -> (- K1 <= z <= K1)%Z) ->
    forall rs L0, forallb (round_wf nl nr data) rs = true -> Forall (round_bounded K1 K2) rs ->
    exists r, prounds dbg ovf nl nr data L0 rs = POk r.
  Proof.
    intros K1 K2 HK1 HK2 Hd. induction rs as [|[len ns] rs IH]; intros L0 Hwf Hb; cbn [prounds]; [eauto|].
    cbn [forallb] in Hwf. apply andb_true_iff in Hwf. destruct Hwf as [Hr Hrs]. inversion Hb as [|? ? Hb1 Hb2]; subst.
    destruct (pround_never_panics K1 K2 L0 len ns HK1 HK2 Hd Hr Hb1) as [x ->]. cbn [pbind].
    destruct (IH (fst (fst x)) Hrs Hb2) as [y ->]. cbn [pbind]. eauto.
  Qed.
End Agree.
