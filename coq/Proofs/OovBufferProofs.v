(* C13: the fields of an OOV morpheme over a reachable buffer state -- the surface is the ORIGINAL slice given by the offset
   map (C08_morpheme_offsets), normalized / dictionary / reading form are the NORMALISED slice, for every length-changing
   normalisation. *)
From Coq Require Import List NArith ZArith Bool Lia PeanoNat String.
From SudachiVerif Require Import Model.Buffer Proofs.BufferProofs Proofs.BufferCharProofs.
From SudachiVerif Require Model.Oov Model.OovBuffer Proofs.OovMorpheme Proofs.PipelineFull Proofs.NormalizeBuffer Model.Normalize
     Proofs.EndToEnd.
Import ListNotations.

Module O := SudachiVerif.Model.Oov.
Module OB := SudachiVerif.Model.OovBuffer.
Module OM := SudachiVerif.Proofs.OovMorpheme.
Module PF := SudachiVerif.Proofs.PipelineFull.
Module NB := SudachiVerif.Proofs.NormalizeBuffer.
Module Nz := SudachiVerif.Model.Normalize.
Module E2E := SudachiVerif.Proofs.EndToEnd.

Section Fields.
  Hypothesis Hshift : O.OF.word_id_dic_shift = 28%N.
  Hypothesis Hmask : O.OF.word_mask = N.ones 28.
  Hypothesis Hdic : O.OF.oov_dic_id = 15%N.
  Hypothesis Hfields : O.OF.oov_info_fields = [("pos_id", "word_id.word:u16"); ("surface", "curr_slice_c")]%string.
  Hypothesis Hfb : O.OF.form_fallbacks =
                   [("normalized_form", "surface"); ("dictionary_form", "surface"); ("reading_form", "surface")]%string.
  Hypothesis Hid : O.OF.oov_dictionary_id = (-1)%Z.
  Variable cfg : bcfg.
  Hypothesis Hcfg : cfg_ok cfg = true.

  (* for every reachable buffer (any stack of edit batches, length changing or not) and every result node whose character
     and byte coordinates in the NORMALISED text agree: *)
  Theorem oov_morpheme_fields_buffer_generic o s n pos :
    wf_text o = true -> Reach cfg o s -> rnode_ok (cur s) n -> (pos < 65536)%N ->
    exists b e,
      morpheme_begin s n = Some b /\ morpheme_end s n = Some e /\ b <= e /\
      curr_slice_c (cur s) (rn_bc n) (rn_ec n) = Some (byte_slice (cur s) (rn_bb n, rn_eb n)) /\
      OB.oov_morpheme_buf s (O.wid_oov pos) n =
      Some (O.mkMV true (-1)%Z pos (byte_slice o (b, e))
                   (byte_slice (cur s) (rn_bb n, rn_eb n)) (byte_slice (cur s) (rn_bb n, rn_eb n))
                   (byte_slice (cur s) (rn_bb n, rn_eb n))).
  Proof.
    intros Hwf HR Hn Hp.
    destruct (morpheme_offsets cfg Hcfg o s n (reach_inv cfg Hcfg o s Hwf HR) Hn) as (b & e & Hb & He & Hle & _ & _ & _ & _ & Hs & _).
    exists b, e. split; [exact Hb|]. split; [exact He|]. split; [exact Hle|].
    destruct Hn as (Nb & Ne & Nle).
    destruct (to_curr_byte_idx_props _ _ _ Ne) as (_ & _ & _ & Hec).
    destruct (curr_slice_c_spec (cur s) (rn_bc n) (rn_ec n) Nle Hec) as (x & y & Hx & Hy & _ & Hsl & _).
    rewrite Nb in Hx. rewrite Ne in Hy. injection Hx as <-. injection Hy as <-.
    split; [exact Hsl|].
    unfold OB.oov_morpheme_buf, OB.oov_info_buf. rewrite Hfields.
    change (O.assoc "surface" [("pos_id", "word_id.word:u16"); ("surface", "curr_slice_c")]%string) with "curr_slice_c"%string.
    change (O.assoc "pos_id" [("pos_id", "word_id.word:u16"); ("surface", "curr_slice_c")]%string) with "word_id.word:u16"%string.
    change (String.eqb "curr_slice_c" "curr_slice_c") with true.
    change (String.eqb "word_id.word:u16" "word_id.word:u16") with true.
    cbn beta iota. rewrite Hsl, Hs.
    unfold O.normalized_form, O.dictionary_form, O.reading_form, O.form_of, O.dictionary_id. rewrite Hfb.
    cbn [O.wi_normalized O.wi_dictionary O.wi_reading O.wi_surface O.wi_pos].
    change (String.eqb (O.assoc "normalized_form" _) "surface") with true.
    change (String.eqb (O.assoc "dictionary_form" _) "surface") with true.
    change (String.eqb (O.assoc "reading_form" _) "surface") with true.
    cbn beta iota.
    rewrite (OM.oov_wid_is_oov Hshift Hmask Hdic), Hid, (OM.oov_wid_word Hshift Hmask Hdic pos Hp), N.mod_small by exact Hp.
    reflexivity.
  Qed.

End Fields.

Section Enc.
  Variable cfg : bcfg.
  Hypothesis Hcfg : cfg_ok cfg = true.

  (* when the normalised text is the encoding of the code points t, the normalised slice of the characters bc..ec is the
     encoding of t's code points bc..ec *)
  Lemma curr_slice_c_enc (t : list N) bc ec : t <> [] -> bc <= ec -> ec <= List.length t ->
    curr_slice_c (PF.enc t) bc ec = Some (PF.enc (Nz.slice t bc ec)).
  Proof.
    intros Hne Hle Hec.
    assert (Hidx : forall i, i <= List.length t -> to_curr_byte_idx (PF.enc t) i = Some (NB.boff t i)).
    { intros i Hi. pose proof (E2E.c2b_enc_prefix cfg Hcfg (firstn i t) (skipn i t)) as H.
      rewrite firstn_skipn in H. rewrite firstn_length_le in H by exact Hi. apply H. exact Hne. }
    destruct (curr_slice_c_spec (PF.enc t) bc ec Hle) as (x & y & Hx & Hy & _ & Hsl & _).
    { rewrite E2E.char_len_enc. exact Hec. }
    rewrite (Hidx bc ltac:(lia)) in Hx. rewrite (Hidx ec Hec) in Hy. injection Hx as <-. injection Hy as <-.
    rewrite Hsl. f_equal. unfold byte_slice. cbn [fst snd]. apply NB.enc_slice_cp. exact Hle.
  Qed.
End Enc.
