(* C03 + C13: the fallback hypothesis of fallback_total is discharged by the model of SimpleOovPlugin (Model/Oov.v):
   with the Simple provider as the last provider lattice construction succeeds for every non-empty text, whatever the other
   candidates are. *)
From Coq Require Import List ZArith NArith Bool Arith Lia.
From SudachiVerif Require Import Model.Lattice Model.BuildLattice Proofs.BuildLatticeProofs.
From SudachiVerif Require Model.Oov Proofs.OovFallback.
Import ListNotations.

(* the lattice node made from an OOV candidate (Node::new(begin, end, left, right, cost, WordId::oov(pos))) *)
Definition of_oov (nd : Oov.node) : node :=
  mkNode (Oov.n_begin nd) (Oov.n_end nd) (Oov.n_left nd) (Oov.n_right nd) (Oov.n_cost nd).

(* what SimpleOovPlugin::provide_oov yields at character p of a text with classes cs when nothing was created there *)
Definition simple_fallback (o : Oov.oovdef) (cs : list N) (p : nat) : option node :=
  match Oov.simple_provide o (Oov.can_bow cs) p 0%N with
  | Oov.ROk [nd] => Some (of_oov nd)
  | _ => None
  end.

Theorem fallback_total_simple (conn : N -> N -> Z) (cands : nat -> list node) (o : Oov.oovdef) (cs : list N) :
  (forall p m, In m (cands p) -> node_wf (length cs) p m) ->
  exists L e, build conn cands (simple_fallback o cs) (length cs) = Some (L, e).
Proof.
  intros Hc. apply fallback_total; [exact Hc|].
  intros p Hp. unfold simple_fallback.
  destruct (OovFallback.simple_candidate_spec o cs p 0%N Hp) as (ns & -> & _ & Hz).
  destruct (Hz eq_refl) as (e & -> & Hr & _).
  eexists. split; [reflexivity|]. unfold node_wf, of_oov, Oov.oov_node. cbn. lia.
Qed.
