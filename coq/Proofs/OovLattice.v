(* C13 -> C02 / C03 adapter: the node buffer that the provider model of Model/Oov.v (dictionary candidates, every OOV
   provider in configuration order, the fallback provider when nothing was created) yields at a position, converted to
   lattice nodes with of_oov, is well formed.  This discharges the hypothesis offered_wf of build_optimal (C02) and cands_wf of
   fallback_total (C03) for the OOV part: the lattice built from well-formed dictionary candidates plus the provider model is
   optimal, and with the Simple provider as fallback it is connected. *)
From Coq Require Import List ZArith NArith Bool Arith Lia.
From SudachiVerif Require Import Model.Lattice Model.BuildLattice Proofs.LatticeProofs Proofs.BuildLatticeProofs
     Proofs.BuildOptimal Proofs.TotalitySimple.
From SudachiVerif Require Model.Oov Proofs.OovFallback Proofs.OovWf.
Import ListNotations.

Module O := Model.Oov.
Module W := Proofs.OovWf.

(* what position p offers to the lattice: the whole node buffer of the provider model (dictionary candidates dict p first);
   nothing when the position fails (EosBosDisconnect, a provider error) *)
Definition oov_offered (cs : list N) (ps : list O.provider) (dict : nat -> list O.node) (p : nat) : list node :=
  match O.position_step (O.mk_ctx cs) ps p (dict p) with
  | O.ROk buf => map of_oov buf
  | _ => []
  end.
(* the fallback provider is already part of position_step *)
Definition no_fallback : nat -> option node := fun _ => None.

Lemma offered_no_fallback cands p : offered cands no_fallback p = cands p.
Proof. unfold offered, no_fallback. destruct (cands p); reflexivity. Qed.

Lemma of_oov_wf len off nd : W.cand_wf len off nd -> node_wf len off (of_oov nd).
Proof. unfold W.cand_wf, node_wf, of_oov. cbn. lia. Qed.

Section Adapter.
  Hypothesis Hfwd : O.OF.continuity_forward = true.
  Hypothesis Hfix : O.OF.regex_ignores_empty_match = true.

  Variable cs : list N.
  Variable ps : list O.provider.
  Variable dict : nat -> list O.node.
  (* dictionary candidates begin at their position and end within the text *)
  Hypothesis dict_wf : forall p m, In m (dict p) -> W.cand_wf (length cs) p m.
  (* regex oracle: every reported match ends within the searched window *)
  Hypothesis oracle_ok : forall q, In q ps -> W.provider_oracle_ok q (length cs).

  Theorem oov_offered_wf : forall p m, In m (oov_offered cs ps dict p) -> node_wf (length cs) p m.
  Proof.
    intros p m H. unfold oov_offered in H.
    destruct (O.position_step (O.mk_ctx cs) ps p (dict p)) as [buf| |] eqn:E; try contradiction.
    apply in_map_iff in H. destruct H as [nd [<- Hnd]]. apply of_oov_wf.
    assert (F : Forall (W.cand_wf (length cs) p) buf).
    { apply (W.position_step_wf Hfwd Hfix O.OF.oov_gate_mask (O.fallback_of ps) cs ps p (dict p) buf); auto.
      - intros q Hq. apply oracle_ok. apply W.fallback_of_in. exact Hq.
      - apply Forall_forall. apply dict_wf. }
    rewrite Forall_forall in F. apply F. exact Hnd.
  Qed.

  Lemma offered_wf_oov : forall p m, In m (offered (oov_offered cs ps dict) no_fallback p) -> node_wf (length cs) p m.
  Proof. intros p m. rewrite offered_no_fallback. apply oov_offered_wf. Qed.

  (* C02 for the lattice built from dictionary candidates + the provider model *)
  Theorem build_optimal_oov (conn : N -> N -> Z) L r i c :
    (0 < length cs)%nat -> build conn (oov_offered cs ps dict) no_fallback (length cs) = Some (L, (r, i, c)) ->
    (exists p, chainP (Offered (oov_offered cs ps dict) no_fallback) 0 (length cs) p /\ path_cost conn p = c) /\
    (forall p, chainP (Offered (oov_offered cs ps dict) no_fallback) 0 (length cs) p -> (c <= path_cost conn p)%Z).
  Proof. apply build_optimal. exact offered_wf_oov. Qed.

  (* ---- totality with the Simple provider as fallback ---- *)
  Definition oov_normal (p : nat) : list node :=
    match O.normal_pass (O.mk_ctx cs) ps p (dict p) with
    | O.ROk st => map of_oov (snd st)
    | _ => []
    end.

  Lemma oov_normal_wf : forall p m, In m (oov_normal p) -> node_wf (length cs) p m.
  Proof.
    intros p m H. unfold oov_normal in H.
    destruct (O.normal_pass (O.mk_ctx cs) ps p (dict p)) as [st| |] eqn:E; try contradiction.
    apply in_map_iff in H. destruct H as [nd [<- Hnd]]. apply of_oov_wf.
    assert (F : Forall (W.cand_wf (length cs) p) (snd st)).
    { apply (W.normal_pass_wf Hfwd Hfix O.OF.oov_gate_mask cs ps p (dict p) st); auto.
      apply Forall_forall. apply dict_wf. }
    rewrite Forall_forall in F. apply F. exact Hnd.
  Qed.
End Adapter.

(* build depends on the candidate sources only through what each position < n offers *)
Lemma loop_ext conn c1 f1 c2 f2 n :
  (forall p, (p < n)%nat -> offered c1 f1 p = offered c2 f2 p) ->
  forall todo L p, (p + todo <= n)%nat -> loop conn c1 f1 L p todo = loop conn c2 f2 L p todo.
Proof.
  intros H. induction todo as [|t IH]; intros L p Hp; [reflexivity|].
  cbn [loop]. rewrite (step_offered conn c1 f1), (step_offered conn c2 f2), (H p) by lia.
  destruct (has_previous_node L p).
  - destruct (offered c2 f2 p); [reflexivity|]. apply IH. lia.
  - apply IH. lia.
Qed.

Lemma build_ext conn c1 f1 c2 f2 n :
  (forall p, (p < n)%nat -> offered c1 f1 p = offered c2 f2 p) -> build conn c1 f1 n = build conn c2 f2 n.
Proof. intros H. unfold build. rewrite (loop_ext conn c1 f1 c2 f2 n H n (reset n) 0) by lia. reflexivity. Qed.

Section Total.
  Hypothesis Hfwd : O.OF.continuity_forward = true.
  Hypothesis Hfix : O.OF.regex_ignores_empty_match = true.

  Variable cs : list N.
  Variable ps : list O.provider.
  Variable dict : nat -> list O.node.
  Variable o : O.oovdef.
  Hypothesis dict_wf : forall p m, In m (dict p) -> W.cand_wf (length cs) p m.
  Hypothesis oracle_ok : forall q, In q ps -> W.provider_oracle_ok q (length cs).
  (* the Simple provider is the fallback (last) provider, and no provider fails (regex debug error, index panic) *)
  Hypothesis simple_last : O.fallback_of ps = Some (O.PSimple o).
  Hypothesis providers_ok : forall p, (p < length cs)%nat -> exists st, O.normal_pass (O.mk_ctx cs) ps p (dict p) = O.ROk st.

  Lemma offered_split p : (p < length cs)%nat ->
    offered (oov_normal cs ps dict) (simple_fallback o cs) p = offered (oov_offered cs ps dict) no_fallback p.
  Proof.
    intros Hp. rewrite offered_no_fallback. unfold offered, oov_normal, oov_offered.
    destruct (providers_ok p Hp) as [st E]. rewrite E.
    assert (Hb : (p < length (O.c_bows (O.mk_ctx cs)))%nat).
    { cbn [O.mk_ctx O.c_bows]. unfold O.can_bow. rewrite W.bow_loop_length. exact Hp. }
    destruct (OovFallback.simple_fallback_total (O.mk_ctx cs) ps p (dict p) o st simple_last Hb E) as (buf & Eb & Hemp).
    rewrite Eb.
    destruct (OovFallback.fallback_iff_nothing _ _ _ _ _ Eb) as (cw1 & normal & En & Hcase).
    rewrite E in En. injection En as ->. cbn [snd] in *.
    destruct Hcase as [[Hne ->]|[-> _]].
    - destruct normal; [congruence|]. reflexivity.
    - rewrite (Hemp eq_refl). cbn [map]. unfold simple_fallback.
      rewrite OovFallback.simple_provide_spec by exact Hb. cbn [O.mk_ctx O.c_bows]. reflexivity.
  Qed.

  (* C03 for the provider model: the lattice gets connected *)
  Theorem lattice_total_oov (conn : N -> N -> Z) :
    exists L e, build conn (oov_offered cs ps dict) no_fallback (length cs) = Some (L, e).
  Proof.
    rewrite <- (build_ext conn (oov_normal cs ps dict) (simple_fallback o cs) (oov_offered cs ps dict) no_fallback (length cs)
                          offered_split).
    apply fallback_total_simple. apply (oov_normal_wf Hfwd Hfix cs ps dict dict_wf oracle_ok).
  Qed.
End Total.
