(* The character-level side of InputBuffer::build and the accessors built on it (Model/Buffer.v, last section):
   mod_c2b / mod_b2c are inverse to each other on character boundaries, mod_b2c is constant inside a character and steps
   by one at a boundary, the char-index accessors are monotone, curr_slice_c / orig_slice_c are byte slices,
   char_distance / get_word_candidate_length / cat_of_range are the offset arithmetic their names say, and
   Morpheme::begin_c / end_c count the code points of the original before Morpheme::begin / end. *)
From Coq Require Import String List NArith ZArith Bool Arith Lia.
From SudachiVerif Require Import Model.Buffer Proofs.BufferProofs.
Import ListNotations.
Open Scope nat_scope.

(* ------------------------------------------------------------------ counting lead bytes *)
Lemma count_leads_app : forall a b, count_leads (a ++ b) = count_leads a + count_leads b.
Proof. induction a as [|x a IH]; intros b; cbn [app count_leads]; [reflexivity|]. destruct (is_lead x); rewrite IH; lia. Qed.

Lemma count_leads_firstn_le : forall t p, count_leads (firstn p t) <= count_leads t.
Proof. intros t p. rewrite <- (firstn_skipn p t) at 2. rewrite count_leads_app. lia. Qed.

Lemma count_leads_firstn_mono : forall t p q, p <= q -> count_leads (firstn p t) <= count_leads (firstn q t).
Proof.
  intros t p q H. replace (firstn p t) with (firstn p (firstn q t)) by (rewrite firstn_firstn; f_equal; lia).
  apply count_leads_firstn_le.
Qed.

Lemma count_leads_firstn_S : forall t p, p < length t ->
  count_leads (firstn (S p) t) = count_leads (firstn p t) + (if is_lead (nth p t 0%N) then 1 else 0).
Proof.
  induction t as [|x t IH]; intros p H; cbn [length] in H; [lia|].
  destruct p as [|p].
  - cbn [firstn count_leads nth]. destruct (is_lead x); reflexivity.
  - change (firstn (S (S p)) (x :: t)) with (x :: firstn (S p) t). change (firstn (S p) (x :: t)) with (x :: firstn p t).
    cbn [count_leads nth]. rewrite (IH p) by lia. destruct (is_lead x); lia.
Qed.

Lemma wf_count_pos : forall t p, wf_text t = true -> t <> [] -> 0 < count_leads (firstn (S p) t).
Proof. intros [|x t] p H Hne; [contradiction|]. cbn [wf_text] in H. cbn [firstn count_leads]. rewrite H. lia. Qed.

Lemma boundary_lead : forall t p, p < length t -> is_boundary t p = is_lead (nth p t 0%N).
Proof.
  intros t p H. unfold is_boundary. destruct (nth_error t p) eqn:E; [|apply nth_error_None in E; lia].
  now rewrite (nth_error_nth _ _ 0%N E).
Qed.

(* ------------------------------------------------------------------ mod_b2c *)
Lemma b2c_scan_length : forall t cnt, length (b2c_scan t cnt) = length t.
Proof. induction t as [|b t IH]; intros cnt; cbn [b2c_scan length]; [reflexivity | now rewrite IH]. Qed.

Lemma b2c_scan_nth : forall t cnt p, p < length t ->
  nth_error (b2c_scan t cnt) p = Some (cnt + count_leads (firstn (S p) t) - 1).
Proof.
  induction t as [|b t IH]; intros cnt p H; cbn [length] in H; [lia|].
  cbn [b2c_scan]. destruct p as [|p]; cbn [nth_error].
  - cbn [firstn count_leads]. destruct (is_lead b); f_equal; lia.
  - rewrite IH by lia. change (firstn (S (S p)) (b :: t)) with (b :: firstn (S p) t). cbn [count_leads].
    destruct (is_lead b); f_equal; lia.
Qed.

Section Cfg.
Variable cfg : bcfg.
Hypothesis Hcfg : cfg_ok cfg = true.

Lemma b2c_inc : c_b2c_inc cfg = 1.
Proof. destruct (cfg_fields cfg Hcfg) as (_ & _ & _ & _ & _ & _ & H & _). exact H. Qed.

(* every byte carries the index of the character it belongs to; the sentinel is last index + 1 *)
Theorem ch_idx_inside : forall t p, p < length t -> ch_idx cfg t p = Some (count_leads (firstn (S p) t) - 1).
Proof.
  intros t p H. unfold ch_idx, mod_b2c. rewrite nth_error_app1 by (rewrite b2c_scan_length; exact H).
  rewrite b2c_scan_nth by exact H. reflexivity.
Qed.

Theorem ch_idx_end : forall t, ch_idx cfg t (length t) = Some (count_leads t - 1 + 1).
Proof.
  intros t. unfold ch_idx, mod_b2c. rewrite nth_error_app2 by (rewrite b2c_scan_length; lia).
  rewrite b2c_scan_length, Nat.sub_diag, b2c_inc. reflexivity.
Qed.

(* constant inside a character ... *)
Theorem ch_idx_inside_char : forall t p, S p < length t -> is_boundary t (S p) = false ->
  ch_idx cfg t (S p) = ch_idx cfg t p.
Proof.
  intros t p H Hb. rewrite !ch_idx_inside by lia. rewrite (count_leads_firstn_S t (S p)) by lia.
  rewrite boundary_lead in Hb by lia. rewrite Hb. cbv iota. f_equal. lia.
Qed.

(* ... and one more at every character boundary *)
Theorem ch_idx_step : forall t p k, wf_text t = true -> S p < length t -> is_boundary t (S p) = true ->
  ch_idx cfg t p = Some k -> ch_idx cfg t (S p) = Some (S k).
Proof.
  intros t p k Hwf H Hb Hk. rewrite ch_idx_inside in Hk by lia. rewrite ch_idx_inside by lia.
  rewrite (count_leads_firstn_S t (S p)) by lia. rewrite boundary_lead in Hb by lia. rewrite Hb. cbv iota.
  assert (0 < count_leads (firstn (S p) t)) by (apply wf_count_pos; [exact Hwf | destruct t; [cbn in H; lia | discriminate]]).
  assert (k = count_leads (firstn (S p) t) - 1) as -> by congruence. f_equal. lia.
Qed.

(* on a boundary the character index is the number of characters before it *)
Theorem ch_idx_boundary : forall t p, wf_text t = true -> t <> [] -> is_boundary t p = true ->
  ch_idx cfg t p = Some (count_leads (firstn p t)).
Proof.
  intros t p Hwf Hne Hb. pose proof (is_boundary_le _ _ Hb) as Hle.
  destruct (Nat.eq_dec p (length t)) as [->|Hn].
  - rewrite ch_idx_end, firstn_all. f_equal.
    assert (0 < count_leads t). { pose proof (wf_count_pos t (length t) Hwf Hne) as H. rewrite firstn_all2 in H by lia. exact H. }
    lia.
  - rewrite ch_idx_inside by lia. rewrite count_leads_firstn_S by lia. rewrite boundary_lead in Hb by lia. rewrite Hb. cbv iota. f_equal. lia.
Qed.

Theorem ch_idx_mono : forall t p q i j, p <= q -> q <= length t -> ch_idx cfg t p = Some i -> ch_idx cfg t q = Some j -> i <= j.
Proof.
  intros t p q i j Hpq Hq Hi Hj.
  assert (Hv : forall x, x <= length t -> ch_idx cfg t x = Some (count_leads (firstn (S x) t) - 1 + (if Nat.eqb x (length t) then 1 else 0))).
  { intros x Hx. destruct (Nat.eqb_spec x (length t)) as [->|Hn].
    - rewrite ch_idx_end. rewrite firstn_all2 by lia. reflexivity.
    - rewrite ch_idx_inside by lia. f_equal. lia. }
  rewrite Hv in Hi, Hj by lia.
  assert (i = count_leads (firstn (S p) t) - 1 + (if Nat.eqb p (length t) then 1 else 0)) as -> by congruence.
  assert (j = count_leads (firstn (S q) t) - 1 + (if Nat.eqb q (length t) then 1 else 0)) as -> by congruence.
  pose proof (count_leads_firstn_mono t (S p) (S q) ltac:(lia)).
  destruct (Nat.eqb_spec p (length t)), (Nat.eqb_spec q (length t)); lia.
Qed.

(* ------------------------------------------------------------------ mod_c2b against mod_b2c *)
Lemma c2b_count : forall t i ci p, nth_error (c2b_scan t i ++ [i + length t]) ci = Some p ->
  count_leads (firstn (p - i) t) = ci.
Proof.
  induction t as [|x t IH]; intros i ci p H.
  - cbn [c2b_scan app length] in H. destruct ci as [|ci]; cbn in H; [|destruct ci; discriminate].
    inversion H; subst. now rewrite firstn_nil.
  - pose proof (c2b_boundary _ _ _ _ H) as [Hle _].
    cbn [c2b_scan length] in H. replace (i + S (length t)) with (S i + length t) in H by lia.
    destruct (is_lead x) eqn:El.
    + destruct ci as [|ci]; cbn [app nth_error] in H.
      * inversion H; subst. now rewrite Nat.sub_diag.
      * pose proof (c2b_boundary _ _ _ _ H) as [Hle' _]. replace (p - i) with (S (p - S i)) by lia.
        cbn [firstn count_leads]. rewrite El. f_equal. exact (IH _ _ _ H).
    + pose proof (c2b_boundary _ _ _ _ H) as [Hle' _]. replace (p - i) with (S (p - S i)) by lia.
      cbn [firstn count_leads]. rewrite El. exact (IH _ _ _ H).
Qed.

Lemma to_curr_byte_idx_total : forall t ci, ci <= char_len t -> exists p, to_curr_byte_idx t ci = Some p.
Proof.
  intros t ci H. unfold to_curr_byte_idx. destruct (nth_error (mod_c2b t) ci) eqn:E; [eauto|].
  apply nth_error_None in E. unfold mod_c2b, char_len in *. rewrite app_length, c2b_scan_length in E. cbn in E. lia.
Qed.

Lemma to_curr_byte_idx_props : forall t ci p, to_curr_byte_idx t ci = Some p ->
  is_boundary t p = true /\ p <= length t /\ count_leads (firstn p t) = ci /\ ci <= char_len t.
Proof.
  intros t ci p H. unfold to_curr_byte_idx, mod_c2b in H.
  pose proof (c2b_boundary t 0 ci p H) as [_ Hb]. pose proof (c2b_count t 0 ci p H) as Hc. rewrite Nat.sub_0_r in Hb, Hc.
  split; [exact Hb|]. split; [now apply is_boundary_le|]. split; [exact Hc|].
  rewrite <- Hc. apply count_leads_firstn_le.
Qed.

(* ch_idx (to_curr_byte_idx i) = i *)
Theorem ch_idx_of_to_curr_byte_idx : forall t ci p, wf_text t = true -> t <> [] ->
  to_curr_byte_idx t ci = Some p -> ch_idx cfg t p = Some ci.
Proof.
  intros t ci p Hwf Hne H. destruct (to_curr_byte_idx_props _ _ _ H) as (Hb & _ & Hc & _).
  rewrite (ch_idx_boundary t p Hwf Hne Hb). now rewrite Hc.
Qed.

(* to_curr_byte_idx (ch_idx p) = p on character boundaries *)
Theorem to_curr_byte_idx_of_ch_idx : forall t p k, wf_text t = true -> t <> [] -> is_boundary t p = true ->
  ch_idx cfg t p = Some k -> to_curr_byte_idx t k = Some p.
Proof.
  intros t p k Hwf Hne Hb Hk. rewrite (ch_idx_boundary t p Hwf Hne Hb) in Hk. inversion Hk; subst k.
  destruct (to_curr_byte_idx_total t (count_leads (firstn p t)) (count_leads_firstn_le t p)) as [q Hq].
  rewrite Hq. f_equal. unfold to_curr_byte_idx in Hq. apply (nth_error_nth _ _ 0) in Hq.
  pose proof (c2b_nth_count t 0 p Hb) as E. cbn [plus] in E. unfold mod_c2b in Hq. congruence.
Qed.

Theorem to_curr_byte_idx_mono : forall t ci cj p q, ci <= cj ->
  to_curr_byte_idx t ci = Some p -> to_curr_byte_idx t cj = Some q -> p <= q.
Proof.
  intros t ci cj p q H Hp Hq. destruct (to_curr_byte_idx_props _ _ _ Hp) as (_ & Lp & Cp & _).
  destruct (to_curr_byte_idx_props _ _ _ Hq) as (_ & Lq & Cq & _).
  destruct (Nat.le_gt_cases p q) as [|Hgt]; [assumption|].
  pose proof (count_leads_firstn_mono t q p ltac:(lia)) as Hm. rewrite Cp, Cq in Hm.
  assert (ci = cj) by lia. subst cj. assert (p = q) by congruence. lia.
Qed.

(* distinct character indices have distinct byte offsets *)
Theorem to_curr_byte_idx_strict : forall t ci cj p q, ci < cj ->
  to_curr_byte_idx t ci = Some p -> to_curr_byte_idx t cj = Some q -> p < q.
Proof.
  intros t ci cj p q H Hp Hq. pose proof (to_curr_byte_idx_mono t ci cj p q ltac:(lia) Hp Hq) as Hle.
  destruct (Nat.eq_dec p q) as [->|]; [|lia].
  destruct (to_curr_byte_idx_props _ _ _ Hp) as (_ & _ & Cp & _). destruct (to_curr_byte_idx_props _ _ _ Hq) as (_ & _ & Cq & _). lia.
Qed.

(* ------------------------------------------------------------------ slices by character index *)
Theorem curr_slice_c_spec : forall t a b, a <= b -> b <= char_len t ->
  exists x y, to_curr_byte_idx t a = Some x /\ to_curr_byte_idx t b = Some y /\ x <= y /\
              curr_slice_c t a b = Some (byte_slice t (x, y)) /\ curr_slice_c t a b = curr_slice t x y.
Proof.
  intros t a b Hab Hb. destruct (to_curr_byte_idx_total t a ltac:(lia)) as [x Hx]. destruct (to_curr_byte_idx_total t b Hb) as [y Hy].
  exists x, y. pose proof (to_curr_byte_idx_mono _ _ _ _ _ Hab Hx Hy) as Hle.
  destruct (to_curr_byte_idx_props _ _ _ Hx) as (Bx & _). destruct (to_curr_byte_idx_props _ _ _ Hy) as (By & Ly & _).
  repeat split; auto; unfold curr_slice_c, curr_slice; rewrite Hx, Hy; [|reflexivity].
  unfold str_slice. rewrite Bx, By. apply Nat.leb_le in Hle, Ly. now rewrite Hle, Ly.
Qed.

Lemma to_orig_byte_idx_via : forall s ci x, to_curr_byte_idx (cur s) ci = Some x -> to_orig_byte_idx s ci = nth_error (m2o s) x.
Proof. intros s ci x H. unfold to_orig_byte_idx. unfold to_curr_byte_idx in H. now rewrite H. Qed.

(* orig_slice_c(a..b) = orig_slice(mod_c2b[a]..mod_c2b[b]) = the bytes of the original between the mapped offsets *)
Theorem orig_slice_c_spec : forall o s a b, Inv o s -> a <= b -> b <= char_len (cur s) ->
  exists x y, to_curr_byte_idx (cur s) a = Some x /\ to_curr_byte_idx (cur s) b = Some y /\
              orig_slice_c s a b = orig_slice s x y /\
              orig_slice_c s a b = Some (byte_slice o (map_range (m2o s) (x, y))).
Proof.
  intros o s a b HI Hab Hb.
  destruct (to_curr_byte_idx_total (cur s) a ltac:(lia)) as [x Hx]. destruct (to_curr_byte_idx_total (cur s) b Hb) as [y Hy].
  exists x, y. pose proof (to_curr_byte_idx_mono _ _ _ _ _ Hab Hx Hy) as Hle.
  destruct (to_curr_byte_idx_props _ _ _ Hx) as (Bx & _). destruct (to_curr_byte_idx_props _ _ _ Hy) as (By & _).
  assert (E : orig_slice_c s a b = orig_slice s x y).
  { unfold orig_slice_c, orig_slice, to_orig. rewrite (to_orig_byte_idx_via s a x Hx), (to_orig_byte_idx_via s b y Hy), Bx, By.
    cbn [andb]. destruct (nth_error (m2o s) x); [|reflexivity]. destruct (nth_error (m2o s) y); reflexivity. }
  repeat split; auto. rewrite E. apply orig_slice_spec; auto.
Qed.

(* ------------------------------------------------------------------ the index translations are monotone *)
Lemma codepoints_before_mono : forall o x y, x <= y -> codepoints_before o x <= codepoints_before o y.
Proof. intros. unfold codepoints_before. now apply count_leads_firstn_mono. Qed.

Theorem to_orig_idx_mono : forall o s ci cj, Inv o s -> ci <= cj -> cj <= char_len (cur s) ->
  exists bi bj ai aj,
    to_orig_byte_idx s ci = Some bi /\ to_orig_byte_idx s cj = Some bj /\ bi <= bj /\
    to_orig_char_idx cfg s ci = Some ai /\ to_orig_char_idx cfg s cj = Some aj /\ ai <= aj /\
    (* inverse on boundaries: the char->byte table of the ORIGINAL at the reported code-point offset is the byte offset *)
    nth ai (mod_c2b o) 0 = bi /\ nth aj (mod_c2b o) 0 = bj.
Proof.
  intros o s ci cj HI Hij Hcj. destruct (inv_pos _ _ HI) as (Ho & Hlen & _ & _ & Hmono & Hbnd).
  destruct (to_curr_byte_idx_total (cur s) ci ltac:(lia)) as [x Hx]. destruct (to_curr_byte_idx_total (cur s) cj Hcj) as [y Hy].
  pose proof (to_curr_byte_idx_mono _ _ _ _ _ Hij Hx Hy) as Hle.
  destruct (to_curr_byte_idx_props _ _ _ Hx) as (Bx & _). destruct (to_curr_byte_idx_props _ _ _ Hy) as (By & Ly & _).
  exists (nth x (m2o s) 0), (nth y (m2o s) 0), (codepoints_before o (nth x (m2o s) 0)), (codepoints_before o (nth y (m2o s) 0)).
  assert (E1 : to_orig_byte_idx s ci = Some (nth x (m2o s) 0)) by (rewrite (to_orig_byte_idx_via s ci x Hx); apply nth_error_nth'; lia).
  assert (E2 : to_orig_byte_idx s cj = Some (nth y (m2o s) 0)) by (rewrite (to_orig_byte_idx_via s cj y Hy); apply nth_error_nth'; lia).
  assert (Hm : nth x (m2o s) 0 <= nth y (m2o s) 0) by (apply Hmono; lia).
  split; [exact E1|]. split; [exact E2|]. split; [exact Hm|].
  split; [apply (begin_c_eq cfg Hcfg); auto|]. split; [apply (begin_c_eq cfg Hcfg); auto|].
  split; [now apply codepoints_before_mono|].
  split; [exact (c2b_nth_count o 0 _ (Hbnd _ Bx)) | exact (c2b_nth_count o 0 _ (Hbnd _ By))].
Qed.

(* ------------------------------------------------------------------ Morpheme::begin / end / begin_c / end_c / surface *)
(* a result node whose character and byte coordinates agree (what resolve_best_path, concat_nodes and NodeSplitIterator
   produce): mod_c2b[begin] = begin_bytes, mod_c2b[end] = end_bytes, begin <= end *)
Definition rnode_ok (t : list N) (n : rnode) : Prop :=
  to_curr_byte_idx t (rn_bc n) = Some (rn_bb n) /\ to_curr_byte_idx t (rn_ec n) = Some (rn_eb n) /\ rn_bc n <= rn_ec n.

Theorem morpheme_offsets : forall o s n, Inv o s -> rnode_ok (cur s) n ->
  exists b e,
    morpheme_begin s n = Some b /\ morpheme_end s n = Some e /\ b <= e /\
    is_boundary o b = true /\ is_boundary o e = true /\
    morpheme_begin_c cfg s n = Some (codepoints_before o b) /\
    morpheme_end_c cfg s n = Some (codepoints_before o e) /\
    morpheme_surface s n = Some (byte_slice o (b, e)) /\
    cp_slice o (codepoints_before o b) (codepoints_before o e) = byte_slice o (b, e).
Proof.
  intros o s n HI (Hb & He & Hle). destruct (inv_pos _ _ HI) as (Ho & Hlen & _ & _ & Hmono & Hbnd).
  destruct (to_curr_byte_idx_props _ _ _ Hb) as (Bb & Lb & _). destruct (to_curr_byte_idx_props _ _ _ He) as (Be & Le & _ & Ce).
  pose proof (to_curr_byte_idx_mono _ _ _ _ _ Hle Hb He) as Hbe.
  exists (nth (rn_bb n) (m2o s) 0), (nth (rn_eb n) (m2o s) 0).
  assert (E1 : morpheme_begin s n = Some (nth (rn_bb n) (m2o s) 0)).
  { unfold morpheme_begin. rewrite (to_orig_byte_idx_via s _ _ Hb). apply nth_error_nth'. lia. }
  assert (E2 : morpheme_end s n = Some (nth (rn_eb n) (m2o s) 0)).
  { unfold morpheme_end. rewrite (to_orig_byte_idx_via s _ _ He). apply nth_error_nth'. lia. }
  split; [exact E1|]. split; [exact E2|]. split; [apply Hmono; lia|].
  split; [now apply Hbnd|]. split; [now apply Hbnd|].
  split; [apply (begin_c_eq cfg Hcfg); auto|]. split; [apply (begin_c_eq cfg Hcfg); auto|].
  split; [unfold morpheme_surface; rewrite (orig_slice_spec o s _ _ HI Bb Be Hbe); reflexivity|].
  apply cp_slice_byte_slice; now apply Hbnd.
Qed.

(* for every byte range on character boundaries of a non-empty rewritten text there is exactly that node *)
Theorem byte_range_node : forall t x y, wf_text t = true -> t <> [] ->
  is_boundary t x = true -> is_boundary t y = true -> x <= y ->
  exists bc ec, ch_idx cfg t x = Some bc /\ ch_idx cfg t y = Some ec /\ rnode_ok t (mkRN bc ec x y).
Proof.
  intros t x y Hwf Hne Bx By Hxy. exists (count_leads (firstn x t)), (count_leads (firstn y t)).
  pose proof (ch_idx_boundary t x Hwf Hne Bx) as Ex. pose proof (ch_idx_boundary t y Hwf Hne By) as Ey.
  split; [exact Ex|]. split; [exact Ey|]. unfold rnode_ok. cbn [rn_bc rn_ec rn_bb rn_eb].
  split; [now apply (to_curr_byte_idx_of_ch_idx t x _ Hwf Hne Bx)|].
  split; [now apply (to_curr_byte_idx_of_ch_idx t y _ Hwf Hne By)|]. now apply count_leads_firstn_mono.
Qed.

End Cfg.

(* ------------------------------------------------------------------ char_distance *)
Theorem char_distance_spec : forall t cpt off, cpt <= char_len t ->
  exists d, char_distance t cpt off = Some d /\ d <= off /\ cpt + d <= char_len t /\ (d = off \/ cpt + d = char_len t).
Proof.
  intros t cpt off H. unfold char_distance.
  destruct (Nat.ltb_spec (Nat.min (cpt + off) (char_len t)) cpt) as [Hlt|Hge]; [lia|].
  exists (Nat.min (cpt + off) (char_len t) - cpt). split; [reflexivity|]. lia.
Qed.

Theorem char_distance_panics : forall t cpt off, char_len t < cpt -> char_distance t cpt off = None.
Proof. intros t cpt off H. unfold char_distance. destruct (Nat.ltb_spec (Nat.min (cpt + off) (char_len t)) cpt); [reflexivity | lia]. Qed.

(* ------------------------------------------------------------------ get_word_candidate_length *)
Lemma first_bow_spec : forall starts bow k, first_bow starts bow = Some k ->
  k <= length starts /\
  (forall j, j < k -> nth_error bow (nth j starts 0) = Some false) /\
  (k < length starts -> nth_error bow (nth k starts 0) = Some true).
Proof.
  induction starts as [|p r IH]; intros bow k H; cbn [first_bow] in H.
  - inversion H; subst. cbn. repeat split; intros; lia.
  - destruct (nth_error bow p) as [[|]|] eqn:E; try discriminate.
    + inversion H; subst. cbn [length nth]. repeat split; [lia | intros; lia | intros _; exact E].
    + destruct (first_bow r bow) as [k'|] eqn:E'; [|discriminate]. inversion H; subst k.
      destruct (IH bow k' E') as (I1 & I2 & I3). cbn [length]. repeat split; [lia | |].
      * intros [|j] Hj; cbn [nth]; [exact E | apply I2; lia].
      * intros Hk. cbn [nth]. apply I3. lia.
Qed.

Lemma first_bow_total : forall starts bow, (forall p, In p starts -> p < length bow) -> exists k, first_bow starts bow = Some k.
Proof.
  induction starts as [|p r IH]; intros bow H; cbn [first_bow]; [eauto|].
  destruct (nth_error bow p) as [[|]|] eqn:E; [eauto | | apply nth_error_None in E; specialize (H p (or_introl eq_refl)); lia].
  destruct (IH bow) as [k ->]; [intros q Hq; apply H; now right|]. cbn. eauto.
Qed.

Lemma c2b_scan_lt : forall t i p, In p (c2b_scan t i) -> i <= p /\ p < i + length t.
Proof.
  induction t as [|x t IH]; intros i p H; [contradiction|]. cbn [c2b_scan length] in *.
  destruct (is_lead x).
  - destruct H as [<-|H]; [lia|]. apply IH in H. lia.
  - apply IH in H. lia.
Qed.

Lemma nth_c2b_scan : forall t ci, ci < char_len t -> nth_error (c2b_scan t 0) ci = to_curr_byte_idx t ci.
Proof.
  intros t ci H. unfold to_curr_byte_idx, mod_c2b. rewrite nth_error_app1; [reflexivity|].
  rewrite c2b_scan_length. exact H.
Qed.

(* for a character index inside the text: the result d is at least 1, stays inside the text, no character strictly
   between can begin a word, and the character at distance d can -- or the text ends there *)
Theorem word_candidate_length_spec : forall t bow ci, length bow = length t -> ci < char_len t ->
  exists d, word_candidate_length t bow ci = Some d /\ 1 <= d /\ ci + d <= char_len t /\
    (forall j p, 0 < j -> j < d -> to_curr_byte_idx t (ci + j) = Some p -> nth_error bow p = Some false) /\
    (ci + d < char_len t -> forall p, to_curr_byte_idx t (ci + d) = Some p -> nth_error bow p = Some true).
Proof.
  intros t bow ci Hl Hci. unfold word_candidate_length.
  destruct (Nat.ltb_spec (char_len t) ci) as [|_]; [lia|].
  destruct (Nat.eqb_spec ci (char_len t)) as [|_]; [lia|].
  set (starts := skipn (S ci) (c2b_scan t 0)).
  assert (Hlen : length starts = char_len t - S ci) by (unfold starts; rewrite skipn_length, c2b_scan_length; reflexivity).
  destruct (first_bow_total starts bow) as [k Hk].
  { intros p Hp. unfold starts in Hp. assert (In p (c2b_scan t 0)) as Hin.
    { rewrite <- (firstn_skipn (S ci) (c2b_scan t 0)). apply in_or_app. now right. }
    apply c2b_scan_lt in Hin. lia. }
  rewrite Hk. cbn [option_map]. exists (S k). destruct (first_bow_spec _ _ _ Hk) as (K1 & K2 & K3).
  assert (Hnth : forall j, j < length starts -> forall p, to_curr_byte_idx t (ci + S j) = Some p -> nth j starts 0 = p).
  { intros j Hj p Hp. rewrite <- nth_c2b_scan in Hp by lia. unfold starts. rewrite nth_skipn'.
    replace (S ci + j) with (ci + S j) by lia. now apply nth_error_nth. }
  split; [reflexivity|]. split; [lia|]. split; [lia|]. split.
  - intros j p Hj0 Hj Hp. destruct j as [|j]; [lia|]. rewrite <- (Hnth j ltac:(lia) p Hp). apply K2. lia.
  - intros Hd p Hp. replace (ci + S k) with (ci + S k) in Hp by lia. rewrite <- (Hnth k ltac:(lia) p Hp). apply K3. lia.
Qed.

Theorem word_candidate_length_edges : forall t bow,
  word_candidate_length t bow (char_len t) = Some 0 /\ (forall ci, char_len t < ci -> word_candidate_length t bow ci = None).
Proof.
  intros t bow. unfold word_candidate_length. split.
  - rewrite Nat.ltb_irrefl, Nat.eqb_refl. reflexivity.
  - intros ci H. destruct (Nat.ltb_spec (char_len t) ci); [reflexivity | lia].
Qed.

(* ------------------------------------------------------------------ cat_of_range *)
Lemma fold_land_testbit : forall l a k, N.testbit (fold_left N.land l a) k = N.testbit a k && forallb (fun c => N.testbit c k) l.
Proof.
  induction l as [|c l IH]; intros a k; cbn [fold_left forallb]; [now rewrite andb_true_r|].
  rewrite IH, N.land_spec. now rewrite andb_assoc.
Qed.

(* a non-empty range inside the text: bit k is set iff it is a declared class bit and every character of the range has it;
   an empty range (begin >= end) has no class at all *)
Theorem cat_of_range_spec : forall cats a b, a < b -> b <= length cats ->
  exists r, cat_of_range cats a b = Some r /\
    forall k, N.testbit r k = true <-> (N.testbit cat_all k = true /\ forall i, a <= i -> i < b -> N.testbit (nth i cats 0%N) k = true).
Proof.
  intros cats a b Hab Hb. unfold cat_of_range, vec_slice.
  destruct (Nat.leb_spec b a) as [|_]; [lia|].
  assert (E1 : (a <=? b) = true) by (apply Nat.leb_le; lia). assert (E2 : (b <=? length cats) = true) by (apply Nat.leb_le; lia).
  rewrite E1, E2. cbn [andb]. eexists. split; [reflexivity|]. intros k. rewrite fold_land_testbit, andb_true_iff, forallb_forall.
  split; intros [H1 H2]; (split; [exact H1|]).
  - intros i Hi1 Hi2. apply H2. replace i with (a + (i - a)) by lia. rewrite <- nth_skipn'.
    rewrite <- (nth_firstn_lt (b - a)) by lia. apply nth_In. rewrite firstn_length, skipn_length'. lia.
  - intros c Hc. destruct (In_nth _ _ 0%N Hc) as (j & Hj & <-). rewrite firstn_length, skipn_length' in Hj.
    rewrite nth_firstn_lt by lia. rewrite nth_skipn'. apply H2; lia.
Qed.

Theorem cat_of_range_empty : forall cats a b, b <= a -> cat_of_range cats a b = Some 0%N.
Proof. intros cats a b H. unfold cat_of_range. apply Nat.leb_le in H. now rewrite H. Qed.
