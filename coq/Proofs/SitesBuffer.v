(* C03, site-level statements for input_text/buffer/edit.rs (resolve_edits, add_replace) and InputBuffer::build
   over builder A's Model/Buffer.v (RPanic / Panic / None = an index or slice panic). *)
From Coq Require Import String List NArith ZArith Bool Arith Lia.
From SudachiVerif Require Import Model.Buffer Proofs.BufferProofs Proofs.BufferCharProofs.
Import ListNotations.
Local Open Scope nat_scope.

(* add_replace indexes source_mapping at what.start and what.end (whichever the two selectors say): both exist *)
Lemma add_replace_total : forall cfg smap s e w, s < length smap -> e < length smap ->
  exists rm, add_replace cfg smap s e w = Some (w, rm, (Z.of_nat (length w) - Z.of_nat (e - s))%Z).
Proof.
  intros cfg smap s e w Hs He. unfold add_replace. destruct w as [|b w].
  - exists []. replace (Z.of_nat (length (@nil N)) - Z.of_nat (e - s))%Z with (- Z.of_nat (e - s))%Z by (cbn [length]; lia). reflexivity.
  - assert (Hx : forall which, exists a, nth_error smap (sel which s e) = Some a).
    { intros which. unfold sel. destruct (String.eqb which "start").
      - destruct (nth_error smap s) eqn:E; [eauto | apply nth_error_None in E; lia].
      - destruct (nth_error smap e) eqn:E; [eauto | apply nth_error_None in E; lia]. }
    destruct (Hx (c_first_sel cfg)) as [a ->]. destruct (Hx (c_rest_sel cfg)) as [p ->]. eexists. reflexivity.
Qed.

(* resolve_edits on a batch that is sorted, non-overlapping, in range and on character boundaries (edits_ok: what all three
   input-text plugins hand over, C07_plugin_edits_translate_ok): no slice of the text, no slice / index of the offset map
   panics; the loop either finishes or leaves through its length guard *)
Theorem resolve_no_index_panic : forall cfg src smap, length smap = length src + 1 -> forall es start cl,
  start <= length src -> is_boundary src start = true -> edits_ok_from src start es = true ->
  resolve cfg src smap es start cl <> RPanic.
Proof.
  intros cfg src smap Hlen. induction es as [|e es IH]; intros start cl Hst Hb Hok.
  - cbn [resolve]. unfold str_slice, vec_slice. rewrite Hb, is_boundary_len, !Nat.leb_refl.
    replace (start <=? length src) with true by (symmetry; apply Nat.leb_le; lia).
    replace (start <=? length smap) with true by (symmetry; apply Nat.leb_le; lia). cbn [andb]. discriminate.
  - cbn [edits_ok_from] in Hok. repeat rewrite andb_true_iff in Hok.
    destruct Hok as [[[[[[H1 H2] H3] B1] B2] _] Hrest]. apply Nat.leb_le in H1, H2, H3.
    cbn [resolve]. unfold str_slice, vec_slice. rewrite Hb, B1.
    replace (start <=? e_s e) with true by (symmetry; apply Nat.leb_le; lia).
    replace (e_s e <=? length src) with true by (symmetry; apply Nat.leb_le; lia).
    replace (e_s e <=? length smap) with true by (symmetry; apply Nat.leb_le; lia). cbn [andb].
    destruct (add_replace_total cfg smap (e_s e) (e_e e) (e_w e)) as [rm ->]; [lia | lia |].
    destruct (cmp_eval _ _ _); [discriminate|].
    specialize (IH (e_e e) (cl + (Z.of_nat (length (e_w e)) - Z.of_nat (e_e e - e_s e)))%Z H3 B2 Hrest).
    destruct (resolve cfg src smap es (e_e e) _) as [t m l|l|]; [discriminate | discriminate | contradiction].
Qed.

Section Cfg.
  Variable cfg : bcfg.
  Hypothesis Hcfg : cfg_ok cfg = true.

  (* commit on a reachable buffer never panics inside resolve_edits / add_replace *)
  Theorem commit_no_index_panic : forall o s es, wf_text o = true -> Reach cfg o s -> edits_ok (cur s) es = true ->
    resolve cfg (cur s) (m2o s) es 0 (Z.of_nat (length (cur s))) <> RPanic.
  Proof.
    intros o s es Hwf HR Hok. destruct (reach_inv cfg Hcfg o s Hwf HR) as (_ & HB & _ & _ & _ & Hwt & _).
    apply resolve_no_index_panic; [exact (BMap_length _ _ _ HB) | lia | apply is_boundary_0; exact Hwt | exact Hok].
  Qed.
End Cfg.

(* InputBuffer::build: `self.mod_bow[bidx] = can_bow` for every bidx of char_indices(), with mod_bow resized to
   modified.len(): every written index is below the length; and the offsets char_indices() yields increase, so
   `bidx - last_offset` and `modified.len() - last_offset` do not underflow *)
Theorem build_bow_writes_in_range : forall t p, In p (c2b_scan t 0) -> p < length t.
Proof. intros t p H. destruct (c2b_scan_lt t 0 p H). lia. Qed.

Lemma c2b_scan_sorted : forall t i, forall a b l1 l2, c2b_scan t i = l1 ++ a :: b :: l2 -> a < b.
Proof.
  induction t as [|x t IH]; intros i a b l1 l2 H; cbn [c2b_scan] in H.
  - destruct l1; discriminate H.
  - destruct (is_lead x).
    + destruct l1 as [|y l1]; cbn [app] in H.
      * inversion H as [[Ha Hb]]. subst a. assert (Hin : In b (c2b_scan t (S i))) by (rewrite Hb; left; reflexivity).
        destruct (c2b_scan_lt t (S i) b Hin). lia.
      * inversion H as [[Hy Hr]]. exact (IH _ _ _ _ _ Hr).
    + exact (IH _ _ _ _ _ H).
Qed.
