From Coq Require Import List Arith Bool Lia.
From SudachiVerif Require Import Model.Interleave.
Import ListNotations.

Section P.
  Variables (D St Out : Type).
  Variable step : D -> St -> St * Out.

  Lemma nth_upd_same : forall (st : list St) t s s0, nth_error st t = Some s0 -> nth_error (upd St st t s) t = Some s.
  Proof. induction st as [|x r IH]; intros [|t] s s0 H; cbn in *; try discriminate; auto. eapply IH; eauto. Qed.

  Lemma nth_upd_other : forall (st : list St) t t' s, t <> t' -> nth_error (upd St st t s) t' = nth_error st t'.
  Proof.
    induction st as [|x r IH]; intros [|t] [|t'] s H; cbn; auto; try congruence.
  Qed.

  (* C18: whatever the interleaving, every thread's outputs and final state are those of its solo run *)
  Theorem interleaving_noninterference : forall (d : D) sched st t s,
    nth_error st t = Some s ->
    outputs_of Out t (snd (run D St Out step d st sched)) = snd (solo D St Out step d s (count_occ Nat.eq_dec sched t)) /\
    nth_error (fst (run D St Out step d st sched)) t = Some (fst (solo D St Out step d s (count_occ Nat.eq_dec sched t))).
  Proof.
    intros d. induction sched as [|u rest IH]; intros st t s Hs; cbn [run count_occ].
    - cbn. auto.
    - destruct (Nat.eq_dec u t) as [->|Hne].
      + rewrite Hs. cbn [solo]. destruct (step d s) as [s' o] eqn:Es.
        specialize (IH (upd St st t s') t s' (nth_upd_same st t s' s Hs)).
        destruct (run D St Out step d (upd St st t s') rest) as [st' outs]. cbn [fst snd] in *.
        destruct (solo D St Out step d s' (count_occ Nat.eq_dec rest t)) as [s'' os]. cbn [fst snd] in *.
        destruct IH as [IH1 IH2]. split; [|exact IH2].
        unfold outputs_of. cbn [filter fst]. rewrite Nat.eqb_refl. cbn [map snd]. f_equal. exact IH1.
      + destruct (nth_error st u) as [su|] eqn:Eu.
        * destruct (step d su) as [su' o] eqn:Es.
          assert (Hs' : nth_error (upd St st u su') t = Some s) by (rewrite nth_upd_other by exact Hne; exact Hs).
          specialize (IH (upd St st u su') t s Hs').
          destruct (run D St Out step d (upd St st u su') rest) as [st' outs]. cbn [fst snd] in *.
          destruct IH as [IH1 IH2]. split; [|exact IH2].
          unfold outputs_of. cbn [filter fst].
          replace (Nat.eqb u t) with false by (symmetry; apply Nat.eqb_neq; exact Hne). exact IH1.
        * apply IH. exact Hs.
  Qed.

  (* the shared value is the same before and after: no step can change it (by construction of `run`), and two runs over
     different schedules with the same per-thread counts give every thread the same outputs *)
  Corollary schedule_irrelevant : forall (d : D) sched1 sched2 st t s,
    nth_error st t = Some s ->
    count_occ Nat.eq_dec sched1 t = count_occ Nat.eq_dec sched2 t ->
    outputs_of Out t (snd (run D St Out step d st sched1)) = outputs_of Out t (snd (run D St Out step d st sched2)).
  Proof.
    intros d s1 s2 st t s Hs Hc.
    destruct (interleaving_noninterference d s1 st t s Hs) as [-> _].
    destruct (interleaving_noninterference d s2 st t s Hs) as [-> _]. rewrite Hc. reflexivity.
  Qed.
End P.
