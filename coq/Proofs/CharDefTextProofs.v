From Coq Require Import List NArith Bool Lia.
From SudachiVerif Require Import Model.CharCat Model.CharDefText Proofs.CharCatProofs.
Import ListNotations.
Open Scope N_scope.

(* every range a definition line yields is non-empty and lies between scalar values *)
Lemma parse_line_range raw r :
  parse_line raw = LRange r -> rb r < re r /\ is_char (rb r) = true /\ is_char (re r) = true.
Proof.
  unfold parse_line. destruct (trim raw) as [|b0 line']; [discriminate|].
  set (line := b0 :: line').
  destruct (first_byte line =? 35); [discriminate|].
  destruct (128 <=? first_byte line); [discriminate|].
  destruct (negb (starts_with ZERO_X line)); [discriminate|].
  destruct (existsb (fun b => 128 <=? b) line); [discriminate|].
  destruct (words line) as [|c0 [|c1 rest]]; try discriminate.
  destruct (split_dots [] c0) as [r0 r1].
  destruct (from_hex_u32 (strip_0x (length r0) r0)) as [b|]; [|discriminate].
  destruct (match r1 with Some r1' => from_hex_u32 (strip_0x (length r1') r1') | None => Some b end) as [ev|]; [|discriminate].
  destruct (ev =? U32_MAX); [discriminate|].
  destruct (ev + 1 <=? b) eqn:E1; [discriminate|].
  destruct (is_char b) eqn:E2; [|discriminate]. cbn [negb].
  destruct (is_char (ev + 1)) eqn:E3; [|discriminate]. cbn [negb].
  destruct (classes (c1 :: rest) 0); try discriminate.
  intros H. inversion H; subst. cbn [rb re]. repeat split; auto. lia.
Qed.

Lemma parse_lines_wf : forall ls acc rs,
  (forall r, In r acc -> rb r < re r) -> parse_lines ls acc = POk rs -> forall r, In r rs -> rb r < re r.
Proof.
  induction ls as [|l ls IH]; intros acc rs Hacc H r Hr; cbn [parse_lines] in H.
  - inversion H; subst. apply Hacc. apply in_rev. exact Hr.
  - destruct (parse_line l) as [|r0| | |] eqn:El; try discriminate.
    + eapply IH; eauto.
    + apply (IH (r0 :: acc) rs); auto. intros r' [<-|Hr']; [apply (parse_line_range l r0 El)|apply Hacc; exact Hr'].
Qed.

(* a definition file that loads satisfies the hypothesis of the compile / lookup theorems *)
Theorem loaded_file_is_wf text rs : read_character_definition text = POk rs -> wf rs.
Proof. unfold read_character_definition, wf. intros H r Hr. exact (parse_lines_wf _ [] rs (fun r' (F : In r' []) => match F with end) H r Hr). Qed.

(* C17 from the text of the file: for every definition file the model reader accepts and every code point, the classes looked
   up in the compiled table are the union of the classes of the lines whose range contains it, DEFAULT if that is empty *)
Theorem file_lookup_is_union text rs :
  read_character_definition text = POk rs ->
  exists cc, compile rs = Some cc /\ forall c, lookup cc c = spec rs c.
Proof.
  intros H. pose proof (loaded_file_is_wf text rs H) as Hwf.
  destruct (compile_total rs Hwf) as [cc Hc]. exists cc. split; [exact Hc|].
  intros c. apply lookup_compile_is_union; assumption.
Qed.
