(* C20, text layer — lemmas about Model/UnkDefText.v: what an accepted category-definition text / unk.def text yields (one
   record per non-comment line, in order, fields = the columns), what a rejected text's error value points at (the first
   offending line, of an enumerated kind), and the composition with the parameter checks of Model/Params.v. *)
From Coq Require Import List NArith ZArith Bool Arith Lia.
From SudachiVerif Require Import Model.Harness Model.GuardLang Model.Params Model.UnkDefText Proofs.GuardProofs Proofs.ParamsProofs.
Import ListNotations.
Open Scope list_scope.

(* ------------------------------------------------------------------ decimal numbers *)

Definition is_digit (c : N) : bool := ((48 <=? c) && (c <=? 57))%N.
Definition dec_value (ds : list N) : N := fold_left (fun a c => a * 10 + (c - 48))%N ds 0%N.

Lemma dec_acc_spec : forall ds acc v, dec_acc acc ds = Some v ->
  forallb is_digit ds = true /\ v = fold_left (fun a c => a * 10 + (c - 48))%N ds acc.
Proof.
  induction ds as [|c t IH]; intros acc v H; cbn [dec_acc] in H.
  - inversion H; subst. split; reflexivity.
  - destruct ((48 <=? c) && (c <=? 57))%N eqn:E; [|discriminate].
    destruct (IH _ _ H) as [A B]. cbn [forallb fold_left]. unfold is_digit at 1. rewrite E, A. split; [reflexivity|exact B].
Qed.

(* <int>::from_str mirrored: an accepted column is an optional sign ('+'; '-' for signed types only) followed by at least one
   ASCII digit, its value is the decimal value of the digits (negated after '-') and lies inside the type *)
Lemma parse_int_spec : forall t s z, parse_int t s = Some z ->
  exists sign ds, s = sign ++ ds /\ ds <> [] /\ forallb is_digit ds = true /\ in_ity t z = true
    /\ ((sign = [] \/ sign = [43%N]) /\ z = Z.of_N (dec_value ds)
        \/ (sign = [45%N] /\ (ity_min t < 0)%Z /\ z = (- Z.of_N (dec_value ds))%Z)).
Proof.
  intros t s z H. unfold parse_int in H. destruct s as [|c rest]; [discriminate|].
  destruct (c =? 43)%N eqn:Ep.
  - apply N.eqb_eq in Ep. subst c. destruct rest as [|d ds']; [discriminate|].
    destruct (dec_acc 0 (d :: ds')) as [v|] eqn:Ed; [|discriminate].
    destruct (in_ity t (Z.of_N v)) eqn:Ei; [|discriminate]. inversion H; subst.
    destruct (dec_acc_spec _ _ _ Ed) as [A B]. exists [43%N], (d :: ds'). repeat split; try assumption; try discriminate.
    left. split; [right; reflexivity|]. unfold dec_value. rewrite B. reflexivity.
  - destruct (((ity_min t <? 0)%Z && (c =? 45)%N)) eqn:Em.
    + apply andb_true_iff in Em as [Es Ec]. apply N.eqb_eq in Ec. subst c. apply Z.ltb_lt in Es.
      destruct rest as [|d ds']; [discriminate|].
      destruct (dec_acc 0 (d :: ds')) as [v|] eqn:Ed; [|discriminate].
      destruct (in_ity t (- Z.of_N v)) eqn:Ei; [|discriminate]. inversion H; subst.
      destruct (dec_acc_spec _ _ _ Ed) as [A B]. exists [45%N], (d :: ds'). repeat split; try assumption; try discriminate.
      right. repeat split; [exact Es|]. unfold dec_value. rewrite B. reflexivity.
    + destruct (dec_acc 0 (c :: rest)) as [v|] eqn:Ed; [|discriminate].
      destruct (in_ity t (Z.of_N v)) eqn:Ei; [|discriminate]. inversion H; subst.
      destruct (dec_acc_spec _ _ _ Ed) as [A B]. exists [], (c :: rest). repeat split; try assumption; try discriminate.
      left. split; [left; reflexivity|]. unfold dec_value. rewrite B. reflexivity.
Qed.

(* ------------------------------------------------------------------ category-definition lines *)

(* a line the reader does not skip *)
Definition cp_data_line (raw : text) : bool := match charprop_line raw with CLSkip => false | _ => true end.

(* ... which are exactly: blank lines, lines whose first non-blank character is the comment character, range lines (0x..) *)
Lemma cp_data_line_iff : forall raw,
  cp_data_line raw = false <->
  (trim raw = [] \/ (exists c l, trim raw = c :: l /\ ((c =? UF.charprop_comment)%N || starts_with UF.charprop_range_prefix (c :: l)) = true)).
Proof.
  intros raw. unfold cp_data_line, charprop_line. destruct (trim raw) as [|c l].
  - split; [intros _; left; reflexivity|reflexivity].
  - destruct ((c =? UF.charprop_comment)%N || starts_with UF.charprop_range_prefix (c :: l)) eqn:E.
    + split; [intros _; right; exists c, l; split; [reflexivity|exact E]|reflexivity].
    + split.
      * intros H. exfalso. destruct (too_few UF.charprop_cols_guard (words (c :: l))); [discriminate|].
        destruct (parse_category (col (words (c :: l)) 0)); discriminate.
      * intros [H|[c' [l' [H1 H2]]]]; [discriminate|]. inversion H1; subst. congruence.
Qed.

(* what an accepted line says, in terms of its white-space separated columns *)
Definition cp_row_spec (raw : text) (ci : catinfo) : Prop :=
  let cols := words (trim raw) in
  cp_data_line raw = true
  /\ too_few UF.charprop_cols_guard cols = false
  /\ parse_category (col cols 0) = Some (ci_cat ci)
  /\ ci_invoke ci = text_eqb (col cols UF.charprop_invoke_col) UF.charprop_true_literal
  /\ ci_group ci = text_eqb (col cols UF.charprop_group_col) UF.charprop_true_literal
  /\ parse_int UF.charprop_length_ty (col cols UF.charprop_length_col) = Some (ci_length ci).

(* the enumerated ways a line can be wrong, given the definitions accepted before it *)
Definition cp_offending (before : list catinfo) (raw : text) (e : cp_err) : Prop :=
  let cols := words (trim raw) in
  cp_data_line raw = true /\
  match e with
  | CpTooFewColumns => too_few UF.charprop_cols_guard cols = true
  | CpBadCategory => too_few UF.charprop_cols_guard cols = false /\ parse_category (col cols 0) = None
  | CpDuplicate => exists cat, parse_category (col cols 0) = Some cat /\ In cat (map ci_cat before)
  | CpBadLength => exists cat, parse_category (col cols 0) = Some cat /\ ~ In cat (map ci_cat before)
                               /\ parse_int UF.charprop_length_ty (col cols UF.charprop_length_col) = None
  end.

Lemma charprop_line_row : forall raw cat inv grp len, charprop_line raw = CLRow cat inv grp len ->
  let cols := words (trim raw) in
  too_few UF.charprop_cols_guard cols = false /\ parse_category (col cols 0) = Some cat
  /\ inv = text_eqb (col cols UF.charprop_invoke_col) UF.charprop_true_literal
  /\ grp = text_eqb (col cols UF.charprop_group_col) UF.charprop_true_literal
  /\ len = col cols UF.charprop_length_col.
Proof.
  intros raw cat inv grp len H. unfold charprop_line in H. destruct (trim raw) as [|c l] eqn:Et; [discriminate|].
  destruct ((c =? UF.charprop_comment)%N || starts_with UF.charprop_range_prefix (c :: l)); [discriminate|].
  destruct (too_few UF.charprop_cols_guard (words (c :: l))) eqn:Ef; [discriminate|].
  destruct (parse_category (col (words (c :: l)) 0)) as [k|] eqn:Ec; [|discriminate].
  inversion H; subst. cbv zeta. repeat split; try reflexivity; assumption.
Qed.

Lemma charprop_line_err : forall raw e, charprop_line raw = CLErr e ->
  let cols := words (trim raw) in
  (e = CpTooFewColumns /\ too_few UF.charprop_cols_guard cols = true)
  \/ (e = CpBadCategory /\ too_few UF.charprop_cols_guard cols = false /\ parse_category (col cols 0) = None).
Proof.
  intros raw e H. unfold charprop_line in H. destruct (trim raw) as [|c l] eqn:Et; [discriminate|].
  destruct ((c =? UF.charprop_comment)%N || starts_with UF.charprop_range_prefix (c :: l)); [discriminate|].
  destruct (too_few UF.charprop_cols_guard (words (c :: l))) eqn:Ef.
  - inversion H; subst. left. split; [reflexivity|exact Ef].
  - destruct (parse_category (col (words (c :: l)) 0)) as [k|] eqn:Ec; [discriminate|].
    inversion H; subst. right. repeat split; assumption.
Qed.

Lemma existsb_cat_in : forall cat acc, existsb (fun ci => (ci_cat ci =? cat)%N) acc = true <-> In cat (map ci_cat acc).
Proof.
  intros cat acc. rewrite existsb_exists. split.
  - intros [ci [Hin He]]. apply N.eqb_eq in He. subst cat. apply in_map. exact Hin.
  - intros Hin. apply in_map_iff in Hin as [ci [He Hin]]. exists ci. split; [exact Hin|apply N.eqb_eq; exact He].
Qed.

(* the loop, for any position and any definitions read so far (acc, newest first) *)
Lemma charprop_lines_ok : forall ls i acc cis, charprop_lines i ls acc = CPOk cis ->
  exists new, cis = rev acc ++ new /\ Forall2 cp_row_spec (filter cp_data_line ls) new
              /\ NoDup (map ci_cat new) /\ (forall c, In c (map ci_cat new) -> ~ In c (map ci_cat acc)).
Proof.
  induction ls as [|l t IH]; intros i acc cis H; cbn [charprop_lines] in H.
  - inversion H; subst. exists []. rewrite app_nil_r. repeat split; [constructor|constructor|intros c []].
  - cbn [filter]. unfold cp_data_line at 1. destruct (charprop_line l) as [|e|cat inv grp len] eqn:El; try discriminate.
    + exact (IH _ _ _ H).
    + destruct (existsb (fun ci => (ci_cat ci =? cat)%N) acc) eqn:Ed; [discriminate|].
      destruct (parse_int UF.charprop_length_ty len) as [n|] eqn:En; [|discriminate].
      destruct (IH _ _ _ H) as (new & E & F2 & ND & Fresh).
      exists (mkCat cat inv grp n :: new). cbn [rev] in E. rewrite <- app_assoc in E. cbn [app] in E.
      destruct (charprop_line_row _ _ _ _ _ El) as (A & B & C & D & G).
      assert (~ In cat (map ci_cat acc)) as Nacc.
      { intros Hin. apply existsb_cat_in in Hin. congruence. }
      repeat split.
      * exact E.
      * constructor; [|exact F2]. unfold cp_row_spec. cbn [ci_cat ci_invoke ci_group ci_length].
        repeat split; try assumption. { unfold cp_data_line. rewrite El. reflexivity. } { rewrite <- G. exact En. }
      * cbn [map ci_cat]. constructor; [|exact ND]. intros Hin. apply (Fresh cat Hin). cbn [map ci_cat]. left. reflexivity.
      * intros c [<-|Hin]; [exact Nacc|]. intros Hacc. apply (Fresh c Hin). cbn [map]. right. exact Hacc.
Qed.

Lemma charprop_lines_err : forall ls i acc j e, charprop_lines i ls acc = CPErr j e ->
  exists pre raw post mid,
    ls = pre ++ raw :: post /\ j = (i + N.of_nat (List.length pre))%N
    /\ charprop_lines i pre acc = CPOk (rev acc ++ mid)
    /\ cp_offending (rev mid ++ acc) raw e.
Proof.
  induction ls as [|l t IH]; intros i acc j e H; cbn [charprop_lines] in H; [discriminate|].
  destruct (charprop_line l) as [|e0|cat inv grp len] eqn:El.
  - destruct (IH _ _ _ _ H) as (pre & raw & post & mid & E1 & E2 & E3 & E4).
    exists (l :: pre), raw, post, mid. refine (conj _ (conj _ (conj _ E4))).
    + cbn [app]. rewrite E1. reflexivity.
    + cbn [List.length]. lia.
    + cbn [charprop_lines]. rewrite El. exact E3.
  - inversion H; subst. exists [], l, t, []. refine (conj eq_refl (conj _ (conj _ _))); cbn [charprop_lines app rev List.length]; try lia.
    + rewrite app_nil_r. reflexivity.
    + unfold cp_offending. split; [unfold cp_data_line; rewrite El; reflexivity|].
      destruct (charprop_line_err _ _ El) as [[-> A]|[-> [A B]]]; [exact A|split; assumption].
  - destruct (charprop_line_row _ _ _ _ _ El) as (A & B & C & D & G).
    destruct (existsb (fun ci => (ci_cat ci =? cat)%N) acc) eqn:Ed.
    + inversion H; subst. exists [], l, t, []. refine (conj eq_refl (conj _ (conj _ _))); cbn [charprop_lines app rev List.length]; try lia.
      * rewrite app_nil_r. reflexivity.
      * unfold cp_offending. split; [unfold cp_data_line; rewrite El; reflexivity|].
        exists cat. split; [exact B|apply existsb_cat_in; exact Ed].
    + destruct (parse_int UF.charprop_length_ty len) as [n|] eqn:En.
      * destruct (IH _ _ _ _ H) as (pre & raw & post & mid & E1 & E2 & E3 & E4).
        exists (l :: pre), raw, post, (mkCat cat inv grp n :: mid). refine (conj _ (conj _ (conj _ _))).
        -- cbn [app]. rewrite E1. reflexivity.
        -- cbn [List.length]. lia.
        -- cbn [charprop_lines]. rewrite El, Ed, En. rewrite E3. cbn [rev]. rewrite <- app_assoc. reflexivity.
        -- cbn [rev]. rewrite <- app_assoc. exact E4.
      * inversion H; subst. exists [], l, t, []. refine (conj eq_refl (conj _ (conj _ _))); cbn [charprop_lines app rev List.length]; try lia.
        -- rewrite app_nil_r. reflexivity.
        -- unfold cp_offending. split; [unfold cp_data_line; rewrite El; reflexivity|].
           exists cat. repeat split; [exact B| |first [rewrite <- G; exact En|exact En]].
           intros Hin. apply existsb_cat_in in Hin. congruence.
Qed.

(* ---- C20_charprop_text_spec *)
Theorem charprop_text_spec : forall t,
  match read_character_property t with
  | CPOk cis =>
      (* exactly one definition per line that is neither blank, a comment nor a range line, in order; no category twice *)
      Forall2 cp_row_spec (filter cp_data_line (lines t)) cis /\ NoDup (map ci_cat cis)
  | CPErr i e =>
      (* the error value names the first offending line; everything before it reads fine *)
      exists pre raw post before,
        lines t = pre ++ raw :: post /\ i = N.of_nat (List.length pre)
        /\ charprop_lines 0 pre [] = CPOk before /\ cp_offending (rev before) raw e
  end.
Proof.
  intros t. unfold read_character_property. destruct (charprop_lines 0 (lines t) []) as [cis|i e] eqn:H.
  - destruct (charprop_lines_ok _ _ _ _ H) as (new & E & F2 & ND & _). cbn [rev app] in E. subst new. split; assumption.
  - destruct (charprop_lines_err _ _ _ _ _ H) as (pre & raw & post & mid & E1 & E2 & E3 & E4).
    exists pre, raw, post, mid. cbn [rev app] in E3. rewrite app_nil_r in E4. refine (conj E1 (conj _ (conj E3 E4))). lia.
Qed.

(* ------------------------------------------------------------------ unk.def lines *)

Definition unk_data_line (cats : list N) (raw : text) : bool := match unk_line cats raw with ULSkip => false | _ => true end.

Lemma unk_data_line_iff : forall cats raw,
  unk_data_line cats raw = false <-> (trim raw = [] \/ exists l, trim raw = UF.unk_comment :: l).
Proof.
  intros cats raw. unfold unk_data_line, unk_line. destruct (trim raw) as [|c l].
  - split; [intros _; left; reflexivity|reflexivity].
  - destruct (c =? UF.unk_comment)%N eqn:E.
    + apply N.eqb_eq in E. subst c. split; [intros _; right; exists l; reflexivity|reflexivity].
    + apply N.eqb_neq in E. split.
      * intros H. exfalso. destruct (too_few UF.unk_cols_guard (split_on UF.unk_separator (c :: l))); [discriminate|].
        destruct (parse_category (col (split_on UF.unk_separator (c :: l)) 0)) as [cat|]; [|discriminate].
        destruct (negb (existsb (N.eqb cat) cats)); [discriminate|].
        destruct (parse_int Guards.unk_left_id_ty (col (split_on UF.unk_separator (c :: l)) 1)); [|discriminate].
        destruct (parse_int Guards.unk_right_id_ty (col (split_on UF.unk_separator (c :: l)) 2)); [|discriminate].
        destruct (parse_int Guards.unk_cost_ty (col (split_on UF.unk_separator (c :: l)) 3)); discriminate.
      * intros [H|[l' H]]; [discriminate|]. inversion H. congruence.
Qed.

(* what an accepted line says, in terms of its comma separated columns *)
Definition unk_row_spec (cats : list N) (raw : text) (u : unk_tpl) : Prop :=
  let cols := split_on UF.unk_separator (trim raw) in
  unk_data_line cats raw = true
  /\ too_few UF.unk_cols_guard cols = false
  /\ parse_category (col cols 0) = Some (u_cat u) /\ In (u_cat u) cats
  /\ parse_int Guards.unk_left_id_ty (col cols 1) = Some (u_left u)
  /\ parse_int Guards.unk_right_id_ty (col cols 2) = Some (u_right u)
  /\ parse_int Guards.unk_cost_ty (col cols 3) = Some (u_cost u)
  /\ u_pos u = firstn (UF.unk_pos_to - UF.unk_pos_from) (skipn UF.unk_pos_from cols).

Definition unk_offending (cats : list N) (raw : text) (e : unk_err) : Prop :=
  let cols := split_on UF.unk_separator (trim raw) in
  unk_data_line cats raw = true /\
  match e with
  | UTooFewColumns => too_few UF.unk_cols_guard cols = true
  | UBadCategory => too_few UF.unk_cols_guard cols = false /\ parse_category (col cols 0) = None
  | UUndefinedCategory => exists cat, parse_category (col cols 0) = Some cat /\ ~ In cat cats
  | UBadNumber k =>
      (exists cat, parse_category (col cols 0) = Some cat /\ In cat cats) /\
      ((k = 1%nat /\ parse_int Guards.unk_left_id_ty (col cols 1) = None)
       \/ (k = 2%nat /\ parse_int Guards.unk_left_id_ty (col cols 1) <> None /\ parse_int Guards.unk_right_id_ty (col cols 2) = None)
       \/ (k = 3%nat /\ parse_int Guards.unk_left_id_ty (col cols 1) <> None /\ parse_int Guards.unk_right_id_ty (col cols 2) <> None
                     /\ parse_int Guards.unk_cost_ty (col cols 3) = None))
  end.

Lemma existsb_eqb_in : forall (c : N) l, existsb (N.eqb c) l = true <-> In c l.
Proof.
  intros c l. rewrite existsb_exists. split.
  - intros [x [Hin He]]. apply N.eqb_eq in He. subst x. exact Hin.
  - intros Hin. exists c. split; [exact Hin|apply N.eqb_refl].
Qed.

Lemma unk_line_tpl : forall cats raw u, unk_line cats raw = ULTpl u -> unk_row_spec cats raw u.
Proof.
  intros cats raw u H. unfold unk_row_spec. split; [unfold unk_data_line; rewrite H; reflexivity|].
  unfold unk_line in H. destruct (trim raw) as [|c l] eqn:Et; [discriminate|].
  destruct (c =? UF.unk_comment)%N; [discriminate|].
  remember (split_on UF.unk_separator (c :: l)) as cols eqn:Ecols.
  destruct (too_few UF.unk_cols_guard cols) eqn:Ef; [discriminate|].
  destruct (parse_category (col cols 0)) as [cat|] eqn:Ec; [|discriminate].
  destruct (existsb (N.eqb cat) cats) eqn:Ee; [|discriminate]. cbn [negb] in H.
  destruct (parse_int Guards.unk_left_id_ty (col cols 1)) as [a|] eqn:E1; [|discriminate].
  destruct (parse_int Guards.unk_right_id_ty (col cols 2)) as [b|] eqn:E2; [|discriminate].
  destruct (parse_int Guards.unk_cost_ty (col cols 3)) as [d|] eqn:E3; [|discriminate].
  inversion H; subst u. cbn [u_cat u_left u_right u_cost u_pos].
  split; [reflexivity|split; [reflexivity|split; [apply existsb_eqb_in; exact Ee|split; [reflexivity|split; [reflexivity|split; reflexivity]]]]].
Qed.

Lemma unk_line_err : forall cats raw e, unk_line cats raw = ULErr e -> unk_offending cats raw e.
Proof.
  intros cats raw e H. unfold unk_offending. split; [unfold unk_data_line; rewrite H; reflexivity|].
  unfold unk_line in H. destruct (trim raw) as [|c l] eqn:Et; [discriminate|].
  destruct (c =? UF.unk_comment)%N; [discriminate|].
  remember (split_on UF.unk_separator (c :: l)) as cols eqn:Ecols.
  destruct (too_few UF.unk_cols_guard cols) eqn:Ef; [inversion H; subst e; reflexivity|].
  destruct (parse_category (col cols 0)) as [cat|] eqn:Ec; [|inversion H; subst e; split; reflexivity].
  destruct (existsb (N.eqb cat) cats) eqn:Ee; cbn [negb] in H.
  2:{ inversion H; subst e. exists cat. split; [reflexivity|]. intros Hin. apply existsb_eqb_in in Hin. congruence. }
  assert (exists cat0, Some cat = Some cat0 /\ In cat0 cats) as HC by (exists cat; split; [reflexivity|apply existsb_eqb_in; exact Ee]).
  destruct (parse_int Guards.unk_left_id_ty (col cols 1)) as [a|] eqn:E1.
  2:{ inversion H; subst e. split; [exact HC|]. left. split; reflexivity. }
  destruct (parse_int Guards.unk_right_id_ty (col cols 2)) as [b|] eqn:E2.
  2:{ inversion H; subst e. split; [exact HC|]. right. left. split; [reflexivity|split; [discriminate|reflexivity]]. }
  destruct (parse_int Guards.unk_cost_ty (col cols 3)) as [d|] eqn:E3; [discriminate|].
  inversion H; subst e. split; [exact HC|]. right. right. split; [reflexivity|split; [discriminate|split; [discriminate|reflexivity]]].
Qed.

Lemma unk_lines_ok : forall cats ls i acc ts, unk_lines cats i ls acc = UOk ts ->
  exists new, ts = rev acc ++ new /\ Forall2 (unk_row_spec cats) (filter (unk_data_line cats) ls) new.
Proof.
  intros cats. induction ls as [|l t IH]; intros i acc ts H; cbn [unk_lines] in H.
  - inversion H; subst. exists []. rewrite app_nil_r. split; [reflexivity|constructor].
  - cbn [filter]. unfold unk_data_line at 1. destruct (unk_line cats l) as [|e|u] eqn:El; try discriminate.
    + exact (IH _ _ _ H).
    + destruct (IH _ _ _ H) as (new & E & F2). exists (u :: new). cbn [rev] in E. rewrite <- app_assoc in E. cbn [app] in E.
      split; [exact E|]. constructor; [apply unk_line_tpl; exact El|exact F2].
Qed.

Lemma unk_lines_err : forall cats ls i acc j e, unk_lines cats i ls acc = UErr j e ->
  exists pre raw post mid,
    ls = pre ++ raw :: post /\ j = (i + N.of_nat (List.length pre))%N
    /\ unk_lines cats i pre acc = UOk (rev acc ++ mid) /\ unk_offending cats raw e.
Proof.
  intros cats. induction ls as [|l t IH]; intros i acc j e H; cbn [unk_lines] in H; [discriminate|].
  destruct (unk_line cats l) as [|e0|u] eqn:El.
  - destruct (IH _ _ _ _ H) as (pre & raw & post & mid & E1 & E2 & E3 & E4).
    exists (l :: pre), raw, post, mid. refine (conj _ (conj _ (conj _ E4))); [cbn [app]; rewrite E1; reflexivity|cbn [List.length]; lia|].
    cbn [unk_lines]. rewrite El. exact E3.
  - inversion H; subst. exists [], l, t, []. refine (conj eq_refl (conj _ (conj _ _))); cbn [unk_lines app List.length]; try lia.
    + rewrite app_nil_r. reflexivity.
    + apply unk_line_err. exact El.
  - destruct (IH _ _ _ _ H) as (pre & raw & post & mid & E1 & E2 & E3 & E4).
    exists (l :: pre), raw, post, (u :: mid). refine (conj _ (conj _ (conj _ E4))); [cbn [app]; rewrite E1; reflexivity|cbn [List.length]; lia|].
    cbn [unk_lines]. rewrite El. rewrite E3. cbn [rev]. rewrite <- app_assoc. reflexivity.
Qed.

(* ---- C20_unk_text_spec *)
Theorem unk_text_spec : forall cats t,
  match read_oov_text cats t with
  | UOk ts =>
      (* exactly one template per line that is neither blank nor a comment, in order; each with the fields of its columns *)
      Forall2 (unk_row_spec cats) (filter (unk_data_line cats) (lines t)) ts
  | UErr i e =>
      exists pre raw post before,
        lines t = pre ++ raw :: post /\ i = N.of_nat (List.length pre)
        /\ unk_lines cats 0 pre [] = UOk before /\ unk_offending cats raw e
  end.
Proof.
  intros cats t. unfold read_oov_text. destruct (unk_lines cats 0 (lines t) []) as [ts|i e] eqn:H.
  - destruct (unk_lines_ok _ _ _ _ _ H) as (new & E & F2). cbn [rev app] in E. subst new. exact F2.
  - destruct (unk_lines_err _ _ _ _ _ _ H) as (pre & raw & post & mid & E1 & E2 & E3 & E4).
    exists pre, raw, post, mid. cbn [rev app] in E3. refine (conj E1 (conj _ (conj E3 E4))). lia.
Qed.

(* grouping by category keeps the order of the file *)
Lemma templates_of_app : forall c a b, templates_of c (a ++ b) = templates_of c a ++ templates_of c b.
Proof. intros. unfold templates_of. apply filter_app. Qed.

Lemma templates_of_in : forall c ts u, In u (templates_of c ts) <-> In u ts /\ u_cat u = c.
Proof. intros c ts u. unfold templates_of. rewrite filter_In, N.eqb_eq. reflexivity. Qed.

(* with the column rules as they are read from the source (>= 10 columns, POS = columns 4..10), every template carries
   exactly POS_DEPTH POS columns *)
Definition unk_shape_ok : Prop :=
  UF.unk_cols_guard = mkG CastNone CLt (OConst 10%Z) /\ UF.unk_pos_from = 4%nat /\ UF.unk_pos_to = 10%nat /\ UF.POS_DEPTH = 6%nat
  /\ UF.unk_separator = 44%N /\ UF.unk_comment = 35%N.

Lemma row_pos_arity : unk_shape_ok -> forall cats raw u, unk_row_spec cats raw u -> List.length (u_pos u) = UF.POS_DEPTH.
Proof.
  intros (Hg & Hf & Ht & Hd & _) cats raw u (_ & Hfew & _ & _ & _ & _ & _ & Hp).
  rewrite Hp, Hf, Ht, Hd. unfold too_few in Hfew. rewrite Hg in Hfew. unfold fires in Hfew. cbn in Hfew.
  apply Z.ltb_ge in Hfew. rewrite firstn_length, skipn_length. lia.
Qed.

(* ------------------------------------------------------------------ POS key: injective *)

Lemma key_num_inj : forall a b, (forall d, In d a -> (1 <= d < KEY_BASE)%N) -> (forall d, In d b -> (1 <= d < KEY_BASE)%N) ->
  key_num a = key_num b -> a = b.
Proof.
  unfold KEY_BASE.
  induction a as [|x a IH]; intros [|y b] Ha Hb H; cbn [key_num] in H.
  - reflexivity.
  - exfalso. pose proof (Hb y (or_introl eq_refl)). lia.
  - exfalso. pose proof (Ha x (or_introl eq_refl)). lia.
  - pose proof (Ha x (or_introl eq_refl)) as Bx. pose proof (Hb y (or_introl eq_refl)) as By.
    assert (key_num a = key_num b /\ x = y) as [E ->].
    { unfold KEY_BASE in H. apply (N.div_mod_unique 1114114 (key_num a) (key_num b) x y); lia. }
    f_equal. apply IH; [intros d Hd; apply Ha; right; exact Hd|intros d Hd; apply Hb; right; exact Hd|exact E].
Qed.

Definition valid_text (s : text) : Prop := forall c, In c s -> (c <= 1114111)%N.

Lemma key_digits_inj : forall a b, Forall valid_text a -> Forall valid_text b -> key_digits a = key_digits b -> a = b.
Proof.
  induction a as [|s a IH]; intros [|t b] Ha Hb H; cbn [key_digits flat_map] in H.
  - reflexivity.
  - exfalso. destruct t; discriminate.
  - exfalso. destruct s; discriminate.
  - inversion Ha as [|? ? Vs Va]; subst. inversion Hb as [|? ? Vt Vb]; subst.
    assert (s = t /\ flat_map (fun s0 => map N.succ s0 ++ [KEY_SEP]) a = flat_map (fun s0 => map N.succ s0 ++ [KEY_SEP]) b) as [-> E].
    { clear IH Ha Hb Va Vb. revert t Vt H. induction s as [|c s IHs]; intros [|d t] Vt H; cbn [map app] in H.
      - inversion H. split; reflexivity.
      - exfalso. inversion H as [[E1 E2]]. pose proof (Vt d (or_introl eq_refl)). unfold KEY_SEP in E1. lia.
      - exfalso. inversion H as [[E1 E2]]. pose proof (Vs c (or_introl eq_refl)). unfold KEY_SEP in E1. lia.
      - inversion H as [[E1 E2]]. apply N.succ_inj in E1. subst d.
        destruct (IHs (fun x Hx => Vs x (or_intror Hx)) t (fun x Hx => Vt x (or_intror Hx)) E2) as [-> E]. split; [reflexivity|exact E]. }
    f_equal. apply IH; assumption.
Qed.

Lemma key_digits_range : forall a, Forall valid_text a -> forall d, In d (key_digits a) -> (1 <= d < KEY_BASE)%N.
Proof.
  intros a Ha d Hd. unfold key_digits in Hd. apply in_flat_map in Hd as [s [Hs Hin]].
  rewrite Forall_forall in Ha. specialize (Ha s Hs). apply in_app_or in Hin as [Hin|[<-|[]]].
  - apply in_map_iff in Hin as [c [<- Hc]]. specialize (Ha c Hc). unfold KEY_BASE. lia.
  - unfold KEY_SEP, KEY_BASE. lia.
Qed.

(* distinct POS (lists of strings of Unicode scalar values) have distinct keys: the abstract POS identity of Model/Params.v
   is the identity of the six columns *)
Theorem pos_key_injective : forall a b, Forall valid_text a -> Forall valid_text b -> pos_key a = pos_key b -> a = b.
Proof.
  intros a b Ha Hb H. unfold pos_key in H. apply key_digits_inj; [exact Ha|exact Hb|].
  apply key_num_inj; [apply key_digits_range; exact Ha|apply key_digits_range; exact Hb|exact H].
Qed.

(* ------------------------------------------------------------------ composition with the parameter checks *)

Section Compose.
Variable F : pfacts.
Hypothesis HF : facts_ok F = true.

(* an accepted line: in-range ids, i16 cost, POS of POS_DEPTH columns, and the stored node carries exactly the written values *)
Lemma mecab_line_values : forall g tbl allow l r c p n tbl', wf_gram g ->
  mecab_line F g tbl allow (l, r, c, p) = Ok (n, tbl') ->
  left_id_ok g l = true /\ right_id_ok g r = true /\ cost_ok c = true /\ fst p = true /\ exists pid, n = (l, r, c, pid).
Proof.
  intros g tbl allow l r c p n tbl' Hw H.
  destruct (mecab_line_sound F HF g tbl allow (l, r, c, p) n tbl' Hw H) as [Lo _].
  unfold line_ok in Lo. apply andb_true_iff in Lo as [Lo Lp]. apply andb_true_iff in Lo as [Lo Lc]. apply andb_true_iff in Lo as [Ll Lr].
  repeat split; try assumption.
  unfold mecab_line in H. destruct (in_ity (f_unk_ty F) l && in_ity (f_unk_ty F) r && in_ity (f_unk_ty F) c); [|discriminate].
  destruct (handle_user_pos F tbl p allow) as [[pid t']| |]; try discriminate.
  destruct (accepted (f_unk_left_g F) (nl g) (nr g) l && accepted (f_unk_right_g F) (nl g) (nr g) r); [|discriminate].
  inversion H; subst. exists pid.
  pose proof (left_ok_bounds _ _ Ll). pose proof (right_ok_bounds _ _ Lr). destruct Hw.
  rewrite !as_u16_small by lia. reflexivity.
Qed.

Lemma mecab_line_no_panic : forall g tbl allow ln, mecab_line F g tbl allow ln <> Panic.
Proof.
  intros g tbl allow ln E. pose proof (mecab_lines_no_panic F g allow [ln] tbl) as NP. cbn [mecab_lines] in NP. rewrite E in NP.
  apply NP. reflexivity.
Qed.

Definition pair_ok (g : gram) (p : unk_tpl * node) : Prop :=
  let u := fst p in
  left_id_ok g (u_left u) = true /\ right_id_ok g (u_right u) = true /\ cost_ok (u_cost u) = true
  /\ List.length (u_pos u) = UF.POS_DEPTH /\ exists pid, snd p = (u_left u, u_right u, u_cost u, pid).

(* read_oov as it runs = its text layer + the parameter checks line by line *)
Lemma oov_lines_ok : forall g cats allow, wf_gram g -> forall ls i tbl acc ts tbl',
  oov_lines F g cats allow i ls tbl acc = inl (inl (ts, tbl')) ->
  exists new, ts = rev acc ++ new
    /\ unk_lines cats i ls (map fst acc) = UOk (map fst (rev acc ++ new))
    /\ mecab_lines F g tbl allow (map to_mecab_line (map fst new)) = Ok (map snd new, tbl')
    /\ Forall (pair_ok g) new.
Proof.
  intros g cats allow Hw. induction ls as [|l t IH]; intros i tbl acc ts tbl' H; cbn [oov_lines] in H.
  - inversion H; subst. exists []. rewrite app_nil_r. cbn [unk_lines map mecab_lines]. rewrite map_rev. repeat split. constructor.
  - cbn [unk_lines]. destruct (unk_line cats l) as [|e|u] eqn:El; try discriminate.
    + exact (IH _ _ _ _ _ H).
    + destruct (mecab_line F g tbl allow (to_mecab_line u)) as [[n tbl1]| |] eqn:Em.
      * destruct (IH _ _ _ _ _ H) as (new & E & T & M & P). exists ((u, n) :: new).
        cbn [rev] in E. rewrite <- app_assoc in E. cbn [app] in E. cbn [map fst] in T.
        cbn [rev] in T. rewrite <- app_assoc in T. cbn [app] in T.
        repeat split; [exact E|exact T| |].
        -- cbn [map fst snd mecab_lines]. rewrite Em, M. reflexivity.
        -- constructor; [|exact P]. unfold to_mecab_line in Em.
           destruct (mecab_line_values _ _ _ _ _ _ _ _ _ Hw Em) as (A & B & C & D & pid & En).
           unfold pair_ok. cbn [fst snd]. repeat split; try assumption.
           ++ unfold posreq_of in D. cbn [fst] in D. apply Nat.eqb_eq in D. exact D.
           ++ exists pid. exact En.
      * destruct (handle_user_pos F tbl (posreq_of (u_pos u)) allow) as [[? ?]| |]; discriminate.
      * discriminate.
Qed.

Theorem setup_text_sound : forall g tbl allow cd ud cats ts tbl', wf_gram g ->
  mecab_setup_text F g tbl allow cd ud = SetupOk cats ts tbl' ->
  read_character_property cd = CPOk cats
  /\ read_oov_text (map ci_cat cats) ud = UOk (map fst ts)
  /\ mecab_lines F g tbl allow (map to_mecab_line (map fst ts)) = Ok (map snd ts, tbl')
  /\ Forall (pair_ok g) ts.
Proof.
  intros g tbl allow cd ud cats ts tbl' Hw H. unfold mecab_setup_text in H.
  destruct (read_character_property cd) as [cs|i e] eqn:Ec; [|discriminate].
  destruct (oov_lines F g (map ci_cat cs) allow 0 (lines ud) tbl []) as [[[ts0 tbl0]|e]|u] eqn:Eo; try discriminate.
  inversion H; subst. destruct (oov_lines_ok g _ allow Hw _ _ _ _ _ _ Eo) as (new & E & T & M & P).
  cbn [rev app map] in E, T. subst new. repeat split; assumption.
Qed.

Theorem setup_text_never_panics : forall g tbl allow cd ud, mecab_setup_text F g tbl allow cd ud <> SetupPanic.
Proof.
  intros g tbl allow cd ud. unfold mecab_setup_text. destruct (read_character_property cd) as [cs|i e]; [|discriminate].
  assert (forall ls i tbl0 acc, oov_lines F g (map ci_cat cs) allow i ls tbl0 acc <> inr tt) as NP.
  { induction ls as [|l t IH]; intros i tbl0 acc; cbn [oov_lines]; [discriminate|].
    destruct (unk_line (map ci_cat cs) l) as [|e|u]; [apply IH|discriminate|].
    pose proof (mecab_line_no_panic g tbl0 allow (to_mecab_line u)) as N1.
    destruct (mecab_line F g tbl0 allow (to_mecab_line u)) as [[n t1]| |]; [apply IH| |contradiction].
    destruct (handle_user_pos F tbl0 (posreq_of (u_pos u)) allow) as [[? ?]| |]; discriminate. }
  specialize (NP (lines ud) 0%N tbl []).
  destruct (oov_lines F g (map ci_cat cs) allow 0 (lines ud) tbl []) as [[[ts0 tbl0]|e]|[]]; [discriminate|discriminate|contradiction].
Qed.

(* the text readers in front of the whole plugin phase: the records the configuration model takes are now produced from
   the two texts *)
Theorem accepted_text_config_is_valid : forall debug g inh pre post allow cd ud cats ts L, wf_gram g ->
  read_character_property cd = CPOk cats ->
  read_oov_text (map ci_cat cats) ud = UOk ts ->
  load_with F debug g (mkCfg inh (pre ++ Mecab (map to_mecab_line ts) allow :: post)) = Ok L ->
  spec_accepts g (mkCfg inh (pre ++ Mecab (map to_mecab_line ts) allow :: post)) = true
  /\ Forall (fun u => left_id_ok g (u_left u) = true /\ right_id_ok g (u_right u) = true /\ cost_ok (u_cost u) = true
                      /\ List.length (u_pos u) = UF.POS_DEPTH) ts.
Proof.
  intros debug g inh pre post allow cd ud cats ts L Hw Hc Hu H.
  destruct (load_accepts_only_valid F HF debug g _ L Hw H) as [S _]. split; [exact S|].
  unfold spec_accepts in S. apply andb_true_iff in S as [S _]. apply andb_true_iff in S as [S _]. cbn [c_oov] in S.
  rewrite forallb_app in S. apply andb_true_iff in S as [_ S]. cbn [forallb] in S. apply andb_true_iff in S as [S _].
  cbn [oov_params_ok] in S. rewrite forallb_forall in S. apply Forall_forall. intros u Hin.
  specialize (S (to_mecab_line u) (in_map _ _ _ Hin)). unfold to_mecab_line in S.
  apply andb_true_iff in S as [S Sp]. apply andb_true_iff in S as [S Sc]. apply andb_true_iff in S as [Sl Sr].
  repeat split; try assumption. unfold posreq_of in Sp. cbn [fst] in Sp. apply Nat.eqb_eq in Sp. exact Sp.
Qed.

End Compose.
