(* The whole analysis pipeline above the offset map, on one common notion of path:
     a path = list of byte ranges (begin, end) over the REWRITTEN text.

   Stage 0  Proofs/PipelineProofs.v : the path read back from the lattice is `path_ok_b` (contiguous chain from 0 to the
            length of the rewritten text, every cut on a character boundary).
   Stage 1  path rewriting (JoinNumeric / JoinKatakanaOov): the output is a GROUPING of the input
            (Proofs/RewriteProofs.v: rewrite_is_grouping)  -- (a) a grouping of a path_ok_b chain is path_ok_b.
   Stage 2  A/B splitting: every node is kept or replaced by a TILING of its range on character boundaries
            (Proofs/SplitProofs.v: split_go_expected / expected_tiles under units_wf) -- (b) replacing elements of a
            path_ok_b chain by tilings on character boundaries is path_ok_b.
   Hence (c): best path -> any rewrite-plugin chain -> mode A/B/C split still satisfies the hypothesis of
   C01_surfaces_partition: the reported morphemes partition the original text and their surfaces concatenate to it.

   The three stages use three node records (Lattice.node, Rewrite.node, Split.node).  They are connected by the relations
   `rnode_of` / `snode_of` below, which say how the code builds one from the other (resolve_best_path: byte range =
   to_curr_byte_idx of the character range; the later stages carry the ResultNode on); every other field is arbitrary. *)
From Coq Require Import List ZArith NArith Bool Arith Lia Relations.
From SudachiVerif Require Import Model.Lattice Model.Buffer Proofs.LatticeProofs Proofs.BufferProofs Proofs.PipelineProofs.
From SudachiVerif Require Model.Rewrite Proofs.RewriteProofs Model.Split Proofs.SplitProofs.
Import ListNotations.
Open Scope nat_scope.

Notation range := (nat * nat)%type (only parsing).
Definition r0 : range := (0, 0).

(* every cut of the path on a character boundary of the text *)
Definition bnd (t : list N) (r : range) : bool := is_boundary t (fst r) && is_boundary t (snd r).

Lemma path_ok_b_eq t p : path_ok_b t p = chain_b 0 (length t) p && forallb (bnd t) p.
Proof. reflexivity. Qed.

(* ------------------------------------------------------------------ chains *)
Lemma snd_last_default : forall (g : list range) d d', snd d = snd d' -> snd (last g d) = snd (last g d').
Proof. induction g as [|x g IH]; intros d d' H; [exact H|]. rewrite !last_cons'. apply IH. reflexivity. Qed.

Lemma chain_b_app : forall x y a b c, chain_b a b x = true -> chain_b b c y = true -> chain_b a c (x ++ y) = true.
Proof.
  induction x as [|[u v] x IH]; intros y a b c H1 H2; cbn [chain_b app] in *.
  - apply Nat.eqb_eq in H1. now subst.
  - repeat rewrite andb_true_iff in H1. destruct H1 as [[E1 E2] E3]. rewrite E1, E2. cbn [andb]. eapply IH; eauto.
Qed.

(* a chain over g ++ rest passes through the end of g *)
Lemma chain_b_app_inv : forall g rest from n, chain_b from n (g ++ rest) = true ->
  chain_b from (snd (last g (0, from))) g = true /\ chain_b (snd (last g (0, from))) n rest = true.
Proof.
  induction g as [|[u v] g IH]; intros rest from n H; cbn [app] in H.
  - cbn [last snd chain_b]. rewrite Nat.eqb_refl. auto.
  - cbn [chain_b] in H. repeat rewrite andb_true_iff in H. destruct H as [[E1 E2] E3].
    destruct (IH rest v n E3) as [I1 I2].
    rewrite last_cons'. rewrite (snd_last_default g (u, v) (0, v)) by reflexivity.
    split; [|exact I2]. cbn [chain_b]. now rewrite E1, E2, I1.
Qed.

Lemma chain_b_hd : forall g from n, g <> [] -> chain_b from n g = true -> fst (hd r0 g) = from.
Proof.
  intros [|[u v] g] from n Hne H; [contradiction|]. cbn [chain_b] in H. repeat rewrite andb_true_iff in H.
  destruct H as [[E1 _] _]. apply Nat.eqb_eq in E1. exact E1.
Qed.

Lemma chain_ranges_le : forall p from n r, chain_b from n p = true -> In r p -> fst r <= snd r.
Proof.
  induction p as [|[u v] p IH]; intros from n r H Hin; [contradiction|].
  cbn [chain_b] in H. repeat rewrite andb_true_iff in H. destruct H as [[_ E2] E3].
  destruct Hin as [<-|Hin]; [now apply Nat.leb_le | eapply IH; eauto].
Qed.

(* ------------------------------------------------------------------ (a) grouping *)
(* r stands for the consecutive non-empty group g: begin of the first, end of the last *)
Definition merged (g : list range) (r : range) : Prop :=
  g <> [] /\ fst r = fst (hd r0 g) /\ snd r = snd (last g r0).

(* q is p with consecutive non-empty groups replaced by one range each *)
Definition grouped (p q : list range) : Prop := exists gs, concat gs = p /\ Forall2 merged gs q.

Lemma grouped_chain : forall gs q, Forall2 merged gs q ->
  forall from n, chain_b from n (concat gs) = true -> chain_b from n q = true.
Proof.
  induction 1 as [|g r gs q (Hne & Hf & Hl) _ IH]; intros from n H; [exact H|].
  cbn [concat] in H. destruct (chain_b_app_inv g _ from n H) as [H1 H2].
  assert (Hmid : snd (last g (0, from)) = snd (last g r0)).
  { destruct g as [|x g]; [contradiction|]. now rewrite !last_cons'. }
  rewrite Hmid in H1, H2.
  pose proof (chain_b_hd g _ _ Hne H1) as Hh. pose proof (chain_le _ _ _ H1) as Hle.
  destruct r as [a b]. cbn [fst snd] in Hf, Hl. cbn [chain_b].
  rewrite Hf, Hh, Hl, Nat.eqb_refl. cbn [andb].
  replace (from <=? snd (last g r0)) with true by (symmetry; now apply Nat.leb_le). cbn [andb].
  apply IH. exact H2.
Qed.

Lemma grouped_bnd t : forall gs q, Forall2 merged gs q ->
  forallb (bnd t) (concat gs) = true -> forallb (bnd t) q = true.
Proof.
  induction 1 as [|g r gs q (Hne & Hf & Hl) _ IH]; intros H; [reflexivity|].
  cbn [concat] in H. rewrite forallb_app in H. apply andb_true_iff in H. destruct H as [Hg Hrest].
  cbn [forallb]. rewrite (IH Hrest), andb_true_r.
  rewrite forallb_forall in Hg.
  assert (H1 : In (hd r0 g) g) by (destruct g; [contradiction | now left]).
  assert (H2 : In (last g r0) g).
  { destruct (exists_last Hne) as (g' & x & ->). rewrite last_last. apply in_or_app. right. now left. }
  apply Hg in H1. apply Hg in H2. unfold bnd in *. rewrite Hf, Hl.
  apply andb_true_iff in H1. apply andb_true_iff in H2. destruct H1 as [-> _]. destruct H2 as [_ ->]. reflexivity.
Qed.

Theorem path_ok_grouped t p q : path_ok_b t p = true -> grouped p q -> path_ok_b t q = true.
Proof.
  rewrite !path_ok_b_eq. intros H (gs & <- & HF). apply andb_true_iff in H. destruct H as [H1 H2].
  rewrite (grouped_chain gs q HF _ _ H1), (grouped_bnd t gs q HF H2). reflexivity.
Qed.

(* ------------------------------------------------------------------ (b) tiling *)
(* pc tiles the range r: a contiguous chain from its begin to its end (pc = [r] keeps it) *)
Definition tiling (r : range) (pc : list range) : Prop := chain_b (fst r) (snd r) pc = true.

(* q is p with every range replaced by a tiling of it *)
Definition tiled (p q : list range) : Prop := exists pcs, concat pcs = q /\ Forall2 tiling p pcs.

Lemma tiled_chain : forall p pcs, Forall2 tiling p pcs ->
  forall from n, chain_b from n p = true -> chain_b from n (concat pcs) = true.
Proof.
  induction 1 as [|[u v] pc p pcs Ht _ IH]; intros from n H; [exact H|].
  cbn [chain_b] in H. repeat rewrite andb_true_iff in H. destruct H as [[E1 _] E3].
  apply Nat.eqb_eq in E1. subst u. cbn [concat]. unfold tiling in Ht. cbn [fst snd] in Ht.
  eapply chain_b_app; [exact Ht | apply IH; exact E3].
Qed.

Theorem path_ok_tiled t p q : path_ok_b t p = true -> tiled p q -> forallb (bnd t) q = true -> path_ok_b t q = true.
Proof.
  rewrite !path_ok_b_eq. intros H (pcs & <- & HF) Hb. apply andb_true_iff in H. destruct H as [H1 _].
  rewrite (tiled_chain p pcs HF _ _ H1), Hb. reflexivity.
Qed.

Lemma tiling_self r : fst r <= snd r -> tiling r [r].
Proof. intros H. destruct r as [u v]. unfold tiling. cbn [fst snd chain_b] in *. rewrite !Nat.eqb_refl. now apply Nat.leb_le in H as ->. Qed.

(* ------------------------------------------------------------------ any number of stages *)
Inductive stage (t : list N) : list range -> list range -> Prop :=
| stage_group p q : grouped p q -> stage t p q
| stage_tile p q : tiled p q -> forallb (bnd t) q = true -> stage t p q.

Theorem path_ok_stages t p q : clos_refl_trans _ (stage t) p q -> path_ok_b t p = true -> path_ok_b t q = true.
Proof.
  induction 1 as [p q [p' q' Hg | p' q' Ht Hb] | p | p q r _ IH1 _ IH2]; intros H.
  - eapply path_ok_grouped; eauto.
  - eapply path_ok_tiled; eauto.
  - exact H.
  - auto.
Qed.

(* ================================================================== adapters *)
Lemma last_map_ne {A B} (f : A -> B) : forall (g : list A) d d', g <> [] -> last (map f g) d' = f (last g d).
Proof.
  induction g as [|x g IH]; intros d d' Hne; [contradiction|].
  destruct g as [|y g]; [reflexivity|]. change (map f (x :: y :: g)) with (f x :: map f (y :: g)).
  rewrite (last_cons' (map f (y :: g))), (last_cons' (y :: g)). apply IH. discriminate.
Qed.

(* ------------------------------------------------------------------ stage 1: Model/Rewrite.v *)
(* the byte range a ResultNode reports *)
Definition rbytes (n : Rewrite.node) : range := (Rewrite.bb n, Rewrite.be n).

(* RewriteProofs.grouping (consecutive non-empty groups of nodes replaced by one node whose reported byte range is
   begin of the first .. end of the last) is a grouping of the byte ranges *)
Lemma grouping_grouped A p q : RewriteProofs.grouping A p q -> grouped (map rbytes p) (map rbytes q).
Proof.
  intros (gs & <- & HF). exists (map (map rbytes) gs). split; [symmetry; apply concat_map|].
  induction HF as [|g m gs q Hg _ IH]; cbn [map]; constructor; [|exact IH].
  apply RewriteProofs.mg'_mg in Hg. destruct Hg as (Hne & Hb & He & _).
  injection Hb as _ Hb. injection He as _ He. repeat split.
  - destruct g; [contradiction | discriminate].
  - cbn [rbytes fst]. rewrite Hb. destruct g; [contradiction | reflexivity].
  - rewrite (last_map_ne rbytes g Rewrite.dnode r0 Hne). cbn [rbytes snd]. exact He.
Qed.

Theorem rewrite_stage t pls p q :
  Rewrite.run_plugins pls p = Some (Rewrite.Ok q) -> stage t (map rbytes p) (map rbytes q).
Proof. intros H. apply stage_group. eapply grouping_grouped. apply RewriteProofs.rewrite_is_grouping. exact H. Qed.

(* StatefulTokenizer::resolve_best_path: the ResultNode of a lattice node keeps its character range and gets the byte
   range to_curr_byte_idx(begin) .. to_curr_byte_idx(end); word info, part of speech, ... are whatever the dictionary says *)
Definition rnode_of (t : list N) (ln : Lattice.node) (rn : Rewrite.node) : Prop :=
  Rewrite.nb rn = nbeg ln /\ Rewrite.ne rn = nend ln /\ rbytes rn = node_bytes t ln.

Lemma rnodes_bytes t : forall p pr, Forall2 (rnode_of t) p pr -> map rbytes pr = map (node_bytes t) p.
Proof. induction 1 as [|ln rn p pr (_ & _ & H) _ IH]; cbn [map]; [reflexivity | now rewrite H, IH]. Qed.

(* ------------------------------------------------------------------ stage 2: Model/Split.v *)
(* Split.v describes the rewritten text as a list of code points with the UTF-8 width function; Buffer.v as bytes.
   The bridge is the UTF-8 encoding: a lead byte followed by width-1 continuation bytes. *)
Open Scope N_scope.
Definition utf8 (c : N) : list N :=
  if c <? 128 then [c]
  else if c <? 2048 then [192 + c / 64; 128 + c mod 64]
  else if c <? 65536 then [224 + c / 4096; 128 + (c / 64) mod 64; 128 + c mod 64]
  else [240 + c / 262144; 128 + (c / 4096) mod 64; 128 + (c / 64) mod 64; 128 + c mod 64].
Close Scope N_scope.

Definition enc (t : list N) : list N := flat_map utf8 t.

Lemma cont_byte x : is_lead (128 + x mod 64)%N = false.
Proof.
  unfold is_lead, is_cont. pose proof (N.mod_upper_bound x 64 ltac:(lia)).
  replace (128 <=? 128 + x mod 64)%N with true by (symmetry; apply N.leb_le; lia).
  replace (128 + x mod 64 <? 192)%N with true by (symmetry; apply N.ltb_lt; lia). reflexivity.
Qed.

Lemma high_byte_lead b : (192 <= b)%N -> is_lead b = true.
Proof.
  intros H. unfold is_lead, is_cont. replace (b <? 192)%N with false by (symmetry; apply N.ltb_ge; lia).
  now rewrite andb_false_r.
Qed.

Lemma utf8_shape c : exists b r, utf8 c = b :: r /\ is_lead b = true /\ length (utf8 c) = N.to_nat (Split.width c).
Proof.
  unfold utf8, Split.width.
  destruct (N.ltb_spec c 128).
  - exists c, []. repeat split. unfold is_lead, is_cont. replace (128 <=? c)%N with false by (symmetry; apply N.leb_gt; lia). reflexivity.
  - destruct (c <? 2048)%N; [|destruct (c <? 65536)%N]; eexists; eexists; (split; [reflexivity|]); (split; [apply high_byte_lead; lia | reflexivity]).
Qed.

Lemma enc_app a b : enc (a ++ b) = enc a ++ enc b.
Proof. apply flat_map_app. Qed.

Lemma enc_length t : length (enc t) = N.to_nat (Split.blen t).
Proof.
  induction t as [|c t IH]; [reflexivity|]. cbn [enc flat_map Split.blen]. rewrite app_length. fold (enc t). rewrite IH.
  destruct (utf8_shape c) as (b & r & _ & _ & ->). lia.
Qed.

(* the byte offset of a code-point prefix is a character boundary of the encoded text *)
Lemma enc_boundary pre post : is_boundary (enc (pre ++ post)) (N.to_nat (Split.blen pre)) = true.
Proof.
  rewrite enc_app, <- enc_length. unfold is_boundary. rewrite nth_error_app2 by lia. rewrite Nat.sub_diag.
  destruct post as [|c post].
  - cbn [enc flat_map nth_error]. rewrite app_nil_r. apply Nat.eqb_refl.
  - cbn [enc flat_map]. destruct (utf8_shape c) as (b & r & -> & Hl & _). cbn [app nth_error]. exact Hl.
Qed.

Definition sbytes (n : Split.node) : range := (N.to_nat (Split.bb n), N.to_nat (Split.be n)).

(* split_path receives the ResultNodes the rewrite stage produced *)
Definition snode_of (rn : Rewrite.node) (sn : Split.node) : Prop :=
  N.to_nat (Split.nb sn) = Rewrite.nb rn /\ N.to_nat (Split.ne sn) = Rewrite.ne rn /\ sbytes sn = rbytes rn.

Lemma snodes_bytes : forall q ps, Forall2 snode_of q ps -> map sbytes ps = map rbytes q.
Proof. induction 1 as [|rn sn q ps (_ & _ & H) _ IH]; cbn [map]; [reflexivity | now rewrite H, IH]. Qed.

(* Split.tiles (contiguous, non-empty pieces in character AND byte coordinates) gives a tiling of the byte range *)
Lemma tiles_chain : forall l c0 b0 d0 e0, Split.tiles c0 b0 d0 e0 l ->
  chain_b (N.to_nat b0) (N.to_nat e0) (map sbytes l) = true.
Proof.
  induction l as [|n l IH]; intros c0 b0 d0 e0 H; cbn [Split.tiles map chain_b] in *.
  - destruct H as [_ ->]. apply Nat.eqb_refl.
  - destruct H as (_ & Hb & _ & Hlt & Hrest). cbn [sbytes fst snd]. rewrite Hb, Nat.eqb_refl. cbn [andb].
    replace (N.to_nat b0 <=? N.to_nat (Split.be n)) with true by (symmetry; apply Nat.leb_le; lia). cbn [andb].
    eapply IH. exact Hrest.
Qed.

(* every cut of the sub-tokens of a well-formed declaration is the byte offset of a code-point prefix of the text *)
Lemma expected_bnd key : forall us pre post,
  forallb (bnd (enc (pre ++ concat (map key us) ++ post))) (map sbytes (Split.expected pre us (map key us))) = true.
Proof.
  induction us as [|u us IH]; intros pre post; cbn [map concat Split.expected forallb]; [reflexivity|].
  apply andb_true_iff. split.
  - unfold bnd. cbn [sbytes fst snd Split.bb Split.be]. apply andb_true_iff. split.
    + apply enc_boundary.
    + replace (pre ++ (key u ++ concat (map key us)) ++ post) with ((pre ++ key u) ++ concat (map key us) ++ post)
        by (rewrite <- !app_assoc; reflexivity).
      apply enc_boundary.
  - replace (pre ++ (key u ++ concat (map key us)) ++ post) with ((pre ++ key u) ++ concat (map key us) ++ post)
      by (rewrite <- !app_assoc; reflexivity).
    apply IH.
Qed.

(* NodeSplitIterator on a well-formed declaration (C09's hypothesis units_wf): it does not panic, and the reported byte
   ranges of the sub-tokens tile the parent's byte range on character boundaries *)
Lemma split_node_tiling hw key t n us :
  (forall u, In u us -> hw u = Split.blen (key u)) -> us <> [] -> SplitProofs.units_wf key t n us ->
  exists subs, Split.split_node hw t n us = Some subs /\
               tiling (sbytes n) (map sbytes subs) /\ forallb (bnd (enc t)) (map sbytes subs) = true.
Proof.
  intros Hhw Hne (pre & post & Ht & Hnb & Hbb & Hne' & Hbe & Hk).
  exists (Split.expected pre us (map key us)). split; [|split].
  - unfold Split.split_node. rewrite Hnb, Hbb, Hne', Hbe, Ht. apply SplitProofs.split_go_expected; assumption.
  - unfold tiling, sbytes. cbn [fst snd]. rewrite Hbb, Hbe.
    eapply tiles_chain. apply SplitProofs.expected_tiles. exact Hk.
  - rewrite Ht. apply expected_bnd.
Qed.

(* C09's well-formedness hypothesis for one mode: every node of the path whose word declares two or more units covers
   exactly the concatenation of the unit keys (units_wf), and head_word_length of a unit is the byte length of its key *)
Definition split_wf (hw : N -> N) (key : N -> list N) (t : list N) (units : N -> list N) (path : list Split.node) : Prop :=
  forall n, In n path -> 2 <= length (units (Split.wid n)) ->
    SplitProofs.units_wf key t n (units (Split.wid n)) /\ (forall u, In u (units (Split.wid n)) -> hw u = Split.blen (key u)).

Theorem split_path_stage hw key t units : Split.split_facts_ok = true -> forall path,
  split_wf hw key t units path ->
  (forall n, In n path -> fst (sbytes n) <= snd (sbytes n)) ->
  forallb (bnd (enc t)) (map sbytes path) = true ->
  exists path', Split.split_path hw t units path = Some path' /\
                tiled (map sbytes path) (map sbytes path') /\ forallb (bnd (enc t)) (map sbytes path') = true.
Proof.
  intros Hf. destruct (SplitProofs.facts_unpack Hf) as (_ & Hkeep & _).
  induction path as [|n r IH]; intros Hwf Hle Hb.
  - exists []. split; [reflexivity|]. split; [|reflexivity]. exists []. split; [reflexivity | constructor].
  - cbn [map forallb] in Hb. apply andb_true_iff in Hb. destruct Hb as [Hbn Hbr].
    destruct IH as (r' & Hr & (pcs & Hc & HF) & Hbr').
    { intros m Hm. apply Hwf. now right. } { intros m Hm. apply Hle. now right. } { exact Hbr. }
    cbn [Split.split_path]. rewrite Hkeep, Hr.
    destruct (N.leb_spec (N.of_nat (length (units (Split.wid n)))) 1) as [Hk|Hk].
    + exists (n :: r'). split; [reflexivity|]. split.
      * exists ([sbytes n] :: pcs). split; [cbn [concat map app]; now rewrite Hc|].
        constructor; [|exact HF]. apply tiling_self. apply Hle. now left.
      * cbn [map forallb]. now rewrite Hbn, Hbr'.
    + destruct (Hwf n (or_introl eq_refl)) as [Hu Hhw]; [lia|].
      destruct (split_node_tiling hw key t n (units (Split.wid n)) Hhw) as (subs & Hs & Ht & Hbs); [|exact Hu|].
      { intros E. rewrite E in Hk. cbn in Hk. lia. }
      rewrite Hs. exists (subs ++ r'). split; [reflexivity|]. split.
      * exists (map sbytes subs :: pcs). split; [cbn [concat]; now rewrite map_app, Hc|]. constructor; assumption.
      * rewrite map_app, forallb_app, Hbs, Hbr'. reflexivity.
Qed.

(* the unit function of do_tokenize's last stage *)
Definition mode_wf (hw : N -> N) (key : N -> list N) (t : list N) (ua ub : N -> list N) (m : Split.mode) (path : list Split.node) : Prop :=
  match m with
  | Split.ModeA => split_wf hw key t ua path
  | Split.ModeB => split_wf hw key t ub path
  | Split.ModeC => True
  end.

Theorem tokenize_mode_stage hw key t ua ub m path :
  Split.split_facts_ok = true -> mode_wf hw key t ua ub m path ->
  path_ok_b (enc t) (map sbytes path) = true ->
  exists path', Split.tokenize_mode hw t ua ub m path = Some path' /\
                clos_refl_trans _ (stage (enc t)) (map sbytes path) (map sbytes path').
Proof.
  intros Hf Hwf Hp. rewrite path_ok_b_eq in Hp. apply andb_true_iff in Hp. destruct Hp as [Hc Hb].
  assert (Hle : forall n, In n path -> fst (sbytes n) <= snd (sbytes n)).
  { intros n Hn. eapply chain_ranges_le; [exact Hc | now apply in_map]. }
  destruct m; cbn [Split.tokenize_mode mode_wf] in *.
  - destruct (split_path_stage hw key t ua Hf path Hwf Hle Hb) as (p' & H1 & H2 & H3).
    exists p'. split; [exact H1|]. apply rt_step. now apply stage_tile.
  - destruct (split_path_stage hw key t ub Hf path Hwf Hle Hb) as (p' & H1 & H2 & H3).
    exists p'. split; [exact H1|]. apply rt_step. now apply stage_tile.
  - exists path. split; [reflexivity | apply rt_refl].
Qed.

(* ================================================================== (c) the composed statement *)
Section Full.
  Variable cfg : bcfg.
  Hypothesis Hcfg : cfg_ok cfg = true.

  (* whatever happens to a path_ok_b chain in any number of grouping / tiling stages, the reported ranges partition the
     original, the surfaces concatenate to it, and each surface is the original text of its range *)
  Theorem stages_partition_original o s p q :
    wf_text o = true -> Reach cfg o s ->
    path_ok_b (cur s) p = true -> clos_refl_trans _ (stage (cur s)) p q ->
    partition_b o (map (map_range (m2o s)) q) = true /\
    concat (map (byte_slice o) (map (map_range (m2o s)) q)) = o /\
    (forall r, In r q -> orig_slice s (fst r) (snd r) = Some (byte_slice o (map_range (m2o s) r))).
  Proof.
    intros Hwo HR Hp Hst. apply (surfaces_partition_reach cfg Hcfg o s q Hwo HR).
    eapply path_ok_stages; eauto.
  Qed.

  Variable conn : N -> N -> Z.

  (* lattice -> resolve_best_path -> path-rewrite plugin chain -> split_path of the requested mode.
     t is the rewritten text as code points (Split.v's view), cur s its bytes (Buffer.v's view). *)
  Theorem pipeline_partitions_original o s t ns r i c :
    wf_text o = true -> Reach cfg o s -> cur s = enc t ->
    nodes_ok (nchars (cur s)) ns -> (0 < nchars (cur s))%nat ->
    connect_eos conn (insert_all conn (reset (nchars (cur s))) ns) = Some (r, i, c) ->
    exists es p,
      top_path conn (insert_all conn (reset (nchars (cur s))) ns) = Some es /\
      map enode es = map Some p /\ path_cost conn p = c /\
      forall pr pls q ps hw key ua ub m,
        Forall2 (rnode_of (cur s)) p pr ->
        Rewrite.run_plugins pls pr = Some (Rewrite.Ok q) ->
        Forall2 snode_of q ps ->
        Split.split_facts_ok = true -> mode_wf hw key t ua ub m ps ->
        exists final,
          Split.tokenize_mode hw t ua ub m ps = Some final /\
          let ranges := map (map_range (m2o s)) (map sbytes final) in
          partition_b o ranges = true /\
          concat (map (byte_slice o) ranges) = o /\
          (forall n, In n final ->
             orig_slice s (fst (sbytes n)) (snd (sbytes n)) = Some (byte_slice o (map_range (m2o s) (sbytes n)))).
  Proof.
    intros Hwo HR Henc Hok Hpos Heos.
    destruct (total_cost_along_path conn _ ns r i c Hok Hpos Heos) as (es & p & H1 & H2 & H3 & H4 & _).
    exists es, p. split; [exact H1|]. split; [exact H2|]. split; [exact H4|].
    intros pr pls q ps hw key ua ub m Hpr Hrun Hps Hf Hwf.
    pose proof (reach_inv cfg Hcfg o s Hwo HR) as HI.
    assert (Hwt : wf_text (cur s) = true) by (destruct HI as (_ & _ & _ & _ & _ & Hw & _); exact Hw).
    (* stage 0 *)
    pose proof (chain_path_ok (cur s) ns p Hwt H3) as Hp0.
    rewrite <- (rnodes_bytes (cur s) p pr Hpr) in Hp0.
    (* stage 1 *)
    pose proof (rewrite_stage (cur s) pls pr q Hrun) as Hs1.
    assert (Hp1 : path_ok_b (cur s) (map rbytes q) = true) by (eapply path_ok_stages; [apply rt_step; exact Hs1 | exact Hp0]).
    rewrite <- (snodes_bytes q ps Hps) in Hp1, Hs1.
    (* stage 2 *)
    rewrite Henc in Hp1.
    destruct (tokenize_mode_stage hw key t ua ub m ps Hf Hwf Hp1) as (final & Hfin & Hs2).
    exists final. split; [exact Hfin|].
    rewrite <- Henc in Hs2, Hp1.
    destruct (stages_partition_original o s (map sbytes ps) (map sbytes final) Hwo HR Hp1 Hs2) as (A & B & C).
    split; [exact A|]. split; [exact B|]. intros n Hn. apply C. now apply in_map.
  Qed.
End Full.

(* ================================================================== the bridging hypothesis `cur s = enc t` discharged:
   valid UTF-8 is preserved by well-formed edit batches whose replacement strings are valid UTF-8 *)
Lemma utf8_tail_cont c b r : utf8 c = b :: r -> Forall (fun x => is_lead x = false) r.
Proof.
  unfold utf8. destruct (c <? 128)%N; [|destruct (c <? 2048)%N; [|destruct (c <? 65536)%N]]; intros H; inversion H; subst;
    repeat constructor; apply cont_byte.
Qed.

Lemma is_boundary_app_r x y i : is_boundary (x ++ y) (length x + i) = is_boundary y i.
Proof.
  unfold is_boundary. rewrite nth_error_app2 by lia. replace (length x + i - length x) with i by lia.
  destruct (nth_error y i); [reflexivity|]. rewrite app_length.
  destruct (Nat.eqb_spec i (length y)), (Nat.eqb_spec (length x + i) (length x + length y)); auto; lia.
Qed.

Lemma enc_boundary_inv : forall t a, is_boundary (enc t) a = true -> exists pre post, t = pre ++ post /\ a = length (enc pre).
Proof.
  induction t as [|c t IH]; intros a H.
  - unfold is_boundary in H. destruct a; cbn in H; [|discriminate]. exists [], []. auto.
  - destruct a as [|a]; [exists [], (c :: t); auto|].
    cbn [enc flat_map] in H. fold (enc t) in H.
    destruct (utf8_shape c) as (b & r & Hu & Hl & _). pose proof (utf8_tail_cont c b r Hu) as Hr.
    destruct (Nat.ltb_spec (S a) (length (utf8 c))) as [Hlt|Hge].
    + exfalso. unfold is_boundary in H. rewrite nth_error_app1 in H by exact Hlt. rewrite Hu in H, Hlt. cbn [nth_error length] in H, Hlt.
      destruct (nth_error r a) as [x|] eqn:E; [|apply nth_error_None in E; lia].
      rewrite Forall_forall in Hr. rewrite (Hr x (nth_error_In _ _ E)) in H. discriminate.
    + replace (S a) with (length (utf8 c) + (S a - length (utf8 c))) in H by lia.
      rewrite is_boundary_app_r in H. destruct (IH _ H) as (pre & post & -> & Ha).
      exists (c :: pre), post. split; [reflexivity|]. cbn [enc flat_map]. fold (enc pre). rewrite app_length. lia.
Qed.

Lemma enc_prefix_cmp : forall p1 p2 r1 r2, p1 ++ r1 = p2 ++ r2 -> length (enc p1) <= length (enc p2) -> exists m, p2 = p1 ++ m.
Proof.
  induction p1 as [|c p1 IH]; intros p2 r1 r2 He Hl; [exists p2; reflexivity|].
  destruct (utf8_shape c) as (b & r & Hu & _ & _).
  destruct p2 as [|c' p2].
  - cbn [enc flat_map length] in Hl. rewrite app_length, Hu in Hl. cbn in Hl. lia.
  - cbn [app] in He. injection He as <- He. cbn [enc flat_map] in Hl. rewrite !app_length in Hl.
    destruct (IH p2 r1 r2 He) as (m & ->); [unfold enc; lia|]. exists m. reflexivity.
Qed.

(* the bytes between two character boundaries of an encoded text are the encoding of the characters between them *)
Lemma enc_slice t a b : is_boundary (enc t) a = true -> is_boundary (enc t) b = true -> a <= b ->
  exists m, firstn (b - a) (skipn a (enc t)) = enc m.
Proof.
  intros Ha Hb Hab. destruct (enc_boundary_inv _ _ Ha) as (p1 & r1 & E1 & La). destruct (enc_boundary_inv _ _ Hb) as (p2 & r2 & E2 & Lb).
  destruct (enc_prefix_cmp p1 p2 r1 r2) as (m & ->); [congruence | lia|].
  exists m. rewrite E2, <- app_assoc, !enc_app. subst a b. rewrite enc_app, app_length.
  rewrite skipn_app, skipn_all, Nat.sub_diag. cbn [skipn app].
  replace (length (enc p1) + length (enc m) - length (enc p1)) with (length (enc m)) by lia.
  rewrite firstn_app, firstn_all, Nat.sub_diag. cbn [firstn]. apply app_nil_r.
Qed.

Section Utf8.
  Variable cfg : bcfg.
  Hypothesis Hcfg : cfg_ok cfg = true.

  Definition utf8_edits (es : list edit) : Prop := Forall (fun e => exists w, e_w e = enc w) es.

  Lemma resolve_utf8 : forall ts smap edits start cl t m l,
    length smap = length (enc ts) + 1 -> start <= length (enc ts) -> is_boundary (enc ts) start = true ->
    edits_ok_from (enc ts) start edits = true -> utf8_edits edits ->
    resolve cfg (enc ts) smap edits start cl = ROk t m l -> exists tt, t = enc tt.
  Proof.
    intros ts smap edits. set (src := enc ts). induction edits as [|e rest IH]; intros start cl t m l Hlen Hst Hbst Hok Hu Hres.
    - cbn [resolve] in Hres. unfold str_slice, vec_slice in Hres.
      rewrite Hbst, is_boundary_len in Hres.
      assert (E1 : (start <=? length src) = true) by (apply Nat.leb_le; lia).
      assert (E2 : (start <=? length smap) = true) by (apply Nat.leb_le; lia).
      rewrite E1, E2, !Nat.leb_refl in Hres. cbn [andb] in Hres. inversion Hres; subst.
      apply enc_slice; [exact Hbst | apply is_boundary_len | exact Hst].
    - cbn [edits_ok_from] in Hok. repeat rewrite andb_true_iff in Hok.
      destruct Hok as [[[[[[Hs1 Hs2] Hs3] Hbs] Hbe] Hw] Hrest].
      apply Nat.leb_le in Hs1, Hs2, Hs3.
      cbn [resolve] in Hres. unfold str_slice, vec_slice in Hres. rewrite Hbst, Hbs in Hres.
      assert (E1 : (start <=? e_s e) = true) by (apply Nat.leb_le; lia).
      assert (E2 : (e_s e <=? length src) = true) by (apply Nat.leb_le; lia).
      assert (E3 : (e_s e <=? length smap) = true) by (apply Nat.leb_le; lia).
      rewrite E1, E2, E3 in Hres. cbn [andb] in Hres.
      destruct (add_replace cfg smap (e_s e) (e_e e) (e_w e)) as [[[rb rm] delta]|] eqn:Ear; [|discriminate].
      destruct (cmp_eval (c_resolve_cmp cfg) (cl + delta) (Z.of_N (c_resolve_limit cfg))); [discriminate|].
      destruct (resolve cfg src smap rest (e_e e) (cl + delta)) as [t' m' l'| |] eqn:Erec; try discriminate.
      inversion Hres; subst t m l; clear Hres.
      inversion Hu as [|e' rest' (w & Hew) Hu']; subst.
      destruct (IH _ _ _ _ _ Hlen Hs3 Hbe Hrest Hu' Erec) as (tt & ->).
      destruct (add_replace_spec cfg Hcfg _ _ _ _ _ _ _ Ear) as (-> & _ & _).
      destruct (enc_slice ts start (e_s e) Hbst Hbs Hs1) as (a & Ha). fold src in Ha. rewrite Ha.
      exists (a ++ w ++ tt). rewrite Hew, !enc_app. reflexivity.
  Qed.

  (* reachable from a valid UTF-8 original by well-formed batches of edits with valid UTF-8 replacement strings
     (InputEditor::replace_* take &str / char / String) *)
  Inductive ReachU (o : list N) : buf -> Prop :=
  | RU_start s : start_build cfg o = Ok s -> ReachU o s
  | RU_commit s es s' : ReachU o s -> edits_ok (cur s) es = true -> utf8_edits es -> commit cfg s es = Ok s' ->
      cur s' <> [] -> ReachU o s'.

  Lemma reachU_reach o s : ReachU o s -> Reach cfg o s.
  Proof. induction 1; [now apply R_start | eapply R_commit; eauto]. Qed.

  Lemma enc_wf t : wf_text (enc t) = true.
  Proof. destruct t as [|c t]; [reflexivity|]. cbn [enc flat_map]. destruct (utf8_shape c) as (b & r & -> & Hl & _). exact Hl. Qed.

  Theorem reachU_utf8 t0 s : ReachU (enc t0) s -> exists t, cur s = enc t.
  Proof.
    intros H. remember (enc t0) as o eqn:Eo. induction H as [s Hs | s es s' HR IH Hok Hu Hc Hne].
    - destruct (cfg_fields cfg Hcfg) as (Hf & He & _). unfold start_build in Hs.
      destruct (cmp_eval _ _ _); [discriminate|]. inversion Hs; subst. exists t0. reflexivity.
    - destruct IH as (ts & Hts).
      pose proof (reach_inv cfg Hcfg o s ltac:(subst o; apply enc_wf) (reachU_reach _ _ HR)) as (_ & HB & _).
      pose proof (BMap_length _ _ _ HB) as Hlen.
      unfold commit in Hc. destruct es as [|e es]; [inversion Hc; subst; eauto|].
      destruct (resolve cfg (cur s) (m2o s) (e :: es) 0 (Z.of_nat (length (cur s)))) as [t m l| |] eqn:Er; try discriminate.
      2:{ destruct (cmp_eval _ _ _); discriminate. }
      destruct (cmp_eval _ _ _); [discriminate|]. inversion Hc; subst s'; clear Hc. cbn [cur].
      rewrite Hts in Er, Hlen, Hok.
      eapply (resolve_utf8 ts (m2o s) (e :: es) 0); [exact Hlen | lia | | exact Hok | exact Hu | exact Er].
      apply is_boundary_0, enc_wf.
  Qed.

  Variable conn : N -> N -> Z.

  (* the end-to-end statement without the bridging hypothesis: the original is the UTF-8 encoding of some text and the
     input-text plugins submit UTF-8 replacement strings; the code-point view t of the rewritten text exists *)
  Theorem pipeline_partitions_original_utf8 t0 s :
    ReachU (enc t0) s ->
    exists t, cur s = enc t /\
    forall ns r i c,
      nodes_ok (nchars (cur s)) ns -> (0 < nchars (cur s))%nat ->
      connect_eos conn (insert_all conn (reset (nchars (cur s))) ns) = Some (r, i, c) ->
      exists es p,
        top_path conn (insert_all conn (reset (nchars (cur s))) ns) = Some es /\
        map enode es = map Some p /\ path_cost conn p = c /\
        forall pr pls q ps hw key ua ub m,
          Forall2 (rnode_of (cur s)) p pr ->
          Rewrite.run_plugins pls pr = Some (Rewrite.Ok q) ->
          Forall2 snode_of q ps ->
          Split.split_facts_ok = true -> mode_wf hw key t ua ub m ps ->
          exists final,
            Split.tokenize_mode hw t ua ub m ps = Some final /\
            let ranges := map (map_range (m2o s)) (map sbytes final) in
            partition_b (enc t0) ranges = true /\
            concat (map (byte_slice (enc t0)) ranges) = enc t0 /\
            (forall n, In n final ->
               orig_slice s (fst (sbytes n)) (snd (sbytes n)) = Some (byte_slice (enc t0) (map_range (m2o s) (sbytes n)))).
  Proof.
    intros HR. destruct (reachU_utf8 t0 s HR) as (t & Ht). exists t. split; [exact Ht|].
    intros ns r i c Hok Hpos Heos.
    exact (pipeline_partitions_original cfg Hcfg conn (enc t0) s t ns r i c (enc_wf t0) (reachU_reach _ _ HR) Ht Hok Hpos Heos).
  Qed.
End Utf8.
