(* C05 — resolve_sound: a resolved inline reference is the first entry, own lexicon first, then the system dictionary,
   whose surface, POS and reading are the ones written in the reference; resolution fails only if there is none *)
From Coq Require Import List NArith ZArith Bool Lia ZifyBool ZifyNat ZifyN.
From SudachiVerif Require Import Model.Codec Model.CodecResolve Proofs.CodecProofs.
Import ListNotations.
Open Scope N_scope.

Lemma opt_text_eqb_eq : forall a b, opt_text_eqb a b = true <-> a = b.
Proof.
  intros [x|] [y|]; cbn; split; intros H; try discriminate; try reflexivity.
  - apply text_eqb_eq in H. congruence.
  - inversion H. apply text_eqb_eq. reflexivity.
Qed.

Definition key_is (k : rkey) (s : text) (p : N) (rd : option text) : Prop :=
  k_surface k = s /\ k_pos k = p /\ k_reading k = rd.

Lemma key_matches_spec : forall k s p rd, key_matches k s p rd = true <-> key_is k s p rd.
Proof.
  intros k s p rd. unfold key_matches, key_is. rewrite !andb_true_iff, text_eqb_eq, N.eqb_eq, opt_text_eqb_eq. tauto.
Qed.

(* first match *)
Definition first_match (ks : list rkey) (i : nat) (s : text) (p : N) (rd : option text) : Prop :=
  (exists k, nth_error ks i = Some k /\ key_is k s p rd) /\
  forall j k, (j < i)%nat -> nth_error ks j = Some k -> ~ key_is k s p rd.

Lemma find_key_some : forall ks from s p rd w, find_key ks from s p rd = Some w ->
  exists i, w = from + N.of_nat i /\ first_match ks i s p rd.
Proof.
  induction ks as [|k t IH]; intros from s p rd w H; cbn [find_key] in H; [discriminate|].
  destruct (key_matches k s p rd) eqn:E.
  - inversion H; subst. exists O. split; [lia|]. split.
    + exists k. split; [reflexivity|]. apply key_matches_spec. exact E.
    + intros j k' Hj. lia.
  - destruct (IH _ _ _ _ _ H) as (i & -> & (k1 & Hk1 & Hm) & Hfirst).
    exists (S i). split; [lia|]. split.
    + exists k1. split; [exact Hk1|exact Hm].
    + intros j k' Hj Hn. destruct j as [|j]; cbn [nth_error] in Hn.
      * inversion Hn; subst. intros Hc. apply key_matches_spec in Hc. congruence.
      * apply (Hfirst j k'); [lia|exact Hn].
Qed.

Lemma find_key_none : forall ks from s p rd, find_key ks from s p rd = None <-> forall k, In k ks -> ~ key_is k s p rd.
Proof.
  induction ks as [|k t IH]; intros from s p rd; cbn [find_key In].
  - split; [intros _ k []|reflexivity].
  - destruct (key_matches k s p rd) eqn:E.
    + split; [discriminate|]. intros H. exfalso. apply (H k (or_introl eq_refl)). apply key_matches_spec. exact E.
    + rewrite IH. split.
      * intros H k' [<-|Hin]; [intros Hc; apply key_matches_spec in Hc; congruence|apply H; exact Hin].
      * intros H k' Hin. apply H. right. exact Hin.
Qed.

(* resolve_sound *)
Theorem resolve_inline_sound : forall own_dic own sys s p rd w,
  resolve_inline own_dic own sys s p rd = Some w ->
  (exists i, w = own_dic * DIC + N.of_nat i /\ first_match own i s p rd)
  \/ ((forall k, In k own -> ~ key_is k s p rd) /\ exists i, w = N.of_nat i /\ first_match sys i s p rd).
Proof.
  intros own_dic own sys s p rd w H. unfold resolve_inline in H.
  destruct (find_key own 0 s p rd) as [i|] eqn:E.
  - inversion H; subst. left. destruct (find_key_some _ _ _ _ _ _ E) as (j & -> & Hf). exists j. split; [lia|exact Hf].
  - right. split; [exact (proj1 (find_key_none own 0 s p rd) E)|].
    destruct (find_key_some _ _ _ _ _ _ H) as (j & -> & Hf). exists j. split; [lia|exact Hf].
Qed.

(* resolution fails exactly when no entry of either dictionary has the three components *)
Theorem resolve_inline_complete : forall own_dic own sys s p rd,
  resolve_inline own_dic own sys s p rd = None <-> forall k, In k (own ++ sys) -> ~ key_is k s p rd.
Proof.
  intros own_dic own sys s p rd. unfold resolve_inline.
  destruct (find_key own 0 s p rd) as [i|] eqn:E.
  - split; [discriminate|]. intros H. exfalso.
    destruct (find_key_some _ _ _ _ _ _ E) as (j & _ & (k & Hk & Hm) & _).
    apply (H k); [apply in_or_app; left; eapply nth_error_In; exact Hk|exact Hm].
  - rewrite find_key_none. pose proof (proj1 (find_key_none own 0 s p rd) E) as E'. split.
    + intros H k Hin. apply in_app_or in Hin as [Hin|Hin]; [apply E'; exact Hin|apply H; exact Hin].
    + intros H k Hin. apply H. apply in_or_app. right. exact Hin.
Qed.

(* a whole column: same length, references untouched, every inline unit replaced by its resolution *)
Lemma resolve_units_spec : forall own_dic own sys us ws,
  resolve_units own_dic own sys us = Some ws ->
  Forall2 (fun u w => resolve_unit own_dic own sys u = Some w) us ws.
Proof.
  induction us as [|u t IH]; intros ws H; cbn [resolve_units] in H.
  - inversion H. constructor.
  - destruct (resolve_unit own_dic own sys u) as [w|] eqn:E; [|discriminate].
    destruct (resolve_units own_dic own sys t) as [ws'|] eqn:Et; [|discriminate].
    inversion H; subst. constructor; [exact E|apply IH; reflexivity].
Qed.

(* all rows: one entry per row, in order, differing from the declared entry only in the two split arrays *)
Lemma resolve_rows_with_spec : forall own_dic own sys rows es,
  resolve_rows_with own_dic own sys rows = Some es ->
  Forall2 (fun r e => exists a b,
             e = with_splits (r_entry r) a b /\
             Forall2 (fun u w => resolve_unit own_dic own sys u = Some w) (r_a r) a /\
             Forall2 (fun u w => resolve_unit own_dic own sys u = Some w) (r_b r) b) rows es.
Proof.
  induction rows as [|r t IH]; intros es H; cbn [resolve_rows_with] in H.
  - inversion H. constructor.
  - destruct (resolve_units own_dic own sys (r_a r)) as [a|] eqn:Ea; [|discriminate].
    destruct (resolve_units own_dic own sys (r_b r)) as [b|] eqn:Eb; [|discriminate].
    destruct (resolve_rows_with own_dic own sys t) as [es'|] eqn:Et; [|discriminate].
    inversion H; subst. constructor; [|apply IH; reflexivity].
    exists a, b. repeat split; apply resolve_units_spec; assumption.
Qed.

Lemma text_eqb_refl : forall t, text_eqb t t = true.
Proof. intros. apply text_eqb_eq. reflexivity. Qed.
Lemma text_eqb_false_ne : forall a b, text_eqb a b = false -> a <> b.
Proof. intros a b H Hc. subst. rewrite text_eqb_refl in H. discriminate. Qed.

(* what a matching own key says about the row: index form, POS and reading of the reference *)
Lemma own_key_is : forall r s p rd, key_is (own_key r) s p rd ->
  r_surface r = s /\ e_pos (r_entry r) = p /\
  match rd with Some x => e_reading (r_entry r) = x /\ x <> s | None => e_reading (r_entry r) = s end.
Proof.
  intros r s p rd (H1 & H2 & H3). unfold own_key in *. cbn [k_surface k_pos k_reading] in *.
  split; [exact H1|]. split; [exact H2|].
  destruct (text_eqb (r_surface r) (e_reading (r_entry r))) eqn:E.
  - apply text_eqb_eq in E. subst rd. congruence.
  - subst rd. split; [reflexivity|]. apply text_eqb_false_ne in E. congruence.
Qed.

(* ... and a matching system key about the system entry: headword, POS, and the reading the accessor reports *)
Lemma sys_key_is : forall e s p rd, key_is (sys_key e) s p rd ->
  e_headword e = s /\ e_pos e = p /\
  match rd with Some x => e_reading e = x /\ x <> s /\ x <> [] | None => or_headword e (e_reading e) = s end.
Proof.
  intros e s p rd (H1 & H2 & H3). unfold sys_key, bin_key, stored_reading in *. cbn [k_surface k_pos k_reading] in *.
  split; [exact H1|]. split; [exact H2|].
  destruct (text_eqb (e_reading e) (e_headword e)) eqn:E.
  - apply text_eqb_eq in E. subst rd. unfold or_headword. rewrite E. subst s. destruct (e_headword e); reflexivity.
  - destruct (e_reading e) as [|c t] eqn:Er.
    + subst rd. unfold or_headword. exact H1.
    + destruct (text_eqb (e_headword e) (c :: t)) eqn:E2.
      * apply text_eqb_eq in E2. apply text_eqb_false_ne in E. congruence.
      * subst rd. split; [reflexivity|]. split; [|discriminate]. apply text_eqb_false_ne in E2. congruence.
Qed.
