(* C03, analysis/node.rs concat_nodes / concat_oov_nodes: a panicking variant of builder G's model (Model/Rewrite.v) with
   every index expression, usize subtraction and u16 addition written out, and its agreement with G's model under the
   conditions the path-rewrite plugins guarantee. *)
From Coq Require Import List NArith Bool Arith Lia.
From SudachiVerif Require Model.Rewrite.
Import ListNotations.
Local Open Scope nat_scope.

Module R := SudachiVerif.Model.Rewrite.

Inductive csite :=
| C_index_end      (* path[end - 1] *)
| C_index_begin    (* path[begin] *)
| C_bytes_sub      (* end_bytes - beg_bytes  (usize; String::with_capacity(..)) *)
| C_hw_add.        (* head_word_length += data.head_word_length  (u16, overflow checks) *)
Inductive cres (A : Type) := COk (a : A) | CErrRange | CPanic (s : csite).
Arguments COk {A} a. Arguments CErrRange {A}. Arguments CPanic {A} s.

Lemma last_indep' {A} : forall (l : list A) d d', l <> [] -> last l d = last l d'.
Proof. induction l as [|x l IH]; intros d d' H; [contradiction|]. destruct l as [|y l]; [reflexivity|]. cbn [last]. apply IH. discriminate. Qed.

Lemma last_in {A} : forall (l : list A) x d, In (last (x :: l) d) (x :: l).
Proof. induction l as [|y l IH]; intros x d; [left; reflexivity|]. cbn [last]. right. apply IH. Qed.

Lemma last_firstn_nth {A} : forall k (q : list A) x l d, nth_error (x :: q) k = Some l -> last (x :: firstn k q) d = l.
Proof.
  induction k as [|k IH]; intros q x l d H.
  - cbn in H. inversion H; subst. reflexivity.
  - cbn [nth_error] in H. destruct q as [|y q]; [destruct k; discriminate H|].
    cbn [firstn]. change (last (x :: y :: firstn k q) d) with (last (y :: firstn k q) d). apply IH. exact H.
Qed.

Section Concat.
  (* WordInfoData::head_word_length of a path node (u16) *)
  Variable hwl : R.node -> N.
  Variable ovf : bool.       (* overflow checks *)

  (* for node in path[begin..end].iter() { head_word_length += data.head_word_length } *)
  Fixpoint hw_sum (acc : N) (g : list R.node) : option N :=
    match g with
    | [] => Some acc
    | n :: g' => let s := (acc + hwl n)%N in
                 if ovf && (65535 <? s)%N then None else hw_sum (s mod 65536)%N g'
    end.

  Definition pconcat (merge : list R.node -> R.node) (p : list R.node) (b e : nat) : cres (list R.node) :=
    if e <=? b then CErrRange
    else match nth_error p (e - 1) with
         | None => CPanic C_index_end
         | Some l =>
           match nth_error p b with
           | None => CPanic C_index_begin
           | Some f =>
             if R.be l <? R.bb f then CPanic C_bytes_sub
             else match hw_sum 0%N (R.slice p b e) with
                  | None => CPanic C_hw_add
                  | Some _ => COk (firstn b p ++ merge (R.slice p b e) :: skipn e p)
                  end
           end
         end.

  Definition pconcat_nodes (p : list R.node) (b e : nat) (nf : option (list N)) := pconcat (fun g => R.merged_numeric g nf) p b e.
  Definition pconcat_oov_nodes (p : list R.node) (b e : nat) (pid : N) := pconcat (fun g => R.merged_oov g pid) p b e.

  (* a stretch of the path that is a contiguous chain of byte ranges *)
  Fixpoint bchain (g : list R.node) : Prop :=
    match g with
    | [] => True
    | n :: g' => R.bb n <= R.be n /\ match g' with [] => True | m :: _ => R.be n = R.bb m end /\ bchain g'
    end.

  Fixpoint span_sum (g : list R.node) : nat := match g with [] => 0 | n :: g' => (R.be n - R.bb n) + span_sum g' end.

  Lemma bchain_span : forall g f l, bchain g -> hd_error g = Some f -> last g f = l ->
    R.bb f + span_sum g = R.be l.
  Proof.
    induction g as [|n g IH]; intros f l Hc Hf Hl; [discriminate Hf|]. cbn in Hf. inversion Hf; subst f.
    destruct Hc as (H1 & H2 & H3). cbn [span_sum]. destruct g as [|m g].
    - cbn in Hl. subst l. cbn. lia.
    - change (last (n :: m :: g) n) with (last (m :: g) n) in Hl. specialize (IH m l H3 eq_refl). rewrite (last_indep' (m :: g) n m) in Hl by (intro X; discriminate X).
      specialize (IH Hl). lia.
  Qed.

  Lemma hw_sum_ok : forall g acc, (acc + fold_right (fun n a => hwl n + a) 0 g <= 65535)%N -> exists s, hw_sum acc g = Some s.
  Proof.
    induction g as [|n g IH]; intros acc H; cbn [hw_sum fold_right] in *; [eauto|].
    replace (65535 <? acc + hwl n)%N with false by (symmetry; apply N.ltb_ge; lia). rewrite andb_false_r.
    rewrite N.mod_small by lia. apply IH. lia.
  Qed.

  (* the conditions under which nothing in concat_nodes panics: a proper range inside the path (C14_no_invalid_range),
     whose nodes form a byte chain of a text of at most 65535 bytes (C01: the path stays a chain through every rewrite;
     reach_len_u16) and carry head word lengths not above their byte spans (a dictionary word's head word IS the matched
     key; an OOV node has 0; a merged node has the sum) *)
  Theorem pconcat_ok : forall merge p b e,
    b < e -> e <= length p -> bchain (R.slice p b e) ->
    (forall n, In n (R.slice p b e) -> (hwl n <= N.of_nat (R.be n - R.bb n))%N) ->
    (forall n, In n (R.slice p b e) -> (N.of_nat (R.be n) <= 65535)%N) ->
    pconcat merge p b e = COk (firstn b p ++ merge (R.slice p b e) :: skipn e p).
  Proof.
    intros merge p b e Hbe Hel Hc Hhw Hlen. unfold pconcat.
    replace (e <=? b) with false by (symmetry; apply Nat.leb_gt; lia).
    destruct (nth_error p (e - 1)) as [l|] eqn:El; [|apply nth_error_None in El; lia].
    destruct (nth_error p b) as [f|] eqn:Ef; [|apply nth_error_None in Ef; lia].
    (* the slice starts with f and ends with l *)
    assert (Hs : exists g, R.slice p b e = f :: g /\ last (f :: g) f = l).
    { unfold R.slice. rewrite <- (firstn_skipn b p) in Ef, El.
      assert (Hb : length (firstn b p) = b) by (rewrite firstn_length; lia).
      rewrite nth_error_app2 in Ef by lia. rewrite Hb, Nat.sub_diag in Ef.
      rewrite nth_error_app2 in El by lia. rewrite Hb in El.
      destruct (skipn b p) as [|x q] eqn:Eq; [discriminate Ef|]. cbn in Ef. inversion Ef; subst x.
      replace (e - b) with (S (e - b - 1)) by lia. cbn [firstn]. eexists. split; [reflexivity|].
      replace (e - 1 - b) with (e - b - 1) in El by lia.
      apply last_firstn_nth. exact El. }
    destruct Hs as (g & Eg & Hl). rewrite Eg in Hc, Hhw, Hlen.
    pose proof (bchain_span (f :: g) f l Hc eq_refl Hl) as Hsp.
    replace (R.be l <? R.bb f) with false by (symmetry; apply Nat.ltb_ge; lia).
    assert (Hsum : (fold_right (fun n a => hwl n + a) 0 (f :: g) <= N.of_nat (span_sum (f :: g)))%N).
    { clear -Hhw. induction (f :: g) as [|n r IH]; [cbn; lia|]. cbn [fold_right span_sum].
      assert (hwl n <= N.of_nat (R.be n - R.bb n))%N by (apply Hhw; left; reflexivity).
      assert (fold_right (fun n0 a => hwl n0 + a) 0 r <= N.of_nat (span_sum r))%N by (apply IH; intros; apply Hhw; right; assumption). lia. }
    assert (Hl5 : (N.of_nat (R.be l) <= 65535)%N).
    { apply Hlen. rewrite <- Hl. apply last_in. }
    rewrite Eg. destruct (hw_sum_ok (f :: g) 0%N) as [s ->]; [lia|]. reflexivity.
  Qed.
End Concat.

(* ... and then it is builder G's concat_nodes / concat_oov_nodes *)
Lemma pconcat_nodes_agrees : forall hwl ovf p b e nf q, pconcat_nodes hwl ovf p b e nf = COk q -> R.concat_nodes p b e nf = R.Ok q.
Proof.
  intros hwl ovf p b e nf q H. unfold pconcat_nodes, pconcat in H. unfold R.concat_nodes.
  destruct (e <=? b); [discriminate H|].
  destruct (nth_error p (e - 1)) eqn:El; [|discriminate H].
  assert (e - 1 < length p) by (apply nth_error_Some; congruence).
  replace (length p <? e) with false by (symmetry; apply Nat.ltb_ge; lia).
  destruct (nth_error p b); [|discriminate H]. destruct (_ <? _); [discriminate H|].
  destruct (hw_sum _ _ _ _); [|discriminate H]. inversion H; subst. reflexivity.
Qed.
