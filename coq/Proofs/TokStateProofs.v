(* Lemmas about Model/TokState.v (C10). *)
From Coq Require Import List Arith NArith Bool String Lia.
From SudachiVerif Require Import Model.Harness Model.TokState.
Import ListNotations.
Open Scope string_scope.
Open Scope list_scope.
Open Scope N_scope.

Arguments N.ltb : simpl never.
Arguments N.leb : simpl never.
Arguments N.add : simpl never.
Arguments Model.Split.blen : simpl never.
Arguments seqN : simpl never.

(* ---------- from the decidable side condition to the expected facts ---------- *)
Lemma list_eqb_eq {A} (eqb : A -> A -> bool) :
  (forall x y, eqb x y = true -> x = y) -> forall l1 l2, list_eqb eqb l1 l2 = true -> l1 = l2.
Proof.
  intros He. induction l1 as [|x l1 IH]; destruct l2 as [|y l2]; cbn; intros H; try discriminate; [reflexivity|].
  apply andb_prop in H as [H1 H2]. f_equal; [apply He; exact H1|apply IH; exact H2].
Qed.

Lemma strs_eqb_eq a b : strs_eqb a b = true -> a = b.
Proof. apply list_eqb_eq. intros x y H. apply String.eqb_eq. exact H. Qed.

Lemma facts_ok_Fexp F : facts_ok F = true -> F = Fexp.
Proof.
  unfold facts_ok. intros H. apply andb_prop in H as [H Hf].
  apply (list_eqb_eq strs_eqb strs_eqb_eq) in H.
  destruct F as [a b c d e f g h i [j1 j2] [k1 k2] l m]. cbn in H, Hf.
  injection H as -> -> -> -> -> -> -> -> -> -> -> -> -> ->. subst m. reflexivity.
Qed.

(* ---------- buffers that agree on everything but the two scratch fields ---------- *)
Definition same_core (b b' : ibuf) : Prop :=
  b' = set_m2o_2 (m2o_2 b') (set_modified_2 (modified_2 b') b).

Lemma same_core_refl b : same_core b b.
Proof. destruct b as [o md md2 mo mo2 mc c2 b2 bw ct cc rp st]; reflexivity. Qed.

Definition canonical (t x : text) (y : list N) : ibuf := mkIB t [] x [] y [] [] [] [] [] [] [] Clean.

Lemma same_core_canonical t x y x' y' : same_core (canonical t x y) (canonical t x' y').
Proof. reflexivity. Qed.

Lemma prep_canonical : forall s t,
  replaces (input s) = [] ->
  push_str t (input (tok_reset Fexp s)) = canonical t (modified_2 (input s)) (m2o_2 (input s)).
Proof. intros [b d m o l i p ss] t H. destruct b as [o1 md md2 mo mo2 mc c2 b2 bw ct cc rp st]. cbn in H. subst. reflexivity. Qed.

Lemma start_build_same : forall b b',
  same_core b b' ->
  fst (start_build Fexp b) = fst (start_build Fexp b') /\ same_core (snd (start_build Fexp b)) (snd (start_build Fexp b')).
Proof.
  intros b b' H. destruct b as [o md md2 mo mo2 mc c2 b2 bw ct cc rp st], b' as [o' md' md2' mo' mo2' mc' c2' b2' bw' ct' cc' rp' st'].
  unfold same_core in H. cbn in H. injection H as -> -> -> -> -> -> -> -> -> -> ->.
  unfold start_build. cbn [original modified m2o].
  destruct (guard_eval (f_sb_guard Fexp) (Model.Split.blen o)); cbn; split; reflexivity.
Qed.

Lemma plugin_step_same : forall E p b b',
  same_core b b' ->
  fst (plugin_step Fexp E p b) = fst (plugin_step Fexp E p b') /\
  same_core (snd (plugin_step Fexp E p b)) (snd (plugin_step Fexp E p b')).
Proof.
  intros E p b b' H. destruct b as [o md md2 mo mo2 mc c2 b2 bw ct cc rp st], b' as [o' md' md2' mo' mo2' mc' c2' b2' bw' ct' cc' rp' st'].
  unfold same_core in H. cbn in H. injection H as -> -> -> -> -> -> -> -> -> -> ->.
  unfold plugin_step, refresh_chars, commit.
  destruct (uses_chars p); [destruct mc as [|c cs]|]; cbn;
    (destruct (p_run p _ _ _) as [es|]; cbn; [|split; reflexivity]);
    (destruct (rp ++ es) as [|e r]; cbn; [split; reflexivity|]);
    (destruct (e_resolve E _ _ _) as [[[tgt tmap] sz]|]; cbn; [|split; reflexivity]);
    (destruct (N.ltb _ sz); cbn; split; reflexivity).
Qed.

Lemma rewrite_input_same : forall E ps b b',
  same_core b b' ->
  fst (rewrite_input Fexp E ps b) = fst (rewrite_input Fexp E ps b') /\
  same_core (snd (rewrite_input Fexp E ps b)) (snd (rewrite_input Fexp E ps b')).
Proof.
  intros E ps. induction ps as [|p ps IH]; intros b b' H; cbn [rewrite_input]; [split; [reflexivity|exact H]|].
  destruct (plugin_step_same E p b b' H) as [H1 H2].
  destruct (plugin_step Fexp E p b) as [ok r]. destruct (plugin_step Fexp E p b') as [ok' r'].
  cbn [fst snd] in H1, H2. subst ok'. destruct ok; [apply IH; exact H2|split; [reflexivity|exact H2]..].
Qed.

(* after build the buffers agree on everything but modified_2 *)
Lemma build_same : forall E b b',
  same_core b b' -> set_modified_2 [] (build Fexp E b) = set_modified_2 [] (build Fexp E b').
Proof.
  intros E b b' H. destruct b as [o md md2 mo mo2 mc c2 b2 bw ct cc rp st], b' as [o' md' md2' mo' mo2' mc' c2' b2' bw' ct' cc' rp' st'].
  unfold same_core in H. cbn in H. injection H as -> -> -> -> -> -> -> -> -> -> ->.
  reflexivity.
Qed.

Lemma view_of_set_modified_2 x b : view_of (set_modified_2 x b) = view_of b.
Proof. destruct b as [o md md2 mo mo2 mc c2 b2 bw ct cc rp st]; reflexivity. Qed.
Lemma state_set_modified_2 x b : state (set_modified_2 x b) = state b.
Proof. destruct b as [o md md2 mo mo2 mc c2 b2 bw ct cc rp st]; reflexivity. Qed.

Lemma eq_upto_view b b' : set_modified_2 [] b = set_modified_2 [] b' -> view_of b = view_of b' /\ state b = state b'.
Proof.
  intros H. split.
  - rewrite <- (view_of_set_modified_2 [] b), <- (view_of_set_modified_2 [] b'), H. reflexivity.
  - rewrite <- (state_set_modified_2 [] b), <- (state_set_modified_2 [] b'), H. reflexivity.
Qed.

(* ---------- the lattice: what the analysis may touch after reset does not depend on the previous analyses ---------- *)
Lemma firstn_reset_vec : forall rows k, firstn k (reset_vec rows k) = repeat [] k.
Proof.
  unfold reset_vec. induction rows as [|r rows IH]; intros k.
  - cbn [map app List.length]. rewrite Nat.sub_0_r. rewrite <- (repeat_length (@nil N) k) at 1. apply firstn_all.
  - destruct k as [|k]; [reflexivity|]. cbn [map app List.length firstn repeat Nat.sub]. f_equal. apply IH.
Qed.

Lemma reset_vec_S : forall rows k, exists rest, reset_vec rows (S k) = [] :: rest /\ firstn k rest = repeat [] k.
Proof.
  intros rows k. pose proof (firstn_reset_vec rows (S k)) as H.
  destruct (reset_vec rows (S k)) as [|x rest]; cbn in H; [discriminate|].
  injection H as -> H. exists rest. split; [reflexivity|exact H].
Qed.

Lemma visible_lat_reset : forall n l,
  visible (lat_reset Fexp n l) =
  ([BOS] :: repeat [] (N.to_nat n), repeat [] (S (N.to_nat n)), repeat [] (S (N.to_nat n))).
Proof.
  intros n l.
  assert (H : lat_reset Fexp n l =
              mkLat (push_row0 BOS (reset_vec (ends l) (S (N.to_nat n)))) (reset_vec (ends_full l) (S (N.to_nat n)))
                    (reset_vec (indices l) (S (N.to_nat n))) None (N.of_nat (S (N.to_nat n)))) by reflexivity.
  rewrite H. unfold visible. cbn [size ends ends_full indices].
  rewrite Nat2N.id. rewrite !firstn_reset_vec.
  destruct (reset_vec_S (ends l) (N.to_nat n)) as (rest & -> & Hr).
  cbn [push_row0 app]. rewrite firstn_cons. rewrite Hr. reflexivity.
Qed.

(* ---------- do_tokenize does not see the scratch fields, the hidden lattice rows, oov, debug ---------- *)
Lemma modified_set_modified_2 x b : modified (set_modified_2 x b) = modified b.
Proof. destruct b as [o md md2 mo mo2 mc c2 b2 bw ct cc rp st]; reflexivity. Qed.
Lemma mod_chars_set_modified_2 x b : mod_chars (set_modified_2 x b) = mod_chars b.
Proof. destruct b as [o md md2 mo mo2 mc c2 b2 bw ct cc rp st]; reflexivity. Qed.

Lemma analysis_phase_same : forall E b b' d d' m o o' l l' i p ss,
  view_of b = view_of b' -> state b = state b' -> mod_chars b = mod_chars b' ->
  fst (analysis_phase Fexp E (mkTok b d m o l i p ss)) = fst (analysis_phase Fexp E (mkTok b' d' m o' l' i p ss)) /\
  collected (snd (analysis_phase Fexp E (mkTok b d m o l i p ss))) =
  collected (snd (analysis_phase Fexp E (mkTok b' d' m o' l' i p ss))).
Proof.
  intros E b b' d d' m o o' l l' i p ss Hv Hs Hc.
  unfold analysis_phase. cbn [input lat subset mode top_path top_path_ids debug oov].
  rewrite !visible_lat_reset. rewrite <- Hv, <- Hc.
  destruct (co_ids (e_core E (view_of b) ss _)) as [ids|].
  - destruct (e_prw E (view_of b) ss _ _) as [p2| |].
    + destruct (e_split E m ss (view_of b) p2) as [p3|]; cbn [fst snd collected top_path input subset];
        rewrite <- ?Hv, <- ?Hs; split; reflexivity.
    + cbn [fst snd collected top_path]. split; reflexivity.
    + cbn [fst snd collected top_path]. split; reflexivity.
  - cbn [fst snd]. unfold collected. cbn [top_path input subset]. rewrite <- ?Hv, <- ?Hs. split; reflexivity.
Qed.

Lemma do_tokenize_same : forall E s s',
  same_core (input s) (input s') -> mode s = mode s' -> subset s = subset s' ->
  top_path s = top_path s' -> top_path_ids s = top_path_ids s' ->
  fst (do_tokenize Fexp E s) = fst (do_tokenize Fexp E s') /\
  (fst (do_tokenize Fexp E s) = ROk ->
   collected (snd (do_tokenize Fexp E s)) = collected (snd (do_tokenize Fexp E s'))).
Proof.
  intros E [b d m o l i p ss] [b' d' m' o' l' i' p' ss'] Hc Hm Hs Hp Hi.
  cbn [input mode subset top_path top_path_ids] in *. subst m' ss' p' i'.
  unfold do_tokenize. cbn [input].
  destruct (start_build_same b b' Hc) as [A1 A2].
  destruct (start_build Fexp b) as [ok1 b1]. destruct (start_build Fexp b') as [ok1' b1'].
  cbn [fst snd] in A1, A2. subst ok1'.
  destruct ok1; cbn [negb]; [|split; [reflexivity|discriminate]].
  destruct (rewrite_input_same E (e_plugins E) b1 b1' A2) as [B1 B2].
  destruct (rewrite_input Fexp E (e_plugins E) b1) as [ok2 b2]. destruct (rewrite_input Fexp E (e_plugins E) b1') as [ok2' b2'].
  cbn [fst snd] in B1, B2. subst ok2'.
  destruct ok2; [|split; [reflexivity|discriminate]..].
  pose proof (build_same E b2 b2' B2) as C.
  destruct (eq_upto_view _ _ C) as [Cv Cs].
  assert (Cm : modified (build Fexp E b2) = modified (build Fexp E b2')).
  { rewrite <- (modified_set_modified_2 [] (build Fexp E b2)), C. apply modified_set_modified_2. }
  assert (Cc : mod_chars (build Fexp E b2) = mod_chars (build Fexp E b2')).
  { rewrite <- (mod_chars_set_modified_2 [] (build Fexp E b2)), C. apply mod_chars_set_modified_2. }
  rewrite <- Cm.
  destruct (is_nil (modified (build Fexp E b2))).
  - cbn [fst snd]. unfold collected, with_input. cbn [top_path input subset]. rewrite Cv, Cs. split; reflexivity.
  - unfold with_input. cbn [debug mode oov lat top_path_ids top_path subset].
    destruct (analysis_phase_same E _ _ d d' m o o' l l' i p ss Cv Cs Cc) as [R1 R2].
    split; [exact R1|intros _; exact R2].
Qed.

(* ---------- history independence of one probe ---------- *)
Lemma probe_canonical : forall E t s,
  inv_tok s -> probe Fexp E t s = probe Fexp E t (fresh (mode s) (subset s)).
Proof.
  intros E t s [Hr Hi]. unfold probe, analyse.
  rewrite (prep_canonical s t Hr).
  rewrite (prep_canonical (fresh (mode s) (subset s)) t eq_refl).
  set (s1 := with_input _ (tok_reset Fexp s)). set (s0 := with_input _ (tok_reset Fexp (fresh (mode s) (subset s)))).
  assert (H : fst (do_tokenize Fexp E s1) = fst (do_tokenize Fexp E s0) /\
              (fst (do_tokenize Fexp E s1) = ROk -> collected (snd (do_tokenize Fexp E s1)) = collected (snd (do_tokenize Fexp E s0)))).
  { apply do_tokenize_same; subst s1 s0; destruct s as [b d m o l i p ss]; cbn in *; try reflexivity; try exact Hi;
      apply same_core_canonical. }
  destruct (do_tokenize Fexp E s1) as [r z]. destruct (do_tokenize Fexp E s0) as [r' z'].
  cbn [fst snd] in H. destruct H as [-> H2].
  destruct r'; try reflexivity. rewrite (H2 eq_refl). reflexivity.
Qed.

(* ---------- every operation keeps the invariant ---------- *)
Lemma replaces_start_build b : replaces (snd (start_build Fexp b)) = replaces b.
Proof.
  destruct b as [o md md2 mo mo2 mc c2 b2 bw ct cc rp st]. unfold start_build. cbn [original].
  destruct (guard_eval _ _); reflexivity.
Qed.

Lemma replaces_build E b : replaces (build Fexp E b) = replaces b.
Proof. destruct b as [o md md2 mo mo2 mc c2 b2 bw ct cc rp st]. reflexivity. Qed.

Lemma replaces_reset_push t b : replaces (push_str t (ib_reset Fexp b)) = replaces b.
Proof. destruct b as [o md md2 mo mo2 mc c2 b2 bw ct cc rp st]. reflexivity. Qed.

Lemma replaces_plugin_step E p b : replaces b = [] -> replaces (snd (plugin_step Fexp E p b)) = [].
Proof.
  destruct b as [o md md2 mo mo2 mc c2 b2 bw ct cc rp st]. cbn [replaces]. intros ->.
  unfold plugin_step, refresh_chars, commit.
  destruct (uses_chars p); [destruct mc as [|c cs]|]; cbn;
    (destruct (p_run p _ _ _) as [es|]; cbn; [|reflexivity]);
    (destruct es as [|e r]; cbn; [reflexivity|]);
    (destruct (e_resolve E _ _ _) as [[[tgt tmap] sz]|]; cbn; [|reflexivity]);
    (destruct (N.ltb _ sz); reflexivity).
Qed.

Lemma replaces_rewrite_input E : forall ps b, replaces b = [] -> replaces (snd (rewrite_input Fexp E ps b)) = [].
Proof.
  induction ps as [|p ps IH]; intros b H; cbn [rewrite_input]; [exact H|].
  pose proof (replaces_plugin_step E p b H) as H1.
  destruct (plugin_step Fexp E p b) as [ok r]. cbn [snd] in H1. destruct ok; [apply IH; exact H1|exact H1..].
Qed.

Lemma inv_analysis_phase E s : inv_tok s -> inv_tok (snd (analysis_phase Fexp E s)).
Proof.
  intros [Hr Hi]. unfold analysis_phase, inv_tok.
  destruct (co_ids _) as [ids|]; [|cbn; split; assumption].
  destruct (e_prw _ _ _ _ _) as [p2| |]; [|cbn; split; [assumption|reflexivity]..].
  destruct (e_split _ _ _ _ _) as [p3|]; cbn; split; try assumption; reflexivity.
Qed.

Lemma inv_do_tokenize E s : inv_tok s -> inv_tok (snd (do_tokenize Fexp E s)).
Proof.
  intros [Hr Hi]. unfold do_tokenize.
  pose proof (replaces_start_build (input s)) as H1.
  destruct (start_build Fexp (input s)) as [ok1 b1]. cbn [snd] in H1.
  destruct ok1; cbn [negb]; [|destruct s; unfold inv_tok; cbn in *; split; congruence].
  pose proof (replaces_rewrite_input E (e_plugins E) b1 ltac:(congruence)) as H2.
  destruct (rewrite_input Fexp E (e_plugins E) b1) as [ok2 b2]. cbn [snd] in H2.
  destruct ok2; [|destruct s; unfold inv_tok; cbn in *; split; congruence..].
  destruct (is_nil _).
  - destruct s as [b d m o l i p ss]; unfold inv_tok, with_input; cbn [snd input top_path_ids] in *.
    split; [rewrite replaces_build; exact H2|exact Hi].
  - apply inv_analysis_phase. destruct s as [b d m o l i p ss]; unfold inv_tok, with_input; cbn [snd input top_path_ids] in *.
    split; [rewrite replaces_build; exact H2|exact Hi].
Qed.

Lemma inv_analyse E t s : inv_tok s -> inv_tok (snd (analyse Fexp E t s)).
Proof.
  intros [Hr Hi]. unfold analyse. apply inv_do_tokenize.
  destruct s as [b d m o l i p ss]. split.
  - change (replaces (push_str t (ib_reset Fexp b)) = []). rewrite replaces_reset_push. exact Hr.
  - exact Hi.
Qed.

Lemma Forall_set_nth {A} (P : A -> Prop) : forall k x l, Forall P l -> P x -> Forall P (set_nth k x l).
Proof.
  induction k as [|k IH]; intros x l Hl Hx; destruct l as [|y l]; cbn; try constructor; inversion Hl; subst; auto.
Qed.

Lemma Forall_nth_error {A} (P : A -> Prop) : forall l k x, Forall P l -> nth_error l k = Some x -> P x.
Proof. intros l k x Hl Hk. rewrite Forall_forall in Hl. apply Hl. eapply nth_error_In; eauto. Qed.

Lemma inv_run_op E o y : inv_sys y -> inv_sys (run_op Fexp E o y).
Proof.
  intros [Ht Hl]. destruct o; cbn [run_op].
  - split; [|exact Hl]. destruct y as [[b d m0 o l i p ss] ls]; exact Ht.
  - split; [|exact Hl]. destruct y as [[b d m0 o l i p ss] ls]; exact Ht.
  - split; [apply inv_analyse; exact Ht|exact Hl].
  - split; [exact Ht|]. apply Forall_app. split; [exact Hl|]. constructor; [|constructor].
    unfold ml_empty. cbn [l_input]. rewrite replaces_start_build. reflexivity.
  - destruct (nth_error (lists y) k) as [l|] eqn:E1; [|split; assumption].
    unfold collect. destruct (top_path (tk y)) as [p|] eqn:E2; [|split; assumption].
    pose proof (Forall_nth_error _ _ _ _ Hl E1) as Hx. cbn beta in Hx.
    destruct Ht as [Hr Hi]. split.
    + split; cbn; assumption.
    + cbn [lists]. apply Forall_set_nth; [exact Hl|exact Hr].
  - destruct (nth_error (lists y) src) as [ls|] eqn:E1; [|split; assumption].
    destruct (nth_error (lists y) out) as [lo|] eqn:E2; [|split; assumption].
    unfold ml_split_into. destruct (nth_error (l_nodes ls) i) as [n|]; [|split; assumption].
    destruct (e_split_into E m (l_subset ls) (view_of (l_input ls)) n) as [[subs|]|]; try (split; assumption).
    + split; [exact Ht|]. cbn [lists]. apply Forall_set_nth; [exact Hl|].
      cbn [l_input]. exact (Forall_nth_error _ _ _ _ Hl E1).
    + split; [exact Ht|]. cbn [lists]. apply Forall_set_nth; [exact Hl|exact (Forall_nth_error _ _ _ _ Hl E2)].
  - destruct (nth_error (lists y) k) as [l|] eqn:E1; [|split; assumption].
    split; [exact Ht|]. cbn [lists]. apply Forall_set_nth; [exact Hl|].
    pose proof (Forall_nth_error _ _ _ _ Hl E1) as Hx. cbn beta in Hx.
    unfold ml_lookup.
    pose proof (replaces_start_build (push_str q (ib_reset Fexp (l_input l)))) as H1.
    destruct (start_build Fexp (push_str q (ib_reset Fexp (l_input l)))) as [ok b1]. cbn [snd] in H1.
    rewrite replaces_reset_push in H1.
    destruct ok; cbn [negb snd l_input]; [rewrite replaces_build|]; congruence.
Qed.

Lemma inv_run_ops E : forall ops y, inv_sys y -> inv_sys (run_ops Fexp E ops y).
Proof.
  unfold run_ops. induction ops as [|o ops IH]; intros y H; cbn [fold_left]; [exact H|].
  apply IH. apply inv_run_op. exact H.
Qed.

Lemma inv_initial m : inv_sys (mkSys (create m) []).
Proof. split; [split; reflexivity|constructor]. Qed.

(* ---------- the property ---------- *)
Lemma history_independent :
  forall F E ops m0 t,
    facts_ok F = true ->
    let y := run_ops F E ops (mkSys (create m0) []) in
    probe F E t (tk y) = probe F E t (fresh (mode (tk y)) (subset (tk y))).
Proof.
  intros F E ops m0 t HF. rewrite (facts_ok_Fexp F HF). cbv zeta.
  apply probe_canonical. apply (inv_run_ops E ops _ (inv_initial m0)).
Qed.

(* whatever the outcome of an analysis (too long, plugin error, disconnected lattice, late failure, panic while
   splitting), the next analysis behaves as on a fresh tokenizer *)
Lemma failed_analysis_usable :
  forall F E ops m0 t1 t,
    facts_ok F = true ->
    let y := run_ops F E ops (mkSys (create m0) []) in
    let s1 := snd (analyse F E t1 (tk y)) in
    fst (analyse F E t1 (tk y)) <> ROk ->
    probe F E t s1 = probe F E t (fresh (mode (tk y)) (subset (tk y))).
Proof.
  intros F E ops m0 t1 t HF. rewrite (facts_ok_Fexp F HF). cbv zeta. intros _.
  pose proof (inv_run_ops E ops _ (inv_initial m0)) as [Ht _].
  set (y := run_ops Fexp E ops (mkSys (create m0) [])) in *.
  rewrite (probe_canonical E t _ (inv_analyse E t1 (tk y) Ht)).
  f_equal.
  assert (H : forall s, mode (snd (analyse Fexp E t1 s)) = mode s /\ subset (snd (analyse Fexp E t1 s)) = subset s).
  { intros s. unfold analyse, do_tokenize.
    destruct (start_build _ _) as [ok1 b1]. destruct ok1; cbn [negb]; [|destruct s; split; reflexivity].
    destruct (rewrite_input _ _ _ _) as [ok2 b2]. destruct ok2; [|destruct s; split; reflexivity..].
    destruct (is_nil _); [destruct s; split; reflexivity|].
    unfold analysis_phase. destruct (co_ids _); [|destruct s; split; reflexivity].
    destruct (e_prw _ _ _ _ _); [|destruct s; split; reflexivity..].
    destruct (e_split _ _ _ _ _); destruct s; split; reflexivity. }
  destruct (H (tk y)) as [-> ->]. reflexivity.
Qed.
