(* The lattice that build_lattice constructs (positions skipped when nothing ends there, fallback provider when nothing
   was created) yields the minimum cost over ALL chains of offered candidates: ties C02's theorem to the tokenizer loop. *)
From Coq Require Import List ZArith NArith Bool Arith Lia.
From SudachiVerif Require Import Model.Lattice Model.BuildLattice Proofs.LatticeProofs Proofs.BuildLatticeProofs.
Import ListNotations.

Section P.
  Variable conn : N -> N -> Z.
  Variable cands : nat -> list node.
  Variable fallback : nat -> option node.
  Variable n : nat.

  (* what position p offers to the lattice when it is processed *)
  Definition offered (p : nat) : list node :=
    match cands p with
    | [] => match fallback p with Some f => [f] | None => [] end
    | l => l
    end.

  Hypothesis offered_wf : forall p m, In m (offered p) -> node_wf n p m.

  (* chains over a predicate instead of a list *)
  Fixpoint chainP (P : node -> Prop) (from to : nat) (p : list node) : Prop :=
    match p with
    | [] => from = to
    | m :: t => P m /\ nbeg m = from /\ (nbeg m < nend m)%nat /\ chainP P (nend m) to t
    end.
  Definition Offered (m : node) : Prop := In m (offered (nbeg m)).

  Lemma step_offered L p :
    step conn cands fallback L p =
    if has_previous_node L p then
      match offered p with [] => None | ns => Some (insert_all conn L ns) end
    else Some L.
  Proof.
    unfold step, offered. destruct (has_previous_node L p); [|reflexivity].
    destruct (cands p) as [|c cs]; [destruct (fallback p)|]; reflexivity.
  Qed.

  Lemma sorted_app : forall ins lo p ns,
    sorted_from lo ins -> (forall m, In m ins -> (nbeg m <= p)%nat) -> (forall m, In m ns -> nbeg m = p) -> (lo <= p)%nat ->
    sorted_from lo (ins ++ ns).
  Proof.
    induction ins as [|x ins IH]; intros lo p ns Hs Hle Heq Hlo; cbn [app].
    - induction ns as [|y ns IHn] in lo, Hlo, Heq |- *; cbn; [exact I|].
      rewrite (Heq y (or_introl eq_refl)). split; [exact Hlo|]. apply IHn; [intros; apply Heq; cbn; auto|lia].
    - cbn in Hs |- *. destruct Hs as [H1 H2]. split; [exact H1|].
      apply (IH (nbeg x) p); auto; [intros; apply Hle; cbn; auto|apply Hle; cbn; auto].
  Qed.

  Lemma insert_all_app L a b : insert_all conn L (a ++ b) = insert_all conn (insert_all conn L a) b.
  Proof. unfold insert_all. apply fold_left_app. Qed.

  (* rows of the lattice in terms of the inserted nodes *)
  Lemma row_nonempty_iff ins q :
    nodes_ok n ins -> (q <= n)%nat ->
    (row (insert_all conn (reset n) ins) q <> [] <-> q = 0%nat \/ exists m, In m ins /\ nend m = q).
  Proof.
    intros [Hs Hok] Hq.
    destruct (inv_insert_all conn n ins [] (reset n) 0 (inv_reset conn n) Hs Hok) as [cur HI].
    rewrite app_nil_r in HI. split.
    - intros Hne. destruct (row (insert_all conn (reset n) ins) q) as [|e es] eqn:E; [congruence|].
      pose proof (inv_pos _ _ _ _ _ HI q e) as Hp. rewrite E in Hp. specialize (Hp (or_introl eq_refl)).
      destruct (enode e) as [m|]; [|left; tauto].
      right. exists m. destruct Hp as (H1 & H2 & _). split; [apply in_rev; exact H2|exact H1].
    - intros [->|(m & Hm & <-)].
      + destruct (inv_bos _ _ _ _ _ HI) as (e & He & _). intros E. rewrite E in He. contradiction.
      + destruct (inv_complete _ _ _ _ _ HI m) as (e & He & _); [apply -> in_rev; exact Hm|].
        intros E. rewrite E in He. contradiction.
  Qed.

  (* state of the loop before position p *)
  Definition K (L : lattice) (p : nat) (ins : list node) : Prop :=
    L = insert_all conn (reset n) ins /\ nodes_ok n ins /\
    (forall m, In m ins -> (nbeg m < p)%nat /\ Offered m) /\
    (forall q, (q < p)%nat -> (q = 0%nat \/ exists m, In m ins /\ nend m = q) -> forall m, In m (offered q) -> In m ins).

  Lemma has_prev_iff L i : has_previous_node L i = true <-> row L i <> [].
  Proof. apply has_prev_row. Qed.

  Lemma step_K L p ins L' : (p < n)%nat -> K L p ins -> step conn cands fallback L p = Some L' ->
    exists ins', K L' (S p) ins'.
  Proof.
    intros Hp (HL & [Hs Hok] & Hin & Hcl) Hstep. rewrite step_offered in Hstep.
    destruct (has_previous_node L p) eqn:Hh.
    - destruct (offered p) as [|o os] eqn:Eo; [discriminate|]. injection Hstep as <-.
      exists (ins ++ (o :: os)).
      assert (Hwf : forall m, In m (o :: os) -> node_wf n p m) by (intros m Hm; apply offered_wf; rewrite Eo; exact Hm).
      split; [rewrite insert_all_app, <- HL; reflexivity|]. split; [split|split].
      + apply (sorted_app ins 0 p); auto; [intros m Hm; destruct (Hin m Hm); lia|intros m Hm; destruct (Hwf m Hm); tauto|lia].
      + intros m Hm. apply in_app_or in Hm. destruct Hm as [Hm|Hm]; [apply Hok; exact Hm|].
        destruct (Hwf m Hm) as (H1 & H2 & H3). lia.
      + intros m Hm. apply in_app_or in Hm. destruct Hm as [Hm|Hm].
        * destruct (Hin m Hm). split; [lia|assumption].
        * destruct (Hwf m Hm) as (H1 & H2 & H3). split; [lia|]. unfold Offered. rewrite H1, Eo. exact Hm.
      + intros q Hq Hreach m Hm. apply in_or_app.
        destruct (Nat.eq_dec q p) as [->|Hne]; [right; rewrite Eo in Hm; exact Hm|]. left.
        apply (Hcl q); [lia| |exact Hm].
        destruct Hreach as [->|(m' & Hm' & He)]; [left; reflexivity|]. right.
        apply in_app_or in Hm'. destruct Hm' as [Hm'|Hm']; [eauto|].
        destruct (Hwf m' Hm') as (H1 & H2 & H3). lia.
    - injection Hstep as <-. exists ins.
      split; [exact HL|]. split; [split; assumption|]. split.
      + intros m Hm. destruct (Hin m Hm). split; [lia|assumption].
      + intros q Hq Hreach m Hm. destruct (Nat.eq_dec q p) as [->|Hne]; [|apply (Hcl q); auto; lia].
        exfalso. assert (Hrow : row L p <> []).
        { rewrite HL. apply row_nonempty_iff; [split; assumption|lia|exact Hreach]. }
        apply has_prev_iff in Hrow. congruence.
  Qed.

  Lemma loop_K : forall todo L p ins L', (p + todo = n)%nat -> K L p ins ->
    loop conn cands fallback L p todo = Some L' -> exists ins', K L' n ins'.
  Proof.
    induction todo as [|t IH]; intros L p ins L' Hsum HK Hl; cbn [loop] in Hl.
    - inversion Hl; subst. replace n with p by lia. eauto.
    - destruct (step conn cands fallback L p) as [L1|] eqn:Es; [|discriminate].
      destruct (step_K L p ins L1) as [ins1 HK1]; [lia|exact HK|exact Es|].
      apply (IH L1 (S p) ins1 L'); [lia|exact HK1|exact Hl].
  Qed.

  (* every chain of offered candidates from a reachable position consists of inserted nodes *)
  Lemma chain_inserted ins : (forall q, (q < n)%nat -> (q = 0%nat \/ exists m, In m ins /\ nend m = q) -> forall m, In m (offered q) -> In m ins) ->
    forall p from, (from = 0%nat \/ exists m, In m ins /\ nend m = from) -> chainP Offered from n p -> chain ins from n p.
  Proof.
    intros Hcl. induction p as [|m p IH]; intros from Hreach Hc; cbn [chainP chain] in *; [exact Hc|].
    destruct Hc as (Ho & Hb & Hlt & Hrest).
    assert (Hwf : node_wf n (nbeg m) m) by (apply offered_wf; exact Ho).
    destruct Hwf as (_ & _ & Hle).
    assert (Hin : In m ins).
    { apply (Hcl from); [lia|exact Hreach|]. rewrite <- Hb. exact Ho. }
    repeat split; auto. apply IH; [right; exists m; auto|exact Hrest].
  Qed.

  Lemma chain_offered ins : (forall m, In m ins -> Offered m) -> forall p from to, chain ins from to p -> chainP Offered from to p.
  Proof.
    intros H. induction p as [|m p IH]; intros from to Hc; cbn [chain chainP] in *; [exact Hc|].
    destruct Hc as (H1 & H2 & H3 & H4). repeat split; auto.
  Qed.

  (* C02 for the tokenizer's own loop *)
  Theorem build_optimal L r i c :
    (0 < n)%nat -> build conn cands fallback n = Some (L, (r, i, c)) ->
    (exists p, chainP Offered 0 n p /\ path_cost conn p = c) /\
    (forall p, chainP Offered 0 n p -> (c <= path_cost conn p)%Z).
  Proof.
    intros Hn Hb. unfold build in Hb.
    destruct (loop conn cands fallback (reset n) 0 n) as [L1|] eqn:El; [|discriminate].
    destruct (connect_eos conn L1) as [[[r1 i1] c1]|] eqn:Ee; [|discriminate]. inversion Hb; subst; clear Hb.
    assert (K0 : K (reset n) 0 []).
    { split; [reflexivity|]. split; [split; [exact I|intros m []]|]. split; [intros m []|intros q Hq; lia]. }
    destruct (loop_K n (reset n) 0 [] L eq_refl K0 El) as [ins (HL & Hok & Hin & Hcl)].
    pose proof (viterbi_optimal conn n ins Hok) as Hv. rewrite <- HL, Ee in Hv. destruct Hv as [(p & Hp & Hc) Hmin].
    split.
    - exists p. split; [|exact Hc]. apply (chain_offered ins); [intros m Hm; apply Hin; exact Hm|exact Hp].
    - intros p' Hp'. apply Hmin. apply chain_inserted; auto.
  Qed.

  (* and EosBosDisconnect means that no chain of offered candidates covers the text *)
  Theorem build_disconnect_means_no_chain :
    (0 < n)%nat -> (forall p, (p < n)%nat -> offered p <> []) ->
    build conn cands fallback n = None -> forall p, ~ chainP Offered 0 n p.
  Proof.
    intros Hn Hoff Hb p Hp. unfold build in Hb.
    destruct (loop conn cands fallback (reset n) 0 n) as [L1|] eqn:El.
    - destruct (connect_eos conn L1) as [e|] eqn:Ee; [destruct e as [[? ?] ?]; discriminate|].
      assert (K0 : K (reset n) 0 []).
      { split; [reflexivity|]. split; [split; [exact I|intros m []]|]. split; [intros m []|intros q Hq; lia]. }
      destruct (loop_K n (reset n) 0 [] L1 eq_refl K0 El) as [ins (HL & Hok & Hin & Hcl)].
      pose proof (viterbi_optimal conn n ins Hok) as Hv. rewrite <- HL, Ee in Hv.
      apply (Hv p). apply chain_inserted; auto.
    - (* the loop itself cannot fail when every position offers something *)
      assert (Hloop : forall todo L q, loop conn cands fallback L q todo = None -> (q + todo <= n)%nat -> False).
      { induction todo as [|t IH]; intros L q Hl Hq; cbn [loop] in Hl; [discriminate|].
        destruct (step conn cands fallback L q) as [L2|] eqn:Es; [apply (IH L2 (S q) Hl); lia|].
        rewrite step_offered in Es. destruct (has_previous_node L q); [|discriminate].
        destruct (offered q) eqn:Eo; [|discriminate]. apply (Hoff q); [lia|exact Eo]. }
      apply (Hloop n (reset n) 0%nat El). lia.
  Qed.
End P.
