(* C07 composed with C08 / C01: the code-point-level edit lists of the three input-text plugins (Model/Normalize.v),
   translated to byte-level edits over the UTF-8 encoding of the text, are batches of the kind Model/Buffer.v quantifies
   over (`edits_ok`, UTF-8 replacement strings); `commit` on them yields the encoding of the plugin's specified text; so
   every plugin stack takes `start_build (enc t0)` to a `ReachU`-reachable buffer whose text is the encoding of the
   composition of the per-plugin specifications.  With that the offset-map invariant (C08) and the partition theorems
   (C01) hold for the real plugin stacks without a hypothetical `edits_ok`. *)
From Coq Require Import String List NArith ZArith Bool Arith Lia.
From SudachiVerif Require Generated.NormalizeFacts.
From SudachiVerif Require Import Model.Buffer Proofs.BufferProofs.
From SudachiVerif Require Proofs.PipelineFull.
From SudachiVerif Require Model.Normalize Proofs.NormalizeProofs.
Import ListNotations.
Local Open Scope nat_scope.

Module Nz := SudachiVerif.Model.Normalize.
Module NP := SudachiVerif.Proofs.NormalizeProofs.
Module PF := SudachiVerif.Proofs.PipelineFull.
Notation enc := PF.enc.
Notation utf8 := PF.utf8.

(* ------------------------------------------------------------------ UTF-8 encoding is injective *)
(* lia with div/mod by constants: hook switched on for this one lemma only *)
Ltac Zify.zify_post_hook ::= Z.div_mod_to_equations.

Lemma utf8_inj_app : forall c d x y, utf8 c ++ x = utf8 d ++ y -> c = d /\ x = y.
Proof.
  intros c d x y H. unfold PF.utf8 in H.
  destruct (N.ltb_spec c 128); [|destruct (N.ltb_spec c 2048); [|destruct (N.ltb_spec c 65536)]];
  (destruct (N.ltb_spec d 128); [|destruct (N.ltb_spec d 2048); [|destruct (N.ltb_spec d 65536)]]);
  cbn [app] in H; inversion H; first [ split; [lia | reflexivity] | exfalso; lia ].
Qed.
Ltac Zify.zify_post_hook ::= idtac.

Lemma enc_inj : forall a b, enc a = enc b -> a = b.
Proof.
  induction a as [|c a IH]; intros [|d b] H.
  - reflexivity.
  - cbn [PF.enc flat_map] in H. destruct (PF.utf8_shape d) as (x & r & E & _). rewrite E in H. discriminate.
  - cbn [PF.enc flat_map] in H. destruct (PF.utf8_shape c) as (x & r & E & _). rewrite E in H. discriminate.
  - cbn [PF.enc flat_map] in H. apply utf8_inj_app in H. destruct H as [-> H]. f_equal. apply IH. exact H.
Qed.

Lemma enc_nonempty : forall t, t <> [] -> enc t <> [].
Proof.
  intros [|c t] H; [contradiction|]. cbn [PF.enc flat_map]. destruct (PF.utf8_shape c) as (x & r & E & _). rewrite E. discriminate.
Qed.

(* ------------------------------------------------------------------ (1) translation of code-point edits to byte edits *)
(* byte offset of code-point index i in the encoded text *)
Definition boff (t : list N) (i : nat) : nat := length (enc (firstn i t)).

Definition tr_edit (t : list N) (e : Nz.edit) : edit :=
  mkE (boff t (Nz.e_start e)) (boff t (Nz.e_end e)) (enc (Nz.e_repl e)).
Definition tr_edits (t : list N) (es : list Nz.edit) : list edit := map (tr_edit t) es.

Lemma firstn_app_len {A} : forall (x y : list A), firstn (length x) (x ++ y) = x.
Proof. induction x as [|a x IH]; intros y; cbn; [now destruct y | now rewrite IH]. Qed.

Lemma skipn_app_len {A} : forall (x y : list A), skipn (length x) (x ++ y) = y.
Proof. induction x as [|a x IH]; intros y; cbn; auto. Qed.

Lemma firstn_split_le {A} : forall (t : list A) i j, i <= j -> firstn j t = firstn i t ++ firstn (j - i) (skipn i t).
Proof. intros t i j H. rewrite firstn_app_skipn. f_equal. lia. Qed.

Lemma boff_0 : forall t, boff t 0 = 0.
Proof. reflexivity. Qed.

Lemma boff_diff : forall t i j, i <= j -> boff t j = boff t i + length (enc (firstn (j - i) (skipn i t))).
Proof. intros t i j H. unfold boff. rewrite (firstn_split_le t i j H), PF.enc_app, app_length. reflexivity. Qed.

Lemma boff_le : forall t i j, i <= j -> boff t i <= boff t j.
Proof. intros t i j H. rewrite (boff_diff t i j H). lia. Qed.

Lemma boff_ge : forall t i, length t <= i -> boff t i = length (enc t).
Proof. intros t i H. unfold boff. rewrite firstn_all2 by exact H. reflexivity. Qed.

Lemma boff_le_len : forall t i, boff t i <= length (enc t).
Proof.
  intros t i. destruct (Nat.le_ge_cases i (length t)) as [H|H].
  - rewrite <- (boff_ge t (length t) (le_n _)). apply boff_le. exact H.
  - rewrite boff_ge by exact H. lia.
Qed.

Lemma boff_boundary : forall t i, is_boundary (enc t) (boff t i) = true.
Proof.
  intros t i. pose proof (PF.enc_boundary (firstn i t) (skipn i t)) as H.
  rewrite firstn_skipn, <- PF.enc_length in H. exact H.
Qed.

Lemma enc_split : forall t i, enc t = enc (firstn i t) ++ enc (skipn i t).
Proof. intros. rewrite <- PF.enc_app, firstn_skipn. reflexivity. Qed.

Lemma enc_skipn_cp : forall t i, skipn (boff t i) (enc t) = enc (skipn i t).
Proof. intros t i. rewrite (enc_split t i) at 1. unfold boff. apply skipn_app_len. Qed.

(* the bytes between the offsets of two code-point indices are the encoding of the code points between them *)
Lemma enc_slice_cp : forall t i j, i <= j ->
  firstn (boff t j - boff t i) (skipn (boff t i) (enc t)) = enc (Nz.slice t i j).
Proof.
  intros t i j H. rewrite enc_skipn_cp. unfold Nz.slice. rewrite (boff_diff t i j H).
  replace (boff t i + length (enc (firstn (j - i) (skipn i t))) - boff t i) with (length (enc (firstn (j - i) (skipn i t)))) by lia.
  rewrite (enc_split (skipn i t) (j - i)). apply firstn_app_len.
Qed.

(* ------------------------------------------------------------------ (2) translated edit lists are well-formed batches *)
Lemma tr_edits_ok_from : forall t es start,
  Nz.edits_ok_from start (length t) es = true ->
  edits_ok_from (enc t) (boff t start) (tr_edits t es) = true.
Proof.
  intros t. induction es as [|e es IH]; intros start H; [reflexivity|].
  cbn [Nz.edits_ok_from] in H. repeat rewrite andb_true_iff in H. destruct H as [[[H1 H2] H3] H4].
  apply Nat.leb_le in H1, H2, H3.
  cbn [tr_edits map edits_ok_from tr_edit e_s e_e e_w]. fold (tr_edits t es).
  rewrite !boff_boundary, PF.enc_wf, (IH _ H4).
  replace (boff t start <=? boff t (Nz.e_start e)) with true by (symmetry; apply Nat.leb_le, boff_le; exact H1).
  replace (boff t (Nz.e_start e) <=? boff t (Nz.e_end e)) with true by (symmetry; apply Nat.leb_le, boff_le; exact H2).
  replace (boff t (Nz.e_end e) <=? length (enc t)) with true by (symmetry; apply Nat.leb_le, boff_le_len).
  reflexivity.
Qed.

Lemma tr_edits_ok : forall t es, Nz.edits_ok t es = true -> edits_ok (enc t) (tr_edits t es) = true.
Proof. intros t es H. unfold edits_ok. rewrite <- (boff_0 t). apply tr_edits_ok_from. exact H. Qed.

Lemma tr_edits_utf8 : forall t es, PF.utf8_edits (tr_edits t es).
Proof. intros t es. unfold PF.utf8_edits, tr_edits. apply Forall_forall. intros e H. apply in_map_iff in H. destruct H as (e0 & <- & _). eexists. reflexivity. Qed.

Lemma apply_edits_ok : forall t es r, Nz.apply_edits t es = Some r -> Nz.edits_ok t es = true.
Proof.
  intros t es r H. unfold Nz.edits_ok. destruct es as [|e es]; [reflexivity|].
  exact (NP.resolve_some_edits_ok t (e :: es) 0 r H).
Qed.

(* ------------------------------------------------------------------ (3) resolve_edits on the translated batch *)
(* the running length `cur_len` after an edit, as resolve_edits computes it *)
Definition delta_of (t : list N) (e : Nz.edit) : Z :=
  (Z.of_nat (length (enc (Nz.e_repl e))) - Z.of_nat (boff t (Nz.e_end e) - boff t (Nz.e_start e)))%Z.

(* the length guard inside resolve_edits never fires *)
Fixpoint within_from (cfg : bcfg) (t : list N) (es : list Nz.edit) (cl : Z) : bool :=
  match es with
  | [] => true
  | e :: r => negb (cmp_eval (c_resolve_cmp cfg) (cl + delta_of t e) (Z.of_N (c_resolve_limit cfg)))
              && within_from cfg t r (cl + delta_of t e)%Z
  end.

Lemma add_replace_total : forall cfg smap s e w, s < length smap -> e < length smap ->
  exists rm, add_replace cfg smap s e w = Some (w, rm, (Z.of_nat (length w) - Z.of_nat (e - s))%Z).
Proof.
  intros cfg smap s e w Hs He. unfold add_replace. destruct w as [|b w].
  - exists []. replace (Z.of_nat (length (@nil N)) - Z.of_nat (e - s))%Z with (- Z.of_nat (e - s))%Z by (cbn [length]; lia). reflexivity.
  - assert (Hx : forall which, exists a, nth_error smap (sel which s e) = Some a).
    { intros which. unfold sel. destruct (String.eqb which "start").
      - destruct (nth_error smap s) eqn:E; [eauto | apply nth_error_None in E; lia].
      - destruct (nth_error smap e) eqn:E; [eauto | apply nth_error_None in E; lia]. }
    destruct (Hx (c_first_sel cfg)) as [a ->]. destruct (Hx (c_rest_sel cfg)) as [p ->]. eexists. reflexivity.
Qed.

Lemma tr_resolve : forall cfg t smap, length smap = length (enc t) + 1 -> forall es start cl r,
  Nz.resolve t start es = Some r ->
  (within_from cfg t es cl = true ->
     exists m l, resolve cfg (enc t) smap (tr_edits t es) (boff t start) cl = ROk (enc r) m l)
  /\ (within_from cfg t es cl = false ->
     exists l, resolve cfg (enc t) smap (tr_edits t es) (boff t start) cl = RTooLong l).
Proof.
  intros cfg t smap Hlen. induction es as [|e es IH]; intros start cl r H.
  - cbn [Nz.resolve] in H. match type of H with (if ?c then _ else _) = _ => destruct c eqn:Es end; [|discriminate H]. inversion H; subst r; clear H.
    split; [intros _ | intros W; cbn [within_from] in W; discriminate W].
    cbn [tr_edits map resolve]. unfold str_slice, vec_slice.
    rewrite boff_boundary, is_boundary_len, !Nat.leb_refl.
    replace (boff t start <=? length (enc t)) with true by (symmetry; apply Nat.leb_le, boff_le_len).
    replace (boff t start <=? length smap) with true by (symmetry; apply Nat.leb_le; pose proof (boff_le_len t start); lia).
    cbn [andb]. rewrite firstn_all_ge by (rewrite skipn_length'; lia). rewrite enc_skipn_cp. eauto.
  - cbn [Nz.resolve] in H.
    match type of H with (if ?c then _ else _) = _ => destruct c eqn:C end; [|discriminate H].
    destruct (Nz.resolve t (Nz.e_end e) es) as [r'|] eqn:R; [|discriminate H]. inversion H; subst r; clear H.
    repeat rewrite andb_true_iff in C. destruct C as [[C1 C2] C3]. apply Nat.leb_le in C1, C2, C3.
    pose proof (boff_le_len t (Nz.e_start e)) as Ls. pose proof (boff_le_len t (Nz.e_end e)) as Le.
    pose proof (boff_le t _ _ C1) as L1. pose proof (boff_le t _ _ C2) as L2.
    assert (S1 : str_slice (enc t) (boff t start) (boff t (Nz.e_start e)) = Some (enc (Nz.slice t start (Nz.e_start e)))).
    { unfold str_slice. rewrite !boff_boundary.
      replace (boff t start <=? boff t (Nz.e_start e)) with true by (symmetry; apply Nat.leb_le; exact L1).
      replace (boff t (Nz.e_start e) <=? length (enc t)) with true by (symmetry; apply Nat.leb_le; exact Ls).
      cbn [andb]. rewrite enc_slice_cp by exact C1. reflexivity. }
    assert (V1 : exists b, vec_slice smap (boff t start) (boff t (Nz.e_start e)) = Some b).
    { unfold vec_slice.
      replace (boff t start <=? boff t (Nz.e_start e)) with true by (symmetry; apply Nat.leb_le; exact L1).
      replace (boff t (Nz.e_start e) <=? length smap) with true by (symmetry; apply Nat.leb_le; lia).
      cbn [andb]. eauto. }
    destruct V1 as [b V1].
    destruct (add_replace_total cfg smap (boff t (Nz.e_start e)) (boff t (Nz.e_end e)) (enc (Nz.e_repl e))) as [rm Har]; [lia | lia |].
    cbn [tr_edits map resolve tr_edit e_s e_e e_w]. fold (tr_edits t es). rewrite S1, V1, Har.
    fold (delta_of t e). cbn [within_from].
    destruct (cmp_eval (c_resolve_cmp cfg) (cl + delta_of t e) (Z.of_N (c_resolve_limit cfg))) eqn:G.
    + split; [intros W; discriminate W | intros _; eauto].
    + cbn [negb andb]. destruct (IH (Nz.e_end e) (cl + delta_of t e)%Z r' R) as [IHt IHf]. split; intros W.
      * destruct (IHt W) as (m & l & ->). eexists; eexists. rewrite !PF.enc_app. reflexivity.
      * destruct (IHf W) as (l & ->). eauto.
Qed.

Section Cfg.
  Variable cfg : bcfg.
  Hypothesis Hcfg : cfg_ok cfg = true.

  (* the length guard of commit on the resulting text *)
  Definition commit_within (r : list N) : bool :=
    negb (cmp_eval (c_commit_cmp cfg) (as_usize (Z.of_nat (length (enc r)))) (Z.of_N (c_commit_limit cfg))).

  (* commit of a translated batch: whenever it answers Ok the new text is the encoding of the model's apply_edits result;
     and it does answer Ok (no panic, no error) when the two length guards stay quiet *)
  Lemma tr_commit : forall t s es r,
    cur s = enc t -> length (m2o s) = length (cur s) + 1 -> Nz.apply_edits t es = Some r ->
    (forall s', commit cfg s (tr_edits t es) = Ok s' -> cur s' = enc r /\ orig s' = orig s)
    /\ (within_from cfg t es (Z.of_nat (length (enc t))) = true -> commit_within r = true ->
        exists s', commit cfg s (tr_edits t es) = Ok s').
  Proof.
    intros t s es r Hcur Hlen Happ. destruct es as [|e es].
    - cbn in Happ. inversion Happ; subst r. cbn [tr_edits map commit]. split.
      + intros s' H. inversion H; subst. auto.
      + eauto.
    - pose proof (apply_edits_ok _ _ _ Happ) as Hok. apply tr_edits_ok in Hok.
      cbn [Nz.apply_edits] in Happ. rewrite Hcur in Hlen.
      destruct (tr_resolve cfg t (m2o s) Hlen (e :: es) 0 (Z.of_nat (length (enc t))) r Happ) as [Ht Hf].
      rewrite boff_0 in Ht, Hf.
      unfold commit. cbn [tr_edits map]. fold (tr_edits t es).
      change (tr_edit t e :: tr_edits t es) with (tr_edits t (e :: es)). rewrite Hcur.
      destruct (within_from cfg t (e :: es) (Z.of_nat (length (enc t)))) eqn:W.
      + destruct (Ht eq_refl) as (m & l & Er). rewrite Er.
        pose proof (resolve_len cfg Hcfg _ _ _ _ _ _ _ _ Hlen (Nat.le_0_l _) (is_boundary_0 _ (PF.enc_wf t)) Hok Er) as Hl.
        assert (l = Z.of_nat (length (enc r))) as -> by lia.
        split.
        * intros s' H. destruct (cmp_eval _ _ _); [discriminate|]. inversion H; subst. auto.
        * intros _ Hc. unfold commit_within in Hc. apply negb_true_iff in Hc. rewrite Hc. eauto.
      + destruct (Hf eq_refl) as (l & Er). rewrite Er. split.
        * intros s' H. destruct (cmp_eval _ _ _); discriminate.
        * intros C; discriminate C.
  Qed.
End Cfg.

(* ------------------------------------------------------------------ the three plugins *)
Inductive plugin : Type :=
| P_default (lower : Nz.cp -> Nz.text) (nfkc : Nz.text -> Nz.text) (qc_yes upper : Nz.cp -> bool)
            (tb : Nz.table) (ign : Nz.cp -> bool) (qc_text : Nz.text -> bool)
| P_psm (mark : Nz.cp -> bool) (sym : Nz.text)
| P_yomi (isK isR isL isB : Nz.cp -> bool) (maxlen : nat).

(* the code-point-level edits a plugin emits for the text t (rewrite_impl) *)
Definition plugin_edits (p : plugin) (t : Nz.text) : list Nz.edit :=
  match p with
  | P_default lower nfkc qc_yes upper tb ign qct => Nz.default_edits lower nfkc qc_yes upper tb ign (qct t) t
  | P_psm mark sym => Nz.psm_edits mark sym t
  | P_yomi isK isR isL isB maxlen => Nz.yomi_edits isK isR isL isB maxlen t
  end.

(* the text the kanji-bracket-reading-bracket removal yields: the scan of yomi_act, stated without edits
   (which spans are removed is C07_yomi_spec / C07_yomi_complete) *)
Definition yomi_removed (isK isR isL isB : Nz.cp -> bool) (maxlen : nat) (t : Nz.text) : Nz.text :=
  NP.scan_out (Nz.yomi_act isK isR isL isB maxlen) 0 t.

(* the specified result of a plugin *)
Definition plugin_spec (p : plugin) (t : Nz.text) : Nz.text :=
  match p with
  | P_default lower nfkc qc_yes upper tb ign qct => Nz.normalize_spec lower nfkc tb ign t
  | P_psm mark sym => Nz.psm_spec mark sym t
  | P_yomi isK isR isL isB maxlen => yomi_removed isK isR isL isB maxlen t
  end.

(* what the C07 theorems assume of a DefaultInputTextPlugin instance: table with distinct non-empty keys, the oracle laws *)
Definition plugin_wf (p : plugin) : Prop :=
  match p with
  | P_default lower nfkc qc_yes upper tb ign qct =>
      Nz.table_wf tb = true
      /\ (forall c, qc_yes c = true -> nfkc (lower c) = lower c)
      /\ (forall c, NP.head_law c (lower c) /\ NP.head_law c (nfkc [c]) /\ NP.head_law c (nfkc (lower c)))
      /\ (forall t, qct t = true -> forall c, In c t -> qc_yes c = true)
  | _ => True
  end.

Fixpoint stack_spec (ps : list plugin) (t : Nz.text) : Nz.text :=
  match ps with
  | [] => t
  | p :: r => stack_spec r (plugin_spec p t)
  end.

(* Buffer.v's reachability excludes batches that empty the text *)
Fixpoint stack_nonempty (ps : list plugin) (t : Nz.text) : Prop :=
  match ps with
  | [] => True
  | p :: r => (t <> [] -> plugin_spec p t <> []) /\ stack_nonempty r (plugin_spec p t)
  end.

Lemma plugin_edits_nil : forall p, plugin_edits p [] = [].
Proof.
  intros [lower nfkc qc_yes upper tb ign qct | mark sym | isK isR isL isB maxlen]; cbn [plugin_edits]; try reflexivity.
  unfold Nz.default_edits. destruct (Nz.takes_slow _ _ _ _); reflexivity.
Qed.

Section Stack.
  (* facts re-read from the plugin source on every run (closed in Properties/C07.v by vm_compute) *)
  Hypothesis F_slow : Generated.NormalizeFacts.slow_search_earliest = false.
  Hypothesis F_guard : Generated.NormalizeFacts.lowercase_guard_is_uppercase = false.
  Hypothesis F_path : Generated.NormalizeFacts.path_guard_is_uppercase = false.

  Variable cfg : bcfg.
  Hypothesis Hcfg : cfg_ok cfg = true.

  Lemma plugin_apply : forall p t, plugin_wf p -> Nz.apply_edits t (plugin_edits p t) = Some (plugin_spec p t).
  Proof.
    intros [lower nfkc qc_yes upper tb ign qct | mark sym | isK isR isL isB maxlen] t Hwf; cbn [plugin_edits plugin_spec].
    - destruct Hwf as (Hw & Hqc & Hh & Hq).
      exact (NP.rewrite_eq_spec F_slow F_guard F_path lower nfkc qc_yes upper tb ign Hw Hqc Hh (qct t) t (Hq t)).
    - apply NP.psm_eq_spec.
    - unfold yomi_removed, Nz.yomi_edits. apply NP.scan_apply. apply NP.yomi_act_ok.
  Qed.

  (* (2) for the plugins: the translated edit list is a well-formed batch with UTF-8 replacement strings *)
  Lemma plugin_edits_translate_ok : forall p t, plugin_wf p ->
    edits_ok (enc t) (tr_edits t (plugin_edits p t)) = true /\ PF.utf8_edits (tr_edits t (plugin_edits p t)).
  Proof.
    intros p t Hwf. split; [|apply tr_edits_utf8].
    apply tr_edits_ok. eapply apply_edits_ok. apply plugin_apply. exact Hwf.
  Qed.

  (* one plugin = one ReachU step whose text is the encoding of the specified text *)
  Lemma plugin_step : forall t0 s t p s',
    PF.ReachU cfg (enc t0) s -> cur s = enc t -> plugin_wf p -> (t <> [] -> plugin_spec p t <> []) ->
    commit cfg s (tr_edits t (plugin_edits p t)) = Ok s' ->
    PF.ReachU cfg (enc t0) s' /\ cur s' = enc (plugin_spec p t).
  Proof.
    intros t0 s t p s' HR Hcur Hwf Hne Hc.
    pose proof (reach_inv cfg Hcfg _ _ (PF.enc_wf t0) (PF.reachU_reach cfg _ _ HR)) as (_ & HB & _).
    pose proof (BMap_length _ _ _ HB) as Hlen.
    destruct (tr_commit cfg Hcfg t s _ _ Hcur Hlen (plugin_apply p t Hwf)) as [HA _].
    destruct (HA s' Hc) as [Ht _]. split; [|exact Ht].
    destruct t as [|c t].
    - rewrite plugin_edits_nil in Hc. cbn [tr_edits map commit] in Hc. inversion Hc; subst. exact HR.
    - destruct (plugin_edits_translate_ok p (c :: t) Hwf) as [Hok Hu].
      eapply PF.RU_commit; [exact HR | rewrite Hcur; exact Hok | exact Hu | exact Hc |].
      rewrite Ht. apply enc_nonempty. apply Hne. discriminate.
  Qed.

  (* a plugin stack on a buffer: each plugin reads the buffer's text as code points, its edits go to commit as byte edits *)
  Inductive stack_run : list plugin -> buf -> buf -> Prop :=
  | SR_nil s : stack_run [] s s
  | SR_cons p ps s t s' s'' :
      cur s = enc t -> commit cfg s (tr_edits t (plugin_edits p t)) = Ok s' -> stack_run ps s' s'' ->
      stack_run (p :: ps) s s''.

  Lemma stack_reaches_from : forall t0 ps s s', stack_run ps s s' -> forall t,
    PF.ReachU cfg (enc t0) s -> cur s = enc t -> Forall plugin_wf ps -> stack_nonempty ps t ->
    PF.ReachU cfg (enc t0) s' /\ cur s' = enc (stack_spec ps t).
  Proof.
    intros t0 ps s s' H. induction H as [s | p ps s t1 s1 s2 Hc1 Hcommit Hrun IH]; intros t HR Hcur Hwf Hne.
    - split; assumption.
    - assert (t1 = t) by (apply enc_inj; congruence). subst t1.
      inversion Hwf as [|? ? Hp Hps]; subst. cbn [stack_nonempty] in Hne. destruct Hne as [Hn1 Hn2].
      destruct (plugin_step t0 s t p s1 HR Hcur Hp Hn1 Hcommit) as [HR1 Hc1'].
      cbn [stack_spec]. exact (IH _ HR1 Hc1' Hps Hn2).
  Qed.

  Lemma start_reach : forall t0 s0, start_build cfg (enc t0) = Ok s0 -> PF.ReachU cfg (enc t0) s0 /\ cur s0 = enc t0.
  Proof.
    intros t0 s0 H. split; [apply PF.RU_start; exact H|].
    unfold start_build in H. destruct (cmp_eval _ _ _); [discriminate|]. inversion H; subst. reflexivity.
  Qed.

  (* (4) every run of every plugin stack from start_build (enc t0) *)
  Theorem plugin_stack_reaches : forall ps t0 s0 s,
    Forall plugin_wf ps -> stack_nonempty ps t0 ->
    start_build cfg (enc t0) = Ok s0 -> stack_run ps s0 s ->
    PF.ReachU cfg (enc t0) s /\ cur s = enc (stack_spec ps t0).
  Proof.
    intros ps t0 s0 s Hwf Hne Hs Hrun. destruct (start_reach t0 s0 Hs) as [HR Hc].
    exact (stack_reaches_from t0 ps s0 s Hrun t0 HR Hc Hwf Hne).
  Qed.

  (* the length limits under which the stack does run through: per plugin, the running length inside resolve_edits never
     trips its guard and the final length passes commit's guard *)
  Fixpoint stack_within (ps : list plugin) (t : Nz.text) : Prop :=
    match ps with
    | [] => True
    | p :: r => within_from cfg t (plugin_edits p t) (Z.of_nat (length (enc t))) = true
                /\ commit_within cfg (plugin_spec p t) = true
                /\ stack_within r (plugin_spec p t)
    end.

  Lemma stack_runs_from : forall t0 ps s t,
    PF.ReachU cfg (enc t0) s -> cur s = enc t -> Forall plugin_wf ps -> stack_nonempty ps t -> stack_within ps t ->
    exists s', stack_run ps s s'.
  Proof.
    intros t0. induction ps as [|p ps IH]; intros s t HR Hcur Hwf Hne Hin.
    - exists s. constructor.
    - inversion Hwf as [|? ? Hp Hps]; subst. cbn [stack_nonempty] in Hne. destruct Hne as [Hn1 Hn2].
      cbn [stack_within] in Hin. destruct Hin as (Hw & Hcw & Hin).
      pose proof (reach_inv cfg Hcfg _ _ (PF.enc_wf t0) (PF.reachU_reach cfg _ _ HR)) as (_ & HB & _).
      pose proof (BMap_length _ _ _ HB) as Hlen.
      destruct (tr_commit cfg Hcfg t s _ _ Hcur Hlen (plugin_apply p t Hp)) as [_ HBk].
      destruct (HBk Hw Hcw) as [s1 Hc].
      destruct (plugin_step t0 s t p s1 HR Hcur Hp Hn1 Hc) as [HR1 Hc1].
      destruct (IH s1 _ HR1 Hc1 Hps Hn2 Hin) as [s2 Hrun].
      exists s2. econstructor; eauto.
  Qed.

  (* within the limits no plugin stack panics or is rejected *)
  Theorem plugin_stack_runs : forall ps t0 s0,
    Forall plugin_wf ps -> stack_nonempty ps t0 -> stack_within ps t0 ->
    start_build cfg (enc t0) = Ok s0 -> exists s, stack_run ps s0 s.
  Proof.
    intros ps t0 s0 Hwf Hne Hin Hs. destruct (start_reach t0 s0 Hs) as [HR Hc].
    exact (stack_runs_from t0 ps s0 t0 HR Hc Hwf Hne Hin).
  Qed.

  (* C08 for the real plugin stacks: the offset map after any stack satisfies the invariant *)
  Theorem plugin_stack_offset_map : forall ps t0 s0 s,
    Forall plugin_wf ps -> stack_nonempty ps t0 ->
    start_build cfg (enc t0) = Ok s0 -> stack_run ps s0 s ->
    InvPos (enc t0) s.
  Proof.
    intros ps t0 s0 s Hwf Hne Hs Hrun. destruct (plugin_stack_reaches ps t0 s0 s Hwf Hne Hs Hrun) as [HR _].
    exact (inv_all_batches cfg Hcfg _ _ (PF.enc_wf t0) (PF.reachU_reach cfg _ _ HR)).
  Qed.
End Stack.

(* a simple sufficient condition for the guard inside resolve_edits, for the `>` comparison of the code:
   the text plus everything the batch inserts fits the limit *)
Fixpoint inserted_bytes (es : list Nz.edit) : nat :=
  match es with [] => 0 | e :: r => length (enc (Nz.e_repl e)) + inserted_bytes r end.

Lemma within_from_simple : forall cfg t es cl,
  c_resolve_cmp cfg = ">"%string ->
  (cl + Z.of_nat (inserted_bytes es) <= Z.of_N (c_resolve_limit cfg))%Z ->
  within_from cfg t es cl = true.
Proof.
  intros cfg t es. induction es as [|e es IH]; intros cl Hc Hb; [reflexivity|].
  cbn [within_from inserted_bytes] in *. rewrite Hc, cmp_gt. unfold delta_of.
  apply andb_true_iff. split.
  - apply negb_true_iff. apply Z.ltb_ge. lia.
  - apply IH; [exact Hc|]. lia.
Qed.

Lemma commit_within_simple : forall cfg r,
  c_commit_cmp cfg = ">"%string -> (Z.of_N (c_commit_limit cfg) < 18446744073709551616)%Z ->
  (Z.of_nat (length (enc r)) <= Z.of_N (c_commit_limit cfg))%Z ->
  commit_within cfg r = true.
Proof.
  intros cfg r Hc Hl Hb. unfold commit_within, as_usize. rewrite Hc, cmp_gt. apply negb_true_iff. apply Z.ltb_ge.
  rewrite Z.mod_small by lia. exact Hb.
Qed.

(* the limits in plain numbers, for the `>` guards of the code: before each plugin, the text plus everything the plugin
   inserts fits REALLY_MAX_LENGTH (the guard inside resolve_edits), and so does the text it produces (commit's guard) *)
Fixpoint stack_fits (cfg : bcfg) (ps : list plugin) (t : Nz.text) : Prop :=
  match ps with
  | [] => True
  | p :: r => (Z.of_nat (length (enc t)) + Z.of_nat (inserted_bytes (plugin_edits p t)) <= Z.of_N (c_resolve_limit cfg))%Z
              /\ (Z.of_nat (length (enc (plugin_spec p t))) <= Z.of_N (c_commit_limit cfg))%Z
              /\ stack_fits cfg r (plugin_spec p t)
  end.

Lemma stack_fits_within : forall cfg ps t,
  c_resolve_cmp cfg = ">"%string -> c_commit_cmp cfg = ">"%string ->
  (Z.of_N (c_commit_limit cfg) < 18446744073709551616)%Z ->
  stack_fits cfg ps t -> stack_within cfg ps t.
Proof.
  intros cfg ps. induction ps as [|p ps IH]; intros t H1 H2 H3 H; [exact I|].
  cbn [stack_fits stack_within] in *. destruct H as (Ha & Hb & Hc). repeat split.
  - apply within_from_simple; assumption.
  - apply commit_within_simple; assumption.
  - apply IH; assumption.
Qed.

Section StackSimple.
  Hypothesis F_slow : Generated.NormalizeFacts.slow_search_earliest = false.
  Hypothesis F_guard : Generated.NormalizeFacts.lowercase_guard_is_uppercase = false.
  Hypothesis F_path : Generated.NormalizeFacts.path_guard_is_uppercase = false.

  (* existence and characterisation together, limits in plain numbers *)
  Theorem plugin_stack_total : forall cfg, cfg_ok cfg = true ->
    c_resolve_cmp cfg = ">"%string -> c_commit_cmp cfg = ">"%string ->
    (Z.of_N (c_commit_limit cfg) < 18446744073709551616)%Z ->
    forall ps t0 s0,
      Forall plugin_wf ps -> stack_nonempty ps t0 -> stack_fits cfg ps t0 ->
      start_build cfg (enc t0) = Ok s0 ->
      exists s, stack_run cfg ps s0 s /\ PF.ReachU cfg (enc t0) s /\ cur s = enc (stack_spec ps t0) /\ InvPos (enc t0) s.
  Proof.
    intros cfg Hcfg H1 H2 H3 ps t0 s0 Hwf Hne Hfit Hs.
    destruct (plugin_stack_runs F_slow F_guard F_path cfg Hcfg ps t0 s0 Hwf Hne (stack_fits_within cfg ps t0 H1 H2 H3 Hfit) Hs) as [s Hrun].
    destruct (plugin_stack_reaches F_slow F_guard F_path cfg Hcfg ps t0 s0 s Hwf Hne Hs Hrun) as [HR Hc].
    exists s. split; [exact Hrun|]. split; [exact HR|]. split; [exact Hc|].
    exact (plugin_stack_offset_map F_slow F_guard F_path cfg Hcfg ps t0 s0 s Hwf Hne Hs Hrun).
  Qed.
End StackSimple.

(* ------------------------------------------------------------------ C01 for the real plugin stacks *)
(* PipelineFull.pipeline_partitions_original with its hypotheses `Reach` and `cur s = enc t` discharged by the stack
   theorem: after ANY stack of the three input-text plugins, lattice -> best path -> path-rewrite plugins -> split in
   mode m (under C09's well-formedness, over the SPECIFIED text stack_spec ps t0) partitions the original text *)
From SudachiVerif Require Import Model.Lattice Proofs.PipelineProofs.
From SudachiVerif Require Model.Rewrite Model.Split.

Section StackPipeline.
  Hypothesis F_slow : Generated.NormalizeFacts.slow_search_earliest = false.
  Hypothesis F_guard : Generated.NormalizeFacts.lowercase_guard_is_uppercase = false.
  Hypothesis F_path : Generated.NormalizeFacts.path_guard_is_uppercase = false.
  Variable cfg : bcfg.
  Hypothesis Hcfg : cfg_ok cfg = true.

  Theorem plugin_stack_pipeline_partitions : forall (conn : N -> N -> Z) ps t0 s0 s,
    Forall plugin_wf ps -> stack_nonempty ps t0 ->
    start_build cfg (enc t0) = Ok s0 -> stack_run cfg ps s0 s ->
    forall ns r i c,
      nodes_ok (nchars (cur s)) ns -> (0 < nchars (cur s))%nat ->
      connect_eos conn (insert_all conn (reset (nchars (cur s))) ns) = Some (r, i, c) ->
      exists es p,
        top_path conn (insert_all conn (reset (nchars (cur s))) ns) = Some es /\
        map enode es = map Some p /\ path_cost conn p = c /\
        forall pr pls q sps hw key ua ub m,
          Forall2 (PF.rnode_of (cur s)) p pr ->
          Rewrite.run_plugins pls pr = Some (Rewrite.Ok q) ->
          Forall2 PF.snode_of q sps ->
          Split.split_facts_ok = true -> PF.mode_wf hw key (stack_spec ps t0) ua ub m sps ->
          exists final,
            Split.tokenize_mode hw (stack_spec ps t0) ua ub m sps = Some final /\
            let ranges := map (map_range (m2o s)) (map PF.sbytes final) in
            partition_b (enc t0) ranges = true /\
            concat (map (byte_slice (enc t0)) ranges) = enc t0 /\
            (forall n, In n final ->
               orig_slice s (fst (PF.sbytes n)) (snd (PF.sbytes n)) = Some (byte_slice (enc t0) (map_range (m2o s) (PF.sbytes n)))).
  Proof.
    intros conn ps t0 s0 s Hwf Hne Hs Hrun ns r i c Hok Hpos Heos.
    destruct (plugin_stack_reaches F_slow F_guard F_path cfg Hcfg ps t0 s0 s Hwf Hne Hs Hrun) as [HR Hc].
    exact (PF.pipeline_partitions_original cfg Hcfg conn (enc t0) s (stack_spec ps t0) ns r i c (PF.enc_wf t0)
             (PF.reachU_reach cfg _ _ HR) Hc Hok Hpos Heos).
  Qed.
End StackPipeline.

(* the specified text after a configured list of plugin instances is the fold of the per-instance specifications, in
   configured order - instances of the same class are separate elements of the list *)
Lemma stack_spec_is_fold : forall ps t, stack_spec ps t = fold_left (fun cur p => plugin_spec p cur) ps t.
Proof. induction ps as [|p ps IH]; intros t; [reflexivity|]. cbn [stack_spec fold_left]. apply IH. Qed.

Lemma stack_spec_app : forall ps qs t, stack_spec (ps ++ qs) t = stack_spec qs (stack_spec ps t).
Proof. induction ps as [|p ps IH]; intros qs t; [reflexivity|]. cbn [app stack_spec]. apply IH. Qed.
