(* C06 — lemmas about Model/Build.v, for every fact record F with bfacts_ok F = true. *)
From Coq Require Import List ZArith NArith Bool Lia.
From SudachiVerif Require Import Model.GuardLang Model.Params Model.Build Proofs.GuardProofs Proofs.ParamsProofs.
Import ListNotations.
Open Scope Z_scope.

Section Sound.
Variable F : bfacts.
Hypothesis HF : bfacts_ok F = true.

Lemma bfacts_parts :
  existsb (fun g => rejects_all_ge g NumRight && plain_rhs g) (b_left_g F ++ b_left_gi F) = true
  /\ covers_strict (b_right_g F ++ b_right_gi F) NumLeft = true
  /\ b_indexed F = mkG CastNone CGe (OConst 0)
  /\ b_wid_cmp F = CGe
  /\ (forall n, fires (b_list_len F) 0 0 n = false -> n <= 127)
  /\ b_empty_panics F = false /\ b_nul_err F = true /\ b_empty_trie_err F = true
  /\ existsb (fun g => rejects_all_neg g NumLeft) (b_hdr_left_g F) = true
  /\ existsb (fun g => rejects_all_neg g NumRight) (b_hdr_right_g F) = true
  /\ covers_strict (b_elem_left_g F) NumLeft = true /\ covers_strict (b_elem_right_g F) NumRight = true
  /\ index_shape_ok (b_elem_index F) = true /\ index_shape_ok (b_matrix_index F) = true
  /\ b_arg_left F = KRightId /\ b_arg_right F = KLeftId
  /\ b_index_checked F = true
  /\ (forall n, fires (b_index_len F) 0 0 n = false -> n <= 127).
Proof.
  pose proof HF as H. unfold bfacts_ok in H.
  do 17 (apply andb_true_iff in H; let H' := fresh "HB" in destruct H as [H H']).
  repeat split; try assumption.
  - match goal with Hx : context [b_indexed F] |- _ => rename Hx into Hi end.
    destruct (b_indexed F) as [[|] [| | | | |] [z| |]]; try discriminate. destruct z; try discriminate. reflexivity.
  - match goal with Hx : context [b_wid_cmp F] |- _ => rename Hx into Hw end.
    destruct (b_wid_cmp F); try discriminate; reflexivity.
  - match goal with Hx : context [b_list_len F] |- _ => rename Hx into Hl end.
    intros n Hn.
    destruct (b_list_len F) as [[|] [| | | | |] [c| |]]; try discriminate; unfold fires in Hn; cbn in Hn.
    + apply Z.leb_le in Hl. unfold Z.gtb in Hn. destruct (n ?= c) eqn:E; try discriminate.
      * apply Z.compare_eq in E. lia.
      * rewrite Z.compare_lt_iff in E. lia.
    + apply Z.leb_le in Hl. unfold Z.geb in Hn. destruct (n ?= c) eqn:E; try discriminate. rewrite Z.compare_lt_iff in E. lia.
  - match goal with Hx : negb (b_empty_panics F) = true |- _ => apply negb_true_iff in Hx; exact Hx end.
  - match goal with Hx : idkind_eqb (b_arg_left F) KRightId = true |- _ => destruct (b_arg_left F); [discriminate|reflexivity] end.
  - match goal with Hx : idkind_eqb (b_arg_right F) KLeftId = true |- _ => destruct (b_arg_right F); [reflexivity|discriminate] end.
  - match goal with Hx : context [b_index_len F] |- _ => rename Hx into Hl end.
    intros n Hn.
    destruct (b_index_len F) as [[|] [| | | | |] [c| |]]; try discriminate; unfold fires in Hn; cbn in Hn.
    + apply Z.leb_le in Hl. unfold Z.gtb in Hn. destruct (n ?= c) eqn:E; try discriminate.
      * apply Z.compare_eq in E. lia.
      * rewrite Z.compare_lt_iff in E. lia.
    + apply Z.leb_le in Hl. unfold Z.geb in Hn. destruct (n ?= c) eqn:E; try discriminate. rewrite Z.compare_lt_iff in E. lia.
Qed.

Definition conn_wf (c : conn) : Prop :=
  0 <= c_nl c <= 32767 /\ 0 <= c_nr c <= 32767 /\ forall s, In s (c_stores c) -> 0 <= fst s < c_nl c * c_nr c.

Lemma parse_i16_range : forall t z, parse_i16 t = Some z -> -32768 <= z <= 32767.
Proof. intros [z'|] z H; cbn in H; [|discriminate]. destruct (in_ity I16 z') eqn:E; [|discriminate]. inversion H; subst. apply in_i16. exact E. Qed.

Lemma write_elem_sound : forall c l r v, conn_wf c -> -32768 <= l <= 32767 -> -32768 <= r <= 32767 ->
  match write_elem F c l r v with
  | Ok c' => conn_wf c' /\ c_nl c' = c_nl c /\ c_nr c' = c_nr c /\ 0 <= l < c_nl c /\ 0 <= r < c_nr c
             /\ c_stores c' = (r * c_nl c + l, v) :: c_stores c
  | Err => True
  | Panic => False
  end.
Proof.
  intros c l r v (Wl & Wr & Ws) Hl Hr. destruct bfacts_parts as (_ & _ & _ & _ & _ & _ & _ & _ & _ & _ & Gl & Gr & Ie & _).
  unfold write_elem.
  destruct (accepted (b_elem_left_g F) (c_nl c) (c_nr c) l && accepted (b_elem_right_g F) (c_nl c) (c_nr c) r) eqn:A; [|exact I].
  apply andb_true_iff in A as [Al Ar].
  assert (0 <= dim_val NumLeft (c_nl c) (c_nr c) < 9223372036854775808) as Dl by (cbn [dim_val]; lia).
  assert (0 <= dim_val NumRight (c_nl c) (c_nr c) < 9223372036854775808) as Dr by (cbn [dim_val]; lia).
  assert (-9223372036854775808 <= l < 9223372036854775808) as Xl by lia.
  assert (-9223372036854775808 <= r < 9223372036854775808) as Xr by lia.
  pose proof (guard_sound_strict (b_elem_left_g F) NumLeft (c_nl c) (c_nr c) l Gl Dl Xl Al) as Bl.
  pose proof (guard_sound_strict (b_elem_right_g F) NumRight (c_nl c) (c_nr c) r Gr Dr Xr Ar) as Br.
  cbn [dim_val] in Bl, Br.
  assert ((l <? 0) || (r <? 0) = false) as En.
  { apply orb_false_iff. split; apply Z.ltb_ge; lia. }
  rewrite En. rewrite (index_shape_eval _ l r (c_nl c) (c_nr c) Ie).
  pose proof (index_in_range l r (c_nl c) (c_nr c) Bl Br) as Bi.
  assert ((0 <=? r * c_nl c + l) && (2 * (r * c_nl c + l) + 1 <? 2 * (c_nl c * c_nr c)) = true) as Eb.
  { apply andb_true_iff. split; [apply Z.leb_le|apply Z.ltb_lt]; lia. }
  rewrite Eb. unfold conn_wf. cbn [c_nl c_nr c_stores].
  split; [|split; [reflexivity|split; [reflexivity|split; [lia|split; [lia|reflexivity]]]]].
  split; [lia|split; [lia|]].
  intros s0 [<-|Hin]; [cbn [fst]; lia|apply Ws; exact Hin].
Qed.

Lemma parse_line_sound : forall c ln, conn_wf c ->
  match parse_line F c ln with
  | Ok c' => conn_wf c' /\ c_nl c' = c_nl c /\ c_nr c' = c_nr c
  | Err => True
  | Panic => False
  end.
Proof.
  intros c ln W. unfold parse_line.
  destruct (splitn (b_line_fields F) ln) as [|a [|b [|d [|x t]]]]; try exact I.
  destruct (parse_i16 a) as [l|] eqn:Ea; [|exact I]. destruct (parse_i16 b) as [r|] eqn:Eb; [|exact I].
  destruct (parse_i16 d) as [v|] eqn:Ed; [|exact I].
  pose proof (write_elem_sound c l r v W (parse_i16_range _ _ Ea) (parse_i16_range _ _ Eb)) as H.
  destruct (write_elem F c l r v); [|exact I|exact H]. destruct H as (A & B & C & _). auto.
Qed.

Lemma read_lines_sound : forall ls c, conn_wf c ->
  match read_lines F c ls with
  | Ok c' => conn_wf c' /\ c_nl c' = c_nl c /\ c_nr c' = c_nr c
  | Err => True
  | Panic => False
  end.
Proof.
  induction ls as [|ln t IH]; intros c W; cbn [read_lines]; [auto|].
  destruct ln as [|x xs]; [apply IH; exact W|].
  pose proof (parse_line_sound c (x :: xs) W) as H.
  destruct (parse_line F c (x :: xs)) as [c'| |]; [|exact I|exact H].
  destruct H as (W' & E1 & E2). specialize (IH c' W'). destruct (read_lines F c' t); [|exact I|exact IH].
  destruct IH as (A & B & C). split; [exact A|split; congruence].
Qed.

Lemma hdr_nonneg : forall gs d x, existsb (fun g => rejects_all_neg g d) gs = true -> -32768 <= x <= 32767 ->
  accepted gs 0 0 x = true -> 0 <= x.
Proof.
  intros gs d x He Hx Ha. apply existsb_exists in He as [g [Hin Hg]].
  apply (rejects_all_neg_sound g d 0 0 x Hg); [destruct d; cbn; lia|lia|exact (accepted_forall _ _ _ _ Ha g Hin)].
Qed.

Lemma conn_read_sound : forall ls,
  match conn_read F ls with
  | Ok c => conn_wf c
  | Err => True
  | Panic => False
  end.
Proof.
  intros ls. destruct bfacts_parts as (_ & _ & _ & _ & _ & Ep & _ & _ & Hl & Hr & _).
  unfold conn_read. destruct (skip_blank ls) as [|hdr rest]; [rewrite Ep; exact I|].
  destruct (splitn (b_hdr_fields F) hdr) as [|a [|b [|x t]]]; try exact I.
  destruct (parse_i16 a) as [l|] eqn:Ea; [|exact I]. destruct (parse_i16 b) as [r|] eqn:Eb; [|exact I].
  destruct (accepted (b_hdr_left_g F) 0 0 l && accepted (b_hdr_right_g F) 0 0 r) eqn:A; [|exact I].
  apply andb_true_iff in A as [Al Ar].
  pose proof (parse_i16_range _ _ Ea) as Rl. pose proof (parse_i16_range _ _ Eb) as Rr.
  pose proof (hdr_nonneg _ _ _ Hl Rl Al) as Nl. pose proof (hdr_nonneg _ _ _ Hr Rr Ar) as Nr.
  assert ((l <? 0) || (r <? 0) = false) as En by (apply orb_false_iff; split; apply Z.ltb_ge; lia).
  rewrite En.
  assert (conn_wf (mkConn l r [])) as W by (unfold conn_wf; cbn; repeat split; try lia; intros s []).
  pose proof (read_lines_sound rest _ W) as H. destruct (read_lines F (mkConn l r []) rest); [|exact I|exact H].
  destruct H as (A & _). exact A.
Qed.

(* ---------- records ---------- *)

Lemma parse_wid_range : forall w u n, parse_wid F w = Some (u, n) -> 0 <= n.
Proof.
  intros [u' n'|] u n H; cbn in H; [|discriminate].
  destruct ((0 <=? n') && (n' <=? b_word_mask F) && (n' <=? 4294967295)) eqn:E; [|discriminate].
  inversion H; subst. apply andb_true_iff in E as [E _]. apply andb_true_iff in E as [E _]. apply Z.leb_le in E. exact E.
Qed.

Lemma parse_wids_range : forall l ws, parse_wids F l = Some ws -> forall w, In w ws -> 0 <= snd w.
Proof.
  induction l as [|x t IH]; intros ws H w Hin; cbn [parse_wids] in H.
  - inversion H; subst. destruct Hin.
  - destruct (parse_wid F x) as [[u n]|] eqn:E1; [|discriminate]. destruct (parse_wids F t) as [xs|] eqn:E2; [|discriminate].
    inversion H; subst. destruct Hin as [<-|Hin]; [cbn [snd]; eapply parse_wid_range; exact E1|eapply IH; eauto].
Qed.

Lemma parse_wid_list_sound : forall l ws, parse_wid_list F l = Some ws ->
  Z.of_nat (List.length ws) <= 127 /\ forall w, In w ws -> 0 <= snd w.
Proof.
  intros l ws H. destruct bfacts_parts as (_ & _ & _ & _ & Hlen & _). unfold parse_wid_list in H.
  destruct (parse_wids F l) as [xs|] eqn:E; [|discriminate].
  destruct (fires (b_list_len F) 0 0 (Z.of_nat (List.length xs))) eqn:Fi; [discriminate|]. inversion H; subst.
  split; [apply Hlen; exact Fi|eapply parse_wids_range; exact E].
Qed.

Definition entry_parsed_ok (e : entry) : Prop :=
  -32768 <= e_left e <= 32767 /\ -32768 <= e_right e <= 32767 /\ entry_limits_ok e = true
  /\ (forall w, In w (entry_refs e) -> 0 <= snd w) /\ e_surface_nul e = false.

Lemma num16_range : forall f z, num16 f = Some z -> -32768 <= z <= 32767.
Proof. intros [z'|] z H; cbn in H; [|discriminate]. destruct (in_ity I16 z') eqn:E; [|discriminate]. inversion H; subst. apply in_i16. exact E. Qed.

Lemma parse_record_sound : forall r e, parse_record F r = Some e -> entry_parsed_ok e /\ e_splits_concat e = r_splits_concat r.
Proof.
  intros r e H. unfold parse_record in H. destruct bfacts_parts as (_ & _ & _ & _ & _ & _ & Nu & _).
  destruct ((18 <=? r_ncols r) && r_strings_ok r && negb (r_surface_empty r) && r_syn_ok r && negb (r_surface_nul r && b_nul_err F)
            && negb (r_surface_nul_raw r && b_nul_raw_err F)) eqn:C0; [|discriminate].
  apply andb_true_iff in C0 as [C0 _]. apply andb_true_iff in C0 as [_ C0]. rewrite Nu, andb_true_r in C0. apply negb_true_iff in C0.
  destruct (num16 (r_left r)) as [l|] eqn:El; [|discriminate]. destruct (num16 (r_right r)) as [rr|] eqn:Er; [|discriminate].
  destruct (num16 (r_cost r)) as [c|] eqn:Ec; [|discriminate]. destruct (r_mode r) as [m|]; [|discriminate].
  destruct (parse_wid_list F (r_split_a r)) as [sa|] eqn:Ea; [|discriminate].
  destruct (parse_wid_list F (r_split_b r)) as [sb|] eqn:Eb; [|discriminate].
  destruct (parse_wid_list F (r_wstruct r)) as [ws|] eqn:Ew; [|discriminate].
  destruct ((0 <=? m) && (m <=? 2) && negb ((m =? 0) && negb match sa, sb with [], [] => true | _, _ => false end)); [|discriminate].
  pose proof (num16_range _ _ El) as Rl. pose proof (num16_range _ _ Er) as Rr. pose proof (num16_range _ _ Ec) as Rc.
  destruct (parse_wid_list_sound _ _ Ea) as [La Na]. destruct (parse_wid_list_sound _ _ Eb) as [Lb Nb].
  destruct (parse_wid_list_sound _ _ Ew) as [Lw Nw].
  assert (forall d, entry_limits_ok (mkEntry l rr c d sa sb ws (r_splits_concat r) (r_surface_nul r) (r_surface r)) = true) as Lim.
  { intros d. unfold entry_limits_ok. cbn [e_split_a e_split_b e_wstruct e_cost].
    repeat (apply andb_true_iff; split); apply Z.leb_le; lia. }
  destruct (r_dic_form r) as [w|].
  - destruct (parse_wid F w) as [[u n]|] eqn:Ed; [|discriminate]. inversion H; subst. split; [|reflexivity].
    unfold entry_parsed_ok. cbn [e_left e_right e_surface_nul].
    split; [lia|split; [lia|split; [apply Lim|split; [|exact C0]]]].
    intros x Hin. unfold entry_refs in Hin. cbn [e_dic_form e_split_a e_split_b e_wstruct] in Hin.
    repeat (apply in_app_or in Hin as [Hin|Hin]); auto.
    destruct Hin as [<-|[]]. cbn [snd]. eapply parse_wid_range; exact Ed.
  - inversion H; subst. split; [|reflexivity].
    unfold entry_parsed_ok. cbn [e_left e_right e_surface_nul].
    split; [lia|split; [lia|split; [apply Lim|split; [|exact C0]]]].
    intros x Hin. unfold entry_refs in Hin. cbn [e_dic_form e_split_a e_split_b e_wstruct] in Hin.
    repeat (apply in_app_or in Hin as [Hin|Hin]); auto. destruct Hin.
Qed.

Lemma parse_records_sound : forall rs es, parse_records F rs = Some es ->
  (forall e, In e es -> entry_parsed_ok e) /\ map e_splits_concat es = map r_splits_concat rs.
Proof.
  induction rs as [|r t IH]; intros es H; cbn [parse_records] in H.
  - inversion H; subst. split; [intros e []|reflexivity].
  - destruct (parse_record F r) as [e|] eqn:E1; [|discriminate]. destruct (parse_records F t) as [xs|] eqn:E2; [|discriminate].
    inversion H; subst. destruct (parse_record_sound _ _ E1) as [P C]. destruct (IH _ eq_refl) as [Ps Cs].
    split; [intros x [<-|Hin]; auto|cbn [map]; congruence].
Qed.

(* ---------- validation ---------- *)

Lemma indexed_iff : forall e, indexed F e = true <-> 0 <= e_left e.
Proof.
  intros e. destruct bfacts_parts as (_ & _ & Ei & _). unfold indexed. rewrite Ei. unfold fires. cbn.
  unfold Z.geb. destruct (e_left e ?= 0) eqn:E.
  - apply Z.compare_eq in E. split; [lia|reflexivity].
  - rewrite Z.compare_lt_iff in E. split; [discriminate|lia].
  - rewrite Z.compare_gt_iff in E. split; [lia|reflexivity].
Qed.

Lemma wid_ok_sound : forall max0 max1 w, wid_ok F max0 max1 w = true -> snd w < (if fst w then max1 else max0).
Proof.
  intros max0 max1 w H. destruct bfacts_parts as (_ & _ & _ & Ec & _). unfold wid_ok in H. rewrite Ec in H.
  apply negb_true_iff in H. cbn [cmp_eval] in H. unfold Z.geb in H.
  destruct (snd w ?= (if fst w then max1 else max0)) eqn:E; try discriminate. rewrite Z.compare_lt_iff in E. exact E.
Qed.

Lemma entry_ok_sound : forall nl nr max0 max1 e, 0 <= nl <= 32767 -> 0 <= nr <= 32767 -> entry_parsed_ok e ->
  entry_ok F nl nr max0 max1 e = true ->
  (0 <= e_left e -> e_left e < nr /\ 0 <= e_right e < nl)
  /\ forall w, In w (entry_refs e) -> 0 <= snd w < (if fst w then max1 else max0).
Proof.
  intros nl nr max0 max1 e Wl Wr (Pl & Pr & _ & Pn & _) H. destruct bfacts_parts as (Gl & Gr & _).
  unfold entry_ok in H. apply andb_true_iff in H as [H Hw]. apply andb_true_iff in H as [H Hb]. apply andb_true_iff in H as [H Ha].
  apply andb_true_iff in H as [H Hd]. apply andb_true_iff in H as [H Hi]. apply andb_true_iff in H as [Al Ar].
  split.
  - intros Hidx. apply indexed_iff in Hidx. rewrite Hidx in Hi. apply andb_true_iff in Hi as [Ali Ari].
    assert (accepted (b_left_g F ++ b_left_gi F) nl nr (e_left e) = true) as AL by (rewrite accepted_app, Al, Ali; reflexivity).
    assert (accepted (b_right_g F ++ b_right_gi F) nl nr (e_right e) = true) as AR by (rewrite accepted_app, Ar, Ari; reflexivity).
    apply indexed_iff in Hidx. split.
    + apply existsb_exists in Gl as [g [Hin Hg]].
      apply (rejects_all_ge_plain_sound g NumRight nl nr (e_left e) Hg); [lia|exact (accepted_forall _ _ _ _ AL g Hin)].
    + assert (0 <= dim_val NumLeft nl nr < 9223372036854775808) as Dl by (cbn [dim_val]; lia).
      assert (-9223372036854775808 <= e_right e < 9223372036854775808) as Xr by lia.
      exact (guard_sound_strict _ NumLeft nl nr (e_right e) Gr Dl Xr AR).
  - intros w Hin. split; [apply Pn; exact Hin|]. apply wid_ok_sound. unfold entry_refs in Hin.
    repeat (apply in_app_or in Hin as [Hin|Hin]).
    + destruct (e_dic_form e) as [d|]; [|destruct Hin]. destruct Hin as [<-|[]]. exact Hd.
    + rewrite forallb_forall in Ha. apply Ha. exact Hin.
    + rewrite forallb_forall in Hb. apply Hb. exact Hin.
    + rewrite forallb_forall in Hw. apply Hw. exact Hin.
Qed.

Lemma no_nul_indexed : forall es, (forall e, In e es -> entry_parsed_ok e) ->
  existsb (fun e => indexed F e && e_surface_nul e) es = false.
Proof.
  intros es H. destruct (existsb _ es) eqn:E; [|reflexivity]. apply existsb_exists in E as [e [Hin He]].
  apply andb_true_iff in He as [_ He]. destruct (H e Hin) as (_ & _ & _ & _ & N). congruence.
Qed.

Theorem build_never_panics : forall inp, build_with F inp <> Panic.
Proof.
  intros inp. destruct bfacts_parts as (_ & _ & _ & _ & _ & _ & _ & Et & _). unfold build_with.
  assert (forall (X : res (Z * Z * list (Z * Z) * bool * Z)), X <> Panic ->
          match X with
          | Ok (nl, nr, st, user, nsys) =>
              match parse_records F (i_recs inp) with
              | Some es =>
                  if forallb (entry_ok F nl nr (if user then nsys else Z.of_nat (List.length es)) (if user then Z.of_nat (List.length es) else 0)) es
                  then if index_err F es then Err else
                       if existsb (indexed F) es
                       then if existsb (fun e => indexed F e && e_surface_nul e) es then Panic else Ok (mkDict nl nr st user nsys es)
                       else if b_empty_trie_err F then Err else Panic
                  else Err
              | None => Err
              end
          | Err => Err
          | Panic => Panic
          end <> Panic) as G.
  { intros X HX. destruct X as [[[[[nl nr] st] user] nsys]| |]; [|discriminate|exfalso; apply HX; reflexivity].
    destruct (parse_records F (i_recs inp)) as [es|] eqn:Ep; [|discriminate].
    destruct (forallb _ es); [|discriminate]. destruct (index_err F es); [discriminate|].
    destruct (existsb (indexed F) es); [|rewrite Et; discriminate].
    destruct (parse_records_sound _ _ Ep) as [Pe _]. rewrite (no_nul_indexed es Pe). discriminate. }
  apply G. destruct (i_base inp) as [m|a b n]; [|discriminate].
  pose proof (conn_read_sound m) as H. destruct (conn_read F m) as [c| |]; [discriminate|discriminate|contradiction].
Qed.

Theorem build_valid : forall inp d, input_wf inp -> build_with F inp = Ok d ->
  dict_valid d = true /\ stores_in_range d = true
  /\ 0 <= d_nl d <= 32767 /\ 0 <= d_nr d <= 32767
  /\ map e_splits_concat (d_entries d) = map r_splits_concat (i_recs inp)
  /\ existsb (fun e => 0 <=? e_left e) (d_entries d) = true.
Proof.
  intros inp d Wf H. unfold build_with in H.
  assert (exists nl nr st user nsys es,
    0 <= nl <= 32767 /\ 0 <= nr <= 32767 /\ (forall s, In s st -> 0 <= fst s < nl * nr) /\ (user = true -> 0 <= nsys)
    /\ parse_records F (i_recs inp) = Some es
    /\ forallb (entry_ok F nl nr (if user then nsys else Z.of_nat (List.length es)) (if user then Z.of_nat (List.length es) else 0)) es = true
    /\ existsb (indexed F) es = true
    /\ d = mkDict nl nr st user nsys es) as (nl & nr & st & user & nsys & es & Wl & Wr & Ws & Wn & Ep & Ev & Ex & ->).
  { unfold input_wf in Wf. destruct (i_base inp) as [m|a b n].
    - pose proof (conn_read_sound m) as C. destruct (conn_read F m) as [c| |]; try discriminate.
      destruct C as (C1 & C2 & C3).
      destruct (parse_records F (i_recs inp)) as [es|] eqn:Ep; [|discriminate].
      destruct (forallb _ es) eqn:Ev; [|discriminate]. destruct (index_err F es); [discriminate|].
      destruct (existsb (indexed F) es) eqn:Ex; [|destruct (b_empty_trie_err F); discriminate].
      destruct (existsb (fun e => indexed F e && e_surface_nul e) es); [discriminate|].
      inversion H; subst. exists (c_nl c), (c_nr c), (c_stores c), false, 0, es.
      split; [exact C1|split; [exact C2|split; [exact C3|split; [discriminate|split; [first [reflexivity|exact Ep]|split; [exact Ev|split; [exact Ex|reflexivity]]]]]]].
    - destruct Wf as (Wa & Wb & Wn).
      destruct (parse_records F (i_recs inp)) as [es|] eqn:Ep; [|discriminate].
      destruct (forallb _ es) eqn:Ev; [|discriminate]. destruct (index_err F es); [discriminate|].
      destruct (existsb (indexed F) es) eqn:Ex; [|destruct (b_empty_trie_err F); discriminate].
      destruct (existsb (fun e => indexed F e && e_surface_nul e) es); [discriminate|].
      inversion H; subst. exists a, b, [], true, n, es.
      split; [exact Wa|split; [exact Wb|split; [intros s0 []|split; [intros _; exact Wn|split; [first [reflexivity|exact Ep]|split; [exact Ev|split; [exact Ex|reflexivity]]]]]]]. }
  destruct (parse_records_sound _ _ Ep) as [Pe Pc].
  split; [|split; [|split; [exact Wl|split; [exact Wr|split; [exact Pc|]]]]].
  - unfold dict_valid. cbn [d_entries]. apply forallb_forall. intros e Hin.
    rewrite forallb_forall in Ev. specialize (Ev e Hin). destruct (Pe e Hin) as (Pl & Pr & Plim & Pn & _).
    destruct (entry_ok_sound _ _ _ _ e Wl Wr (Pe e Hin) Ev) as [Ids Refs].
    apply andb_true_iff. split; [apply andb_true_iff; split; [|exact Plim]|].
    + unfold entry_ids_ok. cbn [d_nl d_nr]. destruct (0 <=? e_left e) eqn:E; [|reflexivity]. apply Z.leb_le in E.
      destruct (Ids E) as [A [B C]]. repeat (apply andb_true_iff; split); try apply Z.ltb_lt; try apply Z.leb_le; lia.
    + apply forallb_forall. intros w Hw. specialize (Refs w Hw). unfold ref_exists. cbn [d_entries d_user d_num_system].
      apply andb_true_iff. split; [apply Z.leb_le; lia|apply Z.ltb_lt].
      destruct (fst w), user; lia.
  - unfold stores_in_range. cbn [d_stores d_nl d_nr]. apply forallb_forall. intros s Hin. specialize (Ws s Hin).
    apply andb_true_iff. split; [apply Z.leb_le|apply Z.ltb_lt]; lia.
  - cbn [d_entries]. apply existsb_exists in Ex as [e [Hin Hi]]. apply existsb_exists. exists e. split; [exact Hin|].
    apply Z.leb_le. apply indexed_iff. exact Hi.
Qed.

(* a compiled dictionary has at least one row and one column (the BOS/EOS id 0 exists): the precondition of C20 *)
Theorem compiled_matrix_nonempty : forall inp d, input_wf inp -> build_with F inp = Ok d -> 1 <= d_nl d /\ 1 <= d_nr d.
Proof.
  intros inp d Wf H. destruct (build_valid inp d Wf H) as (V & _ & _ & _ & _ & Ex).
  apply existsb_exists in Ex as [e [Hin He]]. unfold dict_valid in V. rewrite forallb_forall in V. specialize (V e Hin).
  apply andb_true_iff in V as [V _]. apply andb_true_iff in V as [V _]. unfold entry_ids_ok in V. rewrite He in V.
  apply andb_true_iff in V as [V V3]. apply andb_true_iff in V as [V1 V2].
  apply Z.leb_le in He, V2. apply Z.ltb_lt in V1, V3. lia.
Qed.

(* consequently the connection lookup analysis performs for any two indexed entries stays inside the matrix *)

Theorem validated_ids_index_safe : forall inp d a b, input_wf inp -> build_with F inp = Ok d ->
  In a (d_entries d) -> In b (d_entries d) -> 0 <= e_left a -> 0 <= e_left b ->
  let i := iexp_eval (b_matrix_index F) (entry_id (b_arg_left F) a) (entry_id (b_arg_right F) b) (d_nl d) (d_nr d) in
  0 <= entry_id (b_arg_left F) a < d_nl d /\ 0 <= entry_id (b_arg_right F) b < d_nr d /\ 0 <= i < d_nl d * d_nr d.
Proof.
  intros inp d a b Wf H Ha Hb Ia Ib. destruct bfacts_parts as (_ & _ & _ & _ & _ & _ & _ & _ & _ & _ & _ & _ & _ & Im & EL & ER & _).
  destruct (build_valid inp d Wf H) as (V & _). unfold dict_valid in V. rewrite forallb_forall in V.
  pose proof (V a Ha) as Va. pose proof (V b Hb) as Vb.
  apply andb_true_iff in Va as [Va _]. apply andb_true_iff in Va as [Va _].
  apply andb_true_iff in Vb as [Vb _]. apply andb_true_iff in Vb as [Vb _].
  unfold entry_ids_ok in Va, Vb.
  assert (0 <=? e_left a = true) as Ea by (apply Z.leb_le; lia). assert (0 <=? e_left b = true) as Eb by (apply Z.leb_le; lia).
  rewrite Ea in Va. rewrite Eb in Vb.
  apply andb_true_iff in Va as [Va Va3]. apply andb_true_iff in Va as [Va1 Va2].
  apply andb_true_iff in Vb as [Vb Vb3]. apply andb_true_iff in Vb as [Vb1 Vb2].
  apply Z.ltb_lt in Va1, Va3, Vb1, Vb3. apply Z.leb_le in Va2, Vb2.
  rewrite EL, ER. cbn [entry_id]. cbv zeta. rewrite (index_shape_eval _ _ _ _ _ Im).
  split; [lia|split; [lia|apply index_in_range; lia]].
Qed.

Theorem sink_failure_propagates : forall inp total k d, k < total -> build_with_sink F inp total k <> Ok d.
Proof.
  intros inp total k d Hk. unfold build_with_sink. destruct (build_with F inp); try discriminate.
  assert (k <? total = true) as E by (apply Z.ltb_lt; exact Hk). rewrite E. discriminate.
Qed.

Theorem sink_never_panics : forall inp total k, build_with_sink F inp total k <> Panic.
Proof.
  intros inp total k. unfold build_with_sink. pose proof (build_never_panics inp) as NP.
  destruct (build_with F inp); [destruct (k <? total); discriminate|discriminate|contradiction].
Qed.

(* the full validity (incl. split units spelling the headword) holds whenever the offered rows have that property *)
Theorem build_valid_full_partial : forall inp d, input_wf inp -> build_with F inp = Ok d ->
  forallb r_splits_concat (i_recs inp) = true -> dict_valid_full d = true.
Proof.
  intros inp d Wf H Hc. destruct (build_valid inp d Wf H) as (V & _ & _ & _ & M & _).
  unfold dict_valid_full. rewrite V. cbn [andb].
  assert (forall (A : Type) (f : A -> bool) l, forallb f l = forallb (fun b : bool => b) (map f l)) as FM.
  { intros A f l. induction l as [|x t IH]; cbn; [reflexivity|rewrite IH; reflexivity]. }
  rewrite FM, M, <- FM. exact Hc.
Qed.

(* ---------- the arrays of the word-id table ---------- *)

Lemma homographs_ext : forall (p q : entry -> bool) es s, (forall e, p e = q e) -> homographs p es s = homographs q es s.
Proof.
  intros p q es s E. unfold homographs. f_equal. f_equal. apply filter_ext. intros e. rewrite E. reflexivity.
Qed.

Lemma indexed_is_nonneg_left : forall e, indexed F e = (0 <=? e_left e).
Proof.
  intros e. destruct (indexed F e) eqn:A; symmetry.
  - apply Z.leb_le. apply indexed_iff. exact A.
  - apply Z.leb_gt. destruct (Z_lt_ge_dec (e_left e) 0) as [L|G]; [exact L|].
    assert (indexed F e = true) as B by (apply indexed_iff; lia). congruence.
Qed.

(* a list of entries that passes the length guard of the word-id table has at most 127 indexed entries per surface *)
Lemma index_err_false_sound : forall es nl nr st user nsys, index_err F es = false ->
  index_lists_ok (mkDict nl nr st user nsys es) = true.
Proof.
  intros es nl nr st user nsys H. destruct bfacts_parts as (_ & _ & _ & _ & _ & _ & _ & _ & _ & _ & _ & _ & _ & _ & _ & _ & Ck & Hlen).
  unfold index_err in H. rewrite Ck in H. cbn [andb] in H.
  unfold index_lists_ok. cbn [d_entries]. apply forallb_forall. intros e Hin.
  destruct (0 <=? e_left e) eqn:E; [|reflexivity].
  apply Z.leb_le. rewrite <- (homographs_ext (indexed F) _ es (e_surface e) indexed_is_nonneg_left).
  apply Hlen. destruct (fires (b_index_len F) 0 0 (homographs (indexed F) es (e_surface e))) eqn:Fi; [|reflexivity].
  exfalso. assert (existsb (fun e0 => indexed F e0 && fires (b_index_len F) 0 0 (homographs (indexed F) es (e_surface e0))) es = true) as X.
  { apply existsb_exists. exists e. split; [exact Hin|]. rewrite indexed_is_nonneg_left, E, Fi. reflexivity. }
  congruence.
Qed.

Theorem build_index_ok : forall inp d, build_with F inp = Ok d -> index_lists_ok d = true.
Proof.
  intros inp d H. unfold build_with in H.
  destruct (match i_base inp with
            | SystemDic m => match conn_read F m with Ok c => Ok (c_nl c, c_nr c, c_stores c, false, 0) | Err => Err | Panic => Panic end
            | UserDic a b n => Ok (a, b, [], true, n)
            end) as [[[[[nl nr] st] user] nsys]| |]; try discriminate.
  destruct (parse_records F (i_recs inp)) as [es|]; [|discriminate].
  destruct (forallb _ es); [|discriminate]. destruct (index_err F es) eqn:Ei; [discriminate|].
  destruct (existsb (indexed F) es); [|destruct (b_empty_trie_err F); discriminate].
  destruct (existsb (fun e => indexed F e && e_surface_nul e) es); [discriminate|].
  inversion H; subst. apply index_err_false_sound. exact Ei.
Qed.

End Sound.

(* ---------- repeated compile calls on one builder ---------- *)

Section SessionProofs.
Variable F : bfacts.

(* when write_to leaves the matrix where it is, a compile call changes nothing in the builder ... *)
Lemma compile_preserves_builder : forall b total moff k, fst (compile_step F true b total moff k) = b.
Proof. intros b total moff k. unfold compile_step. destruct (build_with F (bl_inp b)); reflexivity. Qed.

(* ... so the outcome of a call does not depend on the calls made before it (idempotence of compile): whatever sinks the
   earlier calls had, each call gives what it would give on the untouched builder *)
Theorem session_idempotent : forall ks b total moff,
  run_session F true b total moff ks = map (fun k => snd (compile_step F true b total moff k)) ks.
Proof.
  induction ks as [|k t IH]; intros b total moff; cbn [run_session map]; [reflexivity|].
  rewrite compile_preserves_builder. rewrite IH. reflexivity.
Qed.

(* a builder that holds its matrix writes complete dictionaries only, and only into sinks that take all of it *)
Lemma compile_step_complete : forall b total moff k d c,
  bl_matrix_held b = true -> snd (compile_step F true b total moff k) = Ok (d, c) ->
  c = true /\ build_with F (bl_inp b) = Ok d /\ total <= k.
Proof.
  intros b total moff k d c Hh H. unfold compile_step in H. destruct (build_with F (bl_inp b)) as [d'| |]; try discriminate.
  rewrite Hh in H. cbn [orb snd] in H. destruct (k <? total) eqn:E; [discriminate|]. inversion H; subst.
  apply Z.ltb_ge in E. split; [reflexivity|split; [reflexivity|exact E]].
Qed.

(* retry after any history of calls: success means the complete dictionary of a fresh build, never anything else *)
Theorem retry_is_fresh_build : forall inp ks total moff k d c,
  nth_error (run_session F true (fresh_builder inp) total moff (ks ++ [k])) (List.length ks) = Some (Ok (d, c)) ->
  c = true /\ build_with F inp = Ok d /\ total <= k.
Proof.
  intros inp ks total moff k d c H. rewrite session_idempotent in H. rewrite map_app in H. cbn [map] in H.
  rewrite nth_error_app2 in H by (rewrite map_length; apply Nat.le_refl).
  rewrite map_length, Nat.sub_diag in H. cbn [nth_error] in H. inversion H as [H1].
  exact (compile_step_complete (fresh_builder inp) total moff k d c eq_refl H1).
Qed.

End SessionProofs.
