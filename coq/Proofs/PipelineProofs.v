(* Composition of the lattice model (C02) with the offset-map model (C01/C08):
   the path read back from the lattice, given in character positions of the rewritten text, becomes -- through the
   char-to-byte table of InputBuffer::build -- a contiguous chain of byte ranges on character boundaries of the rewritten
   text, which is exactly the hypothesis of C01_surfaces_partition.  Hence the morphemes of a mode-C analysis without path
   rewriting partition the original text, for every candidate set and every connection-cost function. *)
From Coq Require Import List ZArith NArith Bool Arith Lia.
From SudachiVerif Require Import Model.Lattice Model.Buffer Proofs.LatticeProofs Proofs.BufferProofs.
Import ListNotations.
Open Scope nat_scope.

(* byte range of a lattice node: resolve_best_path's to_curr_byte_idx(begin), to_curr_byte_idx(end) *)
Definition node_bytes (t : list N) (n : node) : nat * nat :=
  (nth (nbeg n) (mod_c2b t) 0, nth (nend n) (mod_c2b t) 0).

Definition nchars (t : list N) : nat := length (mod_c2b t) - 1.

Lemma c2b_sorted : forall t i ci cj p q, ci <= cj ->
  nth_error (c2b_scan t i ++ [i + length t]) ci = Some p ->
  nth_error (c2b_scan t i ++ [i + length t]) cj = Some q -> p <= q.
Proof.
  induction t as [|b t IH]; intros i ci cj p q Hle Hp Hq.
  - cbn in Hp, Hq. destruct ci as [|ci]; [|destruct ci; discriminate].
    destruct cj as [|cj]; [|destruct cj; discriminate]. inversion Hp; inversion Hq; lia.
  - cbn [c2b_scan length] in Hp, Hq. replace (i + S (length t)) with (S i + length t) in Hp, Hq by lia.
    destruct (is_lead b).
    + destruct ci as [|ci]; cbn [app nth_error] in Hp.
      * inversion Hp; subst. destruct cj as [|cj]; cbn [app nth_error] in Hq; [inversion Hq; lia|].
        pose proof (c2b_boundary t (S p) cj q Hq) as [Hx _]. lia.
      * destruct cj as [|cj]; [lia|]. cbn [app nth_error] in Hq. apply (IH (S i) ci cj p q); [lia|exact Hp|exact Hq].
    + apply (IH (S i) ci cj p q); [exact Hle|exact Hp|exact Hq].
Qed.

Lemma mod_c2b_nth t ci : ci <= nchars t -> exists p, nth_error (mod_c2b t) ci = Some p.
Proof.
  unfold nchars. intros H. destruct (nth_error (mod_c2b t) ci) eqn:E; [eauto|].
  apply nth_error_None in E. unfold mod_c2b in *. rewrite app_length in *. cbn in *. lia.
Qed.

Lemma mod_c2b_last t : nth (nchars t) (mod_c2b t) 0 = length t.
Proof.
  unfold nchars, mod_c2b. rewrite app_length. cbn [length]. replace (length (c2b_scan t 0) + 1 - 1) with (length (c2b_scan t 0)) by lia.
  rewrite app_nth2 by lia. rewrite Nat.sub_diag. reflexivity.
Qed.

Lemma mod_c2b_first t : wf_text t = true -> nth 0 (mod_c2b t) 0 = 0.
Proof.
  unfold mod_c2b. destruct t as [|b t]; [reflexivity|]. cbn [wf_text]. intros H. cbn [c2b_scan]. rewrite H. reflexivity.
Qed.

Lemma mod_c2b_props t ci : ci <= nchars t ->
  is_boundary t (nth ci (mod_c2b t) 0) = true /\ nth ci (mod_c2b t) 0 <= length t.
Proof.
  intros H. destruct (mod_c2b_nth t ci H) as [p Hp]. rewrite (nth_error_nth _ _ 0 Hp).
  unfold mod_c2b in Hp. pose proof (c2b_boundary t 0 ci p Hp) as [_ Hb]. rewrite Nat.sub_0_r in Hb. split; [exact Hb|].
  destruct (mod_c2b_nth t (nchars t) (le_n _)) as [q Hq]. pose proof (mod_c2b_last t) as Hl.
  rewrite (nth_error_nth _ _ 0 Hq) in Hl. subst q. unfold mod_c2b in Hq.
  exact (c2b_sorted t 0 ci (nchars t) p (length t) H Hp Hq).
Qed.

Lemma mod_c2b_mono t ci cj : ci <= cj -> cj <= nchars t -> nth ci (mod_c2b t) 0 <= nth cj (mod_c2b t) 0.
Proof.
  intros H1 H2. destruct (mod_c2b_nth t ci) as [p Hp]; [lia|]. destruct (mod_c2b_nth t cj H2) as [q Hq].
  rewrite (nth_error_nth _ _ 0 Hp), (nth_error_nth _ _ 0 Hq). unfold mod_c2b in Hp, Hq.
  exact (c2b_sorted t 0 ci cj p q H1 Hp Hq).
Qed.

(* a chain of lattice nodes over character positions maps to a chain of byte ranges on boundaries *)
Lemma chain_bytes t ns : forall p from,
  from <= nchars t -> chain ns from (nchars t) p -> (forall n, In n p -> nend n <= nchars t) ->
  chain_b (nth from (mod_c2b t) 0) (length t) (map (node_bytes t) p) = true /\
  forallb (fun r => is_boundary t (fst r) && is_boundary t (snd r)) (map (node_bytes t) p) = true.
Proof.
  induction p as [|n p IH]; intros from Hfrom Hc Hend.
  - cbn [chain map chain_b forallb] in *. subst from. rewrite mod_c2b_last. rewrite Nat.eqb_refl. auto.
  - cbn [chain] in Hc. destruct Hc as (_ & Hb & Hlt & Hrest).
    assert (He : nend n <= nchars t) by (apply Hend; cbn; auto).
    destruct (IH (nend n) He Hrest) as [I1 I2]; [intros; apply Hend; cbn; auto|].
    cbn [map].
    change (node_bytes t n) with (nth (nbeg n) (mod_c2b t) 0, nth (nend n) (mod_c2b t) 0).
    cbn [chain_b forallb fst snd]. subst from.
    rewrite Nat.eqb_refl, I1, I2.
    replace (nth (nbeg n) (mod_c2b t) 0 <=? nth (nend n) (mod_c2b t) 0) with true
      by (symmetry; apply Nat.leb_le; apply mod_c2b_mono; lia).
    destruct (mod_c2b_props t (nbeg n)) as [B1 _]; [lia|]. destruct (mod_c2b_props t (nend n) He) as [B2 _].
    rewrite B1, B2. auto.
Qed.

Lemma chain_ends ns : forall p from to, chain ns from to p -> forall n, In n p -> nend n <= to.
Proof.
  induction p as [|m p IH]; intros from to Hc n Hn; [contradiction|].
  cbn [chain] in Hc. destruct Hc as (_ & _ & Hlt & Hrest).
  assert (Hm : forall q f, chain ns f to q -> f <= to).
  { induction q as [|x q IHq]; intros f Hq; cbn [chain] in Hq; [lia|]. destruct Hq as (_ & <- & Hl & Hr). specialize (IHq _ Hr). lia. }
  destruct Hn as [<-|Hn]; [apply (Hm p); exact Hrest|]. eapply IH; eauto.
Qed.

Theorem chain_path_ok t ns p : wf_text t = true -> chain ns 0 (nchars t) p -> path_ok_b t (map (node_bytes t) p) = true.
Proof.
  intros Hwf Hc. destruct (chain_bytes t ns p 0 (Nat.le_0_l _) Hc (chain_ends ns p 0 (nchars t) Hc)) as [H1 H2].
  unfold path_ok_b. rewrite mod_c2b_first in H1 by exact Hwf. rewrite H1, H2. reflexivity.
Qed.

Section Pipeline.
  Variable cfg : bcfg.
  Hypothesis Hcfg : cfg_ok cfg = true.
  Variable conn : N -> N -> Z.

  (* mode C, no path-rewrite plugin: whatever candidates the dictionary and the OOV providers put into the lattice and
     whatever the connection costs are, if the lattice is connected then the reported morphemes (the nodes of top_path, their
     byte ranges taken through mod_c2b, mapped to the original through m2o) partition the original text and their surfaces
     concatenate to it *)
  Theorem best_path_partitions_original o s ns r i c :
    wf_text o = true -> Reach cfg o s ->
    nodes_ok (nchars (cur s)) ns -> (0 < nchars (cur s))%nat ->
    connect_eos conn (insert_all conn (reset (nchars (cur s))) ns) = Some (r, i, c) ->
    exists es p, top_path conn (insert_all conn (reset (nchars (cur s))) ns) = Some es /\
                 map enode es = map Some p /\ path_cost conn p = c /\
                 let ranges := map (map_range (m2o s)) (map (node_bytes (cur s)) p) in
                 partition_b o ranges = true /\ concat (map (byte_slice o) ranges) = o.
  Proof.
    intros Hwo HR Hok Hpos Heos.
    destruct (total_cost_along_path conn _ ns r i c Hok Hpos Heos) as (es & p & H1 & H2 & H3 & H4 & _).
    exists es, p. repeat split; auto.
    - pose proof (reach_inv cfg Hcfg o s Hwo HR) as HI.
      assert (Hwt : wf_text (cur s) = true) by (destruct HI as (_ & _ & _ & _ & _ & Hw & _); exact Hw).
      pose proof (chain_path_ok (cur s) ns p Hwt H3) as Hp.
      destruct (surfaces_partition_reach cfg Hcfg o s _ Hwo HR Hp) as (A & _). exact A.
    - pose proof (reach_inv cfg Hcfg o s Hwo HR) as HI.
      assert (Hwt : wf_text (cur s) = true) by (destruct HI as (_ & _ & _ & _ & _ & Hw & _); exact Hw).
      pose proof (chain_path_ok (cur s) ns p Hwt H3) as Hp.
      destruct (surfaces_partition_reach cfg Hcfg o s _ Hwo HR Hp) as (_ & B & _). exact B.
  Qed.
End Pipeline.
