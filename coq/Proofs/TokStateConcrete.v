(* C10 instantiated: the abstract parameters of the state machine of Model/TokState.v (`env`) given by the concrete stage
   models that builder A composed into Tokenizer.tokenize_model (Model/Tokenizer.v) with the word infos of builder B's
   subset pipeline (Model/SubsetPipeline.v: get_word_info_subset under the loaded subset):

     input-text plugins   NormalizeBuffer.plugin_edits (code-point edits), committed through Buffer.resolve on the UTF-8 bytes
     lattice .. rewrite   Tokenizer.pre_split (dictionary + OOV candidates, Viterbi, resolve_best_path, Rewrite.run_plugins)
     word infos           SubsetPipeline: getinfo L w  (L = the loaded subset)
     split                Split.tokenize_mode with head_word_length / unit lists read under L

   and the theorem that a probe of the instantiated machine on a freshly created tokenizer IS tokenize_model; with the
   generic theorems of Proofs/TokStateProofs.v this gives history independence against tokenize_model.
   A's and B's files are used as they are.  Everything here is qualified: the three models reuse many names. *)
From Coq Require Import String List Arith NArith ZArith Bool Lia ZifyBool ZifyNat ZifyN.
From SudachiVerif Require Model.Harness Model.Buffer Proofs.BufferProofs Model.Normalize Proofs.NormalizeBuffer Proofs.PipelineFull.
From SudachiVerif Require Model.Rewrite Model.Split Model.Codec Model.SubsetPipeline Model.Tokenizer.
From SudachiVerif Require Model.TokState Proofs.TokStateProofs.
Import ListNotations.
Open Scope N_scope.

Module K := SudachiVerif.Model.TokState.
Module KP := SudachiVerif.Proofs.TokStateProofs.
Module T := SudachiVerif.Model.Tokenizer.
Module B := SudachiVerif.Model.Buffer.
Module BP := SudachiVerif.Proofs.BufferProofs.
Module Nz := SudachiVerif.Model.Normalize.
Module NB := SudachiVerif.Proofs.NormalizeBuffer.
Module PF := SudachiVerif.Proofs.PipelineFull.
Module Rw := SudachiVerif.Model.Rewrite.
Module Sp := SudachiVerif.Model.Split.
Module C := SudachiVerif.Model.Codec.
Module SPL := SudachiVerif.Model.SubsetPipeline.
Module H := SudachiVerif.Model.Harness.

Definition cfg : B.bcfg := B.the_cfg.

(* ------------------------------------------------------------------ the tokenizer record for a mode and a loaded subset *)
Definition smode (m : K.tmode) : Sp.mode := match m with K.MA => Sp.ModeA | K.MB => Sp.ModeB | K.MC => Sp.ModeC end.

Section Instance.
  Variable base : T.tokenizer.                  (* plugins, character classes, lexicons, parameters, providers, matrix, rewriters *)
  Variable gi : N -> N -> option C.winfo.       (* LexiconSet::get_word_info_subset(id, subset) *)

  (* what resolve_best_path copies out of the word info loaded under L *)
  Definition winfo_at (L w : N) : T.winfo :=
    match gi L w with
    | Some i => T.mkWI (C.as_text (i C.F_surface)) (C.as_text (i C.F_norm)) (C.as_text (i C.F_dicform))
                       (C.as_text (i C.F_reading)) (C.as_num (i C.F_pos))
    | None => T.mkWI [] [] [] [] 0
    end.

  Definition tk_at (sm : Sp.mode) (L : N) : T.tokenizer :=
    T.mkTok (T.tk_plugins base) (T.tk_cat base) (T.tk_lexs base) (T.tk_params base) (winfo_at L) (T.tk_provs base)
            (T.tk_conn base) (T.tk_rewrite base) sm
            (SPL.hw_of gi L) (SPL.units_of gi C.F_a L) (SPL.units_of gi C.F_b L).

  (* ------------------------------------------------------------------ input-text plugins *)
  Definition enc_e (e : Nz.edit) : K.edit := (N.of_nat (Nz.e_start e), N.of_nat (Nz.e_end e), Nz.e_repl e).
  Definition dec_e (e : K.edit) : Nz.edit := let '(a, b, w) := e in Nz.mkE (N.to_nat a) (N.to_nat b) w.

  (* a plugin reads the text (as code points) and emits its edits; none of the bundled plugins returns an error value *)
  Definition conc_plugin (p : NB.plugin) : K.plugin :=
    K.mkPlugin true (fun md _ _ => Some (map enc_e (NB.plugin_edits p md))).

  Definition commit_guard (l : Z) : bool :=
    B.cmp_eval (B.c_commit_cmp cfg) (B.as_usize l) (Z.of_N (B.c_commit_limit cfg)).

  (* edit::resolve_edits on the bytes of the text with the byte offsets of the edits (NormalizeBuffer.tr_edits) *)
  Definition conc_resolve (md : K.text) (m2o : list N) (es : list K.edit) : option (K.text * list N * N) :=
    let ces := map dec_e es in
    match B.resolve cfg (PF.enc md) (map N.to_nat m2o) (NB.tr_edits md ces) 0 (Z.of_nat (List.length (PF.enc md))) with
    | B.RPanic => None
    | B.RTooLong l => if commit_guard l then Some ([], [], Z.to_N (B.as_usize l)) else None
    | B.ROk _ m l =>
        if commit_guard l then Some ([], [], Z.to_N (B.as_usize l))
        else match Nz.apply_edits md ces with
             | Some t' => Some (t', map N.of_nat (B.force_first cfg m), Z.to_N (B.as_usize l))
             | None => None
             end
    end.

  (* ------------------------------------------------------------------ build(): the tables of the modified text *)
  Definition conc_c2b_body (t : K.text) : list N := map N.of_nat (B.c2b_scan (PF.enc t) 0).
  Definition conc_b2c_body (t : K.text) : list N := map N.of_nat (B.b2c_scan (PF.enc t) 0).
  Definition conc_b2c_last (t : K.text) : N := N.of_nat ((B.count_leads (PF.enc t) - 1) + B.c_b2c_inc cfg).

  (* mod_bow[bidx] = can_bow is assigned at the first byte of every character only *)
  Fixpoint bow_fill (bytes : list N) (flags : list bool) (old : list bool) : list bool :=
    match bytes, old with
    | b :: bs, o :: os =>
        if B.is_lead b then match flags with f :: fs => f :: bow_fill bs fs os | [] => o :: bow_fill bs [] os end
        else o :: bow_fill bs flags os
    | _, _ => old
    end.
  Definition conc_bow (t : K.text) (old : list bool) : list bool :=
    bow_fill (PF.enc t) (T.O.can_bow (map (T.tk_cat base) t)) old.

  (* fill_cat_continuity: from the back, [i] = [i+1] + 1 when the classes are compatible, otherwise left as resized *)
  Fixpoint cont_fill (cats : list N) (old : list N) : list N * N :=   (* (values, class set carried to the left) *)
    match cats, old with
    | [c], [o] => ([o], c)
    | c :: cs, o :: os =>
        let '(vs, cat) := cont_fill cs os in
        let common := N.land c cat in
        if common =? 0 then (o :: vs, c) else ((match vs with v :: _ => v + 1 | [] => o end) :: vs, common)
    | _, _ => (old, 0)
    end.
  Definition conc_cont (cats old : list N) : list N := fst (cont_fill cats old).

  (* fill_orig_b2c: char index at every character start, number of characters at the end, the rest as resized *)
  Fixpoint ob2c_fill (bytes : list N) (cnt : N) (old : list N) : list N :=
    match bytes, old with
    | b :: bs, o :: os => if B.is_lead b then cnt :: ob2c_fill bs (cnt + 1) os else o :: ob2c_fill bs cnt os
    | [], _ :: os => (match cnt with 0 => 1 | _ => cnt end) :: os
    | _, [] => []
    end.
  Definition conc_ob2c (o : K.text) (old : list N) : list N := ob2c_fill (PF.enc o) 0 old.

  (* ------------------------------------------------------------------ lattice, best path, path rewriting *)
  Definition v_modified (v : K.view) : K.text := let '(_, md, _, _, _, _, _, _, _, _) := v in md.

  (* Tokenizer.pre_split under the loaded subset L (the mode plays no part before split_path) *)
  Definition pre (L : N) (t : K.text) : B.res T.presplit := T.pre_split cfg (tk_at Sp.ModeC L) t.

  (* the ResultNodes of the best path as the later stages of the state machine carry them: ranges and word ids *)
  Definition pre_nodes (a : T.presplit) : list K.rnode :=
    map (fun x => Sp.mkNode (N.of_nat (Rw.nb (fst x))) (N.of_nat (Rw.ne (fst x))) (N.of_nat (Rw.bb (fst x)))
                            (N.of_nat (Rw.be (fst x))) (snd x))
        (combine (T.pr_result a) (map snd (T.pr_path a))).

  Definition POISON : K.rnode := Sp.mkNode 999999 999999 999999 999999 999999.

  (* build_lattice + fill_top_path: Err = the lattice cannot be connected.  A panic inside (no such panic is reachable
     for lattices the loop builds: C02/C03) has no outcome of its own in the state machine: the path is left empty and
     the rewrite stage below, which recomputes the same stages, reports the panic *)
  Definition conc_core (v : K.view) (L : N) (rows : K.rows3) : K.core_out :=
    match pre L (v_modified v) with
    | B.Ok a => K.mkCO rows (Some (N.of_nat (fst (fst (T.pr_eos a))))) [] (Some (rev (K.seqN (N.of_nat (List.length (pre_nodes a))))))
    | B.Err => K.mkCO rows None [] None
    | B.Panic => K.mkCO rows None [] (Some [])
    end.

  Definition conc_node (v : K.view) (L : N) (_ : K.rows3) (id : N) : K.rnode :=
    match pre L (v_modified v) with
    | B.Ok a => nth (N.to_nat id) (pre_nodes a) POISON
    | _ => POISON
    end.

  (* the chain of path-rewrite plugins on the resolved path; it is handed the path it expects (anything else -- stale
     nodes in front -- is answered like a panic).  Tokenizer.pre_split reports a plugin's error value as Panic too *)
  Definition conc_prw (v : K.view) (L : N) (_ : K.rows3) (path : list K.rnode) : K.pwres :=
    match pre L (v_modified v) with
    | B.Ok a => if H.list_eqb Sp.node_eqb path (pre_nodes a) then K.WOk (T.pr_split_in a) else K.WPanic
    | _ => K.WPanic
    end.

  (* ------------------------------------------------------------------ splitting *)
  Definition units_for (sm : Sp.mode) (L : N) : N -> list N :=
    match sm with Sp.ModeA => SPL.units_of gi C.F_a L | Sp.ModeB => SPL.units_of gi C.F_b L | Sp.ModeC => fun _ => [] end.

  Definition conc_split (m : K.tmode) (L : N) (v : K.view) (path : list K.rnode) : option (list K.rnode) :=
    Sp.tokenize_mode (SPL.hw_of gi L) (v_modified v) (SPL.units_of gi C.F_a L) (SPL.units_of gi C.F_b L) (smode m) path.

  (* MorphemeList::split_into; ResultNode::split panics for mode C *)
  Definition conc_split_into (m : K.tmode) (L : N) (v : K.view) (n : K.rnode) : option (option (list K.rnode)) :=
    match m with
    | K.MC => match SPL.units_of gi C.F_a L (Sp.wid n) with [] => Some None | _ => Some None end
    | _ => match Sp.split_into (SPL.hw_of gi L) (v_modified v) (units_for (smode m) L) n [] with
           | None => None
           | Some (false, _) => Some None
           | Some (true, l) => Some (Some l)
           end
    end.

  Definition E_conc : K.env :=
    K.mkEnv (map conc_plugin (T.tk_plugins base)) conc_resolve (T.tk_cat base)
            conc_c2b_body conc_b2c_body conc_b2c_last conc_bow conc_cont conc_ob2c
            conc_core conc_node conc_prw conc_split conc_split_into
            (fun _ _ _ => [])          (* MorphemeList::lookup: the nodes it pushes are not observed by a later probe *)
            C.normalize 64 128.
End Instance.

(* ====================================================================================================================
   The two models agree on the editing phase
   ==================================================================================================================== *)
(* decidable side condition on the regenerated buffer facts: the offset-map constants are the ones the buffer theorems
   need, and the two length guards are the ones the state machine's facts record (`>` MAX_LENGTH, `>` REALLY_MAX_LENGTH) *)
Definition cfg_agrees : bool :=
  B.cfg_ok cfg && String.eqb (B.c_start_cmp cfg) ">" && (B.c_start_limit cfg =? 49149)
  && String.eqb (B.c_commit_cmp cfg) ">" && (B.c_commit_limit cfg =? 65535).

Arguments N.ltb : simpl never.
Arguments N.leb : simpl never.
Arguments N.add : simpl never.
Arguments Sp.blen : simpl never.
Arguments K.seqN : simpl never.
Arguments PF.enc : simpl never.
Arguments B.resolve : simpl never.
Arguments Nz.apply_edits : simpl never.
Arguments NB.tr_edits : simpl never.
Arguments NB.plugin_edits : simpl never.
Arguments B.as_usize : simpl never.
Arguments B.cmp_eval : simpl never.
Arguments Z.of_N : simpl never.
Arguments Z.to_N : simpl never.

Section Bridge.
  Hypothesis Hagree : cfg_agrees = true.
  Variable base : T.tokenizer.
  Variable gi : N -> N -> option C.winfo.
  Notation E := (E_conc base gi).

  Lemma agree_parts :
    B.cfg_ok cfg = true /\ B.c_start_cmp cfg = ">"%string /\ B.c_start_limit cfg = 49149 /\
    B.c_commit_cmp cfg = ">"%string /\ B.c_commit_limit cfg = 65535.
  Proof.
    unfold cfg_agrees in Hagree. repeat rewrite andb_true_iff in Hagree.
    destruct Hagree as [[[[H1 H2] H3] H4] H5].
    apply String.eqb_eq in H2, H4. apply N.eqb_eq in H3, H5. repeat split; assumption.
  Qed.

  Lemma dec_enc_edits : forall es, map dec_e (map enc_e es) = es.
  Proof.
    induction es as [|[a b w] es IH]; [reflexivity|]. cbn [map enc_e dec_e Nz.e_start Nz.e_end Nz.e_repl].
    rewrite !Nat2N.id, IH. reflexivity.
  Qed.

  Lemma to_of_nat_list : forall l, map N.to_nat (map N.of_nat l) = l.
  Proof. induction l as [|x l IH]; [reflexivity|]. cbn [map]. rewrite Nat2N.id, IH. reflexivity. Qed.

  Lemma cmp_gt : forall a b, B.cmp_eval ">" a b = (b <? a)%Z.
  Proof. reflexivity. Qed.

  (* the state-machine buffer b and A's buffer s describe the same editing state of the text t (original t0) *)
  Definition R (t0 : K.text) (b : K.ibuf) (s : B.buf) (t : K.text) : Prop :=
    K.original b = t0 /\ K.modified b = t /\ K.m2o b = map N.of_nat (B.m2o s) /\ K.replaces b = [] /\
    B.orig s = PF.enc t0 /\ B.cur s = PF.enc t /\ (t <> [] -> BP.Inv (PF.enc t0) s).

  (* start_build *)
  Lemma start_build_bridge : forall t0 x y,
    match K.start_build K.Fexp (KP.canonical t0 x y), B.start_build cfg (PF.enc t0) with
    | (true, b), B.Ok s => R t0 b s t0
    | (false, _), B.Err => True
    | _, _ => False
    end.
  Proof.
    intros t0 x y. destruct agree_parts as (Hok & Hsc & Hsl & _ & _).
    destruct (BP.cfg_fields cfg Hok) as (Hf & He & _).
    unfold K.start_build, B.start_build, KP.canonical. cbn [K.original K.modified K.m2o].
    rewrite Hsc, Hsl, cmp_gt, Hf, He. rewrite PF.enc_length.
    change (K.guard_eval (K.f_sb_guard K.Fexp) (Sp.blen t0)) with (49149 <? Sp.blen t0).
    destruct (49149 <? Sp.blen t0) eqn:G.
    - replace (Z.of_N 49149 <? Z.of_nat (N.to_nat (Sp.blen t0)))%Z with true by lia. exact I.
    - replace (Z.of_N 49149 <? Z.of_nat (N.to_nat (Sp.blen t0)))%Z with false by lia.
      unfold R. cbn [K.original K.modified K.m2o K.replaces K.set_m2o K.set_modified K.set_state B.orig B.cur B.m2o fst snd app].
      refine (conj eq_refl (conj eq_refl (conj _ (conj eq_refl (conj eq_refl (conj eq_refl _)))))).
      + unfold K.seqN. f_equal. f_equal. lia.
      + intros _. apply (BP.inv_start cfg Hok); [apply PF.enc_wf|].
        unfold B.start_build. rewrite Hsc, Hsl, cmp_gt, Hf, He, PF.enc_length.
        replace (Z.of_N 49149 <? Z.of_nat (N.to_nat (Sp.blen t0)))%Z with false by lia. reflexivity.
  Qed.

  (* what one plugin does to A's buffer and text (one iteration of Tokenizer.run_stack) *)
  Definition stack_step (p : NB.plugin) (s : B.buf) (t : K.text) : B.res (B.buf * K.text) :=
    match B.commit cfg s (NB.tr_edits t (NB.plugin_edits p t)) with
    | B.Ok s' => match Nz.apply_edits t (NB.plugin_edits p t) with
                 | Some t' => B.Ok (s', t')
                 | None => B.Panic
                 end
    | B.Err => B.Err
    | B.Panic => B.Panic
    end.

  Definition agree_step (t0 : K.text) (k : K.result * K.ibuf) (a : B.res (B.buf * K.text)) : Prop :=
    match k, a with
    | (K.ROk, b'), B.Ok (s', t') => R t0 b' s' t'
    | (K.RErr, _), B.Err => True
    | (K.RPanic, _), B.Panic => True
    | _, _ => False
    end.

  Lemma usize_nonneg : forall l, (0 <= B.as_usize l)%Z.
  Proof. intros l. unfold B.as_usize. apply Z.mod_pos_bound. lia. Qed.

  Lemma plugin_bridge : forall t0 p b s t,
    R t0 b s t -> agree_step t0 (K.plugin_step K.Fexp E (conc_plugin p) b) (stack_step p s t).
  Proof.
    intros t0 p b s t (Ho & Hm & Hmo & Hr & Hso & Hsc & Hinv).
    destruct agree_parts as (Hok & _ & _ & Hcc & Hcl).
    destruct b as [o md md2 mo mo2 mc c2 b2 bw ct cc rp st]. cbn [K.original K.modified K.m2o K.replaces] in Ho, Hm, Hmo, Hr.
    subst o md mo rp.
    unfold stack_step, K.plugin_step, conc_plugin. cbn [K.uses_chars K.p_run].
    replace (K.modified (K.refresh_chars (K.mkIB t0 t md2 (map N.of_nat (B.m2o s)) mo2 mc c2 b2 bw ct cc [] st))) with t
      by (unfold K.refresh_chars; destruct mc; reflexivity).
    destruct (NB.plugin_edits p t) as [|e es] eqn:Ees.
    - (* no edit: nothing happens on either side *)
      unfold NB.tr_edits, Nz.apply_edits. cbn [map B.commit].
      unfold K.refresh_chars. destruct mc as [|c cs]; cbn; unfold R;
        cbn [K.original K.modified K.m2o K.replaces];
        exact (conj eq_refl (conj eq_refl (conj eq_refl (conj eq_refl (conj Hso (conj Hsc Hinv)))))).
    - (* edits: t is not empty (no plugin edits the empty text) *)
      assert (Ht : t <> []). { intros ->. rewrite NB.plugin_edits_nil in Ees. discriminate. }
      specialize (Hinv Ht).
      assert (Hlen : List.length (B.m2o s) = (List.length (B.cur s) + 1)%nat).
      { destruct Hinv as (_ & HB & _). exact (BP.BMap_length _ _ _ HB). }
      assert (Hcommit : B.commit cfg s (NB.tr_edits t (e :: es)) =
                match B.resolve cfg (PF.enc t) (B.m2o s) (NB.tr_edits t (e :: es)) 0 (Z.of_nat (List.length (PF.enc t))) with
                | B.RPanic => B.Panic
                | B.RTooLong l => if commit_guard l then B.Err else B.Panic
                | B.ROk tb m l => if commit_guard l then B.Err else B.Ok (B.mkBuf (B.orig s) tb (B.force_first cfg m))
                end).
      { unfold B.commit, NB.tr_edits. cbn [map]. rewrite Hsc. reflexivity. }
      rewrite Hcommit.
      (* the state-machine side *)
      assert (HK : forall mc', K.commit K.Fexp E (K.set_replaces ([] ++ map enc_e (e :: es))
                                   (K.mkIB t0 t md2 (map N.of_nat (B.m2o s)) mo2 mc' c2 b2 bw ct cc [] st)) =
                match conc_resolve t (map N.of_nat (B.m2o s)) (map enc_e (e :: es)) with
                | None => (K.RPanic, K.mkIB t0 t [] (map N.of_nat (B.m2o s)) [] [] c2 b2 bw ct cc [] st)
                | Some (tgt, tmap, sz) =>
                    if 65535 <? sz then (K.RErr, K.mkIB t0 t tgt (map N.of_nat (B.m2o s)) tmap [] c2 b2 bw ct cc [] st)
                    else (K.ROk, K.mkIB t0 tgt t tmap (map N.of_nat (B.m2o s)) [] c2 b2 bw ct cc [] st)
                end).
      { intros mc'. unfold K.commit. cbn [app map K.set_replaces K.replaces K.is_nil].
        cbn [K.ib_clear_all K.f_commit K.Fexp fold_left].
        cbn. destruct (conc_resolve _ _ _) as [[[tgt tmap] sz]|]; [|reflexivity].
        change (K.guard_eval (K.f_commit_guard K.Fexp) sz) with (65535 <? sz).
        destruct (65535 <? sz); reflexivity. }
      assert (HKstep : K.commit K.Fexp E (K.set_replaces (K.replaces (K.refresh_chars (K.mkIB t0 t md2 (map N.of_nat (B.m2o s)) mo2 mc c2 b2 bw ct cc [] st)) ++ map enc_e (e :: es))
                                  (K.refresh_chars (K.mkIB t0 t md2 (map N.of_nat (B.m2o s)) mo2 mc c2 b2 bw ct cc [] st))) =
                match conc_resolve t (map N.of_nat (B.m2o s)) (map enc_e (e :: es)) with
                | None => (K.RPanic, K.mkIB t0 t [] (map N.of_nat (B.m2o s)) [] [] c2 b2 bw ct cc [] st)
                | Some (tgt, tmap, sz) =>
                    if 65535 <? sz then (K.RErr, K.mkIB t0 t tgt (map N.of_nat (B.m2o s)) tmap [] c2 b2 bw ct cc [] st)
                    else (K.ROk, K.mkIB t0 tgt t tmap (map N.of_nat (B.m2o s)) [] c2 b2 bw ct cc [] st)
                end).
      { unfold K.refresh_chars. destruct mc as [|c cs]; cbn [K.mod_chars K.is_nil K.set_mod_chars K.replaces K.modified app]; apply HK. }
      rewrite HKstep. clear HK HKstep.
      unfold conc_resolve. rewrite dec_enc_edits, to_of_nat_list.
      match goal with |- context [B.resolve ?x1 ?x2 ?x3 ?x4 ?x5 ?x6] => destruct (B.resolve x1 x2 x3 x4 x5 x6) as [tb m l|l|] eqn:Er end.
      + (* resolved *)
        unfold commit_guard. rewrite Hcc, Hcl, cmp_gt.
        pose proof (usize_nonneg l) as Hnn.
        destruct (Z.of_N 65535 <? B.as_usize l)%Z eqn:G.
        * replace (65535 <? Z.to_N (B.as_usize l)) with true by lia. exact I.
        * destruct (Nz.apply_edits t (e :: es)) as [t'|] eqn:Ea; [|exact I].
          replace (65535 <? Z.to_N (B.as_usize l)) with false by lia.
          cbn [agree_step].
          (* A's commit answered Ok with this buffer *)
          assert (Hc' : B.commit cfg s (NB.tr_edits t (e :: es)) = B.Ok (B.mkBuf (B.orig s) tb (B.force_first cfg m))).
          { rewrite Hcommit; try rewrite Er. unfold commit_guard. rewrite Hcc, Hcl, cmp_gt, G. reflexivity. }
          destruct (NB.tr_commit cfg Hok t s (e :: es) t' Hsc Hlen Ea) as [Hcur _].
          destruct (Hcur _ Hc') as [Hcur' _]. cbn [B.cur] in Hcur'.
          unfold R. cbn [K.original K.modified K.m2o K.replaces B.orig B.cur B.m2o].
          refine (conj eq_refl (conj eq_refl (conj eq_refl (conj eq_refl (conj Hso (conj Hcur' _)))))).
          intros Ht'. apply (BP.commit_inv cfg Hok _ s (NB.tr_edits t (e :: es)) _ Hinv); [|exact Hc'|].
          -- rewrite Hsc. apply NB.tr_edits_ok. exact (NB.apply_edits_ok _ _ _ Ea).
          -- cbn [B.cur]. rewrite Hcur'. apply NB.enc_nonempty. exact Ht'.
      + (* the running length left the limit *)
        unfold commit_guard. rewrite Hcc, Hcl, cmp_gt.
        pose proof (usize_nonneg l) as Hnn.
        destruct (Z.of_N 65535 <? B.as_usize l)%Z eqn:G; [|exact I].
        replace (65535 <? Z.to_N (B.as_usize l)) with true by lia. exact I.
      + exact I.
  Qed.

  Lemma run_stack_cons : forall p r s t,
    T.run_stack cfg (p :: r) s t =
    match stack_step p s t with
    | B.Ok (s', t') => T.run_stack cfg r s' t'
    | B.Err => B.Err
    | B.Panic => B.Panic
    end.
  Proof.
    intros p r s t. cbn [T.run_stack]. unfold stack_step.
    destruct (B.commit cfg s _) as [s'| |]; try reflexivity.
    destruct (Nz.apply_edits t _); reflexivity.
  Qed.

  (* the whole chain of input-text plugins *)
  Lemma stack_bridge : forall t0 ps b s t,
    R t0 b s t -> agree_step t0 (K.rewrite_input K.Fexp E (map conc_plugin ps) b) (T.run_stack cfg ps s t).
  Proof.
    intros t0 ps. induction ps as [|p r IH]; intros b s t HR.
    - cbn [map K.rewrite_input T.run_stack agree_step]. exact HR.
    - cbn [map K.rewrite_input]. rewrite run_stack_cons.
      pose proof (plugin_bridge t0 p b s t HR) as Hp.
      destruct (K.plugin_step K.Fexp E (conc_plugin p) b) as [st b'].
      destruct (stack_step p s t) as [[s' t']| |]; destruct st; cbn [agree_step] in Hp; try contradiction; try exact I.
      apply IH. exact Hp.
  Qed.

  (* build() touches neither the texts nor the offset map *)
  Lemma build_keeps : forall b,
    K.original (K.build K.Fexp E b) = K.original b /\ K.modified (K.build K.Fexp E b) = K.modified b /\
    K.m2o (K.build K.Fexp E b) = K.m2o b /\ K.replaces (K.build K.Fexp E b) = K.replaces b.
  Proof. intros b. destruct b as [o md md2 mo mo2 mc c2 b2 bw ct cc rp st]. repeat split; reflexivity. Qed.

  (* ------------------------------------------------------------------ the mode plays no part before split_path *)
  Lemma loop_ids_mode : forall sm L t todo La ids p,
    T.loop_ids cfg (tk_at base gi sm L) t La ids p todo = T.loop_ids cfg (tk_at base gi Sp.ModeC L) t La ids p todo.
  Proof.
    intros sm L t. induction todo as [|k IH]; intros La ids p; [reflexivity|].
    cbn [T.loop_ids].
    change (T.offered_at cfg (tk_at base gi sm L) t p) with (T.offered_at cfg (tk_at base gi Sp.ModeC L) t p).
    change (T.offered_ids cfg (tk_at base gi sm L) t p) with (T.offered_ids cfg (tk_at base gi Sp.ModeC L) t p).
    change (T.tk_conn (tk_at base gi sm L)) with (T.tk_conn (tk_at base gi Sp.ModeC L)).
    destruct (SudachiVerif.Model.BuildLattice.has_previous_node La p); [|apply IH].
    destruct (T.offered_at cfg (tk_at base gi Sp.ModeC L) t p); [reflexivity|apply IH].
  Qed.

  Lemma pre_split_mode : forall sm L t, T.pre_split cfg (tk_at base gi sm L) t = pre base gi L t.
  Proof.
    intros sm L t. unfold pre, T.pre_split. rewrite loop_ids_mode. reflexivity.
  Qed.

  (* ------------------------------------------------------------------ a probe on a fresh tokenizer is tokenize_model *)
  Definition buf_of_view (v : K.view) : B.buf :=
    let '(o, md, mo, _, _, _, _, _, _, _) := v in B.mkBuf (PF.enc o) (PF.enc md) (map N.to_nat mo).

  (* what the API reports for a probe: Morpheme::{begin, end, begin_c, end_c, surface, word_id} of the collected list *)
  Definition report_probe (r : K.result * option K.observation) : B.res (list T.morpheme) :=
    match r with
    | (K.ROk, Some (v, _, nodes, _)) =>
        match T.report_all cfg (buf_of_view v) nodes with Some ms => B.Ok ms | None => B.Panic end
    | (K.ROk, None) => B.Panic
    | (K.RErr, _) => B.Err
    | (K.RPanic, _) => B.Panic
    end.

  Lemma node_eqb_refl : forall n, Sp.node_eqb n n = true.
  Proof. intros n. unfold Sp.node_eqb. rewrite !N.eqb_refl. reflexivity. Qed.

  Lemma nodes_eqb_refl : forall l, H.list_eqb Sp.node_eqb l l = true.
  Proof. induction l as [|x l IH]; [reflexivity|]. cbn. rewrite node_eqb_refl, IH. reflexivity. Qed.

  Lemma map_nth_seq : forall (l : list K.rnode) d k,
    map (fun id => nth (N.to_nat id) (l) d) (map N.of_nat (seq k (List.length l))) = map (fun i => nth i l d) (seq k (List.length l)).
  Proof. intros l d k. rewrite map_map. apply map_ext. intros i. rewrite Nat2N.id. reflexivity. Qed.

  Lemma nth_seq_all : forall (l : list K.rnode) d, map (fun i => nth i l d) (seq 0 (List.length l)) = l.
  Proof.
    intros l d. induction l as [|x l IH]; [reflexivity|].
    cbn [List.length seq map nth]. f_equal. rewrite <- seq_shift, map_map. exact IH.
  Qed.

  Lemma view_modified : forall b, v_modified (K.view_of b) = K.modified b.
  Proof. intros b. reflexivity. Qed.

  Theorem fresh_probe_is_tokenize_model : forall m L t0,
    report_probe (K.probe K.Fexp E t0 (K.fresh m L)) = T.tokenize_model cfg (tk_at base gi (smode m) L) t0.
  Proof.
    intros m L t0. unfold K.probe, K.analyse.
    rewrite (KP.prep_canonical (K.fresh m L) t0 eq_refl).
    change (K.modified_2 (K.input (K.fresh m L))) with (@nil N).
    change (K.m2o_2 (K.input (K.fresh m L))) with (@nil N).
    change (K.tok_reset K.Fexp (K.fresh m L)) with (K.mkTok K.ib_default false m [] K.lat_default [] (Some []) L).
    unfold K.do_tokenize. cbn [K.input K.with_input K.debug K.mode K.oov K.lat K.top_path_ids K.top_path K.subset].
    cbn [K.modified_2 K.m2o_2 K.ib_default].
    unfold T.tokenize_model.
    pose proof (start_build_bridge t0 [] []) as Hsb.
    destruct (K.start_build K.Fexp (KP.canonical t0 [] [])) as [ok1 b1].
    destruct (B.start_build cfg (PF.enc t0)) as [s0| |]; destruct ok1; try contradiction; [|reflexivity].
    cbn [negb].
    pose proof (stack_bridge t0 (T.tk_plugins base) b1 s0 t0 Hsb) as Hst.
    change (K.e_plugins E) with (map (conc_plugin) (T.tk_plugins base)).
    change (T.tk_plugins (tk_at base gi (smode m) L)) with (T.tk_plugins base).
    destruct (K.rewrite_input K.Fexp E (map conc_plugin (T.tk_plugins base)) b1) as [st2 b2].
    destruct (T.run_stack cfg (T.tk_plugins base) s0 t0) as [[s t]| |]; destruct st2; cbn [agree_step] in Hst;
      try contradiction; try reflexivity.
    destruct Hst as (Ho & Hm & Hmo & Hr & Hso & Hsc & _).
    destruct (build_keeps b2) as (Bo & Bm & Bmo & _).
    set (b3 := K.build K.Fexp E b2) in *.
    assert (Hbuf : buf_of_view (K.view_of b3) = s).
    { unfold buf_of_view, K.view_of. rewrite Bo, Bm, Bmo, Ho, Hm, Hmo, to_of_nat_list, <- Hso, <- Hsc. destruct s; reflexivity. }
    rewrite Bm, Hm.
    destruct t as [|c tr].
    - cbn [K.is_nil report_probe K.collected K.top_path K.input K.subset]. cbn. reflexivity.
    - cbn [K.is_nil].
      unfold K.with_input. cbn [K.input K.lat K.subset K.mode K.top_path K.top_path_ids K.debug K.oov].
      unfold K.analysis_phase, T.analyse.
      cbn [K.input K.lat K.subset K.mode K.top_path K.top_path_ids K.debug K.oov].
      rewrite pre_split_mode.
      change (K.e_core E) with (conc_core base gi). change (K.e_node E) with (conc_node base gi).
      change (K.e_prw E) with (conc_prw base gi). change (K.e_split E) with (conc_split gi).
      unfold conc_core, conc_node, conc_prw. rewrite !view_modified, Bm, Hm.
      destruct (pre base gi L (c :: tr)) as [a| |] eqn:Ep.
      + cbn [K.co_ids K.co_rows app].
        rewrite rev_involutive. unfold K.seqN. rewrite Nat2N.id.
        rewrite (map_nth_seq (pre_nodes a) POISON 0), nth_seq_all.
        rewrite nodes_eqb_refl.
        unfold conc_split. rewrite view_modified, Bm, Hm.
        change (T.tk_hw (tk_at base gi (smode m) L)) with (SPL.hw_of gi L).
        change (T.tk_ua (tk_at base gi (smode m) L)) with (SPL.units_of gi C.F_a L).
        change (T.tk_ub (tk_at base gi (smode m) L)) with (SPL.units_of gi C.F_b L).
        change (T.tk_mode (tk_at base gi (smode m) L)) with (smode m).
        destruct (Sp.tokenize_mode _ _ _ _ _ _) as [final|]; [|reflexivity].
        cbn [report_probe K.collected K.top_path K.input K.subset T.an_final].
        rewrite Hbuf. reflexivity.
      + reflexivity.
      + cbn [K.co_ids K.co_rows app rev map]. reflexivity.
  Qed.
End Bridge.

(* ====================================================================================================================
   C10 against tokenize_model
   ==================================================================================================================== *)
Lemma history_independent_concrete :
  cfg_agrees = true -> K.facts_ok K.F0 = true ->
  forall base gi ops m0 t,
    let y := K.run_ops K.F0 (E_conc base gi) ops (K.mkSys (K.create m0) []) in
    report_probe (K.probe K.F0 (E_conc base gi) t (K.tk y)) =
    T.tokenize_model cfg (tk_at base gi (smode (K.mode (K.tk y))) (K.subset (K.tk y))) t.
Proof.
  intros Ha HF base gi ops m0 t. cbv zeta.
  rewrite (KP.history_independent K.F0 (E_conc base gi) ops m0 t HF).
  rewrite (KP.facts_ok_Fexp K.F0 HF).
  apply (fresh_probe_is_tokenize_model Ha).
Qed.

(* an analysis answers with an error value exactly when tokenize_model does: the failure cases of the state machine are
   the Err results of tokenize_model's stages (start_build: input too long; commit: too long after rewriting;
   build_lattice / connect_eos: the lattice cannot be connected) *)
Lemma report_err_iff : forall r, report_probe r = B.Err <-> fst r = K.RErr.
Proof.
  intros [[| |] [[[[v st] nodes] L]|]]; cbn [report_probe fst]; try (split; [discriminate|discriminate]);
    try (split; reflexivity).
  destruct (T.report_all cfg (buf_of_view v) nodes); split; discriminate.
Qed.

Lemma error_outcomes_concrete :
  cfg_agrees = true -> K.facts_ok K.F0 = true ->
  forall base gi ops m0 t,
    let y := K.run_ops K.F0 (E_conc base gi) ops (K.mkSys (K.create m0) []) in
    fst (K.analyse K.F0 (E_conc base gi) t (K.tk y)) = K.RErr <->
    T.tokenize_model cfg (tk_at base gi (smode (K.mode (K.tk y))) (K.subset (K.tk y))) t = B.Err.
Proof.
  intros Ha HF base gi ops m0 t. cbv zeta.
  rewrite <- (history_independent_concrete Ha HF base gi ops m0 t). cbv zeta.
  rewrite report_err_iff. unfold K.probe.
  destruct (K.analyse K.F0 (E_conc base gi) t _) as [r s']. cbn [fst]. reflexivity.
Qed.

(* after an analysis that failed -- with an error value or a panic -- the next probe is tokenize_model from scratch *)
Lemma failed_analysis_usable_concrete :
  cfg_agrees = true -> K.facts_ok K.F0 = true ->
  forall base gi ops m0 t1 t,
    let y := K.run_ops K.F0 (E_conc base gi) ops (K.mkSys (K.create m0) []) in
    let s1 := snd (K.analyse K.F0 (E_conc base gi) t1 (K.tk y)) in
    fst (K.analyse K.F0 (E_conc base gi) t1 (K.tk y)) <> K.ROk ->
    report_probe (K.probe K.F0 (E_conc base gi) t s1) =
    T.tokenize_model cfg (tk_at base gi (smode (K.mode (K.tk y))) (K.subset (K.tk y))) t.
Proof.
  intros Ha HF base gi ops m0 t1 t. cbv zeta. intros Hfail.
  rewrite (KP.failed_analysis_usable K.F0 (E_conc base gi) ops m0 t1 t HF Hfail).
  rewrite (KP.facts_ok_Fexp K.F0 HF).
  apply (fresh_probe_is_tokenize_model Ha).
Qed.

(* ====================================================================================================================
   Correspondence entry: the instantiated machine run over a whole history (executable; used by the case files)
   ==================================================================================================================== *)
(* get_word_info_subset from the tables shipped with a case.  Which fields are filled under the subset L follows
   WordInfoParser::parse (Model/Codec.v parse_fields): the fields in file order, a string / array field is read when its
   flag is set and skipped otherwise, a fixed-size field is read whenever the parser gets that far, and the parser
   stops as soon as no requested flag is left. *)
Fixpoint parse_flags (fs : list (N * bool)) (flds : N) : list bool :=
  match fs with
  | [] => []
  | (bit, heavy) :: r =>
      if flds =? 0 then repeat false (S (List.length r))
      else (if heavy then N.testbit flds bit else true) :: parse_flags r (N.clearbit flds bit)
  end.
(* surface, head_word_length, pos_id, normalized_form, dictionary_form_word_id, reading_form, a, b, word_structure, synonyms *)
Definition field_layout : list (N * bool) :=
  [(0, true); (1, false); (2, false); (3, true); (4, false); (5, true); (6, true); (7, true); (8, true); (9, true)].

Definition gi_of_tables (winfos : list (N * T.winfo)) (hw : list (N * N)) (ua ub : list (N * list N)) (L w : N) : option C.winfo :=
  match find (fun x => N.eqb (fst x) w) winfos with
  | None => None
  | Some (_, wi) =>
      let fl := parse_flags field_layout L in
      let on (k : nat) := nth k fl false in
      Some (fun f => match f with
                     | C.F_surface => C.VText (if on 0%nat then T.wi_surf wi else [])
                     | C.F_hwlen => C.VNum (if on 1%nat then T.assoc hw 0 w else 0)
                     | C.F_pos => C.VNum (if on 2%nat then T.wi_pos wi else 0)
                     | C.F_norm => C.VText (if on 3%nat then T.wi_norm wi else [])
                     | C.F_dfwi => C.VInt (if on 4%nat then (-1)%Z else 0%Z)
                     | C.F_dicform => C.VText (if on 4%nat then T.wi_dform wi else [])
                     | C.F_reading => C.VText (if on 5%nat then T.wi_rform wi else [])
                     | C.F_a => C.VArr (if on 6%nat then T.assoc ua [] w else [])
                     | C.F_b => C.VArr (if on 7%nat then T.assoc ub [] w else [])
                     | C.F_ws | C.F_syn => C.VArr []
                     end)
  end.

(* one operation with what it shows: analyse -> (0, outcome, 0), collect -> (1, 0 / 2 = panic, number of nodes collected) *)
Definition step_ev (E : K.env) (o : K.op) (y : K.sys) : list (N * N * N) * K.sys :=
  match o with
  | K.OAnalyse t => let '(r, s') := K.analyse K.F0 E t (K.tk y) in ([(0, K.flag_of r, 0)], K.mkSys s' (K.lists y))
  | K.OCollect k =>
      match nth_error (K.lists y) k with
      | Some l => match K.collect (K.tk y) l with
                  | Some (s', l') => ([(1, 0, N.of_nat (List.length (K.l_nodes l')))], K.mkSys s' (K.set_nth k l' (K.lists y)))
                  | None => ([(1, 2, 0)], y)
                  end
      | None => ([], y)
      end
  | _ => ([], K.run_op K.F0 E o y)
  end.

Fixpoint run_ev (E : K.env) (ops : list K.op) (y : K.sys) : list (N * N * N) * K.sys :=
  match ops with
  | [] => ([], y)
  | o :: r => let '(e1, y1) := step_ev E o y in let '(e2, y2) := run_ev E r y1 in (e1 ++ e2, y2)
  end.

Definition ev_eqb (a b : N * N * N) : bool :=
  let '(x, y, z) := a in let '(x', y', z') := b in (x =? x') && (y =? y') && (z =? z').

(* One case: the instantiated machine replays the history (its outcomes and collected lengths must be the
   implementation's), then the probe; what the probe reports -- byte range in the original text and word id of every
   morpheme -- must be what the real tokenizer reported after the same history.  None = the real probe answered Err. *)
Definition check_conc (base : T.tokenizer) (winfos : list (N * T.winfo)) (hw : list (N * N)) (ua ub : list (N * list N))
           (m0 : K.tmode) (ops : list K.op) (events : list (N * N * N)) (t : K.text) (impl : option (list (N * N * N))) : bool :=
  let E := E_conc base (gi_of_tables winfos hw ua ub) in
  let '(evs, y) := run_ev E ops (K.mkSys (K.create m0) []) in
  H.list_eqb ev_eqb evs events &&
  match report_probe (K.probe K.F0 E t (K.tk y)), impl with
  | B.Ok ms, Some l => T.same_morphemes ms l
  | B.Err, None => true
  | _, _ => false
  end.
