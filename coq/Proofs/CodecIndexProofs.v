(* C05 — the route a user takes to an entry: index form -> index lookup -> word id -> fields.  Composes builder C's
   model of the index construction and of the lookup (Model/IndexBuild.v, Model/LexSet.v; C04_lookup_exact_of_index_model:
   lookup = naive scan of the rows) with the rows the lexicon reader parses (Model/CodecCsv.v). *)
From Coq Require Import List NArith ZArith Bool Lia ZifyBool ZifyNat ZifyN.
From SudachiVerif Require Import Model.Codec Model.CodecResolve Model.CodecCheck.
From SudachiVerif Require Model.LexSet Proofs.TrieProofs Proofs.LexSetProofs.
Import ListNotations.
Open Scope N_scope.

Arguments N.add : simpl never.
Arguments N.mul : simpl never.
Arguments N.div : simpl never.
Arguments N.modulo : simpl never.
Arguments N.ltb : simpl never.

Ltac Zify.zify_post_hook ::= Z.div_mod_to_equations.

(* the UTF-8 bytes of a text of scalar values are bytes, as many as utf8_len counts *)
Lemma utf8_of_cp_bytes : forall c, is_scalar c = true -> Forall (fun k => k < 256) (utf8_of_cp c).
Proof.
  intros c H. unfold is_scalar in H. unfold utf8_of_cp.
  destruct (c <? 128) eqn:E1; [repeat constructor; lia|].
  destruct (c <? 2048) eqn:E2; [repeat constructor; lia|].
  destruct (c <? 65536) eqn:E3; repeat constructor; lia.
Qed.

Lemma utf8_bytes_bytes : forall s, forallb is_scalar s = true -> TrieProofs.bytes (utf8_bytes s).
Proof.
  unfold TrieProofs.bytes, utf8_bytes. induction s as [|c t IH]; intros H; [constructor|].
  cbn [forallb] in H. apply andb_true_iff in H as [Hc Ht]. cbn [flat_map]. apply Forall_app.
  split; [apply utf8_of_cp_bytes; exact Hc|apply IH; exact Ht].
Qed.

Lemma utf8_bytes_length : forall s, N.of_nat (List.length (utf8_bytes s)) = utf8_len s.
Proof.
  unfold utf8_bytes, utf8_len. induction s as [|c t IH]; [reflexivity|].
  cbn [flat_map fold_right]. rewrite app_length, Nat2N.inj_add, IH. f_equal.
  unfold utf8_of_cp, utf8_width. destruct (c <? 128); [reflexivity|]. destruct (c <? 2048); [reflexivity|].
  destruct (c <? 65536); reflexivity.
Qed.

Lemma index_rows_nth : forall rrows k r, nth_error rrows k = Some r ->
  nth_error (index_rows_of rrows) k = Some (utf8_bytes (r_surface r), e_left (r_entry r)).
Proof. intros rrows k r H. unfold index_rows_of. rewrite nth_error_map, H. reflexivity. Qed.

Lemma index_rows_nth_inv : forall rrows k x, nth_error (index_rows_of rrows) k = Some x ->
  exists r, nth_error rrows k = Some r /\ x = (utf8_bytes (r_surface r), e_left (r_entry r)).
Proof.
  intros rrows k x H. unfold index_rows_of in H. rewrite nth_error_map in H.
  destruct (nth_error rrows k) as [r|]; [|discriminate]. inversion H. eauto.
Qed.

(* what a lookup that equals the naive scan returns for the index form of row k *)
Lemma lookup_own_id : forall rrows k r l,
  nth_error rrows k = Some r -> (0 <= e_left (r_entry r))%Z ->
  (forall w e, In (w, e) l <-> In (w, e) (LexSet.naive_lex 0 (index_rows_of rrows) (utf8_bytes (r_surface r)) 0)) ->
  In (LexSet.stamp 0 (N.of_nat k), utf8_len (r_surface r)) l /\
  forall w e, In (w, e) l ->
    exists j r', nth_error rrows j = Some r' /\ (0 <= e_left (r_entry r'))%Z /\ w = LexSet.stamp 0 (N.of_nat j) /\
                 TrieProofs.is_prefix (utf8_bytes (r_surface r')) (utf8_bytes (r_surface r)) /\ e = utf8_len (r_surface r').
Proof.
  intros rrows k r l Hk Hleft Hl. split.
  - apply Hl. apply LexSetProofs.naive_lex_in. exists (N.of_nat k), (utf8_bytes (r_surface r), e_left (r_entry r)).
    rewrite Nat2N.id. split; [apply index_rows_nth; exact Hk|]. split; [unfold LexSet.indexed; cbn [snd]; lia|].
    cbn [fst skipn]. split; [exists []; rewrite app_nil_r; reflexivity|]. split; [reflexivity|].
    cbn [Nat.add]. symmetry. apply utf8_bytes_length.
  - intros w e Hin. apply Hl in Hin. apply LexSetProofs.naive_lex_in in Hin.
    destruct Hin as (i & x & Hx & Hi & Hp & -> & ->). destruct (index_rows_nth_inv _ _ _ Hx) as (r' & Hr' & ->).
    cbn [fst snd skipn] in *. exists (N.to_nat i), r'. rewrite N2Nat.id.
    split; [exact Hr'|]. split; [unfold LexSet.indexed in Hi; cbn [snd] in Hi; lia|]. split; [reflexivity|]. split; [exact Hp|].
    cbn [Nat.add]. apply utf8_bytes_length.
Qed.

(* the composition, given the statement of C04_lookup_exact_of_index_model *)
From SudachiVerif Require Import Model.GuardLang Model.CodecCsv Proofs.CodecCsvProofs Proofs.CodecRowProofs.
From SudachiVerif Require Model.IndexBuild Generated.LexFacts.

Definition lookup_is_naive_scan : Prop :=
  forall L rows fuel, N.of_nat (List.length rows) <= 268435456 -> IndexBuild.index_cert L rows fuel = true ->
  forall dic text off, N.land dic Generated.LexFacts.DIC_MASK = dic -> TrieProofs.bytes text ->
  exists l, LexSet.lex_lookup L dic text off = Some l /\
            forall w e, In (w, e) l <-> In (w, e) (LexSet.naive_lex dic rows text off).

Lemma lookup_roundtrip_of : lookup_is_naive_scan -> pos_limit_ok = true -> word_mask_ok = true ->
  forall rows st rrows impl_trie impl_table fuel,
  Forall fields_scalar rows -> parse_records nil rows = ROk (st, rrows) ->
  N.of_nat (List.length rrows) <= 268435456 ->
  IndexBuild.index_cert (lex_of_sections impl_trie impl_table) (index_rows_of rrows) fuel = true ->
  forall k r, nth_error rrows k = Some r -> (0 <= e_left (r_entry r))%Z ->
  exists l,
    LexSet.lex_lookup (lex_of_sections impl_trie impl_table) 0 (utf8_bytes (r_surface r)) 0 = Some l /\
    In (LexSet.stamp 0 (N.of_nat k), utf8_len (r_surface r)) l /\
    forall w e, In (w, e) l ->
      exists j r', nth_error rrows j = Some r' /\ (0 <= e_left (r_entry r'))%Z /\ w = LexSet.stamp 0 (N.of_nat j) /\
                   TrieProofs.is_prefix (utf8_bytes (r_surface r')) (utf8_bytes (r_surface r)) /\ e = utf8_len (r_surface r').
Proof.
  intros HC04 HL HM rows st rrows impl_trie impl_table fuel Hsc Hparse Hlen Hcert k r Hk Hleft.
  assert (Hinv0 : pos_inv nil).
  { split; [constructor|]. pose proof HL as HL'. unfold pos_limit_ok in HL'.
    apply andb_true_iff in HL' as [HL' _]. apply andb_true_iff in HL' as [_ H0]. cbn. lia. }
  pose proof (parse_records_surfaces_scalar HL HM rows nil st rrows Hinv0 Hsc Hparse) as Hall.
  assert (Hs : forallb is_scalar (r_surface r) = true).
  { rewrite Forall_forall in Hall. apply Hall. eapply nth_error_In. exact Hk. }
  assert (Hlen' : N.of_nat (List.length (index_rows_of rrows)) <= 268435456) by (unfold index_rows_of; rewrite map_length; exact Hlen).
  destruct (HC04 _ _ _ Hlen' Hcert 0 (utf8_bytes (r_surface r)) 0%nat eq_refl (utf8_bytes_bytes _ Hs)) as (l & Hl & Hiff).
  exists l. split; [exact Hl|]. exact (lookup_own_id rrows k r l Hk Hleft Hiff).
Qed.
