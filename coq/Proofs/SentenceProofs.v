(* Lemmas for C16: the iterator (any detector), the model detector, terminators, brackets, dictionary words. *)
From Coq Require Import List NArith ZArith Bool Arith Lia ZifyBool ZifyNat ZifyN.
From SudachiVerif Require Import Model.Sentence Model.SentenceSpec.
Import ListNotations.

Arguments N.add : simpl never.
Arguments N.sub : simpl never.
Arguments N.mul : simpl never.
Arguments N.ltb : simpl never.
Arguments N.leb : simpl never.
Arguments N.eqb : simpl never.
Arguments is_period : simpl never.
Arguments is_dot : simpl never.
Arguments is_comma : simpl never.
Arguments is_an : simpl never.
Arguments is_open : simpl never.
Arguments is_close : simpl never.
Arguments is_cdot : simpl never.
Arguments is_more : simpl never.
Arguments is_prohibited : simpl never.
Arguments is_trailer : simpl never.
Arguments is_ws : simpl never.
Arguments width : simpl never.

(* ================= bytes ================= *)
Lemma width_pos c : 1 <= width c.
Proof. unfold width. destruct (c <? 128)%N, (c <? 2048)%N, (c <? 65536)%N; lia. Qed.

Lemma blen_app a b : blen (a ++ b) = blen a + blen b.
Proof. induction a as [|c a IH]; cbn [blen app]; lia. Qed.

Lemma blen_pos t : t <> [] -> 1 <= blen t.
Proof. destruct t as [|c r]; [congruence|]. intros _. cbn [blen]. pose proof (width_pos c). lia. Qed.

Lemma blen_firstn_le k t : blen (firstn k t) <= blen t.
Proof.
  rewrite <- (firstn_skipn k t) at 2. rewrite blen_app. lia.
Qed.

Lemma split_bytes_firstn k : forall t, k <= length t ->
  split_bytes (blen (firstn k t)) t = Some (firstn k t, skipn k t).
Proof.
  induction k as [|k IH]; intros t Hk.
  - cbn [firstn blen skipn]. destruct t; reflexivity.
  - destruct t as [|c r]; [cbn in Hk; lia|].
    cbn [firstn blen skipn split_bytes]. pose proof (width_pos c) as Hw.
    destruct (width c + blen (firstn k r) =? 0) eqn:E0; [lia|].
    destruct (width c <=? width c + blen (firstn k r)) eqn:E1; [|lia].
    replace (width c + blen (firstn k r) - width c) with (blen (firstn k r)) by lia.
    rewrite IH by (cbn in Hk; lia). reflexivity.
Qed.

Lemma split_bytes_sound : forall t b x y, split_bytes b t = Some (x, y) -> t = x ++ y /\ blen x = b.
Proof.
  induction t as [|c r IH]; intros b x y H; cbn [split_bytes] in H.
  - destruct (b =? 0) eqn:E; [|discriminate]. inversion H; subst. cbn. split; [reflexivity|lia].
  - destruct (b =? 0) eqn:E.
    + inversion H; subst. cbn. split; [reflexivity|lia].
    + destruct (width c <=? b) eqn:E1; [|discriminate].
      destruct (split_bytes (b - width c) r) as [[x' y']|] eqn:E2; [|discriminate].
      inversion H; subst. apply IH in E2. destruct E2 as [-> E2]. cbn [app blen]. split; [reflexivity|lia].
Qed.

(* prefixes of the same text with the same byte length are the same prefix *)
Lemma prefix_blen_inj : forall a b x y, a ++ x = b ++ y -> blen a = blen b -> a = b.
Proof.
  induction a as [|c a IH]; intros b x y H Hb.
  - destruct b as [|d b]; [reflexivity|]. cbn [blen] in Hb. pose proof (width_pos d). lia.
  - destruct b as [|d b].
    + cbn [blen] in Hb. pose proof (width_pos c). lia.
    + cbn [app] in H. inversion H; subst. f_equal. apply (IH b x y); [assumption|]. cbn [blen] in Hb. lia.
Qed.

Lemma firstn_add {A} a b (t : list A) : firstn (a + b) t = firstn a t ++ firstn b (skipn a t).
Proof.
  revert t; induction a as [|a IH]; intros t; [reflexivity|].
  destruct t as [|c r]; cbn [Nat.add firstn skipn app].
  - rewrite firstn_nil. reflexivity.
  - rewrite IH. reflexivity.
Qed.

(* ================= the iterator, for any detector ================= *)
Lemma iter_ok det : good_det det ->
  forall fuel rest pos, length rest <= fuel ->
    exists rs, iter det fuel pos rest = Done rs /\ tiles pos rest rs /\ length rs <= length rest.
Proof.
  intros G. induction fuel as [|f IH]; intros rest pos Hf.
  - destruct rest as [|c r]; [|cbn in Hf; lia].
    exists []. cbn. auto.
  - destruct rest as [|c r].
    + exists []. cbn. auto.
    + cbn [iter]. set (rest := c :: r) in *.
      assert (Hne : rest <> []) by (unfold rest; congruence).
      destruct (G rest Hne) as [Hneg | [k [Hk1 [Hk2 Hk]]]].
      * destruct (det rest <? 0)%Z eqn:E; [|lia].
        exists [(pos, pos + blen rest, rest)]. split; [reflexivity|]. split.
        -- cbn [tiles]. repeat split; try assumption. exists []. rewrite app_nil_r. split; reflexivity.
        -- unfold rest. cbn. lia.
      * destruct (det rest <? 0)%Z eqn:E; [lia|].
        rewrite Hk. rewrite Nat2Z.id. rewrite split_bytes_firstn by assumption.
        destruct (IH (skipn k rest) (pos + blen (firstn k rest))) as [rs [E1 [E2 E3]]].
        { rewrite skipn_length. unfold rest in *. cbn [length] in *. lia. }
        rewrite E1. cbn [iter_cons].
        exists ((pos, pos + blen (firstn k rest), firstn k rest) :: rs). split; [reflexivity|]. split.
        -- cbn [tiles]. split; [reflexivity|]. split.
           ++ unfold rest. destruct k; [lia|]. cbn. congruence.
           ++ split; [reflexivity|]. exists (skipn k rest). split; [symmetry; apply firstn_skipn|assumption].
        -- rewrite skipn_length in E3. cbn [length]. unfold rest in *. cbn [length] in *. lia.
Qed.

Lemma split_with_ok det data : good_det det ->
  exists rs, split_with det data = Done rs /\ length rs <= length data /\ tiles 0 data rs.
Proof.
  intros G. destruct (iter_ok det G (length data) data 0 (le_n _)) as [rs [A [B C]]].
  exists rs. auto.
Qed.

(* what `tiles` means, spelled out *)
Lemma tiles_concat : forall rs pos data, tiles pos data rs -> concat (map snd rs) = data.
Proof.
  induction rs as [|[[b e] sl] tl IH]; intros pos data H; cbn [tiles] in H.
  - subst. reflexivity.
  - destruct H as [_ [_ [_ [rest [-> H]]]]]. cbn [map concat snd]. rewrite (IH _ _ H). reflexivity.
Qed.

Lemma tiles_chain : forall rs pos data, tiles pos data rs -> chain pos (pos + blen data) rs.
Proof.
  induction rs as [|[[b e] sl] tl IH]; intros pos data H; cbn [tiles] in H; cbn [chain].
  - subst. cbn. lia.
  - destruct H as [-> [_ [-> [rest [-> H]]]]]. split; [reflexivity|].
    apply IH in H. rewrite blen_app. replace (pos + (blen sl + blen rest)) with (pos + blen sl + blen rest) by lia. exact H.
Qed.

Lemma tiles_ranges_gen : forall rs pos data, tiles pos data rs ->
  Forall (fun x => let '(b, e, sl) := x in
            exists k1 k2, k1 < k2 /\ k2 <= length data /\ b = pos + blen (firstn k1 data) /\ e = pos + blen (firstn k2 data)
                          /\ b < e /\ sl = firstn (k2 - k1) (skipn k1 data)) rs.
Proof.
  induction rs as [|[[b e] sl] tl IH]; intros pos data H; cbn [tiles] in H; [constructor|].
  destruct H as [-> [Hne [-> [rest [-> H]]]]].
  assert (Hl : 1 <= length sl) by (destruct sl; [congruence|cbn; lia]).
  constructor.
  - exists 0, (length sl). rewrite app_length. cbn [firstn blen skipn].
    rewrite firstn_app, Nat.sub_diag, firstn_all. cbn [firstn]. rewrite app_nil_r.
    pose proof (blen_pos sl Hne).
    repeat split; try lia.
    rewrite Nat.sub_0_r. rewrite firstn_app, Nat.sub_diag, firstn_all. cbn [firstn]. rewrite app_nil_r. reflexivity.
  - apply IH in H. rewrite Forall_forall in *. intros [[b e] s2] Hin. specialize (H _ Hin). cbn beta iota in H.
    destruct H as [k1 [k2 [A [B [C [D [E G]]]]]]].
    exists (length sl + k1), (length sl + k2). rewrite app_length.
    assert (F1 : forall k, firstn (length sl + k) (sl ++ rest) = sl ++ firstn k rest).
    { intros k. rewrite firstn_app. rewrite firstn_all2 by lia. replace (length sl + k - length sl) with k by lia. reflexivity. }
    rewrite !F1, !blen_app.
    repeat split; try lia.
    rewrite skipn_app. rewrite skipn_all2 by lia. cbn [app].
    replace (length sl + k1 - length sl) with k1 by lia.
    replace (length sl + k2 - (length sl + k1)) with (k2 - k1) by lia. exact G.
Qed.

Lemma tiles_ranges rs data : tiles 0 data rs -> Forall (range_of data) rs.
Proof.
  intros H. apply tiles_ranges_gen in H. rewrite Forall_forall in *. intros [[b e] sl] Hin.
  specialize (H _ Hin). cbn beta iota in H. unfold range_of. destruct H as [k1 [k2 H]]. exists k1, k2.
  cbn [Nat.add] in H. exact H.
Qed.

Lemma iter_steps det : forall fuel rest pos rs, iter det fuel pos rest = Done rs -> steps det rest rs.
Proof.
  induction fuel as [|f IH]; intros rest pos rs H.
  - destruct rest; cbn in H; [inversion H; reflexivity|discriminate].
  - destruct rest as [|c r]; [cbn in H; inversion H; reflexivity|].
    cbn [iter] in H. set (rest := c :: r) in *.
    assert (Hne : rest <> []) by (unfold rest; congruence).
    destruct (det rest <? 0)%Z eqn:E.
    + inversion H; subst. cbn [steps]. split; [assumption|]. left. repeat split. lia.
    + destruct (split_bytes (Z.to_nat (det rest)) rest) as [[a b]|] eqn:E1; [|discriminate].
      destruct (iter det f (pos + Z.to_nat (det rest)) b) as [rs'| |] eqn:E2; cbn [iter_cons] in H; try discriminate.
      inversion H; subst. cbn [steps]. split; [assumption|]. right.
      apply split_bytes_sound in E1. destruct E1 as [E1 E3].
      split; [lia|]. split; [lia|]. exists b. split; [assumption|]. eapply IH; eassumption.
Qed.

(* ================= matchers ================= *)
Lemma span_le p : forall t, span p t <= length t.
Proof. induction t as [|c r IH]; cbn [span length]; [lia|]. destruct (p c); lia. Qed.

Lemma span_Forall p : forall t, Forall (fun c => p c = true) (firstn (span p t) t).
Proof.
  induction t as [|c r IH]; cbn [span]; [constructor|].
  destruct (p c) eqn:E; cbn [firstn]; [constructor; assumption|constructor].
Qed.

Lemma Forall_eq_repeat (x : N) : forall l, Forall (fun c => c = x) l -> l = repeat x (length l).
Proof. induction l as [|c l IH]; intros H; [reflexivity|]. inversion H; subst. cbn. f_equal. auto. Qed.

Lemma starts_with_spec : forall w t, starts_with w t = true -> firstn (length w) t = w /\ length w <= length t.
Proof.
  induction w as [|a w IH]; intros t H; cbn [starts_with] in H.
  - cbn. split; [reflexivity|lia].
  - destruct t as [|b t]; [discriminate|]. destruct (a =? b)%N eqn:E; [|discriminate].
    apply IH in H. destruct H as [H1 H2]. cbn [length firstn]. rewrite H1. split; [f_equal; lia|lia].
Qed.

Lemma first_tag_spec : forall tags t l, first_tag tags t = Some l ->
  exists w, In w tags /\ length w = l /\ firstn l t = w /\ l <= length t.
Proof.
  induction tags as [|w tl IH]; intros t l H; cbn [first_tag] in H; [discriminate|].
  destruct (starts_with w t) eqn:E.
  - inversion H; subst. apply starts_with_spec in E. exists w. cbn. intuition.
  - destruct (IH _ _ H) as [w' [A B]]. exists w'. cbn. intuition.
Qed.

Lemma tags_run_spec : forall fuel t, 
  exists ts, length ts = fst (tags_run fuel t) /\ Forall (fun w => In w F.BR_TAGS) ts
             /\ firstn (snd (tags_run fuel t)) t = concat ts /\ snd (tags_run fuel t) <= length t.
Proof.
  induction fuel as [|f IH]; intros t; cbn [tags_run].
  - exists []. cbn. repeat split; [constructor|lia].
  - destruct (first_tag F.BR_TAGS t) as [[|l]|] eqn:E.
    + exists []. cbn. repeat split; [constructor|lia].
    + cbn [fst snd]. destruct (first_tag_spec _ _ _ E) as [w [A [B [C D]]]].
      destruct (IH (skipn (S l) t)) as [ts [T1 [T2 [T3 T4]]]].
      exists (w :: ts). cbn [length concat]. split; [lia|]. split; [constructor; assumption|].
      rewrite skipn_length in T4. split; [|lia].
      rewrite firstn_add. rewrite C, T3. reflexivity.
    + exists []. cbn. repeat split; [constructor|lia].
Qed.

Lemma firstn_S_cons {A} n (c : A) r : firstn (S n) (c :: r) = [c] ++ firstn n r.
Proof. reflexivity. Qed.

Lemma more_trailer c : is_more c = true -> trailer c.
Proof. unfold is_more, trailer, is_trailer. intros H. lia. Qed.

Lemma prohibited_trailer c : is_prohibited c = true -> trailer c.
Proof. unfold is_prohibited, trailer, is_trailer. intros H. lia. Qed.

Lemma span_more_trailers t : Forall trailer (firstn (span is_more t) t).
Proof. eapply Forall_impl; [|apply span_Forall]. intros c. apply more_trailer. Qed.

(* a match of SENTENCE_BREAKER at the head of t: m characters, 1 <= m <= |t|, a terminator followed by trailers *)
Definition breaker_shape (t : text) (m : nat) : Prop :=
  1 <= m /\ m <= length t /\
  exists term ex, firstn m t = term ++ ex /\ is_terminator term /\ Forall trailer ex.

Lemma m_period_shape t m : m_period t = Some m -> breaker_shape t m.
Proof.
  unfold m_period. destruct t as [|c r]; [discriminate|]. destruct (is_period c) eqn:E; [|discriminate].
  intros H; inversion H; subst. pose proof (span_le is_more r). unfold breaker_shape. cbn [length].
  split; [lia|]. split; [lia|]. exists [c], (firstn (span is_more r) r). rewrite firstn_S_cons.
  split; [reflexivity|]. split; [apply T_period; assumption|apply span_more_trailers].
Qed.

Lemma m_dot_shape pv t m : m_dot pv t = Some m -> breaker_shape t m.
Proof.
  unfold m_dot. destruct t as [|c r]; [discriminate|]. destruct (is_dot c) eqn:E; [|discriminate].
  destruct (match pv with Some p => is_an p | None => false end); [discriminate|].
  destruct (match r with d :: _ => is_an d || is_comma d | [] => false end); [discriminate|].
  intros H; inversion H; subst. pose proof (span_le is_more r). unfold breaker_shape. cbn [length].
  split; [lia|]. split; [lia|]. exists [c], (firstn (span is_more r) r). rewrite firstn_S_cons.
  split; [reflexivity|]. split; [apply T_dot; assumption|apply span_more_trailers].
Qed.

Lemma m_cdots_shape t m : m_cdots t = Some m -> breaker_shape t m.
Proof.
  unfold m_cdots. destruct t as [|c r]; [discriminate|]. destruct (is_cdot c) eqn:E; [|discriminate].
  set (t := c :: r). set (n := span is_cdot t).
  destruct (F.CDOTS_MIN <=? n) eqn:E1; [|discriminate].
  intros H; inversion H; subst m. clear H.
  assert (Hn1 : 1 <= n) by (unfold n, t; cbn [span]; rewrite E; lia).
  pose proof (span_le is_cdot t) as Hn2. fold n in Hn2.
  pose proof (span_le is_more (skipn n t)) as Hn3. rewrite skipn_length in Hn3.
  unfold breaker_shape. split; [lia|]. split; [lia|].
  exists (repeat F.CDOT n), (firstn (span is_more (skipn n t)) (skipn n t)).
  split.
  - rewrite firstn_add. f_equal.
    pose proof (span_Forall is_cdot t) as HF. fold n in HF.
    assert (HF' : Forall (fun c => c = F.CDOT) (firstn n t)).
    { eapply Forall_impl; [|exact HF]. intros a Ha. unfold is_cdot in Ha. lia. }
    apply Forall_eq_repeat in HF'. rewrite firstn_length in HF'. rewrite Nat.min_l in HF' by lia. exact HF'.
  - split; [apply T_cdots; lia|apply span_more_trailers].
Qed.

Lemma m_br_shape t m : m_br t = Some m -> breaker_shape t m.
Proof.
  unfold m_br. destruct t as [|c r]; [discriminate|].
  destruct (existsb _ F.BR_TAGS); [|discriminate].
  set (t := c :: r). destruct (tags_run_spec (length t) t) as [ts [T1 [T2 [T3 T4]]]].
  destruct (F.BR_MIN <=? fst (tags_run (length t) t)) eqn:E; [|discriminate].
  destruct (snd (tags_run (length t) t)) as [|m'] eqn:E2; [discriminate|].
  intros H; inversion H; subst m. unfold breaker_shape. split; [lia|]. split; [lia|].
  exists (concat ts), []. rewrite app_nil_r. split; [assumption|]. split; [|constructor].
  apply T_br; [lia|assumption|].
  intros Hc. rewrite Hc in T3. unfold t in T3. cbn in T3. discriminate.
Qed.

Lemma breaker_len_shape pv t m : breaker_len pv t = Some m -> breaker_shape t m.
Proof.
  unfold breaker_len, or_else.
  destruct (m_period t) eqn:E1; [intros H; inversion H; subst; apply m_period_shape; assumption|].
  destruct (m_cdots t) eqn:E2; [intros H; inversion H; subst; apply m_cdots_shape; assumption|].
  destruct (m_dot pv t) eqn:E3; [intros H; inversion H; subst; eapply m_dot_shape; eassumption|].
  apply m_br_shape.
Qed.

(* ================= find_iter ================= *)
Lemma scan_find_eq {B} (f : nat -> option B) : forall rest skip prev i,
  scan_find f skip prev i rest = first_some f (scan skip prev i rest).
Proof.
  induction rest as [|c tl IH]; intros skip prev i; [reflexivity|].
  cbn [scan_find scan]. destruct skip as [|k]; [|apply IH].
  destruct (breaker_len prev (c :: tl)) as [[|m]|]; [apply IH| |apply IH].
  cbn [first_some]. destruct (f (i + S m)); [reflexivity|apply IH].
Qed.

Lemma first_some_In {A B} (f : A -> option B) : forall l r, first_some f l = Some r -> exists x, In x l /\ f x = Some r.
Proof.
  induction l as [|x l IH]; intros r H; cbn [first_some] in H; [discriminate|].
  destruct (f x) eqn:E.
  - inversion H; subst. exists x. cbn. auto.
  - destruct (IH _ H) as [y [A1 A2]]. exists y. cbn. auto.
Qed.

Lemma first_some_None {A B} (f : A -> option B) : forall l, first_some f l = None -> forall x, In x l -> f x = None.
Proof.
  induction l as [|y l IH]; intros H x Hx; [contradiction|]. cbn [first_some] in H.
  destruct (f y) eqn:E; [discriminate|]. destruct Hx as [->|Hx]; [assumption|]. apply IH; assumption.
Qed.

(* the first accepted candidate: everything before it was rejected *)
Lemma first_some_split {A B} (f : A -> option B) : forall l r, first_some f l = Some r ->
  exists l1 x l2, l = l1 ++ x :: l2 /\ f x = Some r /\ forall y, In y l1 -> f y = None.
Proof.
  induction l as [|x l IH]; intros r H; cbn [first_some] in H; [discriminate|].
  destruct (f x) eqn:E.
  - inversion H; subst. exists [], x, l. cbn. intuition.
  - destruct (IH _ H) as [l1 [y [l2 [A1 [A2 A3]]]]]. exists (x :: l1), y, l2. subst. cbn. split; [reflexivity|].
    split; [assumption|]. intros z [<-|Hz]; auto.
Qed.

(* every candidate is the end of a breaker match somewhere in the window *)
Lemma scan_In : forall rest skip prev pre e, In e (scan skip prev (length pre) rest) ->
  exists pre' rest' pv m, pre ++ rest = pre' ++ rest' /\ breaker_len pv rest' = Some m /\ e = length pre' + m.
Proof.
  induction rest as [|c tl IH]; intros skip prev pre e H; cbn [scan] in H; [contradiction|].
  assert (Hstep : forall sk pv, In e (scan sk pv (S (length pre)) tl) ->
            exists pre' rest' pv' m, pre ++ c :: tl = pre' ++ rest' /\ breaker_len pv' rest' = Some m /\ e = length pre' + m).
  { intros sk pv Hin. replace (S (length pre)) with (length (pre ++ [c])) in Hin by (rewrite app_length; cbn; lia).
    destruct (IH _ _ _ _ Hin) as [p' [r' [pv' [m [A [B C]]]]]]. exists p', r', pv', m.
    rewrite <- app_assoc in A. cbn in A. auto. }
  destruct skip as [|k]; [|eapply Hstep; eassumption].
  destruct (breaker_len prev (c :: tl)) as [[|m]|] eqn:E; try (eapply Hstep; eassumption).
  destruct H as [<-|H]; [|eapply Hstep; eassumption].
  exists pre, (c :: tl), prev, (S m). auto.
Qed.

Lemma candidates_shape s e : In e (candidates s) ->
  exists pre' rest' m, s = pre' ++ rest' /\ breaker_shape rest' m /\ e = length pre' + m.
Proof.
  unfold candidates. intros H. change 0 with (length (@nil N)) in H.
  destruct (scan_In _ _ _ _ _ H) as [p [r [pv [m [A [B C]]]]]]. cbn in A.
  exists p, r, m. split; [assumption|]. split; [eapply breaker_len_shape; eassumption|assumption].
Qed.

Lemma candidates_bounds s e : In e (candidates s) -> 1 <= e /\ e <= length s.
Proof.
  intros H. destruct (candidates_shape _ _ H) as [p [r [m [-> [[A [B _]] ->]]]]]. rewrite app_length. lia.
Qed.

Lemma candidates_terminator s e : In e (candidates s) -> ends_with_terminator (firstn e s).
Proof.
  intros H. destruct (candidates_shape _ _ H) as [p [r [m [-> [[A [B [term [ex [C [D E]]]]]] ->]]]]].
  exists p, term, ex. split; [|auto].
  rewrite firstn_app. rewrite firstn_all2 by lia. replace (length p + m - length p) with m by lia. rewrite C. reflexivity.
Qed.

(* ================= the candidate loop ================= *)
Lemma plevel_app : forall a b lv, plevel lv (a ++ b) = plevel (plevel lv a) b.
Proof. induction a as [|c a IH]; intros b lv; cbn [app plevel]; [reflexivity|apply IH]. Qed.

Lemma plevel_no_open : forall b, Forall (fun c => is_open c = false) b -> plevel 0 b = 0.
Proof.
  induction b as [|c b IH]; intros H; [reflexivity|]. inversion H; subst. cbn [plevel]. rewrite H2.
  destruct (is_close c); cbn [pred]; auto.
Qed.

(* what an accepted candidate guarantees *)
Lemma accept_spec ck input s e eos : e <= length s -> accept ck input s e = Some eos ->
  e <= eos /\ eos <= length s /\
  plevel 0 (firstn e s) = 0 /\
  firstn eos s = firstn e s ++ firstn (eos - e) (skipn e s) /\
  Forall (fun c => is_prohibited c = true) (firstn (eos - e) (skipn e s)) /\
  (eos < length s -> continuous s eos = false) /\
  (forall lk, ck = Some lk -> has_non_break_word lk input eos = false).
Proof.
  intros He. unfold accept.
  destruct (0 <? plevel 0 (firstn e s)) eqn:E0; [discriminate|].
  set (eos' := if e <? length s then e + prohibited_bos (skipn e s) else e).
  destruct (itemize_header s); [discriminate|].
  destruct (if eos' <? length s then continuous s eos' else false) eqn:E2; [discriminate|].
  assert (Hb : e <= eos' /\ eos' <= length s /\ eos' - e <= span is_prohibited (skipn e s) /\
               (eos' - e = span is_prohibited (skipn e s) \/ eos' = e)).
  { unfold eos', prohibited_bos. pose proof (span_le is_prohibited (skipn e s)) as Hs. rewrite skipn_length in Hs.
    destruct (e <? length s) eqn:E; lia. }
  destruct Hb as [B1 [B2 [B3 B4]]].
  assert (Hcommon : e <= eos' /\ eos' <= length s /\ plevel 0 (firstn e s) = 0 /\
     firstn eos' s = firstn e s ++ firstn (eos' - e) (skipn e s) /\
     Forall (fun c => is_prohibited c = true) (firstn (eos' - e) (skipn e s)) /\
     (eos' < length s -> continuous s eos' = false)).
  { split; [assumption|]. split; [assumption|]. split; [lia|]. split.
    - replace eos' with (e + (eos' - e)) at 1 by lia. apply firstn_add.
    - split.
      + destruct B4 as [B4|B4].
        * rewrite B4. apply span_Forall.
        * replace (eos' - e) with 0 by lia. constructor.
      + intros Hlt. destruct (eos' <? length s) eqn:E; [assumption|lia]. }
  destruct ck as [lk|].
  - destruct (has_non_break_word lk input eos') eqn:E3; [discriminate|].
    intros H; inversion H; subst eos. destruct Hcommon as [C1 [C2 [C3 [C4 [C5 C6]]]]].
    repeat split; try assumption. intros lk' Hlk. inversion Hlk; subst. assumption.
  - intros H; inversion H; subst eos. destruct Hcommon as [C1 [C2 [C3 [C4 [C5 C6]]]]].
    repeat split; try assumption. intros lk' Hlk. discriminate.
Qed.

(* ================= SPACES ================= *)
Lemma line_scan_pos : forall t i acc e, 1 <= i -> (forall a, acc = Some a -> 1 <= a) -> line_scan i t acc = Some e -> 1 <= e.
Proof.
  induction t as [|c r IH]; intros i acc e Hi Hacc H; cbn [line_scan] in H.
  - auto.
  - destruct (c =? 10)%N.
    + inversion H. lia.
    + eapply (IH (S i)); [lia| |exact H]. intros a Ha. destruct (is_ws c); [inversion Ha; lia|auto].
Qed.

Lemma spaces_from_pos : forall t i e, spaces_from i t = Some e -> 1 <= e.
Proof.
  induction t as [|c r IH]; intros i e H; cbn [spaces_from] in H; [discriminate|].
  destruct (c =? 10)%N; [eapply IH; eassumption|].
  eapply line_scan_pos; [| |exact H]; [lia|intros a Ha; discriminate].
Qed.

(* ================= get_eos ================= *)
Lemma firstn_firstn_le {A} a b (t : list A) : a <= b -> firstn a (firstn b t) = firstn a t.
Proof. intros H. rewrite firstn_firstn. rewrite Nat.min_l by lia. reflexivity. Qed.

(* the two ways get_eos can answer on non-empty input with a window of at least one character *)
Lemma get_eos_cases limit ck input : input <> [] -> 1 <= limit ->
  let s := firstn limit input in
  (first_some (accept ck input s) (candidates s) = None /\ (get_eos limit ck input < 0)%Z)
  \/ (exists eos, first_some (accept ck input s) (candidates s) = Some eos /\
                  get_eos limit ck input = Z.of_nat (blen (firstn eos input)) /\ 1 <= eos /\ eos <= length s).
Proof.
  intros Hne Hl s. unfold get_eos. destruct input as [|c0 r0]; [congruence|]. cbv iota.
  set (input := c0 :: r0) in *. fold s. rewrite scan_find_eq. fold (candidates s).
  assert (Hs : s <> []). { unfold s, input. destruct limit; [lia|]. cbn. congruence. }
  destruct (first_some (accept ck input s) (candidates s)) as [eos|] eqn:E.
  - right. exists eos. split; [reflexivity|].
    destruct (first_some_In _ _ _ E) as [e [A1 A2]].
    destruct (candidates_bounds _ _ A1) as [B1 B2].
    destruct (accept_spec _ _ _ _ _ B2 A2) as [C1 [C2 _]].
    split; [|lia]. f_equal. f_equal. unfold s. apply firstn_firstn_le.
    unfold s in C2. rewrite firstn_length in C2. lia.
  - left. split; [reflexivity|].
    pose proof (blen_pos s Hs) as Hp.
    destruct (if length s <? length input then spaces_end s else None) as [e|] eqn:E2; [|lia].
    destruct (length s <? length input); [|discriminate].
    apply spaces_from_pos in E2.
    assert (firstn e s <> []). { destruct s; [congruence|]. destruct e; [lia|]. cbn. congruence. }
    pose proof (blen_pos _ H). lia.
Qed.

Lemma get_eos_good_det limit ck : 1 <= limit -> good_det (get_eos limit ck).
Proof.
  intros Hl t Hne. destruct (get_eos_cases limit ck t Hne Hl) as [[_ H]|[eos [_ [H [H1 H2]]]]].
  - left. assumption.
  - right. exists eos. rewrite firstn_length in H2. split; [assumption|]. split; [lia|assumption].
Qed.

(* a positive answer: where it comes from *)
Lemma get_eos_positive limit ck input : input <> [] -> 1 <= limit -> (0 <= get_eos limit ck input)%Z ->
  let s := firstn limit input in
  exists e eos l1 l2,
    candidates s = l1 ++ e :: l2 /\ (forall y, In y l1 -> accept ck input s y = None) /\
    accept ck input s e = Some eos /\ 1 <= e /\ e <= eos /\ eos <= length s /\
    get_eos limit ck input = Z.of_nat (blen (firstn eos input)) /\ firstn eos s = firstn eos input.
Proof.
  intros Hne Hl Hpos s. destruct (get_eos_cases limit ck input Hne Hl) as [[_ H]|[eos [E [H [H1 H2]]]]]; [lia|].
  fold s in E, H2. destruct (first_some_split _ _ _ E) as [l1 [e [l2 [A1 [A2 A3]]]]].
  assert (Hin : In e (candidates s)) by (rewrite A1; apply in_or_app; right; left; reflexivity).
  destruct (candidates_bounds _ _ Hin) as [B1 B2].
  destruct (accept_spec _ _ _ _ _ B2 A2) as [C1 [C2 _]].
  exists e, eos, l1, l2. repeat split; try assumption.
  unfold s. apply firstn_firstn_le. unfold s in C2. rewrite firstn_length in C2. lia.
Qed.

(* ---- break only after a terminator ---- *)
Lemma ends_with_terminator_extend t ex : ends_with_terminator t -> Forall trailer ex -> ends_with_terminator (t ++ ex).
Proof.
  intros [pre [term [tail [-> [A B]]]]] H. exists pre, term, (tail ++ ex).
  rewrite <- !app_assoc. split; [reflexivity|]. split; [assumption|]. apply Forall_app. auto.
Qed.

Lemma get_eos_after_terminator limit ck input : input <> [] -> 1 <= limit -> (0 <= get_eos limit ck input)%Z ->
  exists k, 1 <= k /\ k <= length input /\ get_eos limit ck input = Z.of_nat (blen (firstn k input)) /\
            ends_with_terminator (firstn k input).
Proof.
  intros Hne Hl Hpos. destruct (get_eos_positive limit ck input Hne Hl Hpos) as [e [eos [l1 [l2 [A1 [A2 [A3 [A4 [A5 [A6 [A7 A8]]]]]]]]]]].
  set (s := firstn limit input) in *.
  assert (Hin : In e (candidates s)) by (rewrite A1; apply in_or_app; right; left; reflexivity).
  destruct (candidates_bounds _ _ Hin) as [B1 B2].
  destruct (accept_spec _ _ _ _ _ B2 A3) as [C1 [C2 [C3 [C4 [C5 _]]]]].
  exists eos. split; [lia|]. split.
  - unfold s in A6. rewrite firstn_length in A6. lia.
  - split; [assumption|]. rewrite <- A8, C4. apply ends_with_terminator_extend.
    + apply candidates_terminator. assumption.
    + eapply Forall_impl; [|exact C5]. intros c. apply prohibited_trailer.
Qed.

(* ---- no break inside an open bracket ---- *)
Definition prohibited_not_open : Prop := forall c, is_prohibited c = true -> is_open c = false.

Lemma get_eos_bracket limit ck input : prohibited_not_open ->
  input <> [] -> 1 <= limit -> (0 <= get_eos limit ck input)%Z ->
  exists k, 1 <= k /\ k <= length input /\ get_eos limit ck input = Z.of_nat (blen (firstn k input)) /\
            plevel 0 (firstn k input) = 0.
Proof.
  intros PNO Hne Hl Hpos. destruct (get_eos_positive limit ck input Hne Hl Hpos) as [e [eos [l1 [l2 [A1 [A2 [A3 [A4 [A5 [A6 [A7 A8]]]]]]]]]]].
  set (s := firstn limit input) in *.
  assert (Hin : In e (candidates s)) by (rewrite A1; apply in_or_app; right; left; reflexivity).
  destruct (candidates_bounds _ _ Hin) as [B1 B2].
  destruct (accept_spec _ _ _ _ _ B2 A3) as [C1 [C2 [C3 [C4 [C5 _]]]]].
  exists eos. split; [lia|]. split.
  - unfold s in A6. rewrite firstn_length in A6. lia.
  - split; [assumption|]. rewrite <- A8, C4, plevel_app, C3. apply plevel_no_open.
    eapply Forall_impl; [|exact C5]. intros c. apply PNO.
Qed.

(* class disjointness, decidable on the generated range lists *)
Definition overlap (r1 r2 : N * N) : bool := ((fst r1 <=? snd r2) && (fst r2 <=? snd r1))%N.
Definition cls_disjointb (a b : cls) : bool :=
  forallb (fun x => negb (in_ranges b x)) (fst a)
  && forallb (fun r => forallb (fun y => negb (in_range y r)) (fst b) && forallb (fun r2 => negb (overlap r r2)) (snd b)) (snd a).

Lemma in_list_true l c : in_list l c = true <-> In c l.
Proof.
  unfold in_list. rewrite existsb_exists. split.
  - intros [x [A B]]. assert (c = x) by lia. subst. assumption.
  - intros H. exists c. split; [assumption|lia].
Qed.

Lemma cls_disjointb_sound a b c : cls_disjointb a b = true -> in_ranges a c = true -> in_ranges b c = false.
Proof.
  unfold cls_disjointb. rewrite andb_true_iff, !forallb_forall. intros [H1 H2] Ha.
  unfold in_ranges in Ha. destruct (in_list (fst a) c) eqn:E.
  - apply in_list_true in E. specialize (H1 _ E). destruct (in_ranges b c); [discriminate|reflexivity].
  - rewrite existsb_exists in Ha. destruct Ha as [r [R1 R2]]. specialize (H2 _ R1).
    rewrite andb_true_iff, !forallb_forall in H2. destruct H2 as [H2 H3].
    unfold in_ranges. destruct (in_list (fst b) c) eqn:E2.
    + apply in_list_true in E2. specialize (H2 _ E2). rewrite R2 in H2. discriminate.
    + destruct (existsb (in_range c) (snd b)) eqn:E3; [|reflexivity].
      rewrite existsb_exists in E3. destruct E3 as [r2 [Q1 Q2]]. specialize (H3 _ Q1).
      unfold overlap in H3. unfold in_range in R2, Q2.
      destruct (fst r <=? c)%N eqn:X1; [|discriminate]. destruct (fst r2 <=? c)%N eqn:X2; [|discriminate]. lia.
Qed.

Definition prohibited_not_open_b : bool :=
  cls_disjointb F.CLOSE_PARENTHESIS F.OPEN_PARENTHESIS && cls_disjointb F.COMMA F.OPEN_PARENTHESIS
  && cls_disjointb F.PERIODS F.OPEN_PARENTHESIS.

Lemma prohibited_not_open_of_b : prohibited_not_open_b = true -> prohibited_not_open.
Proof.
  unfold prohibited_not_open_b, prohibited_not_open. rewrite !andb_true_iff. intros [[H1 H2] H3] c Hc.
  unfold is_prohibited in Hc. unfold is_open.
  destruct (is_close c) eqn:E1; [eapply cls_disjointb_sound; [exact H1|exact E1]|].
  destruct (is_comma c) eqn:E2; [eapply cls_disjointb_sound; [exact H2|exact E2]|].
  destruct (is_period c) eqn:E3; [eapply cls_disjointb_sound; [exact H3|exact E3]|].
  discriminate.
Qed.

(* ================= dictionary words ================= *)
Lemma crosses_multichar rem l : 1 <= rem -> crosses rem l = true -> 1 < l.
Proof. unfold crosses. intros H1 H. lia. Qed.

(* a rejected candidate: no word starting inside the look-back window crosses it / ends on it with > 1 character *)
Lemma nb_scan_false lk : forall rem skipb t d l,
  nb_scan lk rem skipb t = false -> d < rem -> d < length t -> skipb <= blen (firstn d t) ->
  In l (lk (skipn d t)) -> crosses (rem - d) l = false.
Proof.
  induction rem as [|rem IH]; intros skipb t d l H Hd Hdt Hsk Hin; [lia|].
  destruct t as [|c r]; [cbn in Hdt; lia|]. cbn [nb_scan] in H.
  destruct (match skipb with 0 => existsb (crosses (S rem)) (lk (c :: r)) | S _ => false end) eqn:E; [discriminate|].
  destruct d as [|d].
  - cbn [firstn blen] in Hsk. assert (skipb = 0) by lia. subst skipb. cbn [skipn] in Hin.
    rewrite Nat.sub_0_r. destruct (crosses (S rem) l) eqn:Ec; [|reflexivity].
    assert (existsb (crosses (S rem)) (lk (c :: r)) = true) by (apply existsb_exists; exists l; auto). congruence.
  - cbn [skipn] in Hin. cbn [firstn blen] in Hsk. cbn [length] in Hdt.
    replace (S rem - S d) with (rem - d) by lia.
    eapply IH; [exact H|lia|lia| |exact Hin]. lia.
Qed.

Lemma has_non_break_word_false lk input k j l :
  has_non_break_word lk input k = false -> k <= length input ->
  word_across lk input k j l -> in_lookback input k j -> False.
Proof.
  unfold has_non_break_word, word_across, in_lookback. intros H Hk [Hj [Hin Hc]] Hlb.
  pose proof (nb_scan_false lk _ _ _ j l H Hj ltac:(lia) Hlb Hin) as Hf. unfold crosses in Hf. lia.
Qed.

(* a veto always comes from a word of more than one character *)
Lemma nb_scan_true lk : forall rem skipb t, nb_scan lk rem skipb t = true ->
  exists d l, d < rem /\ d < length t /\ In l (lk (skipn d t)) /\ crosses (rem - d) l = true /\ 1 < l.
Proof.
  induction rem as [|rem IH]; intros skipb t H; [discriminate|].
  destruct t as [|c r]; [discriminate|]. cbn [nb_scan] in H.
  destruct (match skipb with 0 => existsb (crosses (S rem)) (lk (c :: r)) | S _ => false end) eqn:E.
  - destruct skipb; [|discriminate]. rewrite existsb_exists in E. destruct E as [l [A B]].
    exists 0, l. cbn [skipn length]. rewrite Nat.sub_0_r. repeat split; try lia; try assumption.
    eapply crosses_multichar; [|exact B]. lia.
  - destruct (IH _ _ H) as [d [l [A [B [C [D E']]]]]]. exists (S d), l. cbn [skipn length].
    replace (S rem - S d) with (rem - d) by lia. repeat split; try lia; assumption.
Qed.

Lemma has_non_break_word_true lk input k : has_non_break_word lk input k = true ->
  exists j l, word_across lk input k j l /\ 1 < l.
Proof.
  unfold has_non_break_word. intros H. destruct (nb_scan_true _ _ _ _ H) as [d [l [A [B [C [D E]]]]]].
  exists d, l. unfold word_across. unfold crosses in D. repeat split; try assumption. lia.
Qed.

(* only words of more than one character matter *)
Lemma nb_scan_agree lk1 lk2 : agree_multichar lk1 lk2 -> forall rem skipb t, nb_scan lk1 rem skipb t = nb_scan lk2 rem skipb t.
Proof.
  intros Hag. induction rem as [|rem IH]; intros skipb t; [reflexivity|].
  destruct t as [|c r]; [reflexivity|]. cbn [nb_scan]. rewrite IH.
  assert (Hex : existsb (crosses (S rem)) (lk1 (c :: r)) = existsb (crosses (S rem)) (lk2 (c :: r))).
  { apply eq_true_iff_eq. rewrite !existsb_exists. split; intros [l [A B]]; exists l; (split; [|assumption]);
      apply (Hag (c :: r) l); try assumption; (eapply crosses_multichar; [|exact B]); lia. }
  destruct skipb; [rewrite Hex|]; reflexivity.
Qed.

Lemma scan_find_ext {B} (f g : nat -> option B) : (forall e, f e = g e) ->
  forall rest skip prev i, scan_find f skip prev i rest = scan_find g skip prev i rest.
Proof.
  intros Hfg. induction rest as [|c tl IH]; intros skip prev i; [reflexivity|].
  cbn [scan_find]. destruct skip; [|apply IH]. destruct (breaker_len prev (c :: tl)) as [[|m]|]; try apply IH.
  rewrite Hfg. destruct (g (i + S m)); [reflexivity|apply IH].
Qed.

Lemma get_eos_agree lk1 lk2 limit input : agree_multichar lk1 lk2 ->
  get_eos limit (Some lk1) input = get_eos limit (Some lk2) input.
Proof.
  intros Hag. unfold get_eos. destruct input as [|c0 r0]; [reflexivity|].
  rewrite (scan_find_ext (accept (Some lk1) (c0 :: r0) (firstn limit (c0 :: r0))) (accept (Some lk2) (c0 :: r0) (firstn limit (c0 :: r0)))); [reflexivity|].
  intros e. unfold accept, has_non_break_word. rewrite (nb_scan_agree lk1 lk2 Hag). reflexivity.
Qed.

Lemma nb_scan_single lk : (forall t l, In l (lk t) -> l <= 1) -> forall rem skipb t, nb_scan lk rem skipb t = false.
Proof.
  intros H rem skipb t. destruct (nb_scan lk rem skipb t) eqn:E; [|reflexivity].
  destruct (nb_scan_true _ _ _ _ E) as [d [l [_ [_ [C [_ D]]]]]]. specialize (H _ _ C). lia.
Qed.

Lemma get_eos_single lk limit input : (forall t l, In l (lk t) -> l <= 1) ->
  get_eos limit (Some lk) input = get_eos limit None input.
Proof.
  intros H. unfold get_eos. destruct input as [|c0 r0]; [reflexivity|].
  rewrite (scan_find_ext (accept (Some lk) (c0 :: r0) (firstn limit (c0 :: r0))) (accept None (c0 :: r0) (firstn limit (c0 :: r0)))); [reflexivity|].
  intros e. unfold accept, has_non_break_word. rewrite (nb_scan_single lk H). reflexivity.
Qed.

Lemma get_eos_no_word limit lk input : input <> [] -> 1 <= limit -> (0 <= get_eos limit (Some lk) input)%Z ->
  exists k, 1 <= k /\ k <= length input /\ get_eos limit (Some lk) input = Z.of_nat (blen (firstn k input)) /\
            forall j l, word_across lk input k j l -> in_lookback input k j -> False.
Proof.
  intros Hne Hl Hpos. destruct (get_eos_positive limit (Some lk) input Hne Hl Hpos) as [e [eos [l1 [l2 [A1 [A2 [A3 [A4 [A5 [A6 [A7 A8]]]]]]]]]]].
  set (s := firstn limit input) in *.
  assert (Hin : In e (candidates s)) by (rewrite A1; apply in_or_app; right; left; reflexivity).
  destruct (candidates_bounds _ _ Hin) as [B1 B2].
  destruct (accept_spec _ _ _ _ _ B2 A3) as [C1 [C2 [C3 [C4 [C5 [C6 C7]]]]]].
  assert (Hk : eos <= length input) by (unfold s in A6; rewrite firstn_length in A6; lia).
  exists eos. split; [lia|]. split; [assumption|]. split; [assumption|].
  intros j l Hw Hlb. eapply has_non_break_word_false; [apply (C7 lk eq_refl)|assumption|exact Hw|exact Hlb].
Qed.

(* ================= the converse, inside the window ================= *)
(* an unvetoed candidate in the window makes get_eos answer positive, and the answer is the first such candidate *)
Lemma get_eos_first_accepted limit ck input l1 e l2 eos : input <> [] -> 1 <= limit ->
  let s := firstn limit input in
  candidates s = l1 ++ e :: l2 -> (forall y, In y l1 -> accept ck input s y = None) -> accept ck input s e = Some eos ->
  get_eos limit ck input = Z.of_nat (blen (firstn eos input)) /\ 1 <= eos.
Proof.
  intros Hne Hl s Hc Hl1 He.
  assert (Hfs : first_some (accept ck input s) (candidates s) = Some eos).
  { rewrite Hc. clear Hc. induction l1 as [|y l1 IH]; cbn [app first_some].
    - rewrite He. reflexivity.
    - rewrite (Hl1 y (or_introl eq_refl)). apply IH. intros z Hz. apply Hl1. right. assumption. }
  pose proof (get_eos_cases limit ck input Hne Hl) as Hcases. cbv zeta in Hcases. fold s in Hcases.
  destruct Hcases as [[H _]|[eos' [E [H [H1 H2]]]]]; [congruence|].
  assert (eos' = eos) by congruence. subst. auto.
Qed.

Lemma get_eos_negative_all_vetoed limit ck input : input <> [] -> 1 <= limit -> (get_eos limit ck input < 0)%Z ->
  forall e, In e (candidates (firstn limit input)) -> accept ck input (firstn limit input) e = None.
Proof.
  intros Hne Hl Hneg. destruct (get_eos_cases limit ck input Hne Hl) as [[H _]|[eos [_ [H _]]]]; [|lia].
  apply first_some_None. assumption.
Qed.

(* every breaker match in the window is reported by find_iter, or starts inside an earlier reported match that ends
   after its start (the regex engine resumes the search at the end of the previous match) *)
Lemma scan_complete : forall rest skip prev (pre : text) p pv m,
  breaker_len pv (skipn p rest) = Some (S m) -> p < length rest ->
  pv = (match p with 0 => prev | S q => nth_error rest q end) ->
  skip <= p ->
  exists e, In e (scan skip prev (length pre) rest) /\ length pre + p < e /\
            (e = length pre + p + S m \/
             exists q pv' m', q < p /\ breaker_len pv' (skipn q rest) = Some m' /\ e = length pre + q + m').
Proof.
  induction rest as [|c tl IH]; intros skip prev pre p pv m Hb Hp Hpv Hsk; [cbn in Hp; lia|].
  cbn [scan].
  assert (Hrec : forall sk, sk <= p - 1 -> 1 <= p ->
     exists e, In e (scan sk (Some c) (S (length pre)) tl) /\ length pre + p < e /\
            (e = length pre + p + S m \/
             exists q pv' m', q < p /\ breaker_len pv' (skipn q (c :: tl)) = Some m' /\ e = length pre + q + m')).
  { intros sk Hsk' Hp1. destruct p as [|q]; [lia|]. cbn [skipn] in Hb. cbn [length] in Hp.
    replace (S (length pre)) with (length (pre ++ [c])) by (rewrite app_length; cbn; lia).
    destruct (IH sk (Some c) (pre ++ [c]) q pv m Hb ltac:(lia)) as [e [A [B C]]].
    - subst pv. destruct q; reflexivity.
    - lia.
    - exists e. rewrite app_length in B, C. cbn [length] in B, C. split; [assumption|]. split; [lia|].
      destruct C as [C|[q' [pv' [m' [C1 [C2 C3]]]]]]; [left; lia|].
      right. exists (S q'), pv', m'. cbn [skipn]. split; [lia|]. split; [assumption|lia]. }
  destruct skip as [|k].
  - destruct (breaker_len prev (c :: tl)) as [[|m0]|] eqn:E.
    + destruct p as [|q].
      * cbn [skipn] in Hb. subst pv. congruence.
      * destruct (Hrec 0 ltac:(lia) ltac:(lia)) as [e [A B]]. exists e. auto.
    + destruct p as [|q].
      * cbn [skipn] in Hb. subst pv. assert (m0 = m) by congruence. subst.
        exists (length pre + S m). split; [left; reflexivity|]. split; [lia|]. left. lia.
      * destruct (le_lt_dec m0 q) as [Hle|Hgt].
        -- destruct (Hrec m0 ltac:(lia) ltac:(lia)) as [e [A B]]. exists e. split; [right; assumption|assumption].
        -- exists (length pre + S m0). split; [left; reflexivity|]. split; [lia|].
           right. exists 0, prev, (S m0). cbn [skipn]. split; [lia|]. split; [assumption|lia].
    + destruct p as [|q].
      * cbn [skipn] in Hb. subst pv. congruence.
      * destruct (Hrec 0 ltac:(lia) ltac:(lia)) as [e [A B]]. exists e. auto.
  - destruct p as [|q]; [lia|]. destruct (Hrec k ltac:(lia) ltac:(lia)) as [e [A B]]. exists e. auto.
Qed.

(* ================= sentences of the whole split ================= *)
Lemma get_eos_positive_all limit ck input : input <> [] -> 1 <= limit -> (0 <= get_eos limit ck input)%Z ->
  exists k, 1 <= k /\ k <= length input /\ get_eos limit ck input = Z.of_nat (blen (firstn k input)) /\
            ends_with_terminator (firstn k input) /\
            (prohibited_not_open -> plevel 0 (firstn k input) = 0) /\
            (forall lk, ck = Some lk -> forall j l, word_across lk input k j l -> in_lookback input k j -> False).
Proof.
  intros Hne Hl Hpos. destruct (get_eos_positive limit ck input Hne Hl Hpos) as [e [eos [l1 [l2 [A1 [A2 [A3 [A4 [A5 [A6 [A7 A8]]]]]]]]]]].
  set (s := firstn limit input) in *.
  assert (Hin : In e (candidates s)) by (rewrite A1; apply in_or_app; right; left; reflexivity).
  destruct (candidates_bounds _ _ Hin) as [B1 B2].
  destruct (accept_spec _ _ _ _ _ B2 A3) as [C1 [C2 [C3 [C4 [C5 [C6 C7]]]]]].
  assert (Hk : eos <= length input) by (unfold s in A6; rewrite firstn_length in A6; lia).
  exists eos. split; [lia|]. split; [assumption|]. split; [assumption|]. split; [|split].
  - rewrite <- A8, C4. apply ends_with_terminator_extend.
    + apply candidates_terminator. assumption.
    + eapply Forall_impl; [|exact C5]. intros c. apply prohibited_trailer.
  - intros PNO. rewrite <- A8, C4, plevel_app, C3. apply plevel_no_open.
    eapply Forall_impl; [|exact C5]. intros c. apply PNO.
  - intros lk -> j l Hw Hlb. eapply has_non_break_word_false; [apply (C7 lk eq_refl)|assumption|exact Hw|exact Hlb].
Qed.

(* every element that is followed by another one comes from a positive answer on what was left of the text *)
Lemma steps_nonlast det : forall pre data rs x y post, steps det data rs -> rs = pre ++ x :: y :: post ->
  exists before d rest, data = before ++ d /\ d <> [] /\ d = snd x ++ rest /\ (0 <= det d)%Z /\ det d = Z.of_nat (blen (snd x)).
Proof.
  induction pre as [|a pre IH]; intros data rs x y post H ->.
  - cbn [app] in H. destruct x as [[b e] sl]. cbn [steps] in H. destruct H as [Hne [[_ [_ Hc]]|[Hp [Hd [rest [Hr _]]]]]]; [discriminate|].
    exists [], data, rest. cbn [snd app]. auto.
  - cbn [app] in H. destruct a as [[b e] sl]. cbn [steps] in H. destruct H as [Hne [[_ [_ Hc]]|[Hp [Hd [rest [Hr Hs]]]]]].
    + destruct pre; discriminate.
    + destruct (IH rest _ x y post Hs eq_refl) as [before [d [rest' [A [B [C [D E]]]]]]].
      exists (sl ++ before), d, rest'. rewrite <- app_assoc. subst data. rewrite A. auto.
Qed.

Lemma split_sentence limit ck data rs pre x y post : 1 <= limit ->
  split limit ck data = Done rs -> rs = pre ++ x :: y :: post ->
  exists before d, data = before ++ d /\ snd x = firstn (length (snd x)) d /\ 1 <= length (snd x) /\
    ends_with_terminator (snd x) /\
    (prohibited_not_open -> plevel 0 (snd x) = 0) /\
    (forall lk, ck = Some lk -> forall j l, word_across lk d (length (snd x)) j l -> in_lookback d (length (snd x)) j -> False).
Proof.
  intros Hl Hs Hrs. unfold split, split_with in Hs. apply iter_steps in Hs.
  destruct (steps_nonlast _ _ _ _ _ _ _ Hs Hrs) as [before [d [rest [A [B [C [D E]]]]]]].
  destruct (get_eos_positive_all limit ck d B Hl D) as [k [K1 [K2 [K3 [K4 [K5 K6]]]]]].
  assert (Hsl : snd x = firstn k d).
  { apply (prefix_blen_inj _ _ rest (skipn k d)); [rewrite firstn_skipn; symmetry; exact C|]. lia. }
  assert (Hlen : length (snd x) = k) by (rewrite Hsl, firstn_length; lia).
  exists before, d. rewrite Hlen. rewrite <- Hsl in K4, K5. auto 10.
Qed.

(* w = v, or w is not a prefix of v (used by the obligation on the BR_TAG alternatives) *)
Definition list_eq_or_not_prefix (w v : text) : bool :=
  if starts_with w v then (length w =? length v) else true.

(* ================= the boolean predicates evaluated on the implementation's output are sound ================= *)
(* (the correspondence shards evaluate tiles_b / ends_after_terminator_b on the ranges the implementation reported) *)
Fixpoint with_slices (data : text) (rs : list (nat * nat)) : list (nat * nat * text) :=
  match rs with
  | [] => []
  | (b, e) :: tl =>
      match split_bytes (e - b) data with
      | Some (sl, rest) => (b, e, sl) :: with_slices rest tl
      | None => []
      end
  end.

Lemma tiles_b_sound : forall rs pos data, tiles_b pos data rs = true ->
  tiles pos data (with_slices data rs) /\ map (fun x => (fst (fst x), snd (fst x))) (with_slices data rs) = rs.
Proof.
  induction rs as [|[b e] tl IH]; intros pos data H; cbn [tiles_b] in H.
  - destruct data; [|discriminate]. cbn. auto.
  - destruct ((b =? pos) && (b <? e)) eqn:E; [|discriminate].
    cbn [with_slices]. destruct (split_bytes (e - b) data) as [[sl rest]|] eqn:E1; [|discriminate].
    apply split_bytes_sound in E1. destruct E1 as [E1 E2]. destruct (IH _ _ H) as [A B].
    assert (b = pos /\ b < e) as [-> Hlt] by lia.
    split.
    + cbn [tiles]. split; [reflexivity|]. split; [intros ->; cbn in E2; lia|]. split; [lia|]. exists rest. auto.
    + cbn [map fst snd]. rewrite B. reflexivity.
Qed.

Lemma all_cdot_spec : forall n t, all_cdot n t = true -> t = repeat F.CDOT n ++ skipn n t.
Proof.
  induction n as [|n IH]; intros t H; [reflexivity|]. cbn [all_cdot] in H.
  destruct t as [|c r]; [discriminate|]. destruct (is_cdot c) eqn:E; [|discriminate].
  unfold is_cdot in E. assert (c = F.CDOT) by lia. subst c. cbn [repeat skipn app]. f_equal. apply IH. assumption.
Qed.

Lemma rev_tags_spec : forall fuel n rt, rev_tags fuel n rt = true ->
  exists ts h', length ts = n /\ Forall (fun w => In w F.BR_TAGS /\ w <> []) ts /\ rt = rev (concat ts) ++ h'.
Proof.
  induction fuel as [|f IH]; intros n rt H.
  - destruct n; [|discriminate]. exists [], rt. cbn. auto.
  - destruct n as [|k]; [exists [], rt; cbn; auto|]. cbn [rev_tags] in H.
    rewrite existsb_exists in H. destruct H as [w [Hin Hw]]. destruct w as [|a w']; [discriminate|].
    set (w := a :: w') in *. destruct (starts_with (rev w) rt) eqn:E; [|discriminate].
    apply starts_with_spec in E. rewrite rev_length in E. destruct E as [E1 E2].
    destruct (IH _ _ Hw) as [ts [h' [A [B C]]]].
    exists (ts ++ [w]), h'. split; [rewrite app_length; cbn; lia|]. split.
    + apply Forall_app. split; [assumption|]. constructor; [|constructor]. split; [assumption|unfold w; congruence].
    + rewrite concat_app. cbn [concat]. rewrite app_nil_r, rev_app_distr, <- app_assoc, <- C, <- E1. symmetry. apply firstn_skipn.
Qed.

Lemma Forall_rev {A} (P : A -> Prop) l : Forall P l -> Forall P (rev l).
Proof. rewrite !Forall_forall. intros H x Hx. apply H. apply in_rev. assumption. Qed.

Lemma rev_repeat {A} (x : A) n : rev (repeat x n) = repeat x n.
Proof.
  induction n as [|n IH]; [reflexivity|]. cbn [repeat rev]. rewrite IH.
  clear IH. induction n as [|n IH]; [reflexivity|]. cbn [repeat app]. f_equal. exact IH.
Qed.

Lemma ends_after_terminator_b_sound t : ends_after_terminator_b t = true -> ends_with_terminator t.
Proof.
  unfold ends_after_terminator_b. rewrite rev_append_rev, app_nil_r.
  set (rt := rev t). set (k := span is_trailer rt).
  assert (Ht : t = rev (skipn k rt) ++ rev (firstn k rt)).
  { rewrite <- rev_app_distr, firstn_skipn. unfold rt. symmetry. apply rev_involutive. }
  assert (Htr : Forall trailer (firstn k rt)) by (apply span_Forall).
  destruct (existsb is_more (firstn k rt)) eqn:E.
  - intros _. rewrite existsb_exists in E. destruct E as [c [Hin Hc]].
    destruct (in_split _ _ Hin) as [l1 [l2 Hs]].
    exists (rev (skipn k rt) ++ rev l2), [c], (rev l1). split.
    + rewrite Ht, Hs, rev_app_distr. cbn [rev]. rewrite <- !app_assoc. reflexivity.
    + split.
      * unfold is_more in Hc. destruct (is_dot c) eqn:Ed; [apply T_dot; assumption|apply T_period; lia].
      * apply Forall_rev. rewrite Hs in Htr. apply Forall_app in Htr. tauto.
  - destruct (all_cdot (Nat.max 1 F.CDOTS_MIN) (skipn k rt)) eqn:E2.
    + intros _. apply all_cdot_spec in E2. set (n := Nat.max 1 F.CDOTS_MIN) in *.
      exists (rev (skipn n (skipn k rt))), (repeat F.CDOT n), (rev (firstn k rt)). split.
      * rewrite Ht at 1. rewrite E2 at 1. rewrite rev_app_distr, rev_repeat, <- app_assoc. reflexivity.
      * split; [apply T_cdots; lia|apply Forall_rev; assumption].
    + intros H. apply rev_tags_spec in H. destruct H as [ts [h' [A [B C]]]].
      exists (rev h'), (concat ts), (rev (firstn k rt)). split.
      * rewrite Ht at 1. rewrite C. rewrite rev_app_distr, rev_involutive, <- app_assoc. reflexivity.
      * split; [|apply Forall_rev; assumption]. apply T_br.
        -- lia.
        -- eapply Forall_impl; [|exact B]. cbn. tauto.
        -- destruct ts as [|w ts]; [cbn in A; lia|]. apply Forall_inv in B. destruct B as [_ Hne]. destruct w; [congruence|]. cbn. congruence.
Qed.
