(* C05 — the words section: the word info of entry k is found through offsets[k]; the round trip of one entry lifts to
   every entry of a lexicon (lexicon_roundtrip) *)
From Coq Require Import List NArith ZArith Bool String Lia ZifyBool ZifyNat ZifyN.
From SudachiVerif Require Import Model.Codec Proofs.CodecProofs.
From SudachiVerif Require Generated.FieldOrder.
Import ListNotations.
Open Scope N_scope.

Arguments N.add : simpl never.
Arguments N.sub : simpl never.
Arguments N.mul : simpl never.
Arguments N.ltb : simpl never.
Arguments N.leb : simpl never.
Arguments N.eqb : simpl never.
Arguments N.div : simpl never.
Arguments N.modulo : simpl never.

(* ------------------------------------------------------------------ lists *)
Lemma skipn_app_exact : forall {A} (a b : list A) m, skipn (List.length a + m) (a ++ b) = skipn m b.
Proof.
  intros A a b m. rewrite skipn_app. rewrite skipn_all2 by lia. cbn [app]. f_equal. lia.
Qed.

Lemma skipn_app_exact0 : forall {A} (a b : list A), skipn (List.length a) (a ++ b) = b.
Proof. intros. rewrite <- (Nat.add_0_r (List.length a)). rewrite skipn_app_exact. reflexivity. Qed.

Lemma flat_map_length_const : forall {A B} (f : A -> list B) c l,
  (forall x, List.length (f x) = c) -> List.length (flat_map f l) = (c * List.length l)%nat.
Proof.
  intros A B f c l H. induction l as [|x l IH]; cbn [flat_map List.length]; [lia|].
  rewrite app_length, H, IH. lia.
Qed.

Lemma skipn_flat_map4 : forall {A} (f : A -> list N) l k,
  (forall x, exists a b c d, f x = [a; b; c; d]) ->
  skipn (4 * k) (flat_map f l) = flat_map f (skipn k l).
Proof.
  intros A f l. induction l as [|x l IH]; intros k H.
  - rewrite !skipn_nil. reflexivity.
  - destruct k as [|k]; [reflexivity|].
    replace (4 * S k)%nat with (S (S (S (S (4 * k))))) by lia.
    cbn [flat_map]. destruct (H x) as (a & b & c & d & ->). cbn [app skipn]. apply IH. exact H.
Qed.

Lemma concat_firstn_skipn : forall {A} (ls : list (list A)) k,
  skipn (List.length (List.concat (firstn k ls))) (List.concat ls) = List.concat (skipn k ls).
Proof.
  intros A ls. induction ls as [|l ls IH]; intros k.
  - destruct k; reflexivity.
  - destruct k as [|k]; [reflexivity|].
    cbn [firstn skipn List.concat]. rewrite app_length, skipn_app_exact. apply IH.
Qed.

Lemma skipn_nth_error : forall {A} (ls : list A) k x, nth_error ls k = Some x -> skipn k ls = x :: skipn (S k) ls.
Proof.
  intros A ls. induction ls as [|l ls IH]; intros k x H; destruct k; cbn in *; try discriminate.
  - inversion H. reflexivity.
  - apply IH. exact H.
Qed.

Lemma nth_error_nrange : forall k from j, (j < k)%nat -> nth_error (nrange k from) j = Some (from + N.of_nat j).
Proof.
  induction k as [|k IH]; intros from j H; [lia|]. destruct j as [|j]; cbn [nrange nth_error].
  - f_equal. lia.
  - rewrite IH by lia. f_equal. lia.
Qed.
Lemma nrange_length : forall k from, List.length (nrange k from) = k.
Proof. induction k; intros; cbn; auto. Qed.

(* ------------------------------------------------------------------ the writer's pieces *)
Lemma write_infos_nth : forall es infos k e, write_infos es = Some infos -> nth_error es k = Some e ->
  exists b, nth_error infos k = Some b /\ write_word_info e = Some b.
Proof.
  induction es as [|e0 es IH]; intros infos k e H Hk; [destruct k; discriminate|].
  cbn [write_infos] in H. destruct (write_word_info e0) as [b0|] eqn:E0; [|discriminate].
  destruct (write_infos es) as [bs|] eqn:Es; [|discriminate]. inversion H; subst infos.
  destruct k as [|k]; cbn [nth_error] in *.
  - inversion Hk; subst. eauto.
  - apply (IH bs k e eq_refl Hk).
Qed.

Lemma write_infos_length : forall es infos, write_infos es = Some infos -> List.length infos = List.length es.
Proof.
  induction es as [|e0 es IH]; intros infos H; cbn [write_infos] in H.
  - inversion H. reflexivity.
  - destruct (write_word_info e0); [|discriminate]. destruct (write_infos es) as [bs|]; [|discriminate].
    inversion H. cbn [List.length]. f_equal. apply IH. reflexivity.
Qed.

Lemma offsets_from_length : forall infos base, List.length (offsets_from base infos) = List.length infos.
Proof. induction infos as [|i t IH]; intros; cbn [offsets_from List.length]; auto. Qed.

(* offsets[k] = base + total size of the infos before k *)
Lemma offsets_from_nth : forall infos base k, (k < List.length infos)%nat ->
  nth_error (offsets_from base infos) k = Some (base + N.of_nat (List.length (List.concat (firstn k infos)))).
Proof.
  induction infos as [|i t IH]; intros base k H; cbn [List.length] in H; [lia|].
  destruct k as [|k]; cbn [offsets_from nth_error firstn List.concat].
  - f_equal. cbn [List.length]. lia.
  - rewrite IH by lia. f_equal. rewrite app_length. lia.
Qed.

Lemma write_params_length : forall e, List.length (write_params e) = 6%nat.
Proof. reflexivity. Qed.

(* ------------------------------------------------------------------ reading the section inside the file *)
Section InFile.
Variables (prefix : bytes) (es : list entry) (sec : bytes).
Let off : N := N.of_nat (List.length prefix).
Let file : bytes := prefix ++ sec.
Hypothesis Hsec : write_words_section off es = Some sec.
Hypothesis Hsize : N.of_nat (List.length file) < 4294967296.

Let n : N := N.of_nat (List.length es).

Lemma section_shape : exists infos,
  write_infos es = Some infos /\
  sec = le32 n ++ flat_map write_params es
        ++ flat_map (fun o => le32 (o mod 4294967296)) (offsets_from (off + 10 * n + 4) infos) ++ List.concat infos.
Proof.
  unfold write_words_section in Hsec. destruct (write_infos es) as [infos|] eqn:E; [|discriminate].
  exists infos. split; [reflexivity|]. inversion Hsec. reflexivity.
Qed.

Lemma sizes : forall infos, write_infos es = Some infos ->
  sec = le32 n ++ flat_map write_params es
        ++ flat_map (fun o => le32 (o mod 4294967296)) (offsets_from (off + 10 * n + 4) infos) ++ List.concat infos ->
  N.of_nat (List.length sec) = 4 + 10 * n + N.of_nat (List.length (List.concat infos)).
Proof.
  intros infos Hi ->. rewrite !app_length.
  rewrite (flat_map_length_const write_params 6) by (intros; reflexivity).
  rewrite (flat_map_length_const (fun o => le32 (o mod 4294967296)) 4) by (intros; reflexivity).
  rewrite offsets_from_length, (write_infos_length _ _ Hi). unfold n. cbn [le32 List.length]. lia.
Qed.

Lemma file_count_ok : file_count file off = n.
Proof.
  destruct section_shape as (infos & Hi & Hs). pose proof (sizes infos Hi Hs) as Hsz.
  unfold file_count, file, off. rewrite Nat2N.id, skipn_app_exact0. rewrite Hs.
  rewrite read_le32_le32; [reflexivity|]. unfold file in Hsize. rewrite app_length in Hsize. lia.
Qed.

Lemma skipn_params : forall (l : list entry) k e, nth_error l k = Some e ->
  skipn (6 * k) (flat_map write_params l) = write_params e ++ flat_map write_params (skipn (S k) l).
Proof.
  induction l as [|e0 l IH]; intros k e Hk; [destruct k; discriminate|].
  destruct k as [|k]; cbn [nth_error] in Hk.
  - inversion Hk; subst. reflexivity.
  - replace (6 * S k)%nat with (List.length (write_params e0) + 6 * k)%nat by (rewrite write_params_length; lia).
    cbn [flat_map]. rewrite skipn_app_exact. cbn [skipn]. apply IH. exact Hk.
Qed.

Lemma file_params_ok : forall k e, nth_error es k = Some e ->
  exists rest, file_params file off (N.of_nat k) = read_params (write_params e ++ rest).
Proof.
  intros k e Hk. destruct section_shape as (infos & Hi & Hs).
  unfold file_params, file, off.
  replace (N.to_nat (N.of_nat (List.length prefix) + 4 + 6 * N.of_nat k)) with (List.length prefix + (4 + 6 * k))%nat by lia.
  rewrite skipn_app_exact. rewrite Hs.
  change (le32 n) with [n mod 256; (n / 256) mod 256; (n / 65536) mod 256; (n / 16777216) mod 256].
  cbn [app]. change (4 + 6 * k)%nat with (S (S (S (S (6 * k))))). cbn [skipn].
  rewrite skipn_app.
  assert (Hl : List.length (flat_map write_params es) = (6 * List.length es)%nat)
    by (apply flat_map_length_const; intros; reflexivity).
  assert (Hk' : (k < List.length es)%nat) by (apply nth_error_Some; congruence).
  replace (6 * k - List.length (flat_map write_params es))%nat with O by lia. cbn [skipn].
  rewrite (skipn_params _ _ _ Hk). rewrite <- app_assoc. eexists. reflexivity.
Qed.

(* the word info of entry k is found at offsets[k] *)
Lemma word_at_offset : forall k e, nth_error es k = Some e ->
  exists b rest, write_word_info e = Some b /\ file_word_bytes file off n (N.of_nat k) = b ++ rest.
Proof.
  intros k e Hk. destruct section_shape as (infos & Hi & Hs). pose proof (sizes infos Hi Hs) as Hsz.
  destruct (write_infos_nth _ _ _ _ Hi Hk) as (b & Hb & Hw).
  assert (Hk' : (k < List.length es)%nat) by (apply nth_error_Some; congruence).
  pose proof (write_infos_length _ _ Hi) as Hlen.
  exists b, (List.concat (skipn (S k) infos)). split; [exact Hw|].
  unfold file_word_bytes.
  set (base := off + 10 * n + 4) in *.
  set (OT := flat_map (fun o => le32 (o mod 4294967296)) (offsets_from base infos)) in *.
  set (PT := flat_map write_params es) in *.
  assert (HP : List.length PT = (6 * List.length es)%nat) by (apply flat_map_length_const; intros; reflexivity).
  assert (HO : List.length OT = (4 * List.length es)%nat).
  { unfold OT. rewrite (flat_map_length_const _ 4) by (intros; reflexivity). rewrite offsets_from_length. lia. }
  (* position of the offset entry *)
  replace (N.to_nat (off + 4 + 6 * n + 4 * N.of_nat k))
    with (List.length prefix + (4 + (List.length PT + 4 * k)))%nat by (unfold off, n; lia).
  unfold file at 1. rewrite skipn_app_exact. rewrite Hs at 1.
  change (le32 n) with [n mod 256; (n / 256) mod 256; (n / 65536) mod 256; (n / 16777216) mod 256].
  cbn [app]. change (4 + (List.length PT + 4 * k))%nat with (S (S (S (S (List.length PT + 4 * k))))). cbn [skipn].
  rewrite skipn_app_exact. rewrite skipn_app.
  replace (4 * k - List.length OT)%nat with 0%nat by lia. cbn [skipn].
  unfold OT at 1. rewrite skipn_flat_map4 by (intros x; unfold le32; eauto).
  assert (Hoff := offsets_from_nth infos base k ltac:(lia)).
  rewrite (skipn_nth_error _ _ _ Hoff). cbn [flat_map]. rewrite <- !app_assoc.
  set (sumk := N.of_nat (List.length (List.concat (firstn k infos)))) in *.
  assert (Hsum : sumk + N.of_nat (List.length b) <= N.of_nat (List.length (List.concat infos))).
  { assert (Hdec : List.concat infos = List.concat (firstn k infos) ++ b ++ List.concat (skipn (S k) infos)).
    { rewrite <- (firstn_skipn k infos) at 1. rewrite concat_app, (skipn_nth_error _ _ _ Hb). reflexivity. }
    unfold sumk. rewrite Hdec, !app_length. lia. }
  assert (Hlt : base + sumk < 4294967296).
  { unfold file in Hsize. rewrite app_length in Hsize. unfold base, off, n in *. lia. }
  rewrite N.mod_small by exact Hlt. rewrite read_le32_le32 by exact Hlt.
  (* the word info itself *)
  replace (N.to_nat (base + sumk))
    with (List.length prefix + (4 + (List.length PT + (List.length OT + N.to_nat sumk))))%nat by (unfold base, off, n; lia).
  unfold file. rewrite skipn_app_exact. rewrite Hs.
  change (le32 n) with [n mod 256; (n / 256) mod 256; (n / 65536) mod 256; (n / 16777216) mod 256].
  cbn [app]. change (4 + (List.length PT + (List.length OT + N.to_nat sumk)))%nat
    with (S (S (S (S (List.length PT + (List.length OT + N.to_nat sumk)))))). cbn [skipn].
  fold PT. fold OT. rewrite skipn_app_exact, skipn_app_exact.
  unfold sumk. rewrite Nat2N.id.
  transitivity (List.concat (skipn k infos)); [exact (@concat_firstn_skipn N infos k)|].
  rewrite (skipn_nth_error _ _ _ Hb). reflexivity.
Qed.

Lemma lexicon_get : forall k e, nth_error es k = Some e ->
  exists b rest, write_word_info e = Some b /\ lex_get (lexicon_of_file file off) (N.of_nat k) = Some (b ++ rest).
Proof.
  intros k e Hk. destruct (word_at_offset k e Hk) as (b & rest & Hw & Hb).
  exists b, rest. split; [exact Hw|].
  assert (Hk' : (k < List.length es)%nat) by (apply nth_error_Some; congruence).
  rewrite lex_get_nth. unfold lexicon_of_file. rewrite file_count_ok. unfold n at 2. rewrite !Nat2N.id.
  rewrite nth_error_map, nth_error_nrange by exact Hk'. cbn [option_map]. rewrite N.add_0_l. fold n. rewrite Hb. reflexivity.
Qed.
End InFile.

(* ------------------------------------------------------------------ every entry of a lexicon *)
(* what validate_entries and the column parsers guarantee for a system lexicon *)
Definition lexicon_wf (es : list entry) : Prop :=
  forall e, In e es ->
    entry_ok e = true /\
    (-32768 <= e_left e < 32768)%Z /\ (-32768 <= e_right e < 32768)%Z /\ (-32768 <= e_cost e < 32768)%Z /\
    (to_i32 (e_dic_form e) < Z.of_nat (List.length es))%Z.

(* the dictionary form a row declares: its own headword ("*" or its own id), else the headword of the referenced row *)
Definition declared_dicform (es : list entry) (k : nat) (e : entry) : text :=
  let d := to_i32 (e_dic_form e) in
  if ((d <? 0) || (d =? Z.of_nat k))%Z then e_headword e
  else match nth_error es (Z.to_nat d) with
       | Some ed => or_headword e (e_headword ed)
       | None => e_headword e
       end.

Theorem lexicon_roundtrip :
  FO.writer_fields = expected_writer -> reader_facts_ok -> len_thresholds_ok = true ->
  forall prefix es sec,
  write_words_section (N.of_nat (List.length prefix)) es = Some sec ->
  N.of_nat (List.length (prefix ++ sec)) < 4294967296 ->
  lexicon_wf es ->
  file_count (prefix ++ sec) (N.of_nat (List.length prefix)) = N.of_nat (List.length es) /\
  forall k e, nth_error es k = Some e ->
    (exists i, get_word_info (lexicon_of_file (prefix ++ sec) (N.of_nat (List.length prefix))) true (N.of_nat k) ALL = Some i
               /\ loaded_as e (declared_dicform es k e) i)
    /\ file_params (prefix ++ sec) (N.of_nat (List.length prefix)) (N.of_nat k) = Some (e_left e, e_right e, e_cost e).
Proof.
  intros HW HR Hok prefix es sec Hsec Hsize Hwf.
  split; [exact (file_count_ok prefix es sec Hsec Hsize)|].
  intros k e Hk.
  destruct (Hwf e (nth_error_In _ _ Hk)) as (He & Hl & Hr & Hc & Hd).
  split.
  - destruct (lexicon_get prefix es sec Hsec Hsize k e Hk) as (b & rest & Hw & Hb).
    apply (wordinfo_roundtrip HW HR Hok _ (N.of_nat k) e b rest _ Hb He Hw).
    unfold declared_dicform.
    destruct ((to_i32 (e_dic_form e) <? 0) || (to_i32 (e_dic_form e) =? Z.of_nat k))%Z eqn:Ec.
    + apply dic_self. rewrite nat_N_Z. lia.
    + assert (Hdn : (Z.to_nat (to_i32 (e_dic_form e)) < List.length es)%nat) by lia.
      destruct (nth_error es (Z.to_nat (to_i32 (e_dic_form e)))) as [ed|] eqn:Ed;
        [|apply nth_error_None in Ed; lia].
      destruct (lexicon_get prefix es sec Hsec Hsize _ ed Ed) as (bd & restd & Hwd & Hbd).
      destruct (Hwf ed (nth_error_In _ _ Ed)) as (Hed & _).
      apply (dic_ref _ _ e ed bd restd); try assumption.
      * lia.
      * rewrite nat_N_Z. lia.
      * rewrite <- Hbd. f_equal. lia.
  - destruct (file_params_ok prefix es sec Hsec Hsize k e Hk) as (rest & ->).
    apply params_roundtrip; assumption.
Qed.
