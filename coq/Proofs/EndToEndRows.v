(* H8 of C01_tokenizer_end_to_end from the dictionary source.
   The word ids that Model/Tokenizer.v threads along by position (loop_ids / walk_pos / wid_at / wid_after) are the ids of
   the candidates that were inserted: every dictionary node on the path comes from a dict_entries lookup result; by the
   C04 certificate its end is the end of an indexed row's surface that is a prefix of the text there and its id is the
   stamped row number; with the index rows being builder B's `index_rows_of` of the codec rows, the node COVERS the key
   `src_key ds w` of its word.  Hence C09's units_wf for every node handed to split_path, from the author-checkable
   rows_units_ok alone. *)
From Coq Require Import String List NArith ZArith Bool Arith Lia Relations.
From SudachiVerif Require Import Model.Buffer Proofs.BufferProofs Proofs.BufferCharProofs.
From SudachiVerif Require Import Model.Lattice Model.BuildLattice Proofs.LatticeProofs Proofs.BuildLatticeProofs Proofs.BuildOptimal.
From SudachiVerif Require Import Model.LexSet Proofs.LexSetProofs Model.DictCands Model.Tokenizer Proofs.EndToEnd.
From SudachiVerif Require Proofs.PipelineProofs Proofs.PipelineFull Proofs.NormalizeBuffer Proofs.TrieProofs Proofs.LookupLattice Model.Trie.
From SudachiVerif Require Model.Oov Proofs.OovFallback Proofs.OovWf Proofs.OovLattice Proofs.TotalitySimple.
From SudachiVerif Require Model.Rewrite Proofs.RewriteProofs Model.Split Proofs.SplitProofs.
From SudachiVerif Require Model.LatticeM Model.LatticeP Proofs.LatticeMProofs Proofs.LatticePProofs.
From SudachiVerif Require Model.SplitSource Proofs.SplitDict Model.CodecResolve Model.CodecCheck Model.Codec Proofs.CodecProofs.
Import ListNotations.
Local Open Scope nat_scope.

Module CC := SudachiVerif.Model.CodecCheck.
Module CR := SudachiVerif.Model.CodecResolve.
Notation enc := PF.enc.

(* ------------------------------------------------------------------ rows of the lattice in insertion order *)
Section Rows.
  Variable conn : N -> N -> Z.

  Lemma insert_fst_push L n : exists e, enode e = Some n /\ fst (insert conn L n) = push_row L (nend n) e.
  Proof. unfold insert. destruct (connect_node conn L (nbeg n) (nleft n) (ncost n)) as [[i c]|]; cbn [fst]; eexists; (split; [|reflexivity]); reflexivity. Qed.

  Lemma rows_insert_all : forall ns L r, (forall n, In n ns -> nend n < length L) ->
    map enode (Lattice.row (insert_all conn L ns) r) = map enode (Lattice.row L r) ++ map Some (filter (fun n => Nat.eqb (nend n) r) ns).
  Proof.
    induction ns as [|n ns IH]; intros L r H; cbn [insert_all fold_left filter map]; [now rewrite app_nil_r|].
    destruct (insert_fst_push L n) as (e & He & Hp).
    change (fold_left (fun L0 n0 => fst (insert conn L0 n0)) ns (fst (insert conn L n))) with (insert_all conn (fst (insert conn L n)) ns).
    rewrite IH by (intros m Hm; rewrite Hp, push_length; apply H; now right).
    rewrite Hp, row_push by (apply H; now left).
    destruct (Nat.eqb_spec (nend n) r) as [->|Hne].
    - rewrite Nat.eqb_refl. rewrite map_app. cbn [map]. rewrite He, <- app_assoc. reflexivity.
    - replace (r =? nend n) with false by (symmetry; apply Nat.eqb_neq; lia). reflexivity.
  Qed.
End Rows.

(* filtering a zipped list by a function of the first component *)
Lemma filter_combine_fst {A B} (f : A -> bool) : forall (a : list A) (b : list B), length a = length b ->
  filter f a = map fst (filter (fun x => f (fst x)) (combine a b)).
Proof.
  induction a as [|x a IH]; intros [|y b] H; cbn in *; try lia; [reflexivity|].
  destruct (f x); cbn [map fst]; rewrite (IH b) by lia; reflexivity.
Qed.

Lemma filter_combine_map {A B C} (g : A -> C) (f : C -> bool) : forall (a : list A) (b : list B),
  map snd (filter (fun x => f (fst x)) (combine (map g a) b)) = map snd (filter (fun x => f (g (fst x))) (combine a b)).
Proof.
  induction a as [|x a IH]; intros [|y b]; cbn; try reflexivity. destruct (f (g x)); cbn; now rewrite IH.
Qed.

Lemma combine_app {A B} : forall (a a' : list A) (b b' : list B), length a = length b ->
  combine (a ++ a') (b ++ b') = combine a b ++ combine a' b'.
Proof. induction a as [|x a IH]; intros a' [|y b] b' H; cbn in *; try lia; [reflexivity|]. now rewrite IH by lia. Qed.

Lemma nth_error_map_fst_snd {A B} : forall (l : list (A * B)) i x d, nth_error (map fst l) i = Some x ->
  In (x, nth i (map snd l) d) l.
Proof.
  induction l as [|[a b] l IH]; intros [|i] x d H; cbn in *; try discriminate.
  - inversion H; subst. now left.
  - right. now apply IH.
Qed.

Lemma in_combine_maps {A B C} (f : A -> B) (g : A -> C) : forall (l : list A) x,
  In x (combine (map f l) (map g l)) -> exists y, In y l /\ x = (f y, g y).
Proof.
  induction l as [|a l IH]; intros x H; cbn in H; [contradiction|].
  destruct H as [<-|H]; [exists a; split; [now left | reflexivity]|].
  destruct (IH x H) as (y & Hy & ->). exists y. split; [now right | reflexivity].
Qed.

(* ------------------------------------------------------------------ the node buffer keeps the dictionary nodes in front *)
Lemma position_step_prefix c ps off dict buf :
  O.position_step c ps off dict = O.ROk buf -> exists extra, buf = dict ++ extra.
Proof.
  intros H. unfold O.position_step in H.
  destruct (OovFallback.fallback_iff_nothing_g _ _ _ _ _ _ _ H) as (cw1 & normal & Hn & Hcase).
  destruct (OovFallback.normal_pass_keeps_dict _ _ _ _ _ _ Hn) as (oov & Hk). cbn [snd] in Hk.
  destruct Hcase as [[_ ->] | [-> (p & extra & _ & _ & _ & ->)]].
  - exists oov. exact Hk.
  - symmetry in Hk. apply app_eq_nil in Hk. destruct Hk as [-> _]. exists extra. reflexivity.
Qed.

(* ------------------------------------------------------------------ every (node, id) pair that is offered *)
Section Pairs.
  Variable cfg : bcfg.
  Variable tk : tokenizer.
  Variable t : list N.

  (* a dictionary pair: found by the lookup at its begin, ends where the lookup says; or an OOV id *)
  Definition pair_ok (x : node * N) : Prop :=
    (exists ec, In (snd x, ec) (dict_ids cfg tk t (nbeg (fst x))) /\ nend (fst x) = ec) \/ (exists q, snd x = oov_id q).

  Lemma offered_split p :
    (offered_at cfg tk t p = [] /\ offered_ids cfg tk t p = []) \/
    exists extra, offered_at cfg tk t p = map TS.of_oov (dict_onodes cfg tk t p) ++ map TS.of_oov extra /\
                  offered_ids cfg tk t p = map fst (dict_ids cfg tk t p) ++ map (fun nd => oov_id (O.n_pos nd)) extra.
  Proof.
    unfold offered_at, OL.oov_offered, offered_ids.
    destruct (O.position_step (O.mk_ctx (classes tk t)) (tk_provs tk) p (dict_onodes cfg tk t p)) as [buf| |] eqn:E;
      [|left; split; reflexivity|left; split; reflexivity].
    destruct (position_step_prefix _ _ _ _ _ E) as (extra & ->). right. exists extra. split; [apply map_app|].
    f_equal. f_equal.
    replace (length (dict_ids cfg tk t p)) with (length (dict_onodes cfg tk t p)) by (unfold dict_onodes; apply map_length).
    apply skipn_length_app.
  Qed.

  Lemma offered_ids_length p : length (offered_ids cfg tk t p) = length (offered_at cfg tk t p).
  Proof.
    destruct (offered_split p) as [[-> ->] | (extra & -> & ->)]; [reflexivity|].
    rewrite !app_length, !map_length. unfold dict_onodes. now rewrite map_length.
  Qed.

  Lemma offered_pairs p x : In x (combine (offered_at cfg tk t p) (offered_ids cfg tk t p)) -> pair_ok x.
  Proof.
    destruct (offered_split p) as [[-> ->] | (extra & -> & ->)]; [intros []|].
    rewrite combine_app by (rewrite !map_length; unfold dict_onodes; now rewrite map_length).
    intros H. apply in_app_or in H. destruct H as [H|H].
    - unfold dict_onodes in H. rewrite map_map in H. apply in_combine_maps in H. destruct H as ([w ec] & Hin & ->).
      left. cbn [fst snd]. destruct (tk_params tk w) as [[l r] c]. cbn [TS.of_oov O.n_begin O.n_end nbeg nend]. exists ec. split; [exact Hin | reflexivity].
    - apply in_combine_maps in H. destruct H as (y & _ & ->). right. cbn [snd]. eexists. reflexivity.
  Qed.

  Let conn := tk_conn tk.
  Let n := length t.
  Hypothesis Hwf : forall p m, In m (offered_at cfg tk t p) -> node_wf n p m.

  Definition count_end := SudachiVerif.Model.LatticeP.count_end.

  Lemma count_end_app e a b : count_end e (a ++ b) = count_end e a + count_end e b.
  Proof. unfold count_end, SudachiVerif.Model.LatticeP.count_end. now rewrite filter_app, app_length. Qed.

  (* what the loop has inserted when it arrives at position p: nodes offered at some position, with their ids; and no more
     of them end at a boundary than were offered in all *)
  Definition ins_ok (p : nat) (ins : list node) (ws : list N) : Prop :=
    length ws = length ins /\ (forall m, In m ins -> exists q, In m (offered_at cfg tk t q)) /\ Forall pair_ok (combine ins ws) /\ (forall e, count_end e ins <= count_end e (flat_map (offered_at cfg tk t) (seq 0 p))).

  Lemma ins_range p ins ws : ins_ok p ins ws -> forall m, In m ins -> nbeg m < nend m <= n.
  Proof. intros (_ & H & _) m Hm. destruct (H m Hm) as (q & Hq). destruct (Hwf q m Hq) as (-> & H1 & H2). lia. Qed.

  Lemma loop_ids_inv L0 : forall todo L ids p L' ids',
    loop_ids cfg tk t L ids p todo = Some (L', ids') ->
    forall ins ws, L = insert_all conn L0 ins -> ids = combine (map nend ins) ws -> ins_ok p ins ws ->
    exists ins' ws', L' = insert_all conn L0 ins' /\ ids' = combine (map nend ins') ws' /\ ins_ok (p + todo) ins' ws'.
  Proof.
    induction todo as [|k IH]; intros L ids p L' ids' H ins ws HL Hids Hok; cbn [loop_ids] in H.
    - injection H as <- <-. exists ins, ws. rewrite Nat.add_0_r. auto.
    - replace (p + S k) with (S p + k) by lia.
      assert (Hseq : forall e, count_end e (flat_map (offered_at cfg tk t) (seq 0 (S p))) =
                               count_end e (flat_map (offered_at cfg tk t) (seq 0 p)) + count_end e (offered_at cfg tk t p)).
      { intros e. rewrite seq_S, flat_map_app, count_end_app. cbn [flat_map Nat.add]. now rewrite app_nil_r. }
      destruct Hok as (Hlen & Hoff & Hpairs & Hcnt).
      destruct (has_previous_node L p).
      2:{ apply (IH _ _ _ _ _ H ins ws HL Hids). split; [exact Hlen|]. split; [exact Hoff|]. split; [exact Hpairs|].
          intros e. rewrite Hseq. specialize (Hcnt e). lia. }
      destruct (offered_at cfg tk t p) as [|x xs] eqn:E; [discriminate|]. rewrite <- E in *.
      apply (IH _ _ _ _ _ H (ins ++ offered_at cfg tk t p) (ws ++ offered_ids cfg tk t p)).
      + rewrite HL. unfold insert_all. now rewrite fold_left_app.
      + rewrite Hids, map_app. symmetry. apply combine_app. now rewrite map_length.
      + split; [rewrite !app_length, offered_ids_length; lia|]. split; [|split].
        * intros m Hm. apply in_app_or in Hm. destruct Hm as [Hm|Hm]; [now apply Hoff | exists p; exact Hm].
        * rewrite combine_app by lia. apply Forall_app. split; [exact Hpairs|].
          apply Forall_forall. intros y Hy. exact (offered_pairs p y Hy).
        * intros e. rewrite Hseq, count_end_app. specialize (Hcnt e). lia.
  Qed.

  (* what pre_split computes, stage by stage *)
  Lemma pre_split_inv a : pre_split cfg tk t = Ok a ->
    exists ins ws rps,
      pr_lattice a = insert_all conn (reset n) ins /\ ins_ok n ins ws /\
      connect_eos conn (pr_lattice a) = Some (pr_eos a) /\
      pr_path a = flat_map (fun p => match get (pr_lattice a) p with
                                     | Some e => match enode e with Some nd => [(nd, wid_at (combine (map nend ins) ws) p)] | None => [] end
                                     | None => [] end) rps /\
      pr_result a = map (fun x => result_node tk t (fst x) (snd x)) (pr_path a) /\
      pr_split_in a = map (split_node_of (combine (pr_result a) (map snd (pr_path a)))) (pr_rewritten a).
  Proof.
    unfold pre_split. fold n. fold conn.
    destruct (loop_ids cfg tk t (reset n) [] 0 n) as [[L ids]|] eqn:El; [|discriminate].
    destruct (connect_eos conn L) as [[[r i] c]|] eqn:Ee; [|discriminate].
    destruct (walk_pos L (length L) (r, i)) as [rps|]; [|discriminate].
    match goal with |- match ?X with _ => _ end = _ -> _ => destruct X as [[q| |]|]; try discriminate end.
    intros H. injection H as <-. cbn [pr_path pr_lattice pr_eos pr_result pr_split_in pr_rewritten].
    destruct (loop_ids_inv (reset n) n (reset n) [] 0 L ids El [] []) as (ins & ws & HL & Hids & Hok);
      [reflexivity | reflexivity | split; [reflexivity | split; [intros m [] | split; [constructor | intros e; cbn; lia]]] |].
    exists ins, ws, (rev rps). subst ids. split; [exact HL|]. split; [exact Hok|]. split; [exact Ee|]. repeat split; reflexivity.
  Qed.

  (* the pairs of the path read back from the lattice *)
  Lemma path_pairs a : pre_split cfg tk t = Ok a -> Forall pair_ok (pr_path a).
  Proof.
    intros Ha. destruct (pre_split_inv a Ha) as (ins & ws & rps & HL & Hok & _ & Hpath & _).
    pose proof (ins_range _ _ _ Hok) as Hrange. destruct Hok as (Hlen & _ & Hpairs & _).
    rewrite Hpath. set (L := pr_lattice a) in *.
    apply Forall_forall. intros [nd w] Hin. apply in_flat_map in Hin. destruct Hin as ([r' i'] & _ & Hin).
    destruct (get L (r', i')) as [e|] eqn:Eg; [|contradiction]. destruct (enode e) as [nd'|] eqn:Ee; [|contradiction].
    destruct Hin as [Hin|[]]. injection Hin as <- <-.
    rewrite Forall_forall in Hpairs. apply Hpairs.
    unfold get in Eg. cbn [fst snd] in Eg.
    assert (Hrow : map enode (Lattice.row L r') = map enode (Lattice.row (reset n) r') ++ map Some (filter (fun m => Nat.eqb (nend m) r') ins)).
    { rewrite HL. apply rows_insert_all. intros m Hm. destruct (Hrange m Hm). unfold reset. cbn [length]. rewrite repeat_length. lia. }
    rewrite row_reset in Hrow.
    assert (Hnth : nth_error (map enode (Lattice.row L r')) i' = Some (Some nd')) by (rewrite nth_error_map, Eg; cbn; now rewrite Ee).
    rewrite Hrow in Hnth.
    destruct (Nat.eqb_spec r' 0) as [->|Hr].
    - exfalso. replace (filter (fun m => Nat.eqb (nend m) 0) ins) with (@nil node) in Hnth.
      + destruct i' as [|[|?]]; cbn in Hnth; discriminate.
      + symmetry. clear - Hrange. induction ins as [|m ins IH]; [reflexivity|]. cbn [filter].
        destruct (Nat.eqb_spec (nend m) 0) as [E0|_]; [destruct (Hrange m (or_introl eq_refl)); lia|].
        apply IH. intros m' Hm'. apply Hrange. now right.
    - cbn [map app] in Hnth. rewrite nth_error_map in Hnth.
      destruct (nth_error (filter (fun m => Nat.eqb (nend m) r') ins) i') as [m|] eqn:En; [|discriminate]. cbn in Hnth. injection Hnth as ->.
      rewrite (filter_combine_fst (fun m => Nat.eqb (nend m) r') ins ws (eq_sym Hlen)) in En.
      unfold wid_at. cbn [fst snd].
      rewrite (filter_combine_map nend (fun e => Nat.eqb e r') ins ws).
      pose proof (nth_error_map_fst_snd _ _ _ WID_INVALID En) as Hin. apply filter_In in Hin. exact (proj1 Hin).
  Qed.
End Pairs.

(* ------------------------------------------------------------------ word ids: WordId::new(dic, word) read back as the
   source model does (dic_part = / 2^28, word_part = mod 2^28) *)
Section Stamp.
  Hypothesis HL : layout_ok = true.

  Lemma stamp_parts d raw : SS.dic_part (stamp d raw) = (d mod 16)%N /\ SS.word_part (stamp d raw) = (raw mod 2 ^ 28)%N.
  Proof.
    destruct (layout_facts HL) as (E1 & _ & E3 & E4 & _). unfold stamp. rewrite E1, E3, E4.
    change 15%N with (N.ones 4). rewrite !N.land_ones. change (2 ^ 4)%N with 16%N.
    assert (Hr : (raw mod 2 ^ 28 < 2 ^ 28)%N) by (apply N.mod_upper_bound; discriminate).
    unfold SS.dic_part, SS.word_part. change CR.DIC with (2 ^ 28)%N. split.
    - rewrite <- N.shiftr_div_pow2, N.shiftr_lor, N.shiftr_shiftl_l by lia. rewrite N.sub_diag, N.shiftl_0_r.
      rewrite (N.shiftr_div_pow2 (raw mod 2 ^ 28)), N.div_small by exact Hr. apply N.lor_0_r.
    - rewrite <- N.land_ones, N.land_lor_distr_l, !N.land_ones, N.shiftl_mul_pow2.
      rewrite N.mod_mul by discriminate. rewrite N.lor_0_l. apply N.mod_small. exact Hr.
  Qed.

  Lemma oov_id_dic q : SS.dic_part (oov_id q) = 15%N.
  Proof. unfold oov_id. destruct (layout_facts HL) as (_ & _ & _ & _ & ->). exact (proj1 (stamp_parts 15 q)). Qed.
End Stamp.

Lemma invalid_dic : SS.dic_part WID_INVALID = 15%N.
Proof. reflexivity. Qed.

(* ------------------------------------------------------------------ a key whose bytes are a prefix of an encoded text is
   a prefix of the text (UTF-8 is prefix free) *)
Lemma enc_prefix_inv : forall k r x, enc r = enc k ++ x -> exists post, r = k ++ post.
Proof.
  induction k as [|c k IH]; intros r x H; [exists r; reflexivity|].
  cbn [PF.enc flat_map] in H. fold (enc k) in H. rewrite <- app_assoc in H.
  destruct r as [|d r].
  - exfalso. destruct (PF.utf8_shape c) as (b & rr & E & _). rewrite E in H. discriminate.
  - cbn [PF.enc flat_map] in H. fold (enc r) in H. apply NB.utf8_inj_app in H. destruct H as [-> H].
    destruct (IH r x H) as (post & ->). exists post. reflexivity.
Qed.

Lemma utf8_bytes_enc k : SudachiVerif.Model.Codec.utf8_bytes k = enc k.
Proof. reflexivity. Qed.

(* ------------------------------------------------------------------ a dictionary candidate covers the key of its word *)
Section Cover.
  Variable cfg : bcfg.
  Hypothesis Hcfg : cfg_ok cfg = true.
  Hypothesis HL : layout_ok = true.
  Variable tk : tokenizer.
  Variable t : list N.
  Hypothesis Hsc : Forall scalar t.
  Variable ds : SS.srcs.
  (* every lexicon of the stack carries the C04 certificate against the index rows of ITS source rows (C05: index_rows_of) *)
  Hypothesis Hcert : Forall2 (fun L rows => exists fuel, cert_lex L (CC.index_rows_of rows) fuel = true) (tk_lexs tk) ds.
  Hypothesis Hnd : length ds <= 15.
  Hypothesis Hsrc : SD.srcs_ok ds.

  Lemma forall2_nth {A B} (R : A -> B -> Prop) : forall l l', Forall2 R l l' ->
    forall d x, nth_error l d = Some x -> exists y, nth_error l' d = Some y /\ R x y.
  Proof.
    induction 1 as [|a b l l' Hab _ IH]; intros [|d] x Hx; cbn in *; try discriminate.
    - injection Hx as <-. exists b. auto.
    - exact (IH d x Hx).
  Qed.

  (* the byte offset of character p, and the character index of a byte offset on a boundary *)
  Lemma c2b_at pre post : pre ++ post <> [] -> nth (length pre) (mod_c2b (enc (pre ++ post))) 0 = length (enc pre).
  Proof.
    intros Hne. pose proof (c2b_enc_prefix cfg Hcfg pre post Hne) as H. unfold to_curr_byte_idx in H.
    now apply nth_error_nth.
  Qed.

  Lemma b2c_at pre post : pre ++ post <> [] -> nth (length (enc pre)) (mod_b2c cfg (enc (pre ++ post))) 0 = length pre.
  Proof.
    intros Hne.
    assert (Hb : is_boundary (enc (pre ++ post)) (length (enc pre)) = true) by (rewrite PF.enc_length; apply PF.enc_boundary).
    assert (Hn : enc (pre ++ post) <> []) by (apply NB.enc_nonempty; exact Hne).
    pose proof (ch_idx_boundary cfg Hcfg _ _ (PF.enc_wf _) Hn Hb) as H. unfold ch_idx in H.
    apply nth_error_nth with (d := 0) in H. rewrite H.
    rewrite PF.enc_app, firstn_app, Nat.sub_diag, firstn_all. cbn [firstn]. rewrite app_nil_r. apply count_leads_enc.
  Qed.

  Theorem dict_id_covers p w ec : In (w, ec) (dict_ids cfg tk t p) ->
    (exists rr, SS.src_row ds w = Some rr) /\
    exists pre post, t = pre ++ SS.src_key ds w ++ post /\ length pre = p /\ ec = length (pre ++ SS.src_key ds w).
  Proof.
    unfold dict_ids. destruct (Nat.ltb_spec p (length t)) as [Hp|Hp]; [|intros []].
    unfold dict_entries. fold (tb t).
    destruct (lookup_set (tk_lexs tk) (tb t) (nth p (mod_c2b (tb t)) 0)) as [l|] eqn:El; [|intros []].
    intros H. apply in_map_iff in H. destruct H as ([w' eb] & Heq & Hin). cbn [fst snd] in Heq. injection Heq as -> <-.
    apply filter_In in Hin. destruct Hin as [Hin _].
    apply (lookup_set_in _ _ _ _ El) in Hin. destruct Hin as (d & L & ld & HdL & Hld & Hin).
    destruct (forall2_nth _ _ _ Hcert d L HdL) as (rows & Hrows & fuel & Hc).
    assert (Hd15 : d < 15) by (assert (d < length ds) by (apply nth_error_Some; congruence); lia).
    destruct (layout_facts HL) as (_ & _ & E3 & E4 & _).
    assert (Hmask : N.land (N.of_nat d) LF.DIC_MASK = N.of_nat d).
    { rewrite E3. change 15%N with (N.ones 4). rewrite N.land_ones. apply N.mod_small. change (2 ^ 4)%N with 16%N. lia. }
    destruct (enc_chars_ok t Hsc) as [_ Hby].
    destruct (lex_lookup_exact_of_cert L _ fuel Hc (N.of_nat d) (tb t) (nth p (mod_c2b (tb t)) 0) Hmask Hby) as (l' & Hl' & Hiff).
    rewrite Hld in Hl'. injection Hl' as <-.
    apply Hiff in Hin. apply naive_lex_in in Hin. destruct Hin as (i & r & Hr & _ & Hpre & -> & ->).
    unfold CC.index_rows_of in Hr. rewrite nth_error_map in Hr.
    destruct (nth_error rows (N.to_nat i)) as [rr|] eqn:Err; [|discriminate]. cbn in Hr. injection Hr as <-. cbn [fst] in *.
    rewrite utf8_bytes_enc in *.
    (* the source key of the stamped id *)
    assert (Hi : N.to_nat i < length rows) by (apply nth_error_Some; congruence).
    assert (Hrows_small : (N.of_nat (length rows) <= CR.DIC)%N).
    { unfold SD.srcs_ok in Hsrc. rewrite Forall_forall in Hsrc. exact (proj2 (Hsrc rows (nth_error_In _ _ Hrows))). }
    assert (Hrow : SS.src_row ds (stamp (N.of_nat d) i) = Some rr).
    { unfold SS.src_row. destruct (stamp_parts HL (N.of_nat d) i) as [-> ->].
      rewrite (N.mod_small (N.of_nat d)) by lia.
      rewrite (N.mod_small i) by (change (2 ^ 28)%N with CR.DIC; lia).
      unfold SS.rows_of. rewrite Nat2N.id. rewrite (nth_error_nth _ _ [] Hrows).
      replace (i <? N.of_nat (length rows))%N with true by (symmetry; apply N.ltb_lt; lia).
      exact Err. }
    split; [exists rr; exact Hrow|].
    assert (Hkey : SS.src_key ds (stamp (N.of_nat d) i) = CR.r_surface rr) by (unfold SS.src_key; now rewrite Hrow).
    rewrite Hkey. set (k := CR.r_surface rr) in *.
    (* the text splits at p; the key is a prefix of the rest *)
    set (pre := firstn p t). set (rest := skipn p t).
    assert (Ht : t = pre ++ rest) by (symmetry; apply firstn_skipn).
    assert (Hlp : length pre = p) by (unfold pre; rewrite firstn_length; lia).
    assert (Hne : pre ++ rest <> []) by (rewrite <- Ht; destruct t; [cbn in Hp; lia | discriminate]).
    assert (Hoff : nth p (mod_c2b (tb t)) 0 = length (enc pre)).
    { unfold tb. rewrite Ht at 1. rewrite <- Hlp at 1. exact (c2b_at pre rest Hne). }
    rewrite Hoff in *. unfold tb in Hpre. rewrite Ht, PF.enc_app, skipn_length_app in Hpre.
    destruct Hpre as (suffix & Hsuf). destruct (enc_prefix_inv k rest suffix Hsuf) as (post & Hrest).
    exists pre, post. split; [rewrite Ht, Hrest; reflexivity|]. split; [exact Hlp|].
    rewrite Nat2N.id. unfold tb in *. change (SudachiVerif.Model.Codec.utf8_bytes k) with (enc k). rewrite Hoff.
    assert (Ht2 : t = (pre ++ k) ++ post) by (rewrite <- app_assoc, <- Hrest; exact Ht).
    rewrite Ht2 at 1. rewrite <- app_length, <- PF.enc_app. apply b2c_at. rewrite <- Ht2, Ht. exact Hne.
  Qed.
End Cover.

(* ------------------------------------------------------------------ H8: the nodes handed to split_path *)
Module LM := SudachiVerif.Model.LatticeM.
Module LP := SudachiVerif.Model.LatticeP.
Module LPP := SudachiVerif.Proofs.LatticePProofs.

Section SplitInput.
  Variable cfg : bcfg.
  Hypothesis Hcfg : cfg_ok cfg = true.
  Hypothesis HL : layout_ok = true.
  Variable tk : tokenizer.
  Variable t : list N.
  Hypothesis Hsc : Forall scalar t.
  Variable ds : SS.srcs.
  Hypothesis Hcert : Forall2 (fun L rows => exists fuel, cert_lex L (CC.index_rows_of rows) fuel = true) (tk_lexs tk) ds.
  Hypothesis Hnd : length ds <= 15.
  Hypothesis Hsrc : SD.srcs_ok ds.
  Hypothesis Hwf : forall p m, In m (offered_at cfg tk t p) -> node_wf (length t) p m.

  Lemma node_eqb_coords a b : Rw.node_eqb a b = true ->
    Rw.nb a = Rw.nb b /\ Rw.ne a = Rw.ne b /\ Rw.bb a = Rw.bb b /\ Rw.be a = Rw.be b.
  Proof.
    unfold Rw.node_eqb. intros H. repeat (apply andb_true_iff in H; destruct H as [H ?]).
    repeat match goal with X : Nat.eqb _ _ = true |- _ => apply Nat.eqb_eq in X end. auto.
  Qed.

  (* every node handed to split_path either carries an id outside the dictionaries (OOV, or none: a node rebuilt by a
     path-rewrite plugin) or is the dictionary candidate its id was looked up for: it covers the key of its word *)
  Theorem path_nodes_cover_their_keys a : pre_split cfg tk t = Ok a ->
    forall nd, In nd (pr_split_in a) ->
      SS.dic_part (Sp.wid nd) = 15%N \/
      ((exists rr, SS.src_row ds (Sp.wid nd) = Some rr) /\ SD.covers t nd (SS.src_key ds (Sp.wid nd))).
  Proof.
    intros Ha nd Hin.
    pose proof (path_pairs cfg tk t Hwf a Ha) as Hpairs.
    destruct (pre_split_inv cfg tk t Hwf a Ha) as (_ & _ & _ & _ & _ & _ & _ & Hres & Hsp).
    rewrite Hsp in Hin. apply in_map_iff in Hin. destruct Hin as (q & <- & _).
    unfold split_node_of. cbn [Sp.wid]. unfold wid_after.
    destruct (find (fun x => Rw.node_eqb (fst x) q) (combine (pr_result a) (map snd (pr_path a)))) as [x|] eqn:Ef;
      [|left; exact invalid_dic].
    apply find_some in Ef. destruct Ef as [Hx Heq]. rewrite Hres in Hx. apply in_combine_maps in Hx.
    destruct Hx as ([m w] & Hy & ->). cbn [fst snd] in *.
    rewrite Forall_forall in Hpairs. destruct (Hpairs _ Hy) as [(ec & Hd & Hec) | (q' & Hq)]; cbn [fst snd] in *.
    2:{ left. rewrite Hq. apply oov_id_dic. exact HL. }
    right. destruct (dict_id_covers cfg Hcfg HL tk t Hsc ds Hcert Hnd Hsrc _ _ _ Hd) as (Hrr & pre & post & Ht & Hp & He).
    split; [exact Hrr|].
    apply node_eqb_coords in Heq. destruct Heq as (E1 & E2 & E3 & E4).
    unfold result_node in E1, E2, E3, E4. cbn [Rw.nb Rw.ne Rw.bb Rw.be] in E1, E2, E3, E4.
    set (k := SS.src_key ds w) in *.
    assert (Hne : pre ++ k ++ post <> []).
    { rewrite <- Ht. intros ->. unfold dict_ids in Hd. cbn in Hd. destruct (nbeg m); exact Hd. }
    exists pre, post. split; [exact Ht|]. cbn [Sp.nb Sp.ne Sp.bb Sp.be]. rewrite <- E1, <- E2, <- E3, <- E4.
    unfold Sp.clen. rewrite <- Hp, Hec, He. split; [reflexivity|]. split; [|split; [reflexivity|]].
    - unfold tb. rewrite Ht at 1. rewrite (c2b_at cfg Hcfg pre (k ++ post) Hne), PF.enc_length. apply N2Nat.id.
    - unfold tb. rewrite Ht at 1. rewrite app_assoc. rewrite (c2b_at cfg Hcfg (pre ++ k) post) by (rewrite <- app_assoc; exact Hne).
      rewrite PF.enc_length. apply N2Nat.id.
  Qed.

  (* ... hence C09's condition on the rows is all that the split stage needs *)
  Variable cs : list SS.compiled.
  Hypothesis Hcomp : SD.stack_compiled ds cs.
  Variables (nsp : N) (po : N -> N).

  Lemma compiled_length : length cs = length ds.
  Proof.
    destruct Hcomp as (rows0 & uds & c0 & ucs & es0 & -> & -> & _ & H). cbn [length]. f_equal. clear - H. induction H; cbn; congruence.
  Qed.

  Lemma no_units_outside a' w : SS.dic_part w = 15%N -> SS.ld_units cs nsp po a' w = [].
  Proof.
    intros H. unfold SS.ld_units, SS.ld_info. rewrite H.
    replace (nth_error cs (N.to_nat 15)) with (@None SS.compiled); [reflexivity|].
    symmetry. apply nth_error_None. rewrite compiled_length. change (N.to_nat 15) with 15. lia.
  Qed.

  Definition units_declared_ok (m : Sp.mode) : Prop :=
    match m with
    | Sp.ModeA => forall w rr, SS.src_row ds w = Some rr ->
                    2 <= length (SS.ld_units cs nsp po true w) -> SS.rows_units_ok ds true w = true
    | Sp.ModeB => forall w rr, SS.src_row ds w = Some rr ->
                    2 <= length (SS.ld_units cs nsp po false w) -> SS.rows_units_ok ds false w = true
    | Sp.ModeC => True
    end.

  Theorem rows_mode_wf_of_lookup a m : pre_split cfg tk t = Ok a -> units_declared_ok m ->
    rows_mode_wf ds cs nsp po t m (pr_split_in a).
  Proof.
    intros Ha Hu. destruct m; cbn [rows_mode_wf units_declared_ok] in *; [| |exact I]; intros nd Hin Hl;
      (destruct (path_nodes_cover_their_keys a Ha nd Hin) as [H15|[(rr & Hrr) Hc]];
       [rewrite (no_units_outside _ _ H15) in Hl; cbn in Hl; lia | split; [exact (Hu _ rr Hrr Hl) | exact Hc]]).
  Qed.
End SplitInput.

(* ================================================================== assembly *)
Definition certified_rows (lexs : list lexicon) (ds : SS.srcs) : Prop :=
  Forall2 (fun L rows => exists fuel, cert_lex L (CC.index_rows_of rows) fuel = true) lexs ds.
Definition rows_scalar (ds : SS.srcs) : Prop := Forall (Forall (fun r => Forall scalar (CR.r_surface r))) ds.

Lemma certified_of_rows lexs ds : certified_rows lexs ds -> rows_scalar ds -> certified lexs.
Proof.
  intros Hc Hs L HL. apply In_nth_error in HL. destruct HL as (d & Hd).
  destruct (forall2_nth _ _ _ Hc d L Hd) as (rows & Hrows & fuel & Hcert).
  exists (CC.index_rows_of rows), fuel. split; [exact Hcert|].
  intros r Hr. unfold CC.index_rows_of in Hr. apply in_map_iff in Hr. destruct Hr as (rr & <- & Hrr). cbn [fst].
  rewrite utf8_bytes_enc. apply enc_chars_ok.
  unfold rows_scalar in Hs. rewrite Forall_forall in Hs. specialize (Hs rows (nth_error_In _ _ Hrows)).
  rewrite Forall_forall in Hs. exact (Hs rr Hrr).
Qed.

Definition e2e_conclusion (cfg : bcfg) (tk : tokenizer) (t0 t : list N) : Prop :=
  exists ms, tokenize_model cfg tk t0 = Ok ms /\
    (t = [] -> ms = []) /\
    (t <> [] ->
       partition_b (enc t0) (map (fun m => (mo_begin m, mo_end m)) ms) = true /\
       concat (map mo_surface ms) = enc t0 /\
       Forall (fun m => mo_surface m = byte_slice (enc t0) (mo_begin m, mo_end m) /\
                        mo_begin_c m = codepoints_before (enc t0) (mo_begin m) /\
                        mo_end_c m = codepoints_before (enc t0) (mo_end m)) ms /\
       exists a, pre_split cfg tk t = Ok a /\
         let p := map fst (pr_path a) in
         let off := Offered (offered_at cfg tk t) OL.no_fallback in
         chainP off 0 (length t) p /\ path_cost (tk_conn tk) p = snd (pr_eos a) /\
         forall p', chainP off 0 (length t) p' -> (path_cost (tk_conn tk) p <= path_cost (tk_conn tk) p')%Z).

(* the lattice of the run, in machine arithmetic and with the arrays of lattice.rs *)
Definition machine_conclusion (cfg : bcfg) (tk : tokenizer) (t : list N) (nl nr : N) (data : list Z) : Prop :=
  exists a ins,
    pre_split cfg tk t = Ok a /\
    pr_lattice a = insert_all (tk_conn tk) (reset (length t)) ins /\
    (forall m, In m ins -> exists q, In m (offered_at cfg tk t q)) /\
    connect_eos (tk_conn tk) (pr_lattice a) = Some (pr_eos a) /\
    (forall checked, exists costs,
       LM.minsert_all checked (tk_conn tk) (LM.mreset (length t)) ins = LM.Ok (LM.embL (pr_lattice a), costs) /\
       LM.mconnect_eos checked (tk_conn tk) (LM.embL (pr_lattice a)) = LM.Ok (Some (pr_eos a))) /\
    (forall dbg ovf L0, LPP.no_index_panic (LP.prounds dbg ovf nl nr data L0 [(length t, ins)])).

Section Assembly.
  Hypothesis F_slow : Generated.NormalizeFacts.slow_search_earliest = false.
  Hypothesis F_guard : Generated.NormalizeFacts.lowercase_guard_is_uppercase = false.
  Hypothesis F_path : Generated.NormalizeFacts.path_guard_is_uppercase = false.
  Hypothesis Hfwd : O.OF.continuity_forward = true.
  Hypothesis Hfix : O.OF.regex_ignores_empty_match = true.
  Hypothesis Hrwf : SudachiVerif.Proofs.RewriteTermination.rewrite_facts_ok.
  Hypothesis Hspf : Sp.split_facts_ok = true.
  Hypothesis HLay : layout_ok = true.
  Hypothesis HW : Generated.FieldOrder.writer_fields = SudachiVerif.Model.Codec.expected_writer.
  Hypothesis HRd : SudachiVerif.Proofs.CodecProofs.reader_facts_ok.
  Hypothesis HLn : SudachiVerif.Proofs.CodecProofs.len_thresholds_ok = true.
  Variable cfg : bcfg.
  Hypothesis Hcfg : cfg_ok cfg = true.
  Hypothesis Hsc_ : c_start_cmp cfg = ">"%string.
  Hypothesis Hrc : c_resolve_cmp cfg = ">"%string.
  Hypothesis Hcc : c_commit_cmp cfg = ">"%string.
  Hypothesis Hcl : (Z.of_N (c_commit_limit cfg) < 18446744073709551616)%Z.

  Variable tk : tokenizer.
  Variables (t0 : list N) (o_simple : O.oovdef) (t : list N).
  Variables (ds : SS.srcs) (cs : list SS.compiled) (nsp : N) (po : N -> N).
  Hypothesis Ht : t = NB.stack_spec (tk_plugins tk) t0.
  Hypothesis H1 : (Z.of_nat (length (enc t0)) <= Z.of_N (c_start_limit cfg))%Z.
  Hypothesis H2 : Forall NB.plugin_wf (tk_plugins tk).
  Hypothesis H3 : NB.stack_nonempty (tk_plugins tk) t0.
  Hypothesis H4 : NB.stack_fits cfg (tk_plugins tk) t0.
  Hypothesis H5 : Forall scalar t.
  Hypothesis H6 : certified_rows (tk_lexs tk) ds.
  Hypothesis H6s : rows_scalar ds.
  Hypothesis H7a : forall q, In q (tk_provs tk) -> SudachiVerif.Proofs.OovWf.provider_oracle_ok q (length t).
  Hypothesis H7b : O.fallback_of (tk_provs tk) = Some (O.PSimple o_simple).
  Hypothesis H7c : forall p, p < length t ->
       exists st, O.normal_pass (O.mk_ctx (classes tk t)) (tk_provs tk) p (dict_onodes cfg tk t p) = O.ROk st.
  Hypothesis Hcomp : SD.stack_compiled ds cs.
  Hypothesis Hsrc : SD.srcs_ok ds.
  Hypothesis Hnd : length ds <= 15.
  Hypothesis Hhw : tk_hw tk = SS.ld_hw cs nsp po.
  Hypothesis Hua : tk_ua tk = SS.ld_units cs nsp po true.
  Hypothesis Hub : tk_ub tk = SS.ld_units cs nsp po false.
  Hypothesis Hunits : units_declared_ok ds cs nsp po (tk_mode tk).

  Let Hkeys := keys_of_certificates _ (certified_of_rows _ _ H6 H6s).

  Lemma offered_at_wf : forall p m, In m (offered_at cfg tk t p) -> node_wf (length t) p m.
  Proof.
    intros p m H. apply (offered_wf Hfwd Hfix cfg Hcfg tk t H5 Hkeys H7a). rewrite OL.offered_no_fallback. exact H.
  Qed.

  Theorem tokenizer_end_to_end_from_rows : e2e_conclusion cfg tk t0 t.
  Proof.
    apply (tokenizer_end_to_end F_slow F_guard F_path Hfwd Hfix Hrwf Hspf cfg Hcfg Hsc_ Hrc Hcc Hcl
             tk t0 o_simple (SS.src_key ds) t Ht H1 H2 H3 H4 H5 Hkeys H7a H7b H7c).
    intros a Ha. rewrite Hhw, Hua, Hub.
    apply (mode_wf_of_rows HW HRd HLn ds cs Hcomp Hsrc nsp po).
    exact (rows_mode_wf_of_lookup cfg Hcfg HLay tk t H5 ds H6 Hnd Hsrc offered_at_wf cs Hcomp nsp po a (tk_mode tk) Ha Hunits).
  Qed.

  (* ---- the machine side of the same run ---- *)
  Variables (nl nr : N) (data : list Z).
  Hypothesis B1 : (N.of_nat (length t) <= 32766)%N.
  Hypothesis B2 : forall l r, (- 32768 <= tk_conn tk l r <= 32768)%Z.
  Hypothesis B3 : forall p m, In m (offered_at cfg tk t p) -> (- 32768 <= ncost m <= 32768)%Z /\ LP.ids_ok nl nr m = true.
  Hypothesis B4 : LP.matrix_ok nl nr data = true.
  Hypothesis B5 : forall e, (N.of_nat (LP.count_end e (flat_map (offered_at cfg tk t) (seq 0 (length t)))) <= 65535)%N.

  Theorem tokenizer_end_to_end_machine : e2e_conclusion cfg tk t0 t /\ (t <> [] -> machine_conclusion cfg tk t nl nr data).
  Proof.
    pose proof tokenizer_end_to_end_from_rows as He. split; [exact He|]. intros Hne.
    destruct He as (ms & _ & _ & He). destruct (He Hne) as (_ & _ & _ & a & Ha & _).
    destruct (pre_split_inv cfg tk t offered_at_wf a Ha) as (ins & ws & _ & HL & Hok & Heos & _).
    pose proof (ins_range cfg tk t offered_at_wf _ _ _ Hok) as Hrange.
    destruct Hok as (_ & Hoff & _ & Hcnt).
    exists a, ins. split; [exact Ha|]. split; [exact HL|]. split; [exact Hoff|]. split; [exact Heos|]. split.
    - intros checked.
      destruct (SudachiVerif.Proofs.LatticeMProofs.i32_exact_if_bounded checked (tk_conn tk) 32768 32768 B2 ltac:(lia) ltac:(lia)
                  (length t) ins) as (costs & Hm1 & Hm2).
      + intros m Hm. destruct (Hrange m Hm). destruct (Hoff m Hm) as (q & Hq). destruct (B3 q m Hq) as [Hc _]. lia.
      + unfold LM.MAX32. lia.
      + exists costs. rewrite <- HL in Hm1, Hm2. rewrite Heos in Hm2. split; assumption.
    - intros dbg ovf L0. apply LPP.lattice_no_index_panic; [exact B4|]. cbn [forallb]. rewrite andb_true_r.
      unfold LP.round_wf. cbn [fst snd].
      assert (Hpos : 1 <= length t) by (destruct t; [contradiction | cbn; lia]).
      apply andb_true_iff; split; [apply andb_true_iff; split; [apply andb_true_iff; split; [apply andb_true_iff; split|]|]|].
      + apply Nat.leb_le. exact Hpos.
      + apply N.leb_le. lia.
      + apply forallb_forall. intros m Hm. destruct (Hrange m Hm). unfold LP.pnode_wf.
        apply andb_true_iff. split; [apply Nat.ltb_lt | apply Nat.leb_le]; lia.
      + apply forallb_forall. intros m Hm. destruct (Hoff m Hm) as (q & Hq). exact (proj2 (B3 q m Hq)).
      + unfold LP.rows_small. apply forallb_forall. intros e _. apply N.leb_le. specialize (Hcnt e). specialize (B5 e).
        unfold count_end in Hcnt. lia.
  Qed.
End Assembly.
