(* H8 of C01_tokenizer_end_to_end from the dictionary source.
   The word ids that Model/Tokenizer.v threads along by position (loop_ids / walk_pos / wid_at / wid_after) are the ids of
   the candidates that were inserted: every dictionary node on the path comes from a dict_entries lookup result; by the
   C04 certificate its end is the end of an indexed row's surface that is a prefix of the text there and its id is the
   stamped row number; with the index rows being builder B's `index_rows_of` of the codec rows, the node COVERS the key
   `src_key ds w` of its word.  Hence C09's units_wf for every node handed to split_path, from the author-checkable
   rows_units_ok alone. *)
From Coq Require Import String List NArith ZArith Bool Arith Lia Relations.
From SudachiVerif Require Import Model.Buffer Proofs.BufferProofs Proofs.BufferCharProofs.
From SudachiVerif Require Import Model.Lattice Model.BuildLattice Proofs.LatticeProofs Proofs.BuildLatticeProofs Proofs.BuildOptimal.
From SudachiVerif Require Import Model.LexSet Proofs.LexSetProofs Model.DictCands Model.Tokenizer Proofs.EndToEnd.
From SudachiVerif Require Proofs.PipelineProofs Proofs.PipelineFull Proofs.NormalizeBuffer Proofs.TrieProofs Proofs.LookupLattice Model.Trie.
From SudachiVerif Require Model.Oov Proofs.OovFallback Proofs.OovWf Proofs.OovLattice Proofs.TotalitySimple.
From SudachiVerif Require Model.Rewrite Proofs.RewriteProofs Model.Split Proofs.SplitProofs.
From SudachiVerif Require Model.SplitSource Proofs.SplitDict Model.CodecResolve Model.CodecCheck Model.Codec Proofs.CodecProofs.
Import ListNotations.
Local Open Scope nat_scope.

Module CC := SudachiVerif.Model.CodecCheck.
Module CR := SudachiVerif.Model.CodecResolve.
Notation enc := PF.enc.

(* ------------------------------------------------------------------ rows of the lattice in insertion order *)
Section Rows.
  Variable conn : N -> N -> Z.

  Lemma insert_fst_push L n : exists e, enode e = Some n /\ fst (insert conn L n) = push_row L (nend n) e.
  Proof. unfold insert. destruct (connect_node conn L (nbeg n) (nleft n) (ncost n)) as [[i c]|]; cbn [fst]; eexists; (split; [|reflexivity]); reflexivity. Qed.

  Lemma rows_insert_all : forall ns L r, (forall n, In n ns -> nend n < length L) ->
    map enode (Lattice.row (insert_all conn L ns) r) = map enode (Lattice.row L r) ++ map Some (filter (fun n => Nat.eqb (nend n) r) ns).
  Proof.
    induction ns as [|n ns IH]; intros L r H; cbn [insert_all fold_left filter map]; [now rewrite app_nil_r|].
    destruct (insert_fst_push L n) as (e & He & Hp).
    change (fold_left (fun L0 n0 => fst (insert conn L0 n0)) ns (fst (insert conn L n))) with (insert_all conn (fst (insert conn L n)) ns).
    rewrite IH by (intros m Hm; rewrite Hp, push_length; apply H; now right).
    rewrite Hp, row_push by (apply H; now left).
    destruct (Nat.eqb_spec (nend n) r) as [->|Hne].
    - rewrite Nat.eqb_refl. rewrite map_app. cbn [map]. rewrite He, <- app_assoc. reflexivity.
    - replace (r =? nend n) with false by (symmetry; apply Nat.eqb_neq; lia). reflexivity.
  Qed.
End Rows.

(* filtering a zipped list by a function of the first component *)
Lemma filter_combine_fst {A B} (f : A -> bool) : forall (a : list A) (b : list B), length a = length b ->
  filter f a = map fst (filter (fun x => f (fst x)) (combine a b)).
Proof.
  induction a as [|x a IH]; intros [|y b] H; cbn in *; try lia; [reflexivity|].
  destruct (f x); cbn [map fst]; rewrite (IH b) by lia; reflexivity.
Qed.

Lemma filter_combine_map {A B C} (g : A -> C) (f : C -> bool) : forall (a : list A) (b : list B),
  map snd (filter (fun x => f (fst x)) (combine (map g a) b)) = map snd (filter (fun x => f (g (fst x))) (combine a b)).
Proof.
  induction a as [|x a IH]; intros [|y b]; cbn; try reflexivity. destruct (f (g x)); cbn; now rewrite IH.
Qed.

Lemma combine_app {A B} : forall (a a' : list A) (b b' : list B), length a = length b ->
  combine (a ++ a') (b ++ b') = combine a b ++ combine a' b'.
Proof. induction a as [|x a IH]; intros a' [|y b] b' H; cbn in *; try lia; [reflexivity|]. now rewrite IH by lia. Qed.

Lemma nth_error_map_fst_snd {A B} : forall (l : list (A * B)) i x d, nth_error (map fst l) i = Some x ->
  In (x, nth i (map snd l) d) l.
Proof.
  induction l as [|[a b] l IH]; intros [|i] x d H; cbn in *; try discriminate.
  - inversion H; subst. now left.
  - right. now apply IH.
Qed.

Lemma in_combine_maps {A B C} (f : A -> B) (g : A -> C) : forall (l : list A) x,
  In x (combine (map f l) (map g l)) -> exists y, In y l /\ x = (f y, g y).
Proof.
  induction l as [|a l IH]; intros x H; cbn in H; [contradiction|].
  destruct H as [<-|H]; [exists a; split; [now left | reflexivity]|].
  destruct (IH x H) as (y & Hy & ->). exists y. split; [now right | reflexivity].
Qed.

(* ------------------------------------------------------------------ the node buffer keeps the dictionary nodes in front *)
Lemma position_step_prefix c ps off dict buf :
  O.position_step c ps off dict = O.ROk buf -> exists extra, buf = dict ++ extra.
Proof.
  intros H. unfold O.position_step in H.
  destruct (OovFallback.fallback_iff_nothing_g _ _ _ _ _ _ _ H) as (cw1 & normal & Hn & Hcase).
  destruct (OovFallback.normal_pass_keeps_dict _ _ _ _ _ _ Hn) as (oov & Hk). cbn [snd] in Hk.
  destruct Hcase as [[_ ->] | [-> (p & extra & _ & _ & _ & ->)]].
  - exists oov. exact Hk.
  - symmetry in Hk. apply app_eq_nil in Hk. destruct Hk as [-> _]. exists extra. reflexivity.
Qed.

(* ------------------------------------------------------------------ every (node, id) pair that is offered *)
Section Pairs.
  Variable cfg : bcfg.
  Variable tk : tokenizer.
  Variable t : list N.

  (* a dictionary pair: found by the lookup at its begin, ends where the lookup says; or an OOV id *)
  Definition pair_ok (x : node * N) : Prop :=
    (exists ec, In (snd x, ec) (dict_ids cfg tk t (nbeg (fst x))) /\ nend (fst x) = ec) \/ (exists q, snd x = oov_id q).

  Lemma offered_split p :
    (offered_at cfg tk t p = [] /\ offered_ids cfg tk t p = []) \/
    exists extra, offered_at cfg tk t p = map TS.of_oov (dict_onodes cfg tk t p) ++ map TS.of_oov extra /\
                  offered_ids cfg tk t p = map fst (dict_ids cfg tk t p) ++ map (fun nd => oov_id (O.n_pos nd)) extra.
  Proof.
    unfold offered_at, OL.oov_offered, offered_ids.
    destruct (O.position_step (O.mk_ctx (classes tk t)) (tk_provs tk) p (dict_onodes cfg tk t p)) as [buf| |] eqn:E;
      [|left; split; reflexivity|left; split; reflexivity].
    destruct (position_step_prefix _ _ _ _ _ E) as (extra & ->). right. exists extra. split; [apply map_app|].
    f_equal. f_equal.
    replace (length (dict_ids cfg tk t p)) with (length (dict_onodes cfg tk t p)) by (unfold dict_onodes; apply map_length).
    apply skipn_length_app.
  Qed.

  Lemma offered_ids_length p : length (offered_ids cfg tk t p) = length (offered_at cfg tk t p).
  Proof.
    destruct (offered_split p) as [[-> ->] | (extra & -> & ->)]; [reflexivity|].
    rewrite !app_length, !map_length. unfold dict_onodes. now rewrite map_length.
  Qed.

  Lemma offered_pairs p x : In x (combine (offered_at cfg tk t p) (offered_ids cfg tk t p)) -> pair_ok x.
  Proof.
    destruct (offered_split p) as [[-> ->] | (extra & -> & ->)]; [intros []|].
    rewrite combine_app by (rewrite !map_length; unfold dict_onodes; now rewrite map_length).
    intros H. apply in_app_or in H. destruct H as [H|H].
    - unfold dict_onodes in H. rewrite map_map in H. apply in_combine_maps in H. destruct H as ([w ec] & Hin & ->).
      left. cbn [fst snd]. destruct (tk_params tk w) as [[l r] c]. cbn [TS.of_oov O.n_begin O.n_end nbeg nend]. exists ec. split; [exact Hin | reflexivity].
    - apply in_combine_maps in H. destruct H as (y & _ & ->). right. cbn [snd]. eexists. reflexivity.
  Qed.

  Let conn := tk_conn tk.
  Let n := length t.
  Hypothesis Hwf : forall p m, In m (offered_at cfg tk t p) -> node_wf n p m.

  Definition ins_ok (ins : list node) (ws : list N) : Prop :=
    length ws = length ins /\ (forall m, In m ins -> 0 < nend m <= n) /\ Forall pair_ok (combine ins ws).

  Lemma loop_ids_inv L0 : forall todo L ids p L' ids',
    loop_ids cfg tk t L ids p todo = Some (L', ids') ->
    forall ins ws, L = insert_all conn L0 ins -> ids = combine (map nend ins) ws -> ins_ok ins ws ->
    exists ins' ws', L' = insert_all conn L0 ins' /\ ids' = combine (map nend ins') ws' /\ ins_ok ins' ws'.
  Proof.
    induction todo as [|k IH]; intros L ids p L' ids' H ins ws HL Hids Hok; cbn [loop_ids] in H.
    - injection H as <- <-. exists ins, ws. auto.
    - destruct (has_previous_node L p); [|eapply IH; eauto].
      destruct (offered_at cfg tk t p) as [|x xs] eqn:E; [discriminate|]. rewrite <- E in H.
      destruct Hok as (Hlen & Hrange & Hpairs).
      apply (IH _ _ _ _ _ H (ins ++ offered_at cfg tk t p) (ws ++ offered_ids cfg tk t p)).
      + rewrite HL. unfold insert_all. now rewrite fold_left_app.
      + rewrite Hids, map_app. symmetry. apply combine_app. now rewrite map_length.
      + split; [rewrite !app_length, offered_ids_length; lia|]. split.
        * intros m Hm. apply in_app_or in Hm. destruct Hm as [Hm|Hm]; [now apply Hrange|].
          destruct (Hwf p m Hm) as (_ & H1 & H2). lia.
        * rewrite combine_app by lia. apply Forall_app. split; [exact Hpairs|].
          apply Forall_forall. intros y Hy. exact (offered_pairs p y Hy).
  Qed.

  (* the pairs of the path read back from the lattice *)
  Lemma path_pairs a : pre_split cfg tk t = Ok a -> Forall pair_ok (pr_path a).
  Proof.
    unfold pre_split. fold n.
    destruct (loop_ids cfg tk t (reset n) [] 0 n) as [[L ids]|] eqn:El; [|discriminate].
    destruct (connect_eos (tk_conn tk) L) as [[[r i] c]|]; [|discriminate].
    destruct (walk_pos L (length L) (r, i)) as [rps|]; [|discriminate].
    match goal with |- match ?X with _ => _ end = _ -> _ => destruct X as [[q| |]|]; try discriminate end.
    intros H. injection H as <-. cbn [pr_path].
    destruct (loop_ids_inv (reset n) n (reset n) [] 0 L ids El [] []) as (ins & ws & HL & Hids & Hlen & Hrange & Hpairs);
      [reflexivity | reflexivity | split; [reflexivity | split; [intros m [] | constructor]] |].
    apply Forall_forall. intros [nd w] Hin. apply in_flat_map in Hin. destruct Hin as ([r' i'] & _ & Hin).
    destruct (get L (r', i')) as [e|] eqn:Eg; [|contradiction]. destruct (enode e) as [nd'|] eqn:Ee; [|contradiction].
    destruct Hin as [Hin|[]]. injection Hin as <- <-.
    rewrite Forall_forall in Hpairs. apply Hpairs.
    unfold get in Eg. cbn [fst snd] in Eg.
    assert (Hrow : map enode (Lattice.row L r') = map enode (Lattice.row (reset n) r') ++ map Some (filter (fun m => Nat.eqb (nend m) r') ins)).
    { rewrite HL. apply rows_insert_all. intros m Hm. destruct (Hrange m Hm). unfold reset. cbn [length]. rewrite repeat_length. lia. }
    rewrite row_reset in Hrow.
    assert (Hnth : nth_error (map enode (Lattice.row L r')) i' = Some (Some nd')) by (rewrite nth_error_map, Eg; cbn; now rewrite Ee).
    rewrite Hrow in Hnth.
    destruct (Nat.eqb_spec r' 0) as [->|Hr].
    - exfalso. replace (filter (fun m => Nat.eqb (nend m) 0) ins) with (@nil node) in Hnth.
      + destruct i' as [|[|?]]; cbn in Hnth; discriminate.
      + symmetry. clear - Hrange. induction ins as [|m ins IH]; [reflexivity|]. cbn [filter].
        destruct (Nat.eqb_spec (nend m) 0) as [E0|_]; [destruct (Hrange m (or_introl eq_refl)); lia|].
        apply IH. intros m' Hm'. apply Hrange. now right.
    - cbn [map app] in Hnth. rewrite nth_error_map in Hnth.
      destruct (nth_error (filter (fun m => Nat.eqb (nend m) r') ins) i') as [m|] eqn:En; [|discriminate]. cbn in Hnth. injection Hnth as ->.
      rewrite (filter_combine_fst (fun m => Nat.eqb (nend m) r') ins ws (eq_sym Hlen)) in En.
      unfold wid_at. cbn [fst snd]. rewrite Hids.
      rewrite (filter_combine_map nend (fun e => Nat.eqb e r') ins ws).
      pose proof (nth_error_map_fst_snd _ _ _ WID_INVALID En) as Hin. apply filter_In in Hin. exact (proj1 Hin).
  Qed.
End Pairs.
