(* Lemmas about Model/LookupAll.v: MorphemeList::lookup returns, IN ORDER, exactly what every lexicon of the stack stores
   under the query (any number of lexicons, any tries), and -- for dictionaries that pass the certificate of C04 -- exactly
   the indexed rows of the source lexicons whose surface is the query. *)
From Coq Require Import String List Arith NArith ZArith Bool Lia ZifyBool ZifyNat ZifyN.
From SudachiVerif Require Generated.Limits Generated.LexFacts Generated.LookupFacts.
From SudachiVerif Require Import Model.Harness Model.Trie Model.WordIdTable Model.LexSet Model.LookupAll
     Proofs.TrieProofs Proofs.LexSetProofs.
Import ListNotations.
Open Scope N_scope.

Arguments N.add : simpl never.
Arguments N.eqb : simpl never.
Arguments N.land : simpl never.
Arguments N.of_nat : simpl never.
Arguments N.to_nat : simpl never.

(* ---------- decidable side conditions on Generated/LookupFacts.v ---------- *)
(* the loop: lookup(query, 0); ONE continue, guarded by `end != len`; no break, no return; behind the guard nothing is
   conditional and exactly one node carrying the entry's word id is pushed and counted *)
Definition lookup_loop_ok : bool :=
  String.eqb LKF.skip_cmp "!=" && (LKF.lookup_offset =? 0) && String.eqb LKF.skip_block "continue;"
  && (LKF.loop_continues =? 1) && (LKF.loop_breaks =? 0)
  && (LKF.loop_returns =? 0) && (LKF.kept_conditions =? 0) && (LKF.kept_pushes =? 1)
  && LKF.kept_carries_word_id && LKF.kept_counted.

(* the glue: fields normalised before loading; Python clears the list, passes its argument on untouched and asks for all fields *)
Definition lookup_glue_ok : bool :=
  LKF.subset_normalized && LKF.py_clears_first && LKF.py_passes_parameter && String.eqb LKF.py_fields "InfoSubset::all()".

Lemma loop_facts : lookup_loop_ok = true -> LKF.skip_cmp = "!="%string /\ LKF.lookup_offset = 0.
Proof.
  unfold lookup_loop_ok. repeat rewrite andb_true_iff. rewrite String.eqb_eq, N.eqb_eq. tauto.
Qed.

(* ---------- the loop is a filter ---------- *)
Lemma keep_full_spec : lookup_loop_ok = true -> forall n es,
  keep_full n es = map fst (filter (fun we => snd we =? n) es).
Proof.
  intros H n. destruct (loop_facts H) as [Hc _].
  induction es as [|[w e] t IH]; [reflexivity|]. cbn [keep_full filter snd]. rewrite Hc.
  change (cmp_eval "!=" e n) with (negb (e =? n)). destruct (e =? n); cbn [negb map fst]; rewrite IH; reflexivity.
Qed.

Lemma keep_full_app n : forall x y, keep_full n (x ++ y) = keep_full n x ++ keep_full n y.
Proof.
  induction x as [|[w e] t IH]; intros y; [reflexivity|]. cbn [app keep_full].
  destruct (cmp_eval LKF.skip_cmp e n); rewrite IH; reflexivity.
Qed.

Lemma keep_full_group : lookup_loop_ok = true -> forall n dic e ids,
  keep_full n (map (fun r => (stamp dic r, e)) ids) = if e =? n then map (stamp dic) ids else [].
Proof.
  intros H n dic e ids. rewrite (keep_full_spec H). induction ids as [|r t IH]; cbn [map filter snd].
  - destruct (e =? n); reflexivity.
  - destruct (e =? n) eqn:E; cbn [map fst]; [f_equal|]; exact IH.
Qed.

Lemma flat_map_flat_map {A B C} (g : B -> list C) (f : A -> list B) l :
  flat_map g (flat_map f l) = flat_map (fun x => flat_map g (f x)) l.
Proof. induction l as [|x t IH]; cbn [flat_map]; [reflexivity|]. rewrite flat_map_app, IH. reflexivity. Qed.

(* what one trie entry contributes to the answer *)
Definition group (tbl : list N) (dic n : N) (ve : N * N) : list N :=
  if snd ve =? n then match entries tbl (fst ve) with Some ids => map (stamp dic) ids | None => [] end else [].

Lemma expand_keep : lookup_loop_ok = true -> forall tbl dic n es l,
  expand tbl dic es = Some l -> keep_full n l = flat_map (group tbl dic n) es.
Proof.
  intros H tbl dic n. induction es as [|[v0 e0] t IH]; intros l Hl; cbn [expand] in Hl.
  - injection Hl as <-. reflexivity.
  - destruct (entries tbl v0) as [ids0|] eqn:He; [|discriminate].
    destruct (stamp_all dic ids0 e0) as [x|] eqn:Hs; [|discriminate].
    destruct (expand tbl dic t) as [y|] eqn:Hy; [|discriminate]. injection Hl as <-.
    apply stamp_all_spec in Hs. subst x. rewrite keep_full_app, (keep_full_group H), (IH y eq_refl).
    cbn [flat_map]. unfold group at 2. cbn [fst snd]. rewrite He. reflexivity.
Qed.

(* one lexicon: of everything common-prefix search reports for the query, the loop keeps exactly what is stored under the
   WHOLE query -- whatever shorter keys the lexicon holds *)
Lemma lex_keep_held : lookup_loop_ok = true -> forall L dic q l,
  lex_lookup L dic q 0 = Some l -> keep_full (N.of_nat (length q)) l = held L dic q.
Proof.
  intros H L dic q l Hl. unfold lex_lookup in Hl. rewrite (expand_keep H _ _ _ _ _ Hl).
  rewrite traverse_exact. unfold prefix_matches, prefix_matches_from. cbn [skipn]. rewrite flat_map_flat_map.
  unfold held. set (a := lx_trie L). set (tbl := lx_table L).
  destruct (length q) as [|m] eqn:Hlen.
  - cbn [seq flat_map]. destruct q; [|discriminate]. unfold accept_value. rewrite accept_from_nil. reflexivity.
  - rewrite seq_S, flat_map_app. rewrite flat_map_nil_all.
    + cbn [app flat_map Nat.add]. rewrite app_nil_r.
      replace (firstn (S m) q) with q by (symmetry; rewrite <- Hlen; apply firstn_all).
      fold (accept_value a q). destruct (accept_value a q) as [v|]; cbn [flat_map]; [|reflexivity].
      rewrite app_nil_r. unfold group. cbn [fst snd].
      replace (N.of_nat 0 + N.of_nat (S m) =? N.of_nat (S m)) with true by (symmetry; apply N.eqb_eq; lia).
      reflexivity.
    + intros x Hx. apply in_seq in Hx.
      destruct (accept_from a (root a, false) (firstn x q)) as [v|]; cbn [flat_map]; [|reflexivity].
      rewrite app_nil_r. unfold group. cbn [snd].
      replace (N.of_nat 0 + N.of_nat x =? N.of_nat (S m)) with false by (symmetry; apply N.eqb_neq; lia).
      reflexivity.
Qed.

Lemma concat_keep_held : lookup_loop_ok = true -> forall q (l : list (N * lexicon)) r,
  concat_opt (map (fun dl => lex_lookup (snd dl) (fst dl) q 0) l) = Some r ->
  keep_full (N.of_nat (length q)) r = flat_map (fun dl => held (snd dl) (fst dl) q) l.
Proof.
  intros H q. induction l as [|[d L] t IH]; intros r Hr; cbn [map concat_opt] in Hr.
  - injection Hr as <-. reflexivity.
  - cbn [fst snd] in Hr. destruct (lex_lookup L d q 0) as [x|] eqn:Hx; [|discriminate].
    destruct (concat_opt (map (fun dl => lex_lookup (snd dl) (fst dl) q 0) t)) as [y|] eqn:Hy; [|discriminate].
    injection Hr as <-. rewrite keep_full_app, (lex_keep_held H _ _ _ _ Hx), (IH y eq_refl). reflexivity.
Qed.

(* (a), for ANY lexicons: whenever the call answers, its answer is -- in order -- what every lexicon stores under the query,
   the lexicons in search order *)
Lemma lookup_all_held : lookup_loop_ok = true -> forall lexs q ids,
  lookup_all lexs q = Some ids -> ids = held_all lexs q.
Proof.
  intros H lexs q ids. unfold lookup_all, lookup_set, held_all. destruct (loop_facts H) as [_ ->].
  change (N.to_nat 0) with 0%nat.
  destruct (concat_opt _) as [r|] eqn:Hr; [|discriminate]. intros Heq. injection Heq as <-.
  exact (concat_keep_held H q _ r Hr).
Qed.

(* ---------- certified dictionaries: the answer in terms of the source rows ---------- *)
Lemma held_rows L rows fuel dic q :
  cert_prop L rows fuel -> bytes q -> held L dic q = map (stamp dic) (rows_with q rows).
Proof.
  intros [ks [Hk [Hks Hrows]]] Hb. unfold held. destruct (accept_value (lx_trie L) q) as [v|] eqn:Ha.
  - assert (Hin : In (q, v) ks) by (apply (check_trie_sound _ _ _ Hk); split; assumption).
    destruct (Hks q v Hin) as [_ [He _]]. rewrite He. reflexivity.
  - destruct (rows_with q rows) as [|i t] eqn:Hr; [reflexivity|exfalso].
    assert (Hi : In i (rows_with q rows)) by (rewrite Hr; left; reflexivity).
    apply rows_with_in in Hi. destruct Hi as [rw [Hn [Hi Hf]]].
    destruct (Hrows rw (nth_error_In _ _ Hn) Hi) as [v Hin]. rewrite Hf in Hin.
    apply (check_trie_sound _ _ _ Hk) in Hin. destruct Hin as [_ Hin]. congruence.
Qed.

Lemma dic_mask_small : layout_ok = true -> forall d, d < 16 -> N.land d LF.DIC_MASK = d.
Proof.
  intros HL d Hd. destruct (layout_facts HL) as [_ [_ [E3 _]]]. rewrite E3. change 15 with (N.ones 4).
  rewrite N.land_ones. apply N.mod_small. change (2 ^ 4) with 16. exact Hd.
Qed.

Definition paired (fuel : nat) (dl : N * lexicon) (dr : N * list row) : Prop :=
  fst dl = fst dr /\ cert_prop (snd dl) (snd dr) fuel /\ N.land (fst dl) LF.DIC_MASK = fst dl.

Lemma concat_cert : lookup_loop_ok = true -> forall fuel q, bytes q -> forall l rl,
  Forall2 (paired fuel) l rl ->
  exists r, concat_opt (map (fun dl => lex_lookup (snd dl) (fst dl) q 0) l) = Some r /\
            keep_full (N.of_nat (length q)) r = flat_map (fun dr => map (stamp (fst dr)) (rows_with q (snd dr))) rl.
Proof.
  intros H fuel q Hb l rl HF. induction HF as [|[d L] [d' rows] t rt [Hd [Hc Hm]] _ IH].
  - exists []. split; reflexivity.
  - cbn [fst snd] in *. subst d'. destruct IH as [y [Hy Hky]].
    destruct (lex_lookup_exact_of_cert_prop L rows fuel Hc d q 0 Hm Hb) as [x [Hx _]].
    exists (x ++ y). cbn [map concat_opt fst snd]. rewrite Hx, Hy. split; [reflexivity|].
    rewrite keep_full_app, (lex_keep_held H _ _ _ _ Hx), Hky. cbn [flat_map fst snd].
    rewrite (held_rows L rows fuel d q Hc Hb). reflexivity.
Qed.

Lemma Forall2_rev {A B} (P : A -> B -> Prop) l l' : Forall2 P l l' -> Forall2 P (rev l) (rev l').
Proof.
  induction 1 as [|x y t t' Hxy _ IH]; [constructor|]. cbn [rev]. apply Forall2_app; [exact IH|]. constructor; [exact Hxy|constructor].
Qed.

Lemma number_paired fuel : layout_ok = true -> forall lexs rowss i,
  Forall2 (fun L rows => cert_prop L rows fuel) lexs rowss -> i + N.of_nat (length lexs) <= 16 ->
  Forall2 (paired fuel) (number i lexs) (number i rowss).
Proof.
  intros HL. induction lexs as [|L t IH]; intros rowss i HF Hn; inversion HF as [|L' rows t' rt Hc Ht]; subst; cbn [number].
  - constructor.
  - constructor.
    + unfold paired. cbn [fst snd]. split; [reflexivity|]. split; [exact Hc|]. apply (dic_mask_small HL). cbn [length] in Hn. lia.
    + apply IH; [exact Ht|]. cbn [length] in Hn. lia.
Qed.

(* (a), closed against the SOURCE: for a stack of certified dictionaries (any number the word-id layout admits) and every byte
   query, the call answers, and its answer is -- in order, nothing missing, nothing added -- the indexed rows whose surface is
   the query: dictionaries in search order, rows of one dictionary in file order *)
Lemma lookup_all_rows : lookup_loop_ok = true -> layout_ok = true -> forall fuel lexs rowss q,
  Forall2 (fun L rows => cert_prop L rows fuel) lexs rowss -> (length lexs <= 16)%nat -> bytes q ->
  lookup_all lexs q = Some (rows_answer rowss q).
Proof.
  intros H HL fuel lexs rowss q HF Hn Hb. unfold lookup_all, lookup_set, rows_answer. destruct (loop_facts H) as [_ ->].
  change (N.to_nat 0) with 0%nat.
  assert (HP : Forall2 (paired fuel) (lookup_order (number 0 lexs)) (lookup_order (number 0 rowss))).
  { unfold lookup_order. pose proof (number_paired fuel HL lexs rowss 0 HF ltac:(lia)) as HN.
    destruct LF.lookup_reversed; [apply Forall2_rev|]; exact HN. }
  destruct (concat_cert H fuel q Hb _ _ HP) as [r [Hr Hk]]. rewrite Hr, Hk. reflexivity.
Qed.

(* ---------- (b) nothing of a dictionary is lost, whatever the other dictionaries hold ---------- *)
Lemma rows_answer_in rowss q w :
  In w (rows_answer rowss q) <-> exists d rows r, nth_error rowss d = Some rows /\ In r (rows_with q rows) /\ w = stamp (N.of_nat d) r.
Proof.
  unfold rows_answer. rewrite in_flat_map. split.
  - intros [[d rows] [Hin Hw]]. cbn [fst snd] in Hw. apply (proj1 (lookup_order_in _ _)) in Hin.
    apply (proj1 (number_in _ _ _ _)) in Hin. destruct Hin as [n [-> Hn]]. apply in_map_iff in Hw. destruct Hw as [r [<- Hr]].
    exists n, rows, r. rewrite N.add_0_l. repeat split; assumption.
  - intros [d [rows [r [Hn [Hr ->]]]]]. exists (N.of_nat d, rows). split.
    + apply (proj2 (lookup_order_in _ _)). apply (proj2 (number_in _ _ _ _)). exists d. split; [lia|exact Hn].
    + cbn [fst snd]. apply in_map. exact Hr.
Qed.

Lemma lookup_all_keeps_every_dictionary : lookup_loop_ok = true -> layout_ok = true -> forall fuel lexs rowss q,
  Forall2 (fun L rows => cert_prop L rows fuel) lexs rowss -> (length lexs <= 16)%nat -> bytes q ->
  forall d rows r, nth_error rowss d = Some rows -> In r (rows_with q rows) ->
  exists ids, lookup_all lexs q = Some ids /\ In (stamp (N.of_nat d) r) ids.
Proof.
  intros H HL fuel lexs rowss q HF Hn Hb d rows r Hd Hr. exists (rows_answer rowss q).
  split; [exact (lookup_all_rows H HL fuel lexs rowss q HF Hn Hb)|].
  apply rows_answer_in. exists d, rows, r. repeat split; assumption.
Qed.

(* the shape of the stack [system; user 1; user 2]: the rows of user 2, then ALL rows of user 1, then ALL rows of the system
   dictionary -- also when user 2 holds the query and user 1 / the system dictionary hold proper prefixes of it, whose
   (shorter) entries come between the groups in the walk *)
Lemma rows_answer_three : LF.lookup_reversed = true -> forall r0 r1 r2 q,
  rows_answer [r0; r1; r2] q =
  map (stamp 2) (rows_with q r2) ++ map (stamp 1) (rows_with q r1) ++ map (stamp 0) (rows_with q r0).
Proof.
  intros Hrev r0 r1 r2 q. unfold rows_answer, lookup_order. rewrite Hrev. cbn [number rev app flat_map fst snd].
  rewrite app_nil_r. reflexivity.
Qed.
