(* One-directional comparison of a regenerated panic-site inventory with the classified one (C03).

   A classification is a statement about every panic-capable construct that EXISTS in the code: a construct that is not in
   the classified table must re-open the obligation, a classified construct that is no longer there must not (an
   `unwrap()` replaced by a `match`, a repeated `path[begin]` bound to a `let`: fewer sites, nothing new to justify).
   So the obligations are inclusions, generated within classified:
   - [covered]: per function, the multiset of construct keys (gen/sitekeys.py: idx:<container>[i|r].., unwrap,
     get_unchecked, cast:<type>, sub) is contained in the classified multiset of that function;
   - [counts_le]: per file and kind, the count is at most the classified count.
   The keys name the container and the kind of bracket, not the index expression: whether the index is in range is what
   the models (LatticeP, SitesConcat, SitesBuffer, ...) prove and the correspondence runs compare, the inventory only
   says which containers are indexed where. *)
From Coq Require Import List NArith String Bool.
Import ListNotations.
Local Open Scope string_scope.

Fixpoint assoc_k {A} (k : string) (l : list (string * A)) : option A :=
  match l with
  | [] => None
  | (k', v) :: t => if String.eqb k k' then Some v else assoc_k k t
  end.

(* remove one occurrence *)
Fixpoint take_one (k : string) (l : list string) : option (list string) :=
  match l with
  | [] => None
  | x :: t => if String.eqb k x then Some t
              else match take_one k t with Some t' => Some (x :: t') | None => None end
  end.

Fixpoint sub_multiset (xs ys : list string) : bool :=
  match xs with
  | [] => true
  | x :: t => match take_one x ys with Some ys' => sub_multiset t ys' | None => false end
  end.

Definition covered (gen cls : list (string * list string)) : bool :=
  forallb (fun r => match assoc_k (fst r) cls with
                    | Some ks => sub_multiset (snd r) ks
                    | None => match snd r with [] => true | _ => false end
                    end) gen.

Definition counts_le (gen cls : list (string * list (string * N))) : bool :=
  forallb (fun f =>
    forallb (fun kn => match assoc_k (fst f) cls with
                       | Some row => match assoc_k (fst kn) row with
                                     | Some m => N.leb (snd kn) m
                                     | None => N.eqb (snd kn) 0
                                     end
                       | None => N.eqb (snd kn) 0
                       end) (snd f)) gen.

(* what the booleans say *)
Lemma take_one_count : forall k l l', take_one k l = Some l' ->
  forall y, count_occ string_dec l y = (count_occ string_dec l' y + (if string_dec k y then 1 else 0))%nat.
Proof.
  induction l as [|x t IH]; intros l' H y; simpl in H; [discriminate H|].
  destruct (String.eqb k x) eqn:E.
  - apply String.eqb_eq in E. subst x. inversion H; subst l'. simpl.
    destruct (string_dec k y); [rewrite PeanoNat.Nat.add_1_r|rewrite PeanoNat.Nat.add_0_r]; reflexivity.
  - destruct (take_one k t) as [t'|] eqn:T; [|discriminate H]. inversion H; subst l'. simpl.
    rewrite (IH t' eq_refl y). destruct (string_dec x y); reflexivity.
Qed.

Lemma sub_multiset_sound : forall xs ys, sub_multiset xs ys = true ->
  forall y, (count_occ string_dec xs y <= count_occ string_dec ys y)%nat.
Proof.
  induction xs as [|x t IH]; intros ys H y; simpl; [apply PeanoNat.Nat.le_0_l|].
  simpl in H. destruct (take_one x ys) as [ys'|] eqn:T; [|discriminate H].
  rewrite (take_one_count _ _ _ T y). specialize (IH ys' H y).
  destruct (string_dec x y).
  - rewrite PeanoNat.Nat.add_1_r. apply le_n_S. exact IH.
  - rewrite PeanoNat.Nat.add_0_r. exact IH.
Qed.

(* every construct of a regenerated function is one of the classified constructs of that function, with multiplicity *)
Lemma covered_sound : forall gen cls, covered gen cls = true ->
  forall fn ks, In (fn, ks) gen -> ks <> [] ->
    exists cs, assoc_k fn cls = Some cs /\ forall y, (count_occ string_dec ks y <= count_occ string_dec cs y)%nat.
Proof.
  intros gen cls H fn ks Hin Hne. unfold covered in H. rewrite forallb_forall in H. specialize (H _ Hin). simpl in H.
  destruct (assoc_k fn cls) as [cs|].
  - exists cs. split; [reflexivity|]. apply sub_multiset_sound. exact H.
  - destruct ks; [contradiction Hne; reflexivity|discriminate H].
Qed.
